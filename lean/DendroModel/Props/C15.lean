import DendroModel.Model.C15
import DendroModel.Model.C15Ext
import DendroModel.Theory.C15Ext
import DendroModel.Theory.C15Age
import DendroModel.Theory.C15Build
import DendroModel.Theory.C15Ptr
import DendroModel.Theory.C15Level
import DendroModel.Theory.C15Apply
import DendroModel.Theory.C15Heap
import DendroModel.Theory.C15Nbr
import DendroModel.Theory.C15Calls
import DendroModel.Theory.C15Gen
import DendroModel.Gen.C15Filters
/-! C15 — property theorems: every traversal machine yields exactly its defining order, for every
tree, every start node (a start node is the root of the `T` the machine is run on) and every filter.
Only property theorems live in `namespace DendroModel.C15` of this file; helper lemmas are in
`DendroModel.C15.Aux`. -/
namespace DendroModel.C15.Aux
open DendroModel DendroModel.C15

theorem filter_true (l : List T) : l.filter (fun _ => true) = l := by
  induction l with
  | nil => rfl
  | cons x xs ih => simp [List.filter_cons, ih]

theorem sizeL_append (a b : List T) : T.sizeL (a ++ b) = T.sizeL a + T.sizeL b := by
  induction a with
  | nil => simp [T.sizeL]
  | cons x xs ih => simp [T.sizeL, ih]; omega

theorem size_pos (t : T) : 0 < t.size := by
  cases t; simp [T.size]

theorem size_eq (t : T) : t.size = 1 + T.sizeL t.cs := by
  cases t; simp [T.size, T.cs]

theorem nodes_eq (t : T) : t.nodes = t :: T.nodesL t.cs := by
  cases t; simp [T.nodes, T.cs]

theorem post_eq (t : T) : post t = postL t.cs ++ [t] := by
  cases t; simp [post, T.cs]

/-! pre-order -/
def preTodo : List T → List T
  | [] => []
  | t :: rest => T.nodes t ++ preTodo rest

theorem preTodo_append (a b : List T) : preTodo (a ++ b) = T.nodesL a ++ preTodo b := by
  induction a with
  | nil => simp [preTodo, T.nodesL]
  | cons x xs ih => simp [preTodo, T.nodesL, ih]

theorem preRun_eq (keep : T → Bool) : ∀ (f : Nat) (st : List T), T.sizeL st ≤ f →
    preRun keep f st = (preTodo st).filter keep := by
  intro f
  induction f with
  | zero =>
    intro st h
    match st with
    | [] => simp [preRun, preTodo]
    | t :: rest => have := size_pos t; simp [T.sizeL] at h; omega
  | succ f ih =>
    intro st h
    match st with
    | [] => simp [preRun, preTodo]
    | t :: rest =>
      have h1 : T.sizeL (t.cs ++ rest) ≤ f := by
        rw [sizeL_append]; simp [T.sizeL, size_eq t] at h; omega
      simp only [preRun, ih _ h1, preTodo_append, preTodo, nodes_eq t]
      by_cases hk : keep t <;> simp [hk, List.filter_cons]

/-! post-order -/
def postTodo : List (T × Bool) → List T
  | [] => []
  | (n, true) :: rest => n :: postTodo rest
  | (n, false) :: rest => post n ++ postTodo rest

def postWeight : List (T × Bool) → Nat
  | [] => 0
  | (_, true) :: rest => 1 + postWeight rest
  | (n, false) :: rest => 2 * n.size + postWeight rest

theorem postTodo_append_false (cs : List T) (rest : List (T × Bool)) :
    postTodo (cs.map (fun c => (c, false)) ++ rest) = postL cs ++ postTodo rest := by
  induction cs with
  | nil => simp [postL]
  | cons c cs ih => simp [postTodo, postL, ih]

theorem postWeight_append_false (cs : List T) (rest : List (T × Bool)) :
    postWeight (cs.map (fun c => (c, false)) ++ rest) = 2 * T.sizeL cs + postWeight rest := by
  induction cs with
  | nil => simp [T.sizeL]
  | cons c cs ih => simp [postWeight, T.sizeL, ih]; omega

theorem postRun_eq (keep : T → Bool) : ∀ (f : Nat) (st : List (T × Bool)), postWeight st ≤ f →
    postRun keep f st = (postTodo st).filter keep := by
  intro f
  induction f with
  | zero =>
    intro st h
    match st with
    | [] => simp [postRun, postTodo]
    | (n, true) :: rest => simp [postWeight] at h
    | (n, false) :: rest => have := size_pos n; simp [postWeight] at h; omega
  | succ f ih =>
    intro st h
    match st with
    | [] => simp [postRun, postTodo]
    | (n, true) :: rest =>
      simp [postWeight] at h
      simp only [postRun, postTodo, ih rest (by omega)]
      by_cases hk : keep n <;> simp [hk, List.filter_cons]
    | (n, false) :: rest =>
      simp [postWeight] at h
      have h1 : postWeight (n.cs.map (fun c => (c, false)) ++ ((n, true) :: rest)) ≤ f := by
        rw [postWeight_append_false]; simp [postWeight]; have := size_eq n; omega
      simp only [postRun, ih _ h1, postTodo_append_false, postTodo, post_eq n]
      simp

/-! leaves = post-order filtered by is_leaf -/
mutual
theorem post_filter_leaf (keep : T → Bool) : ∀ t : T,
    (post t).filter (fun x => x.isLeaf && keep x) = (T.leaves t).filter keep
  | .node i x l s [] => by simp [post, postL, T.leaves, List.filter_cons, T.isLeaf, T.cs]
  | .node i x l s (c :: cs) => by
    have := postL_filter_leaf keep (c :: cs)
    simp only [post, T.leaves, List.filter_append, this]
    simp [List.filter_cons, T.isLeaf, T.cs]
theorem postL_filter_leaf (keep : T → Bool) : ∀ cs : List T,
    (postL cs).filter (fun x => x.isLeaf && keep x) = (T.leavesL cs).filter keep
  | [] => by simp [postL, T.leavesL]
  | c :: cs => by simp [postL, T.leavesL, post_filter_leaf keep c, postL_filter_leaf keep cs]
end

/-! level-order -/
theorem heightL_le {c : T} {cs : List T} (h : c ∈ cs) : height c ≤ heightL cs := by
  induction cs with
  | nil => cases h
  | cons d ds ih =>
    simp only [heightL]
    rcases List.mem_cons.mp h with rfl | h'
    · exact Nat.le_max_left _ _
    · exact Nat.le_trans (ih h') (Nat.le_max_right _ _)

theorem height_eq (t : T) : height t = 1 + heightL t.cs := by
  cases t; simp [height, T.cs]

theorem heightL_flatMap (l : List T) : heightL (l.flatMap T.cs) + 1 ≤ heightL l + 1 ∧
    (l ≠ [] → heightL (l.flatMap T.cs) + 1 ≤ heightL l) := by
  induction l with
  | nil => simp [heightL]
  | cons t ts ih =>
    have hap : ∀ a b : List T, heightL (a ++ b) = Nat.max (heightL a) (heightL b) := by
      intro a b
      induction a with
      | nil => simp [heightL]
      | cons x xs ihx => simp [heightL, ihx, Nat.max_assoc]
    have ht := height_eq t
    constructor
    · simp only [List.flatMap_cons, hap, heightL]
      have := ih.1
      simp only [Nat.max_def]; split <;> split <;> omega
    · intro _
      simp only [List.flatMap_cons, hap, heightL]
      by_cases hts : ts = []
      · subst hts; simp [heightL, Nat.max_def]; omega
      · have := ih.2 hts
        simp only [Nat.max_def]; split <;> split <;> omega

/-- the queue machine, processing a whole level `xs` while the next level `ys` is being collected -/
theorem levelRun_level (keep : T → Bool) : ∀ (xs ys : List T) (f : Nat),
    levelRun keep (f + xs.length) (xs ++ ys) = xs.filter keep ++ levelRun keep f (ys ++ xs.flatMap T.cs) := by
  intro xs
  induction xs with
  | nil => intro ys f; simp
  | cons x xs ih =>
    intro ys f
    have : f + (x :: xs).length = (f + xs.length) + 1 := by simp; omega
    rw [this]
    simp only [List.cons_append, levelRun]
    rw [List.append_assoc, ih (ys ++ x.cs) f]
    by_cases hk : keep x <;> simp [hk, List.filter_cons, List.append_assoc]

theorem sizeL_flatMap (l : List T) : T.sizeL (l.flatMap T.cs) + l.length = T.sizeL l := by
  induction l with
  | nil => simp [T.sizeL]
  | cons t ts ih => simp [List.flatMap_cons, sizeL_append, T.sizeL, size_eq t]; omega

theorem levelRun_bfs (keep : T → Bool) : ∀ (n : Nat) (level : List T) (f : Nat),
    heightL level ≤ n → T.sizeL level ≤ f →
    levelRun keep f level = (bfs n level).filter keep := by
  intro n
  induction n with
  | zero =>
    intro level f hh _
    match level with
    | [] => cases f <;> simp [levelRun, bfs]
    | t :: ts => have := height_eq t; simp [heightL, Nat.max_def] at hh; split at hh <;> omega
  | succ n ih =>
    intro level f hh hs
    match hl : level with
    | [] => cases f <;> simp [levelRun, bfs]
    | t :: ts =>
      have hne : (t :: ts) ≠ [] := by simp
      have hsz := sizeL_flatMap (t :: ts)
      have hf : f = (f - (t :: ts).length) + (t :: ts).length := by omega
      have h1 := levelRun_level keep (t :: ts) [] (f - (t :: ts).length)
      rw [← hf] at h1
      simp only [List.append_nil, List.nil_append] at h1
      rw [h1, bfs]
      · rw [List.filter_append, ih]
        · have := (heightL_flatMap (t :: ts)).2 hne; omega
        · omega
      · simp

/-! apply -/
def applyOut : List (T × List Nat) → List Ev
  | [] => []
  | (t, cl) :: rest => br t ++ cl.map .after ++ applyOut rest

def applyWeight : List (T × List Nat) → Nat
  | [] => 0
  | (t, _) :: rest => t.size + applyWeight rest

theorem applyOut_append (a b : List (T × List Nat)) : applyOut (a ++ b) = applyOut a ++ applyOut b := by
  induction a with
  | nil => simp [applyOut]
  | cons x xs ih => obtain ⟨t, cl⟩ := x; simp [applyOut, ih]

theorem applyWeight_append (a b : List (T × List Nat)) : applyWeight (a ++ b) = applyWeight a + applyWeight b := by
  induction a with
  | nil => simp [applyWeight]
  | cons x xs ih => obtain ⟨t, cl⟩ := x; simp [applyWeight, ih]; omega

theorem applyOut_pushKids (i : Nat) (cl : List Nat) : ∀ (cs : List T), cs ≠ [] →
    applyOut (pushKids i cl cs) = brL cs ++ (.after i :: cl.map .after)
  | [], h => absurd rfl h
  | [c], _ => by simp [pushKids, applyOut, brL]
  | c :: d :: cs, _ => by
      have := applyOut_pushKids i cl (d :: cs) (by simp)
      simp [pushKids, applyOut, brL, this]

theorem applyWeight_pushKids (i : Nat) (cl : List Nat) : ∀ (cs : List T), applyWeight (pushKids i cl cs) = T.sizeL cs
  | [] => by simp [pushKids, applyWeight, T.sizeL]
  | [c] => by simp [pushKids, applyWeight, T.sizeL]
  | c :: d :: cs => by
      have := applyWeight_pushKids i cl (d :: cs)
      simp [pushKids, applyWeight, T.sizeL, this] at *

theorem applyRun_eq : ∀ (f : Nat) (st : List (T × List Nat)), applyWeight st ≤ f → applyRun f st = applyOut st := by
  intro f
  induction f with
  | zero =>
    intro st h
    match st with
    | [] => simp [applyRun, applyOut]
    | (t, cl) :: rest => have := size_pos t; simp [applyWeight] at h; omega
  | succ f ih =>
    intro st h
    match st with
    | [] => simp [applyRun, applyOut]
    | (.node i x l s [], cl) :: rest =>
      simp [applyWeight, T.size, T.sizeL] at h
      simp [applyRun, applyOut, br, ih rest (by omega)]
    | (.node i x l s (c :: cs), cl) :: rest =>
      simp only [applyWeight, T.size] at h
      have hw : applyWeight (pushKids i cl (c :: cs) ++ rest) ≤ f := by
        rw [applyWeight_append, applyWeight_pushKids]; omega
      simp only [applyRun]
      rw [ih _ hw, applyOut_append, applyOut_pushKids i cl (c :: cs) (by simp)]
      simp [applyOut, br]

/-! edges -/
theorem preEdgeRun_map (keep : E → Bool) : ∀ (f : Nat) (st : List T),
    preEdgeRun keep f (st.map E.mk) = (preRun (fun t => keep ⟨t⟩) f st).map E.mk := by
  intro f
  induction f with
  | zero => intro st; simp [preEdgeRun, preRun]
  | succ f ih =>
    intro st
    match st with
    | [] => simp [preEdgeRun, preRun]
    | t :: rest =>
      simp only [List.map_cons, preEdgeRun, preRun]
      rw [← List.map_append, ih]
      by_cases hk : keep ⟨t⟩ <;> simp [hk]

theorem postEdgeRun_map (keep : E → Bool) : ∀ (f : Nat) (st : List (T × Bool)),
    postEdgeRun keep f (st.map (fun p => (E.mk p.1, p.2))) = (postRun (fun t => keep ⟨t⟩) f st).map E.mk := by
  intro f
  induction f with
  | zero => intro st; simp [postEdgeRun, postRun]
  | succ f ih =>
    intro st
    match st with
    | [] => simp [postEdgeRun, postRun]
    | (n, true) :: rest =>
      simp only [List.map_cons, postEdgeRun, postRun, ih]
      by_cases hk : keep ⟨n⟩ <;> simp [hk]
    | (n, false) :: rest =>
      simp only [List.map_cons, postEdgeRun, postRun]
      have : (List.map (fun c => ({ head := c }, false)) n.cs ++ (({ head := n } : E), true) :: List.map (fun p => (({ head := p.fst } : E), p.snd)) rest)
          = List.map (fun p => (({ head := p.fst } : E), p.snd)) (n.cs.map (fun c => (c, false)) ++ ((n, true) :: rest)) := by
        simp
      rw [this, ih]

/-! permutations: every order visits each node exactly once -/
mutual
theorem post_perm : ∀ t : T, (post t).Perm (T.nodes t)
  | .node i x l s cs => by
    have := postL_perm cs
    simp only [post, T.nodes]
    exact (List.perm_append_comm).trans (List.Perm.cons _ this)
theorem postL_perm : ∀ cs : List T, (postL cs).Perm (T.nodesL cs)
  | [] => by simp [postL, T.nodesL]
  | c :: cs => by
    simp only [postL, T.nodesL]
    exact List.Perm.append (post_perm c) (postL_perm cs)
end

theorem nodesL_perm_bfs : ∀ (n : Nat) (level : List T), heightL level ≤ n →
    (bfs n level).Perm (T.nodesL level) := by
  intro n
  induction n with
  | zero =>
    intro level hh
    match level with
    | [] => simp [bfs, T.nodesL]
    | t :: ts => have := height_eq t; simp [heightL, Nat.max_def] at hh; split at hh <;> omega
  | succ n ih =>
    intro level hh
    match level with
    | [] => simp [bfs, T.nodesL]
    | t :: ts =>
      rw [bfs]
      · have hne : (t :: ts) ≠ [] := by simp
        have h2 := ih ((t :: ts).flatMap T.cs) (by have := (heightL_flatMap (t :: ts)).2 hne; omega)
        -- nodesL level ~ level ++ nodesL (level.flatMap cs)
        have key : ∀ l : List T, (T.nodesL l).Perm (l ++ T.nodesL (l.flatMap T.cs)) := by
          intro l
          induction l with
          | nil => simp [T.nodesL]
          | cons a as iha =>
            have happ : ∀ p q : List T, T.nodesL (p ++ q) = T.nodesL p ++ T.nodesL q := by
              intro p q
              induction p with
              | nil => simp [T.nodesL]
              | cons y ys ihy => simp [T.nodesL, ihy]
            simp only [T.nodesL, nodes_eq a, List.flatMap_cons, happ, List.cons_append]
            refine List.Perm.cons _ ?_
            -- nodesL a.cs ++ nodesL as ~ as ++ (nodesL a.cs ++ nodesL (as.flatMap cs))
            have := List.Perm.append_left (T.nodesL a.cs) iha
            refine this.trans ?_
            rw [← List.append_assoc, ← List.append_assoc]
            exact List.Perm.append_right _ List.perm_append_comm
        exact (List.Perm.append_left _ h2).trans (key (t :: ts)).symm
      · simp

/-! stable sort -/
theorem insertBy_perm (lt : T → T → Bool) (x : T) : ∀ l : List T, (insertBy lt x l).Perm (x :: l)
  | [] => by simp [insertBy]
  | y :: ys => by
    simp only [insertBy]
    split
    · exact ((insertBy_perm lt x ys).cons y).trans (List.Perm.swap x y ys)
    · exact List.Perm.refl _

theorem stableSort_perm (lt : T → T → Bool) : ∀ l : List T, (stableSort lt l).Perm l
  | [] => by simp [stableSort]
  | x :: xs => by
    have ih := stableSort_perm lt xs
    simp only [stableSort, List.foldr_cons] at *
    exact (insertBy_perm lt x _).trans (ih.cons x)

/-! stable sort: sortedness and stability, for an order test that compares a key -/
theorem insertBy_sorted (k : T → Int) (lt : T → T → Bool) (hlt : ∀ a b, lt a b = decide (k a < k b)) (x : T) :
    ∀ l : List T, l.Pairwise (fun a b => k a ≤ k b) → (insertBy lt x l).Pairwise (fun a b => k a ≤ k b)
  | [], _ => by simp [insertBy]
  | y :: ys, h => by
    have hy := List.pairwise_cons.mp h
    simp only [insertBy]
    split
    · rename_i hc
      rw [hlt] at hc
      have hyx : k y < k x := by simpa using hc
      refine List.pairwise_cons.mpr ⟨?_, insertBy_sorted k lt hlt x ys hy.2⟩
      intro z hz
      have hz' := (List.Perm.mem_iff (insertBy_perm lt x ys)).mp hz
      rcases List.mem_cons.mp hz' with rfl | hz''
      · omega
      · exact hy.1 z hz''
    · rename_i hc
      rw [hlt] at hc
      have hxy : k x ≤ k y := by
        have : ¬ k y < k x := by simpa using hc
        omega
      refine List.pairwise_cons.mpr ⟨?_, h⟩
      intro z hz
      rcases List.mem_cons.mp hz with rfl | hz'
      · exact hxy
      · have := hy.1 z hz'; omega

theorem stableSort_sorted (k : T → Int) (lt : T → T → Bool) (hlt : ∀ a b, lt a b = decide (k a < k b)) :
    ∀ l : List T, (stableSort lt l).Pairwise (fun a b => k a ≤ k b)
  | [] => by simp [stableSort]
  | x :: xs => by
    have ih := stableSort_sorted k lt hlt xs
    simp only [stableSort, List.foldr_cons] at ih ⊢
    exact insertBy_sorted k lt hlt x _ ih

theorem insertBy_filter (k : T → Int) (lt : T → T → Bool) (hlt : ∀ a b, lt a b = decide (k a < k b)) (v : Int) (x : T) :
    ∀ l : List T, (insertBy lt x l).filter (fun a => k a == v) = (x :: l).filter (fun a => k a == v)
  | [] => by simp [insertBy]
  | y :: ys => by
    simp only [insertBy]
    split
    · rename_i hc
      rw [hlt] at hc
      have hyx : k y < k x := by simpa using hc
      have ih := insertBy_filter k lt hlt v x ys
      simp only [List.filter_cons] at ih ⊢
      rw [ih]
      by_cases h1 : k y = v <;> by_cases h2 : k x = v
      · omega
      · simp [h1, h2]
      · simp [h1, h2]
      · simp [h1, h2]
    · rfl

theorem stableSort_filter (k : T → Int) (lt : T → T → Bool) (hlt : ∀ a b, lt a b = decide (k a < k b)) (v : Int) :
    ∀ l : List T, (stableSort lt l).filter (fun a => k a == v) = l.filter (fun a => k a == v)
  | [] => by simp [stableSort]
  | x :: xs => by
    have ih := stableSort_filter k lt hlt v xs
    simp only [stableSort, List.foldr_cons] at ih ⊢
    rw [insertBy_filter k lt hlt v x, List.filter_cons, List.filter_cons, ih]

/-! in-order -/
theorem inord_perm : ∀ (t : T) (l : List T), inord t = some l → l.Perm (T.nodes t)
  | .node i x l' s [], l, h => by simp [inord] at h; subst h; simp [T.nodes, T.nodesL]
  | .node i x l' s [a, b], l, h => by
    simp only [inord] at h
    cases ha : inord a with
    | none => rw [ha] at h; simp at h
    | some la =>
      cases hb : inord b with
      | none => rw [ha, hb] at h; simp at h
      | some lb =>
        rw [ha, hb] at h
        simp only [Option.some.injEq] at h
        subst h
        have pa := inord_perm a la ha
        have pb := inord_perm b lb hb
        simp only [T.nodes, T.nodesL, List.append_nil]
        have : (la ++ [T.node i x l' s [a, b]] ++ lb).Perm (T.node i x l' s [a, b] :: (la ++ lb)) := by
          rw [List.append_assoc]
          exact List.perm_middle
        exact this.trans (List.Perm.cons _ (List.Perm.append pa pb))
  | .node i x l' s [a], l, h => by simp [inord] at h
  | .node i x l' s (a :: b :: c :: r), l, h => by simp [inord] at h

end DendroModel.C15.Aux

namespace DendroModel.C15
open DendroModel DendroModel.C15.Aux

/-- pre-order generator = parents before children, siblings left to right, filtered -/
theorem preorder_spec (keep : T → Bool) (t : T) : preIter keep t = (pre t).filter keep := by
  unfold preIter pre
  rw [preRun_eq keep t.size [t] (by simp [T.sizeL])]
  simp [preTodo]

/-- post-order generator = children before parents, filtered -/
theorem postorder_spec (keep : T → Bool) (t : T) : postIter keep t = (post t).filter keep := by
  unfold postIter
  rw [postRun_eq keep _ _ (by simp [postWeight])]
  simp [postTodo]

/-- level-order generator = one level after the other, each left to right, filtered -/
theorem levelorder_spec (keep : T → Bool) (t : T) : levelIter keep t = (bfs (height t) [t]).filter keep := by
  unfold levelIter
  have hh := height_eq t
  rw [hh, Nat.add_comm, bfs]
  · rw [List.filter_append, levelRun_bfs keep (heightL t.cs) t.cs t.size (Nat.le_refl _) (by have := size_eq t; omega)]
    by_cases hk : keep t <;> simp [hk, List.filter_cons]
  · simp

/-- leaf generator = leaves left to right, filtered -/
theorem leaf_spec (keep : T → Bool) (t : T) : leafIter keep t = (T.leaves t).filter keep := by
  unfold leafIter
  rw [postorder_spec, post_filter_leaf]

/-- filtered variants yield exactly the subsequence that passes the filter -/
theorem filtered_spec (keep : T → Bool) (t : T) :
    preIter keep t = (preIter (fun _ => true) t).filter keep
    ∧ postIter keep t = (postIter (fun _ => true) t).filter keep
    ∧ levelIter keep t = (levelIter (fun _ => true) t).filter keep
    ∧ leafIter keep t = (leafIter (fun _ => true) t).filter keep := by
  simp [preorder_spec, postorder_spec, levelorder_spec, leaf_spec]

/-- internal-node variants yield exactly the non-leaves that pass the filter, the start node dropped iff it is
    a seed (has no parent) and exclusion was requested.
    NOTE: the right-hand side repeats the body of `internalKeep`, so this adds nothing beyond `preorder_spec`/`postorder_spec`;
    it is kept only because obligations are never deleted.  The real statement is `internal_nodes_spec` /
    `internal_nodes_driver_spec`. -/
theorem internal_spec (excl : Bool) (hasParent : Bool) (keep : T → Bool) (t : T) :
    preIter (internalKeep excl t.id hasParent keep) t
      = (pre t).filter (fun x => (!excl || x.id != t.id || hasParent) && !x.cs.isEmpty && keep x)
    ∧ postIter (internalKeep excl t.id hasParent keep) t
      = (post t).filter (fun x => (!excl || x.id != t.id || hasParent) && !x.cs.isEmpty && keep x) := by
  constructor
  · rw [preorder_spec]; rfl
  · rw [postorder_spec]; rfl

/-- the independent edge generators of `Tree` yield exactly the edges of the nodes their node counterparts yield -/
theorem edge_iter_spec (keep : E → Bool) (t : T) :
    preEdgeIter keep t = (preIter (fun n => keep ⟨n⟩) t).map E.mk
    ∧ postEdgeIter keep t = (postIter (fun n => keep ⟨n⟩) t).map E.mk := by
  constructor
  · unfold preEdgeIter preIter
    have := preEdgeRun_map keep t.size [t]
    simpa using this
  · unfold postEdgeIter postIter
    have := postEdgeRun_map keep (2 * t.size) [(t, false)]
    simpa using this

/-- every order is a permutation of the nodes of the subtree: each node exactly once -/
theorem each_node_once (t : T) :
    (preIter (fun _ => true) t).Perm (T.nodes t)
    ∧ (postIter (fun _ => true) t).Perm (T.nodes t)
    ∧ (levelIter (fun _ => true) t).Perm (T.nodes t) := by
  refine ⟨?_, ?_, ?_⟩
  · rw [preorder_spec, filter_true]; simp [pre]
  · rw [postorder_spec, filter_true]; exact post_perm t
  · rw [levelorder_spec, filter_true]
    have := nodesL_perm_bfs (height t) [t] (by simp [heightL])
    simpa [T.nodesL] using this

/-- `len(tree)` is the number of leaves -/
theorem len_spec (t : T) : lenTree t = (T.leaves t).length := by
  unfold lenTree; rw [leaf_spec]; simp

/-- the callback walk emits exactly the bracket sequence of the start subtree, for every start node -/
theorem apply_spec (t : T) : applyTrace t = br t := by
  unfold applyTrace
  rw [applyRun_eq _ _ (by simp [applyWeight])]
  simp [applyOut]

/-- age order: a permutation of the pre-order list (then filtered) -/
theorem ageorder_perm (age : T → Frac) (desc : Bool) (t : T) :
    (ageIter age desc true (fun _ => true) t).Perm (T.nodes t) := by
  unfold ageIter
  simp only [Bool.true_or, Bool.and_self, filter_true]
  refine (stableSort_perm _ _).trans ?_
  rw [preorder_spec, filter_true]; simp [pre]

/-- a fact about `stableSort` for an order test that compares an INTEGER key.  NOTE: it is not about `ageIter` (whose
    comparator is `Frac.lt` on rationals) and is never instantiated; kept only because obligations are never deleted.
    The statement about the generator the driver runs is `ageorder_spec` / `ageorder_driver_spec`. -/
theorem ageorder_sorted_stable (k : T → Int) (lt : T → T → Bool) (hlt : ∀ a b, lt a b = decide (k a < k b)) (l : List T) :
    (stableSort lt l).Pairwise (fun a b => k a ≤ k b)
    ∧ ∀ v, (stableSort lt l).filter (fun a => k a == v) = l.filter (fun a => k a == v) :=
  ⟨stableSort_sorted k lt hlt l, fun v => stableSort_filter k lt hlt v l⟩

/-- in-order on a binary tree visits every node exactly once (left subtree, node, right subtree by definition).
    NOTE: this is about `inIter`, which is defined as the specification; the driver runs the recursion `inRun` —
    see `inorder_spec` and `inorder_run_each_node_once` for the statement on that function. -/
theorem inorder_each_node_once (keep : T → Bool) (t : T) (l : List T) (h : inIter (fun _ => true) t = some l) :
    l.Perm (T.nodes t) ∧ inIter keep t = some (l.filter keep) := by
  unfold inIter at h ⊢
  cases hi : inord t with
  | none => rw [hi] at h; simp at h
  | some l0 =>
    rw [hi] at h
    simp only [Option.map_some, Option.some.injEq] at h
    rw [Aux.filter_true] at h
    subst h
    exact ⟨inord_perm t l0 hi, by simp⟩

/-- non-vacuity: a concrete tree with a unary node and a polytomy, traversed from a non-root start -/
example : (preIter (fun _ => true)
    (.node 1 none none none [.node 2 (some 0) none none [], .node 3 none none none [.node 4 (some 1) none none []]])).map T.id
    = [1, 2, 3, 4] := by decide

end DendroModel.C15

/-! ## additions after the audit (notes/audit-h.md, section C15)

Everything below is stated about the definitions the driver runs (`ageIter` with the real comparator `Frac.lt` and the
driver's age lookup `ageOf`, `inRun`, the wrapped edge iterators, `ancIter`, the list-returning `Tree` methods), and the
specs proved above are composed into the clauses of the statement. -/
namespace DendroModel.C15.Aux
open DendroModel DendroModel.C15

theorem mem_nodesL_of_mem_postL {x : T} {cs : List T} (h : x ∈ postL cs) : x ∈ T.nodesL cs :=
  (List.Perm.mem_iff (postL_perm cs)).mp h

/-- the composed internal-node filter on a node whose id differs from the start's: non-leaf and passing -/
theorem internalKeep_other (excl hasParent : Bool) (keep : T → Bool) (sid : Nat) (x : T) (h : x.id ≠ sid) :
    internalKeep excl sid hasParent keep x = (!x.isLeaf && keep x) := by
  have : (x.id != sid) = true := by simpa using h
  simp [internalKeep, this, T.isLeaf]

/-- the composed internal-node filter on the start node itself -/
theorem internalKeep_self (excl hasParent : Bool) (keep : T → Bool) (t : T) :
    internalKeep excl t.id hasParent keep t = ((!excl || hasParent) && (!t.isLeaf && keep t)) := by
  simp [internalKeep, T.isLeaf, Bool.and_assoc]

theorem start_part (excl hasParent : Bool) (keep : T → Bool) (t : T) :
    (if internalKeep excl t.id hasParent keep t = true then [t] else [])
      = (if (excl && !hasParent) = true then [] else [t].filter (fun x => !x.isLeaf && keep x)) := by
  rw [internalKeep_self]
  cases excl <;> cases hasParent <;> simp [List.filter_cons]

end DendroModel.C15.Aux

namespace DendroModel.C15
open DendroModel DendroModel.C15.Aux DendroModel.C15.ExtAux DendroModel.C15.AgeAux

/-- age order, for the comparator the generator really uses (`Frac.lt` on the ages, reversed when descending), any
well-formed age assignment, both directions, with and without leaves, any filter: the output is monotone in age,
holds every node of the subtree that passes (`include_leaves` or internal) and the filter exactly once, and nodes of
equal age keep their pre-order positions (stability; the statement only asks for monotone age, the code gives more) -/
theorem ageorder_spec (age : T → Frac) (hwf : ∀ x, Frac.WF (age x)) (desc incl : Bool) (keep : T → Bool) (t : T) :
    (ageIter age desc incl keep t).Pairwise (fun a b =>
        if desc then Frac.toRat (age b) ≤ Frac.toRat (age a) else Frac.toRat (age a) ≤ Frac.toRat (age b))
    ∧ (ageIter age desc incl keep t).Perm ((pre t).filter (fun n => (incl || !n.cs.isEmpty) && keep n))
    ∧ ∀ v : Rat, (ageIter age desc incl keep t).filter (fun a => decide (Frac.toRat (age a) = v))
        = ((pre t).filter (fun n => (incl || !n.cs.isEmpty) && keep n)).filter (fun a => decide (Frac.toRat (age a) = v)) := by
  unfold ageIter
  simp only [preorder_spec, filter_true]
  cases desc with
  | false =>
    have hlt : ∀ a b : T, (fun a b => if false = true then Frac.lt (age b) (age a) else Frac.lt (age a) (age b)) a b = true
        ↔ Frac.toRat (age a) < Frac.toRat (age b) := by
      intro a b; simpa using Frac.lt_iff (age a) (age b) (hwf a) (hwf b)
    obtain ⟨h1, h2, h3⟩ := sort_filter_spec (fun a => Frac.toRat (age a)) _ hlt
      (fun n => (incl || !n.cs.isEmpty) && keep n) (pre t)
    exact ⟨by simpa using h1, h2, h3⟩
  | true =>
    have hlt : ∀ a b : T, (fun a b => if true = true then Frac.lt (age b) (age a) else Frac.lt (age a) (age b)) a b = true
        ↔ -Frac.toRat (age a) < -Frac.toRat (age b) := by
      intro a b
      rw [neg_lt_neg_iff]
      simpa using Frac.lt_iff (age b) (age a) (hwf b) (hwf a)
    obtain ⟨h1, h2, h3⟩ := sort_filter_spec (fun a => -Frac.toRat (age a)) _ hlt
      (fun n => (incl || !n.cs.isEmpty) && keep n) (pre t)
    refine ⟨?_, h2, fun v => ?_⟩
    · refine List.Pairwise.imp ?_ h1
      intro a b hab
      simpa using hab
    · have h := h3 (-v)
      simpa [neg_inj] using h

/-- the same for exactly the ages the driver runs with: any list of fractions accepted by the protocol parser,
looked up by node id (`ageOf`) -/
theorem ageorder_driver_spec (ss : List String) (as : List Frac) (hp : ss.mapM Frac.parse = some as)
    (desc incl : Bool) (keep : T → Bool) (t : T) :
    (ageIter (ageOf as) desc incl keep t).Pairwise (fun a b =>
        if desc then Frac.toRat (ageOf as b) ≤ Frac.toRat (ageOf as a) else Frac.toRat (ageOf as a) ≤ Frac.toRat (ageOf as b))
    ∧ (ageIter (ageOf as) desc incl keep t).Perm ((pre t).filter (fun n => (incl || !n.cs.isEmpty) && keep n))
    ∧ ∀ v : Rat, (ageIter (ageOf as) desc incl keep t).filter (fun a => decide (Frac.toRat (ageOf as a) = v))
        = ((pre t).filter (fun n => (incl || !n.cs.isEmpty) && keep n)).filter (fun a => decide (Frac.toRat (ageOf as a) = v)) :=
  ageorder_spec (ageOf as) (ageOf_wf as (parsed_wf ss as hp)) desc incl keep t

/-- non-vacuity of `ageorder_spec`/`ageorder_driver_spec`: a list the parser accepts, hence well-formed ages -/
example : ∀ x : T, Frac.WF (ageOf [⟨1, 2⟩, ⟨0, 1⟩, ⟨3, 4⟩] x) :=
  ageOf_wf _ (by intro a ha; simp at ha; rcases ha with rfl | rfl | rfl <;> simp [Frac.WF])

/-- in-order as the code recurses (filter applied at each yield; `TypeError` = `none` on a node with one or more
than two children) yields left subtree, node, right subtree, filtered -/
theorem inorder_spec (keep : T → Bool) (t : T) : inRun keep t = (inord t).map (List.filter keep) :=
  inRun_eq keep t

example : (inRun (fun x => x.id != 2) (.node 0 none none none [.node 1 none none none [], .node 2 none none none []])).map
    (List.map T.id) = some [1, 0] := by decide

/-- the independent edge machines, at full strength: exactly the edges of the nodes of the defining order whose edge
passes the filter, in that order (`edge_iter_spec` composed with `preorder_spec`/`postorder_spec`) -/
theorem edge_order_spec (keep : E → Bool) (t : T) :
    preEdgeIter keep t = ((pre t).filter (fun n => keep ⟨n⟩)).map E.mk
    ∧ postEdgeIter keep t = ((post t).filter (fun n => keep ⟨n⟩)).map E.mk := by
  rw [(edge_iter_spec keep t).1, (edge_iter_spec keep t).2, preorder_spec, postorder_spec]
  exact ⟨rfl, rfl⟩

example : ((preEdgeIter (fun e => e.head.id != 1)
    (.node 0 none none none [.node 1 none none none [], .node 2 none none none []])).map (fun e => e.head.id)) = [0, 2] := by
  decide

/-- the edge iterators that wrap a node iterator (level-order, leaves, in-order): exactly the edges of the nodes of
the defining order whose edge passes the filter, in that order -/
theorem wrapped_edge_iter_spec (keep : E → Bool) (t : T) :
    levelEdgeIter keep t = ((bfs (height t) [t]).filter (fun n => keep ⟨n⟩)).map E.mk
    ∧ leafEdgeIter keep t = ((T.leaves t).filter (fun n => keep ⟨n⟩)).map E.mk
    ∧ inEdgeIter keep t = (inord t).map (fun l => (l.filter (fun n => keep ⟨n⟩)).map E.mk) := by
  refine ⟨?_, ?_, ?_⟩
  · unfold levelEdgeIter; rw [levelorder_spec]
  · unfold leafEdgeIter; rw [leaf_spec]
  · unfold inEdgeIter; rw [inorder_spec]; cases inord t <;> simp

example : ((levelEdgeIter (fun _ => true)
    (.node 0 none none none [.node 1 none none none [.node 2 none none none []], .node 3 none none none []])).map
      (fun e => e.head.id)) = [0, 1, 3, 2] := by decide

/-- internal-node variants, with the start node singled out (ids below the start differ from the start's, as in every
tree the protocol builds): exactly the non-leaves that pass the filter, in pre-order resp. post-order, the start node
dropped iff exclusion is requested and it has no parent — a start node with a parent is never dropped -/
theorem internal_nodes_spec (excl hasParent : Bool) (keep : T → Bool) (t : T)
    (hid : ∀ x ∈ T.nodesL t.cs, x.id ≠ t.id) :
    preIter (internalKeep excl t.id hasParent keep) t
      = (if (excl && !hasParent) = true then [] else [t].filter (fun x => !x.isLeaf && keep x))
        ++ (T.nodesL t.cs).filter (fun x => !x.isLeaf && keep x)
    ∧ postIter (internalKeep excl t.id hasParent keep) t
      = (postL t.cs).filter (fun x => !x.isLeaf && keep x)
        ++ (if (excl && !hasParent) = true then [] else [t].filter (fun x => !x.isLeaf && keep x)) := by
  constructor
  · rw [preorder_spec, pre, nodes_eq t, List.filter_cons, ← start_part]
    have : (T.nodesL t.cs).filter (internalKeep excl t.id hasParent keep)
        = (T.nodesL t.cs).filter (fun x => !x.isLeaf && keep x) :=
      List.filter_congr (fun x hx => internalKeep_other excl hasParent keep t.id x (hid x hx))
    rw [this]
    split <;> simp
  · rw [postorder_spec, post_eq t, List.filter_append, ← start_part]
    have : (postL t.cs).filter (internalKeep excl t.id hasParent keep)
        = (postL t.cs).filter (fun x => !x.isLeaf && keep x) :=
      List.filter_congr (fun x hx => internalKeep_other excl hasParent keep t.id x (hid x (mem_nodesL_of_mem_postL hx)))
    rw [this]
    simp [List.filter_cons]

/-- non-vacuity of `internal_nodes_spec`: distinct ids -/
example : ∀ x ∈ T.nodesL (T.node 0 none none none [.node 1 none none none [.node 2 none none none []], .node 3 none none none []]).cs,
    x.id ≠ (T.node 0 none none none [.node 1 none none none [.node 2 none none none []], .node 3 none none none []]).id := by
  decide

/-- the internal edge variants of `Tree` are the edges of the internal node variants (same composed filter) -/
theorem internal_edge_spec (excl hasParent : Bool) (keep : T → Bool) (t : T) :
    preEdgeIter (fun e => internalKeep excl t.id hasParent keep e.head) t
      = (preIter (internalKeep excl t.id hasParent keep) t).map E.mk
    ∧ postEdgeIter (fun e => internalKeep excl t.id hasParent keep e.head) t
      = (postIter (internalKeep excl t.id hasParent keep) t).map E.mk :=
  edge_iter_spec (fun e => internalKeep excl t.id hasParent keep e.head) t

example : ((preEdgeIter (fun e => internalKeep true 0 false (fun _ => true) e.head)
    (.node 0 none none none [.node 1 none none none [.node 2 none none none []], .node 3 none none none []])).map
      (fun e => e.head.id)) = [1] := by decide

/-- `ancestor_iter` from the node `self` with id `start`: `self` first when `inclusive` and it passes, then the
passing members of a chain `up` such that `self :: up` is a parent chain (each entry a child of the next) ending in
the root of the tree — i.e. every proper ancestor once, nearest first, filtered.
NOTE: `UpChain` is structural (`a ∈ b.cs`), so on a tree with repeated equal subtrees `up` is not pinned uniquely by
this statement alone; on protocol trees (distinct ids, `protocol_ids_distinct`) `ancestor_pointer_refinement` determines
the ids of the chain completely (= the pointer climb). -/
theorem ancestor_spec (keep : T → Bool) (incl : Bool) (tree : T) (start : Nat) (self : T)
    (h : tree.find? start = some self) :
    ∃ up : List T, ancIter keep incl tree start
        = some ((if incl && keep self then [self] else []) ++ up.filter keep)
      ∧ UpChain (self :: up) ∧ (self :: up).getLast? = some tree := by
  unfold ancIter
  cases hp : ancPath start tree with
  | none => rw [ancPath_none start tree hp] at h; cases h
  | some p =>
    obtain ⟨hne, hhead, hlast, hch⟩ := ancPath_some start tree p hp
    cases p with
    | nil => exact absurd rfl hne
    | cons a up =>
      simp only [List.head?_cons, h, Option.some.injEq] at hhead
      subst hhead
      exact ⟨up, rfl, hch, hlast⟩

/-- and a start id that is not in the tree yields no answer (the driver says `bad-start`) -/
theorem ancestor_none (keep : T → Bool) (incl : Bool) (tree : T) (start : Nat) (h : tree.find? start = none) :
    ancIter keep incl tree start = none := by
  unfold ancIter
  cases hp : ancPath start tree with
  | none => rfl
  | some p =>
    obtain ⟨hne, hhead, _, _⟩ := ancPath_some start tree p hp
    cases p with
    | nil => exact absurd rfl hne
    | cons a up => rw [h] at hhead; simp at hhead

/-- non-vacuity of `ancestor_spec` / `ancestor_none`: a start id that is found, one that is not -/
example : (T.find? 2 (.node 0 none none none [.node 1 none none none [.node 2 none none none []], .node 3 none none none []])).isSome
    = true := by decide
example : (T.find? 9 (.node 0 none none none [.node 1 none none none [.node 2 none none none []], .node 3 none none none []])).isNone
    = true := by decide

example : (ancIter (fun _ => true) false
    (.node 0 none none none [.node 1 none none none [.node 2 none none none []], .node 3 none none none []]) 2).map
      (List.map T.id) = some [1, 0] := by decide

/-- the list-returning methods of `Tree`: `nodes(filter)` pre-order filtered, `leaf_nodes()` the leaves left to
right, `edges(filter)`/`leaf_edges()` their edges -/
theorem tree_lists_spec (keep : T → Bool) (ekeep : E → Bool) (t : T) :
    treeNodes keep t = (pre t).filter keep
    ∧ treeLeafNodes t = T.leaves t
    ∧ treeEdges ekeep t = ((pre t).filter (fun n => ekeep ⟨n⟩)).map E.mk
    ∧ treeLeafEdges t = (T.leaves t).map E.mk := by
  refine ⟨preorder_spec keep t, ?_, (edge_order_spec ekeep t).1, ?_⟩
  · unfold treeLeafNodes; rw [leaf_spec, filter_true]
  · unfold treeLeafEdges; rw [leaf_spec, filter_true]

example : (treeLeafEdges
    (.node 0 none none none [.node 1 none none none [.node 2 none none none []], .node 3 none none none []])).map
      (fun e => e.head.id) = [2, 3] := by decide

/-- `internal_nodes(exclude_seed_node)`/`internal_edges(exclude_seed_edge)` of a tree (the seed has no parent):
the non-leaves in pre-order, without the seed iff exclusion is requested -/
theorem tree_internal_lists_spec (excl : Bool) (t : T) (hid : ∀ x ∈ T.nodesL t.cs, x.id ≠ t.id) :
    treeInternalNodes excl t
      = (if excl = true then [] else [t].filter (fun x => !x.isLeaf)) ++ (T.nodesL t.cs).filter (fun x => !x.isLeaf)
    ∧ treeInternalEdges excl t = (treeInternalNodes excl t).map E.mk := by
  refine ⟨?_, rfl⟩
  unfold treeInternalNodes
  rw [(internal_nodes_spec excl false (fun _ => true) t hid).1]
  simp

example : (treeInternalNodes true
    (.node 0 none none none [.node 1 none none none [.node 2 none none none []], .node 3 none none none []])).map T.id = [1] := by
  decide

end DendroModel.C15

/-! ## extension round: what was compared only is now proved

(1) the distinct-ids hypothesis is discharged for every tree the protocol parser can return; (2) the parent chain of
`ancestor_iter` is refined from a pointer-level climb over the parent array; (3) level order has explicit,
non-decreasing depths, and the callback trace is a Dyck word with matching labels. -/
namespace DendroModel.C15
open DendroModel DendroModel.C15.Aux DendroModel.C15.ExtAux DendroModel.C15.BuildAux DendroModel.C15.PtrAux
  DendroModel.C15.LevelAux

/-- every tree `parseTree` returns has pairwise distinct node ids — for ANY token list it accepts, including parent
arrays with cycles or dangling entries (those are unreachable from the entry whose parent is -1) -/
theorem protocol_ids_distinct (toks : List String) (tree : T) (rest : List String)
    (h : parseTree toks = some (tree, rest)) : ((T.nodes tree).map T.id).Nodup := by
  obtain ⟨f, par, tax, lens, labs, r, _, rfl, hr⟩ := parseTree_build toks tree rest h
  exact ids_nodup par tax lens labs f r (acyc_root par r hr)

/-- hence every start node the driver can pick (`find?`) roots a subtree with distinct ids: the hypothesis of
`internal_nodes_spec` / `tree_internal_lists_spec` holds for all driver inputs -/
theorem protocol_subtree_ids_distinct (toks : List String) (tree : T) (rest : List String) (start : Nat) (t : T)
    (h : parseTree toks = some (tree, rest)) (hf : tree.find? start = some t) :
    ((T.nodes t).map T.id).Nodup ∧ ∀ x ∈ T.nodesL t.cs, x.id ≠ t.id := by
  have hn : ((T.nodes t).map T.id).Nodup :=
    List.Nodup.sublist ((find?_sublist start tree t hf).map T.id) (protocol_ids_distinct toks tree rest h)
  exact ⟨hn, hid_of_nodup t hn⟩

/-- `internal_nodes_spec` for driver inputs, without any hypothesis on ids -/
theorem internal_nodes_driver_spec (toks : List String) (tree : T) (rest : List String) (start : Nat) (t : T)
    (h : parseTree toks = some (tree, rest)) (hf : tree.find? start = some t)
    (excl hasParent : Bool) (keep : T → Bool) :
    preIter (internalKeep excl t.id hasParent keep) t
      = (if (excl && !hasParent) = true then [] else [t].filter (fun x => !x.isLeaf && keep x))
        ++ (T.nodesL t.cs).filter (fun x => !x.isLeaf && keep x)
    ∧ postIter (internalKeep excl t.id hasParent keep) t
      = (postL t.cs).filter (fun x => !x.isLeaf && keep x)
        ++ (if (excl && !hasParent) = true then [] else [t].filter (fun x => !x.isLeaf && keep x)) :=
  internal_nodes_spec excl hasParent keep t (protocol_subtree_ids_distinct toks tree rest start t h hf).2

/-- `tree_internal_lists_spec` for driver inputs -/
theorem tree_internal_lists_driver_spec (toks : List String) (tree : T) (rest : List String) (start : Nat) (t : T)
    (h : parseTree toks = some (tree, rest)) (hf : tree.find? start = some t) (excl : Bool) :
    treeInternalNodes excl t
      = (if excl = true then [] else [t].filter (fun x => !x.isLeaf)) ++ (T.nodesL t.cs).filter (fun x => !x.isLeaf)
    ∧ treeInternalEdges excl t = (treeInternalNodes excl t).map E.mk :=
  tree_internal_lists_spec excl t (protocol_subtree_ids_distinct toks tree rest start t h hf).2

/-- non-vacuity: what `parseTree` returns is `buildTree` from an entry with parent -1 (`parseTree_build`); such a tree,
here over an array that also holds a 2-cycle (entries 3, 4) which stays unreachable.  (That `parseTree` accepts the
harness's token lists is witnessed at run time: the driver answers `bad-op` otherwise; string parsing does not reduce
in the kernel.) -/
example : (T.nodes (buildTree 6 #[-1, 0, 0, 4, 3] #[none, none, none, none, none] #[none, none, none, none, none]
    #[none, none, none, none, none] 0)).map T.id = [0, 1, 2] := by decide

/-- refinement of `ancestor_iter`: on every protocol tree, the chain the model computes on the way down (`ancIter`,
which `ancestor_spec` characterises) is, id for id, what the code's loop `node = node._parent_node` yields on the
parent array (`ancPtrIter` = `climbIds`, which the driver also runs as kind `ancptr`); `tree.size` steps of fuel
suffice -/
theorem ancestor_pointer_refinement (toks : List String) (tree : T) (rest : List String) (par : Array Int)
    (start : Nat) (self : T) (keep : Nat → Bool) (incl : Bool)
    (h : parseTree toks = some (tree, rest)) (hp : parsePar toks = some par) (hf : tree.find? start = some self) :
    (ancIter (fun t => keep t.id) incl tree start).map (List.map T.id)
      = some (ancPtrIter keep incl par tree.size start) := by
  obtain ⟨f, par', tax, lens, labs, r, hp', rfl, hr⟩ := parseTree_build toks tree rest h
  rw [hp] at hp'
  simp only [Option.some.injEq] at hp'
  subst hp'
  obtain ⟨up, hanc, hch, hlast⟩ := ancestor_spec (fun t => keep t.id) incl _ start self hf
  have hid : self.id = start := find?_id start _ self hf
  have hsz := upChain_size _ up self hch hlast
  have hpos := size_pos self
  have hclimb := climb_chain par _ (fun b hb => build_linked par tax lens labs f r b hb)
    (by rw [build_id]; exact hr) up self hch hlast (buildTree f par tax lens labs r).size (by omega)
  rw [hanc]
  simp only [Option.map_some, ancPtrIter, Option.some.injEq, List.map_append]
  rw [← hid, hclimb, List.filter_map]
  congr 1
  by_cases hk : (incl && keep self.id) = true <;> simp [hk]

example : ancPtrIter (fun _ => true) true #[-1, 0, 1, 0] 4 2 = [2, 1, 0] := by decide

/-- level order, with depths made explicit: the output is generation 0 (the start), then generation 1 (its children,
left to right), then generation 2, …, filtered; `genL k [t]` are the nodes at depth `k` below `t` -/
theorem levelorder_generations (keep : T → Bool) (t : T) :
    levelIter keep t = ((List.range (height t)).flatMap (fun k => genL k [t])).filter keep := by
  rw [levelorder_spec, bfs_eq_gens]

/-- non-decreasing depth: the level-order output can be annotated with depths such that every node is a member of the
generation it is annotated with (`x ∈ genL d [t]`; membership — that a node lies in ONE generation only needs distinct
ids and is not stated here), every yielded node passes the filter, and the depths never decrease.  The exact statement
is `levelorder_generations`. -/
theorem levelorder_depth_monotone (keep : T → Bool) (t : T) :
    ∃ ds : List (Nat × T), ds.map Prod.snd = levelIter keep t
      ∧ ds.Pairwise (fun a b => a.1 ≤ b.1)
      ∧ ∀ p ∈ ds, p.2 ∈ genL p.1 [t] ∧ keep p.2 = true := by
  refine ⟨((List.range (height t)).flatMap (fun k => (genL k [t]).map (fun x => (k, x)))).filter (fun p => keep p.2),
    ?_, ?_, ?_⟩
  · rw [levelorder_generations, ← tag_snd (fun k => genL k [t]), List.filter_map]
    rfl
  · exact (tag_pairwise (fun k => genL k [t]) _ List.pairwise_le_range).sublist List.filter_sublist
  · intro p hp
    have := List.mem_filter.mp hp
    exact ⟨tag_mem (fun k => genL k [t]) _ p this.1, this.2⟩

example : ((genL 1 [T.node 0 none none none [.node 1 none none none [.node 2 none none none []], .node 3 none none none []]]).map T.id)
    = [1, 3] := by decide

/-- bracket matching of the callback traversal, as a Dyck-word statement: checked with the stack of open nodes, every
`after i` closes the innermost open node and that node is `i`, and nothing stays open; moreover the first callbacks
(`before`/`leaf`) arrive in pre-order and the last callbacks (`leaf`/`after`) in post-order of the start subtree, so
every node is opened and closed exactly once -/
theorem apply_dyck (t : T) :
    dyck [] (applyTrace t) = true
    ∧ opens (applyTrace t) = (pre t).map T.id
    ∧ closes (applyTrace t) = (post t).map T.id := by
  rw [apply_spec]
  refine ⟨?_, opens_br t, closes_br t⟩
  have := dyck_br t [] []
  simpa [dyck] using this

/-- refinement of the callback walk, first step: the machine that carries, for every stacked node, its chain of
ancestors up to the start node together with the code's own test "is the node below the LAST child" and climbs that
chain exactly as the `while` loop of `Node.apply` does (`climbZip`), emits the same trace as the closer-list rendering
`applyTrace`, hence the bracket sequence of the start subtree.
(The gap described next is CLOSED by `apply_pointer_refinement` / `apply_zipper_refinement` further down; this theorem is
kept under its old name because obligations are never deleted.)
`_partial` with respect to focus item 2: the remaining step — reading the zipper context off a parent array
(`isLast` = `kidsOf(parent).getLast? = node`, the chain = iterated parent pointers, which needs `buildTree`'s fuel
adequacy and a fuel-insensitive climb) — is not proved; it stays tied by the per-case comparison. -/
theorem apply_zipper_refinement_partial (t : T) : applyZipTrace t = applyTrace t ∧ applyZipTrace t = br t := by
  have h : applyZipTrace t = applyTrace t := by
    unfold applyZipTrace applyTrace
    rw [applyZipRun_eq]
    rfl
  exact ⟨h, h.trans (apply_spec t)⟩

example : applyZipTrace (.node 0 none none none [.node 1 none none none [.node 2 none none none []], .node 3 none none none []])
    = [.before 0, .before 1, .leaf 2, .after 1, .leaf 3, .after 0] := by decide

example : dyck [] [.before 0, .leaf 1, .after 0] = true ∧ dyck [] [.before 0, .leaf 1, .after 2] = false
    ∧ dyck [] [.leaf 1, .after 0] = false := by decide

end DendroModel.C15

/-! ## final round (notes/audit2-q.md): "exactly once" as a statement about the printed ids, the in-order bridge to the
function the driver runs, the driver's `hasParent`, and kernel-checked instances below the parser -/
namespace DendroModel.C15.Aux
open DendroModel DendroModel.C15 DendroModel.C15.ExtAux

theorem nodup_of_perm_nodes {l : List T} {t : T} (hn : ((T.nodes t).map T.id).Nodup) (hp : l.Perm (T.nodes t))
    (keep : T → Bool) : ((l.filter keep).map T.id).Nodup :=
  List.Nodup.sublist (List.filter_sublist.map T.id) ((hp.map T.id).nodup_iff.mpr hn)

/-- the chain `ancPath` returns has one entry exactly when the id asked for is the root's -/
theorem ancPath_single (i : Nat) : ∀ (t : T) (p : List T), ancPath i t = some p → (p.length = 1 ↔ i = t.id)
  | .node j x l s cs, p, h => by
    simp only [ancPath] at h
    by_cases hij : (i == j) = true
    · simp [hij] at h; subst h
      simpa [T.id] using hij
    · simp only [hij] at h
      cases hq : ancPathL i cs with
      | none => rw [hq] at h; simp at h
      | some q =>
        rw [hq] at h
        simp only [Bool.false_eq_true, if_false, Option.some.injEq] at h
        subst h
        have hne := (ancPathL_some i cs q hq).1
        have hlen : 0 < q.length := List.length_pos_iff.mpr hne
        have hij' : i ≠ j := by simpa using hij
        simp only [List.length_append, List.length_cons, List.length_nil, T.id]
        constructor
        · intro h1; omega
        · intro h2; exact absurd h2 hij'

end DendroModel.C15.Aux

namespace DendroModel.C15
open DendroModel DendroModel.C15.Aux DendroModel.C15.ExtAux DendroModel.C15.BuildAux DendroModel.C15.PtrAux
  DendroModel.C15.AgeAux

/-- below the parser: every subtree `find?` can return from a tree built from an entry with parent -1 has distinct ids -/
theorem build_subtree_ids_distinct (f : Nat) (par : Array Int) (tax : Array (Option Nat)) (lens : Array (Option Frac))
    (labs : Array (Option String)) (r : Nat) (hr : par[r]! = -1) (start : Nat) (t : T)
    (hf : (buildTree f par tax lens labs r).find? start = some t) : ((T.nodes t).map T.id).Nodup :=
  List.Nodup.sublist ((find?_sublist start _ t hf).map T.id) (ids_nodup par tax lens labs f r (acyc_root par r hr))

/-- "exactly once" about what the driver prints: on every subtree whose ids are distinct, every node/edge iterator the
driver runs yields pairwise distinct ids — for every filter, any age assignment, both directions -/
theorem visits_distinct_of_ids (t : T) (hn : ((T.nodes t).map T.id).Nodup) (keep : T → Bool) (ekeep : E → Bool)
    (age : T → Frac) (desc incl : Bool) :
    ((preIter keep t).map T.id).Nodup ∧ ((postIter keep t).map T.id).Nodup
    ∧ ((levelIter keep t).map T.id).Nodup ∧ ((leafIter keep t).map T.id).Nodup
    ∧ ((ageIter age desc incl keep t).map T.id).Nodup
    ∧ (∀ l, inRun keep t = some l → (l.map T.id).Nodup)
    ∧ ((preEdgeIter ekeep t).map (fun e => e.head.id)).Nodup ∧ ((postEdgeIter ekeep t).map (fun e => e.head.id)).Nodup := by
  have hpre : ∀ k : T → Bool, ((preIter k t).map T.id).Nodup := fun k => by
    rw [preorder_spec]; exact nodup_of_perm_nodes hn (List.Perm.refl _) k
  have hpost : ∀ k : T → Bool, ((postIter k t).map T.id).Nodup := fun k => by
    rw [postorder_spec]; exact nodup_of_perm_nodes hn (post_perm t) k
  refine ⟨hpre keep, hpost keep, ?_, hpost _, ?_, ?_, ?_, ?_⟩
  · rw [(filtered_spec keep t).2.2.1]
    exact nodup_of_perm_nodes hn (each_node_once t).2.2 keep
  · unfold ageIter
    simp only [preorder_spec, filter_true]
    exact nodup_of_perm_nodes hn ((Aux.stableSort_perm _ _).trans (List.Perm.refl _)) _
  · intro l hl
    rw [inorder_spec] at hl
    cases hi : inord t with
    | none => rw [hi] at hl; simp at hl
    | some l0 =>
      rw [hi] at hl
      simp only [Option.map_some, Option.some.injEq] at hl
      subst hl
      exact nodup_of_perm_nodes hn (inord_perm t l0 hi) keep
  · rw [(edge_order_spec ekeep t).1, List.map_map]
    exact nodup_of_perm_nodes hn (List.Perm.refl _) (fun n => ekeep ⟨n⟩)
  · rw [(edge_order_spec ekeep t).2, List.map_map]
    exact nodup_of_perm_nodes hn (post_perm t) (fun n => ekeep ⟨n⟩)

/-- … and the hypothesis holds for every start node of every tree the protocol parser returns -/
theorem visits_distinct (toks : List String) (tree : T) (rest : List String) (start : Nat) (t : T)
    (h : parseTree toks = some (tree, rest)) (hf : tree.find? start = some t)
    (keep : T → Bool) (ekeep : E → Bool) (age : T → Frac) (desc incl : Bool) :
    ((preIter keep t).map T.id).Nodup ∧ ((postIter keep t).map T.id).Nodup
    ∧ ((levelIter keep t).map T.id).Nodup ∧ ((leafIter keep t).map T.id).Nodup
    ∧ ((ageIter age desc incl keep t).map T.id).Nodup
    ∧ (∀ l, inRun keep t = some l → (l.map T.id).Nodup)
    ∧ ((preEdgeIter ekeep t).map (fun e => e.head.id)).Nodup ∧ ((postEdgeIter ekeep t).map (fun e => e.head.id)).Nodup :=
  visits_distinct_of_ids t (protocol_subtree_ids_distinct toks tree rest start t h hf).1 keep ekeep age desc incl

/-- non-vacuity, kernel-checked: a parent array with an unreachable 2-cycle, seed 0, start node 1 (found by `find?`);
this instantiates every hypothesis of `build_subtree_ids_distinct` and hence of `visits_distinct_of_ids` -/
example : ((T.nodes (buildTree 5 #[-1, 0, 1, 0, 5, 4] #[none, none, none, none, none, none] #[none, none, none, none, none, none]
    #[none, none, none, none, none, none] 1)).map T.id).Nodup :=
  build_subtree_ids_distinct 6 #[-1, 0, 1, 0, 5, 4] #[none, none, none, none, none, none] #[none, none, none, none, none, none]
    #[none, none, none, none, none, none] 0 (by decide) 1 _ rfl

/-- in-order on the function the driver runs (`inRun`): on a binary subtree the unfiltered run is a permutation of the
nodes (each exactly once), and a filtered run is its subsequence (bridge from `inorder_each_node_once`, which is
about the definitional `inIter`) -/
theorem inorder_run_each_node_once (t : T) (l : List T) (h : inRun (fun _ => true) t = some l) :
    l.Perm (T.nodes t) ∧ ∀ keep : T → Bool, inRun keep t = some (l.filter keep) := by
  have h' : inIter (fun _ => true) t = some l := by rw [← h, inorder_spec]; rfl
  refine ⟨(inorder_each_node_once (fun _ => true) t l h').1, fun keep => ?_⟩
  rw [inorder_spec]
  exact (inorder_each_node_once keep t l h').2

example : (inRun (fun _ => true) (.node 0 none none none [.node 1 none none none [], .node 2 none none none []])).isSome
    = true := by decide

/-- what the driver's `hasParent := start != tree.id` (for a start that has not been spliced out) means in the model:
the start node has no proper ancestor exactly when its id is the root's — i.e. `hasParent` is "the unfiltered
ancestor chain is non-empty".  (The `det` flag — the harness has spliced the start out and made it the seed of its
own `Tree` — is protocol input and is not derived from the tree.) -/
theorem start_has_parent_iff (tree : T) (start : Nat) (self : T) (hf : tree.find? start = some self) :
    ∃ up : List T, ancIter (fun _ => true) false tree start = some up ∧ (up = [] ↔ start = tree.id) := by
  unfold ancIter
  cases hp : ancPath start tree with
  | none => rw [ancPath_none start tree hp] at hf; cases hf
  | some p =>
    have hs := ancPath_single start tree p hp
    obtain ⟨hne, _, _, _⟩ := ancPath_some start tree p hp
    cases p with
    | nil => exact absurd rfl hne
    | cons a up =>
      refine ⟨up, by simp, ?_⟩
      rw [← hs]
      cases up <;> simp

/-- `ancestor_pointer_refinement` below the parser, so that its hypotheses can be instantiated in the kernel: for a tree
built from an entry `r` with parent -1, the model's chain is the pointer climb over the same array -/
theorem ancestor_pointer_refinement_build (f : Nat) (par : Array Int) (tax : Array (Option Nat))
    (lens : Array (Option Frac)) (labs : Array (Option String)) (r : Nat) (hr : par[r]! = -1)
    (start : Nat) (self : T) (keep : Nat → Bool) (incl : Bool)
    (hf : (buildTree f par tax lens labs r).find? start = some self) :
    (ancIter (fun t => keep t.id) incl (buildTree f par tax lens labs r) start).map (List.map T.id)
      = some (ancPtrIter keep incl par (buildTree f par tax lens labs r).size start) := by
  obtain ⟨up, hanc, hch, hlast⟩ := ancestor_spec (fun t => keep t.id) incl _ start self hf
  have hid : self.id = start := find?_id start _ self hf
  have hsz := upChain_size _ up self hch hlast
  have hpos := size_pos self
  have hclimb := climb_chain par _ (fun b hb => build_linked par tax lens labs f r b hb)
    (by rw [build_id]; exact hr) up self hch hlast (buildTree f par tax lens labs r).size (by omega)
  rw [hanc]
  simp only [Option.map_some, ancPtrIter, Option.some.injEq, List.map_append]
  rw [← hid, hclimb, List.filter_map]
  congr 1
  by_cases hk : (incl && keep self.id) = true <;> simp [hk]

/-- kernel-checked instance: array with an unreachable 2-cycle, start 2 (a grandchild of the seed), filter rejecting 1 -/
example : (ancIter (fun t => t.id != 1) true (buildTree 6 #[-1, 0, 1, 0, 5, 4] #[none, none, none, none, none, none]
      #[none, none, none, none, none, none] #[none, none, none, none, none, none] 0) 2).map (List.map T.id)
    = some (ancPtrIter (fun i => i != 1) true #[-1, 0, 1, 0, 5, 4] (buildTree 6 #[-1, 0, 1, 0, 5, 4]
      #[none, none, none, none, none, none] #[none, none, none, none, none, none] #[none, none, none, none, none, none] 0).size 2) :=
  ancestor_pointer_refinement_build 6 #[-1, 0, 1, 0, 5, 4] _ _ _ 0 (by decide) 2 _ (fun i => i != 1) true rfl

end DendroModel.C15

/-! ## last theorem round: `Node.apply` refined from the pointer-level loop; independence of the iterator machines -/
namespace DendroModel.C15
open DendroModel DendroModel.C15.Aux DendroModel.C15.ExtAux DendroModel.C15.BuildAux DendroModel.C15.PtrAux
  DendroModel.C15.LevelAux DendroModel.C15.ApplyAux

/-- the zipper machine does not depend on its fuel once it covers the subtree -/
theorem applyZipRun_fuel (t : T) (f : Nat) (hf : t.size ≤ f) : applyZipRun f [(t, [])] = applyZipTrace t := by
  unfold applyZipTrace
  rw [applyZipRun_eq, applyZipRun_eq, applyRun_eq f _ (by simpa [forget, applyWeight] using hf),
    applyRun_eq t.size _ (by simp [forget, applyWeight])]

/-- below the parser: for a tree built with at least `par.size` fuel from an in-range entry `r` with parent -1, and any
start node `find?` returns, the literal loop of `Node.apply` over the parent array (`applyPtrTrace`: explicit stack of
node ids, `kidsOf` = the child lists, the climb `while node is not self and parent._child_nodes[-1] is node` through
`par[node]`) emits exactly the trace of the zipper machine, hence of `applyTrace`, hence the bracket sequence -/
theorem apply_pointer_refinement_build (f : Nat) (par : Array Int) (tax : Array (Option Nat)) (lens : Array (Option Frac))
    (labs : Array (Option String)) (r : Nat) (hr : par[r]! = -1) (hrlt : r < par.size) (hfuel : par.size ≤ f)
    (start : Nat) (t : T) (hf : (buildTree f par tax lens labs r).find? start = some t) :
    applyPtrTrace par start = applyZipTrace t ∧ applyPtrTrace par start = applyTrace t ∧ applyPtrTrace par start = br t := by
  have hac := acyc_root par r hr
  have hsub := find?_sublist start _ t hf
  have hnd : ((T.nodes t).map T.id).Nodup := build_subtree_ids_distinct f par tax lens labs r hr start t hf
  have hid : t.id = start := find?_id start _ t hf
  have hfaith := build_faithful par tax lens labs f r [] hac (by simp) (by simpa using hrlt) (by simp) (by simpa using hfuel)
  have hlt : ∀ a ∈ (T.nodes t).map T.id, a < par.size := by
    intro a ha
    have ha' : a ∈ idsOf (buildTree f par tax lens labs r) := (hsub.map T.id).subset ha
    rcases ids_lt par tax lens labs f r a ha' with rfl | h
    · exact hrlt
    · exact h
  have hsz : t.size ≤ par.size := by
    have := length_le_of_nodup_lt _ par.size hnd hlt
    rw [size_eq_length]; simpa using this
  have hinv : ∀ e ∈ [((t, []) : T × List (Nat × Bool))], Inv par start e := by
    intro e he
    simp only [List.mem_singleton] at he
    subst he
    refine ⟨fun b hb => hfaith b (hsub.subset hb), by simp [Ctx, hid], by simpa using hsz, ?_⟩
    intro y hy
    rw [← hid]
    exact hid_of_nodup t hnd y hy
  have h1 : applyPtrTrace par start = applyZipTrace t := by
    unfold applyPtrTrace
    have := applyPtrRun_eq par start par.size [(t, [])] hinv
    simp only [List.map_cons, List.map_nil, hid] at this
    rw [this, applyZipRun_fuel t par.size hsz]
  have h2 := apply_zipper_refinement_partial t
  exact ⟨h1, h1.trans h2.1, h1.trans h2.2⟩

/-- the same for every protocol tree and every start the driver can pick: `parseTree` gives fuel `n+1 ≥ par.size` and
a seed index inside the array (`parseTree_build_fuel`).  The driver runs `applyPtrTrace` as kind `applyptr`. -/
theorem apply_pointer_refinement (toks : List String) (tree : T) (rest : List String) (par : Array Int) (start : Nat) (t : T)
    (h : parseTree toks = some (tree, rest)) (hp : parsePar toks = some par) (hf : tree.find? start = some t) :
    applyPtrTrace par start = applyZipTrace t ∧ applyPtrTrace par start = applyTrace t ∧ applyPtrTrace par start = br t := by
  obtain ⟨f, par', tax, lens, labs, r, hp', rfl, hr, hrlt, hfuel⟩ := parseTree_build_fuel toks tree rest h
  rw [hp] at hp'
  simp only [Option.some.injEq] at hp'
  subst hp'
  exact apply_pointer_refinement_build f par tax lens labs r hr hrlt hfuel start t hf

/-- `apply_zipper_refinement_partial` without the gap: the zipper machine = the closer-list machine = the brackets, AND
(`apply_pointer_refinement`) the zipper is what the pointer-level loop computes on every protocol tree -/
theorem apply_zipper_refinement (toks : List String) (tree : T) (rest : List String) (par : Array Int) (start : Nat) (t : T)
    (h : parseTree toks = some (tree, rest)) (hp : parsePar toks = some par) (hf : tree.find? start = some t) :
    applyZipTrace t = applyPtrTrace par start ∧ applyZipTrace t = applyTrace t ∧ applyZipTrace t = br t :=
  ⟨(apply_pointer_refinement toks tree rest par start t h hp hf).1.symm, (apply_zipper_refinement_partial t).1,
    (apply_zipper_refinement_partial t).2⟩

/-- kernel-checked instance of `apply_pointer_refinement_build`: an array with an unreachable 2-cycle (entries 4, 5),
seed 0, started at node 1 (a non-root node that is NOT a last child, with a unary chain below) -/
example : applyPtrTrace #[-1, 0, 1, 0, 5, 4] 1 = br (buildTree 5 #[-1, 0, 1, 0, 5, 4] #[none, none, none, none, none, none]
    #[none, none, none, none, none, none] #[none, none, none, none, none, none] 1) :=
  (apply_pointer_refinement_build 6 #[-1, 0, 1, 0, 5, 4] #[none, none, none, none, none, none]
    #[none, none, none, none, none, none] #[none, none, none, none, none, none] 0 (by decide) (by decide) (by decide) 1 _ rfl).2.2

example : applyPtrTrace #[-1, 0, 1, 0, 5, 4] 0 = [.before 0, .before 1, .leaf 2, .after 1, .leaf 3, .after 0] := by decide

end DendroModel.C15

namespace DendroModel.C15
open DendroModel DendroModel.C15.Aux DendroModel.C15.BuildAux DendroModel.C15.PtrAux DendroModel.C15.ApplyAux
  DendroModel.C15.HeapAux

/-- fuel adequacy of the parser's `buildTree`, for every start the driver can pick: each node of the subtree lists
exactly the children the parent array gives it (no node is cut off by the fuel), and the subtree's root has the id
asked for -/
theorem protocol_faithful (toks : List String) (tree : T) (rest : List String) (par : Array Int) (start : Nat) (t : T)
    (h : parseTree toks = some (tree, rest)) (hp : parsePar toks = some par) (hf : tree.find? start = some t) :
    (∀ b ∈ T.nodes t, b.cs.map T.id = kidsOf par b.id) ∧ t.id = start := by
  obtain ⟨f, par', tax, lens, labs, r, hp', rfl, hr, hrlt, hfuel⟩ := parseTree_build_fuel toks tree rest h
  rw [hp] at hp'
  simp only [Option.some.injEq] at hp'
  subst hp'
  have hfaith := build_faithful par tax lens labs f r [] (acyc_root par r hr) (by simp) (by simpa using hrlt) (by simp)
    (by simpa using hfuel)
  exact ⟨fun b hb => hfaith b ((find?_sublist start _ t hf).subset hb), find?_id start _ t hf⟩

/-- frame: one `next()` of the level-order generator returns a heap in which every node's child list and every other
generator's private list are what they were (the machine as written cannot do what seeded change C15-2 did) -/
theorem generator_frame (h : Heap) (s : LvSt) :
    (lvNext h s).1.kids = h.kids ∧ ∀ a, a ≠ s.q → (lvNext h s).1.priv a = h.priv a :=
  lvNext_frame h s

/-- independence: two level-order generators with different private lists, stepped in ANY interleaving on the same
heap (drained, abandoned, alternating …): each one returns exactly what it returns when it runs alone for as many
calls — running one machine does not change what the other yields -/
theorem generators_independent (σ : List Bool) (h : Heap) (s1 s2 : LvSt) (hne : s1.q ≠ s2.q) :
    ((lvSched h s1 s2 σ).filter (fun e => e.1)).map (fun e => e.2) = lvSolo h s1 (σ.count true)
    ∧ ((lvSched h s1 s2 σ).filter (fun e => !e.1)).map (fun e => e.2) = lvSolo h s2 (σ.count false) :=
  ⟨sched_first σ h s1 s2 hne, sched_second σ h s1 s2 hne⟩

/-- the heap generator is `levelorder_iter`: on every protocol tree, `k` calls of `next()` on a fresh generator started
at node `start` return the first `k` ids of the level order of that subtree (`levelIter`, which `levelorder_spec` /
`levelorder_generations` characterise) and then StopIteration — so an abandoned traversal has yielded a prefix of the
defining order; the driver runs this as kind `levelgen` -/
theorem levelorder_generator_spec (toks : List String) (tree : T) (rest : List String) (par : Array Int) (start : Nat) (t : T)
    (h : parseTree toks = some (tree, rest)) (hp : parsePar toks = some par) (hf : tree.find? start = some t)
    (heap : Heap) (hk : heap.kids = kidsOf par) (q k : Nat) :
    lvSolo heap ⟨q, .init start⟩ k = padTake k ((levelIter (fun _ => true) t).map T.id) := by
  obtain ⟨hF, hid⟩ := protocol_faithful toks tree rest par start t h hp hf
  rw [← hid]
  exact solo_spec par t hF heap hk q k

/-- both together: two level-order generators started anywhere in a protocol tree and interleaved arbitrarily each
yield a prefix of their own defining order -/
theorem levelorder_generators_interleaved (toks : List String) (tree : T) (rest : List String) (par : Array Int)
    (a b : Nat) (ta tb : T) (h : parseTree toks = some (tree, rest)) (hp : parsePar toks = some par)
    (hfa : tree.find? a = some ta) (hfb : tree.find? b = some tb) (σ : List Bool) :
    ((lvSched (heapOf par) ⟨0, .init a⟩ ⟨1, .init b⟩ σ).filter (fun e => e.1)).map (fun e => e.2)
      = padTake (σ.count true) ((levelIter (fun _ => true) ta).map T.id)
    ∧ ((lvSched (heapOf par) ⟨0, .init a⟩ ⟨1, .init b⟩ σ).filter (fun e => !e.1)).map (fun e => e.2)
      = padTake (σ.count false) ((levelIter (fun _ => true) tb).map T.id) := by
  have hi := generators_independent σ (heapOf par) ⟨0, .init a⟩ ⟨1, .init b⟩ (by simp)
  rw [hi.1, hi.2]
  exact ⟨levelorder_generator_spec toks tree rest par a ta h hp hfa (heapOf par) rfl 0 _,
    levelorder_generator_spec toks tree rest par b tb h hp hfb (heapOf par) rfl 1 _⟩

/-- kernel-checked run: two generators on the heap of an array (with an unreachable 2-cycle), one from the seed, one
from node 1, interleaved; the second is abandoned after two calls -/
example : lvSched (heapOf #[-1, 0, 1, 0, 5, 4]) ⟨0, .init 0⟩ ⟨1, .init 1⟩ [true, false, true, false, true, true, true]
    = [(true, some 0), (false, some 1), (true, some 1), (false, some 2), (true, some 3), (true, some 2), (true, none)] := by
  decide

end DendroModel.C15

namespace DendroModel.C15
open DendroModel DendroModel.C15.Aux DendroModel.C15.BuildAux DendroModel.C15.PtrAux DendroModel.C15.ApplyAux
  DendroModel.C15.HeapAux

/-- both heap generators (`levelorder_iter` = `lvNext`, `preorder_iter` = `pvNext`) keep their generator number, write
only their own private list — never a node's child list, never another generator's list — and read only the node lists
and their own list -/
theorem generator_steps_local : Local lvNext ∧ Local pvNext := ⟨lv_local, pv_local⟩

/-- independence for ANY two such step functions (same or different kinds): under every interleaving each generator
returns exactly what it returns when it runs alone for as many calls -/
theorem any_generators_independent (n1 n2 : Heap → LvSt → Heap × LvSt × Option Nat) (h1 : Local n1) (h2 : Local n2)
    (σ : List Bool) (h : Heap) (s1 s2 : LvSt) (hne : s1.q ≠ s2.q) :
    ((gSched n1 n2 h s1 s2 σ).filter (fun e => e.1)).map (fun e => e.2) = gSolo n1 h s1 (σ.count true)
    ∧ ((gSched n1 n2 h s1 s2 σ).filter (fun e => !e.1)).map (fun e => e.2) = gSolo n2 h s2 (σ.count false) :=
  ⟨gsched_first h1 h2 σ h s1 s2 hne, gsched_second h1 h2 σ h s1 s2 hne⟩

/-- the pre-order heap generator is `preorder_iter`: `k` calls of `next()` return the first `k` ids of `preIter`, then
StopIteration, on every protocol tree and start -/
theorem preorder_generator_spec (toks : List String) (tree : T) (rest : List String) (par : Array Int) (start : Nat) (t : T)
    (h : parseTree toks = some (tree, rest)) (hp : parsePar toks = some par) (hf : tree.find? start = some t)
    (heap : Heap) (hk : heap.kids = kidsOf par) (q k : Nat) :
    gSolo pvNext heap ⟨q, .init start⟩ k = padTake k ((preIter (fun _ => true) t).map T.id) := by
  obtain ⟨hF, hid⟩ := protocol_faithful toks tree rest par start t h hp hf
  rw [← hid]
  exact psolo_spec par t hF heap hk q k

/-- a pre-order generator at `a` and a level-order generator at `b` of a protocol tree, interleaved arbitrarily (what the
driver runs as kind `gensched`): each yields a prefix of its own defining order -/
theorem mixed_generators_interleaved (toks : List String) (tree : T) (rest : List String) (par : Array Int)
    (a b : Nat) (ta tb : T) (h : parseTree toks = some (tree, rest)) (hp : parsePar toks = some par)
    (hfa : tree.find? a = some ta) (hfb : tree.find? b = some tb) (σ : List Bool) :
    ((gSched pvNext lvNext (heapOf par) ⟨0, .init a⟩ ⟨1, .init b⟩ σ).filter (fun e => e.1)).map (fun e => e.2)
      = padTake (σ.count true) ((preIter (fun _ => true) ta).map T.id)
    ∧ ((gSched pvNext lvNext (heapOf par) ⟨0, .init a⟩ ⟨1, .init b⟩ σ).filter (fun e => !e.1)).map (fun e => e.2)
      = padTake (σ.count false) ((levelIter (fun _ => true) tb).map T.id) := by
  have hi := any_generators_independent pvNext lvNext pv_local lv_local σ (heapOf par) ⟨0, .init a⟩ ⟨1, .init b⟩ (by simp)
  rw [hi.1, hi.2, gSolo_lv]
  exact ⟨preorder_generator_spec toks tree rest par a ta h hp hfa (heapOf par) rfl 0 _,
    levelorder_generator_spec toks tree rest par b tb h hp hfb (heapOf par) rfl 1 _⟩

example : gSched pvNext lvNext (heapOf #[-1, 0, 1, 0, 5, 4]) ⟨0, .init 0⟩ ⟨1, .init 0⟩ [true, false, true, false, true, false, true, false, true]
    = [(true, some 0), (false, some 0), (true, some 1), (false, some 1), (true, some 2), (false, some 3), (true, some 3),
       (false, some 2), (true, none)] := by decide

end DendroModel.C15

/-! ## round ext-3: the one-step iterators of `Node` and the first-hit searches of `Tree`

`child_node_iter` / `child_edge_iter` / `child_nodes` / `child_edges` / `incident_edges`, `adjacent_nodes`,
`sibling_nodes` (tree level AND, where the code reads `_parent_node`, refined from the parent array), and
`find_node` / `find_nodes` / `find_node_with_label` / `find_node_with_taxon(_label)` / `find_node_for_taxon`
(a first hit of the pre-order resp. POST-order traversal).  All about the definitions the driver runs. -/
namespace DendroModel.C15
open DendroModel DendroModel.C15.Aux DendroModel.C15.ExtAux DendroModel.C15.BuildAux DendroModel.C15.PtrAux
  DendroModel.C15.ApplyAux DendroModel.C15.NbrAux

/-- the child iterators yield exactly the children that pass, left to right; the edge variant their edges (the filter
sees the edge); `incident_edges` the child edges and then the node's own edge -/
theorem child_iter_spec (keep : T → Bool) (ekeep : E → Bool) (t : T) :
    childIter keep t = t.cs.filter keep
    ∧ childEdgeIter ekeep t = (t.cs.filter (fun n => ekeep ⟨n⟩)).map E.mk
    ∧ (incidentEdges t).map (fun e => e.head.id) = t.cs.map T.id ++ [t.id] := by
  refine ⟨childRun_eq keep t.cs, childEdgeRun_eq ekeep t.cs, ?_⟩
  simp [incidentEdges, Function.comp_def]

example : ((childIter (fun x => x.id != 2)
    (.node 0 none none none [.node 1 none none none [.node 4 none none none []], .node 2 none none none [], .node 3 none none none []])).map T.id
    = [1, 3]) ∧ (incidentEdges (.node 0 none none none [.node 1 none none none [], .node 2 none none none []])).map (fun e => e.head.id)
    = [1, 2, 0] := by decide

/-- `find_node` / `find_nodes`: all hits are the filtered pre-order; the single hit is its head — it passes the filter
and no node before it in pre-order does; `None` iff no node passes -/
theorem find_node_spec (keep : T → Bool) (t : T) :
    findNodes keep t = (pre t).filter keep
    ∧ findNode keep t = ((pre t).filter keep).head?
    ∧ (∀ x, findNode keep t = some x → ∃ l1 l2, pre t = l1 ++ x :: l2 ∧ keep x = true ∧ ∀ y ∈ l1, keep y = false)
    ∧ (findNode keep t = none ↔ ∀ y ∈ pre t, keep y = false) := by
  have h1 : findNode keep t = ((pre t).filter keep).head? := by
    unfold findNode
    rw [preorder_spec]
    cases (pre t).filter keep <;> rfl
  refine ⟨preorder_spec keep t, h1, ?_, ?_⟩
  · intro x hx
    rw [h1] at hx
    exact head?_filter_some keep (pre t) x hx
  · rw [h1]
    exact head?_filter_none keep (pre t)

example : (findNode (fun x => x.id == 3 || x.id == 2)
    (.node 0 none none none [.node 1 none none none [.node 2 none none none []], .node 3 none none none []])).map T.id = some 2
  ∧ (findNode (fun x => x.id == 7)
    (.node 0 none none none [.node 1 none none none [.node 2 none none none []], .node 3 none none none []])).map T.id = none := by
  decide

/-- the searches that test inside the loop body: by label and by taxon predicate the first hit in PRE-order,
`find_node_for_taxon` the first hit in POST-order (so with one taxon on two nodes the two searches may return different
nodes) -/
theorem find_by_attribute_spec (lab : String) (q : Nat → Bool) (k : Nat) (t : T) :
    findLabel lab t = ((pre t).filter (fun x => x.label == some lab)).head?
    ∧ findTaxonPre q t = ((pre t).filter (fun x => match x.taxon with | some k => q k | none => false)).head?
    ∧ findTaxonPost k t = ((post t).filter (fun x => x.taxon == some k)).head? := by
  unfold findLabel findTaxonPre findTaxonPost
  rw [firstWhere_eq, firstWhere_eq, firstWhere_eq, preorder_spec, postorder_spec, filter_true, filter_true]
  exact ⟨rfl, rfl, rfl⟩

/-- first-hit form for the attribute searches (any test, any traversal list) -/
theorem first_where_first (p : T → Bool) (l : List T) :
    (∀ x, firstWhere p l = some x → ∃ l1 l2, l = l1 ++ x :: l2 ∧ p x = true ∧ ∀ y ∈ l1, p y = false)
    ∧ (firstWhere p l = none ↔ ∀ y ∈ l, p y = false) := by
  rw [firstWhere_eq]
  exact ⟨fun x hx => head?_filter_some p l x hx, head?_filter_none p l⟩

/-- one taxon (index 5) on an inner node and on a leaf below it: pre-order search finds the inner node, post-order
search the leaf -/
example : (findTaxonPre (fun k => k == 5)
    (.node 0 none none none [.node 1 (some 5) none none [.node 2 (some 5) none none []], .node 3 none none none []])).map T.id = some 1
  ∧ (findTaxonPost 5
    (.node 0 none none none [.node 1 (some 5) none none [.node 2 (some 5) none none []], .node 3 none none none []])).map T.id = some 2 := by
  decide

/-- below the parser: `sibling_nodes()` and `adjacent_nodes()` of the node `find?` returns, computed on the way down
(`siblingNodes`/`adjacentNodes`: the parent is the next entry of the parent chain), are id for id what the code reads
through `_parent_node` on the parent array (`siblingPtr`: the parent's children without the node itself, nothing for
the seed; `adjacentPtr`: the children, then the parent unless the node is the seed) -/
theorem neighbour_pointer_refinement_build (f : Nat) (par : Array Int) (tax : Array (Option Nat)) (lens : Array (Option Frac))
    (labs : Array (Option String)) (r : Nat) (hr : par[r]! = -1) (hrlt : r < par.size) (hfuel : par.size ≤ f)
    (start : Nat) (self : T) (hf : (buildTree f par tax lens labs r).find? start = some self) :
    (siblingNodes (buildTree f par tax lens labs r) start false).map (List.map T.id) = some (siblingPtr par start)
    ∧ (adjacentNodes (buildTree f par tax lens labs r) start false).map (List.map T.id) = some (adjacentPtr par start) := by
  have hfaith := build_faithful par tax lens labs f r [] (acyc_root par r hr) (by simp) (by simpa using hrlt) (by simp)
    (by simpa using hfuel)
  exact nbr_ptr par _ (fun b hb => build_linked par tax lens labs f r b hb) (by rw [build_id]; exact hr) hfaith start self hf

/-- the same for every protocol tree and every start the driver can pick (driver kinds `siblings`/`siblingsptr`,
`adjacent`/`adjacentptr`) -/
theorem neighbour_pointer_refinement (toks : List String) (tree : T) (rest : List String) (par : Array Int)
    (start : Nat) (self : T)
    (h : parseTree toks = some (tree, rest)) (hp : parsePar toks = some par) (hf : tree.find? start = some self) :
    (siblingNodes tree start false).map (List.map T.id) = some (siblingPtr par start)
    ∧ (adjacentNodes tree start false).map (List.map T.id) = some (adjacentPtr par start) := by
  obtain ⟨f, par', tax, lens, labs, r, hp', rfl, hr, hrlt, hfuel⟩ := parseTree_build_fuel toks tree rest h
  rw [hp] at hp'
  simp only [Option.some.injEq] at hp'
  subst hp'
  exact neighbour_pointer_refinement_build f par tax lens labs r hr hrlt hfuel start self hf

/-- kernel-checked instance: an array with an unreachable 2-cycle (entries 4, 5); node 1 has the sibling 3 and is
adjacent to its child 2 and its parent 0 -/
example : (siblingNodes (buildTree 6 #[-1, 0, 1, 0, 5, 4] #[none, none, none, none, none, none]
    #[none, none, none, none, none, none] #[none, none, none, none, none, none] 0) 1 false).map (List.map T.id)
      = some (siblingPtr #[-1, 0, 1, 0, 5, 4] 1) :=
  (neighbour_pointer_refinement_build 6 #[-1, 0, 1, 0, 5, 4] #[none, none, none, none, none, none]
    #[none, none, none, none, none, none] #[none, none, none, none, none, none] 0 (by decide) (by decide) (by decide) 1 _ rfl).1

example : siblingPtr #[-1, 0, 1, 0, 5, 4] 1 = [3] ∧ adjacentPtr #[-1, 0, 1, 0, 5, 4] 1 = [2, 0]
    ∧ siblingPtr #[-1, 0, 1, 0, 5, 4] 0 = [] ∧ adjacentPtr #[-1, 0, 1, 0, 5, 4] 0 = [1, 3] := by decide

/-- what the tree-level readings are: the siblings are the parent's children other than the node (by id), in the
parent's order; the neighbours are the node's children followed by the parent; a seed has no sibling and only its
children as neighbours -/
theorem neighbour_spec (tree : T) (start : Nat) (self : T) (hf : tree.find? start = some self) :
    ∃ up : List T, UpChain (self :: up) ∧ (self :: up).getLast? = some tree
      ∧ adjacentNodes tree start false = some (self.cs ++ up.take 1)
      ∧ siblingNodes tree start false = some (match up with
          | [] => []
          | p :: _ => p.cs.filter (fun c => c.id != self.id)) := by
  cases hp : ancPath start tree with
  | none => rw [ancPath_none start tree hp] at hf; cases hf
  | some p =>
    obtain ⟨hne, hhead, hlast, hch⟩ := ancPath_some start tree p hp
    cases p with
    | nil => exact absurd rfl hne
    | cons a up =>
      simp only [List.head?_cons, hf, Option.some.injEq] at hhead
      subst hhead
      refine ⟨up, hch, hlast, by simp [adjacentNodes, hp], ?_⟩
      cases up <;> simp [siblingNodes, hp]

end DendroModel.C15

/-! ## round ext-3, tie A: bridges to `Gen/C15Filters.lean`

`harness/gen/c15filters.py` regenerates, from the current source on every run, the truthiness-composed filter lambdas of
the internal-node / internal-edge / leaf wrappers, the traversal each wrapper delegates to, and the counting loop of
`Tree.__len__`.  The theorems below say the hand-written model (`internalKeep`, the filter inside `leafIter`, `lenTree`)
IS that regenerated code; they are proved by case analysis, so a semantics-preserving rewrite of the source still passes
and a semantic change (the node's own truthiness in the lambda, a dropped `froot`, another delegate, a changed count)
breaks them. -/
namespace DendroModel.C15
open DendroModel

/-- the filter of `preorder_internal_node_iter` (and, identically, of the post-order and the two edge variants) as
regenerated from the source = `internalKeep`, with a filter and without; each wrapper delegates to the traversal the
driver composes `internalKeep` with (`preIter`/`postIter`/`preEdgeIter`/`postEdgeIter`) -/
theorem internal_filter_bridge (excl hp : Bool) (sid : Nat) (keep : T → Bool) (x : T) :
    internalKeep excl sid hp keep x
      = C15Filters.nodePreInternal excl true (x.id != sid || hp) (!x.cs.isEmpty) (keep x)
    ∧ internalKeep excl sid hp (fun _ => true) x
      = C15Filters.nodePreInternal excl false (x.id != sid || hp) (!x.cs.isEmpty) (keep x)
    ∧ (∀ a b c d e, C15Filters.nodePostInternal a b c d e = C15Filters.nodePreInternal a b c d e
        ∧ C15Filters.edgePreInternal a b c d e = C15Filters.nodePreInternal a b c d e
        ∧ C15Filters.edgePostInternal a b c d e = C15Filters.nodePreInternal a b c d e)
    ∧ C15Filters.nodePreInternalDelegate = "preorder_iter" ∧ C15Filters.nodePostInternalDelegate = "postorder_iter"
    ∧ C15Filters.edgePreInternalDelegate = "preorder_edge_iter"
    ∧ C15Filters.edgePostInternalDelegate = "postorder_edge_iter" := by
  refine ⟨?_, ?_, ?_, by decide, by decide, by decide, by decide⟩
  · unfold internalKeep C15Filters.nodePreInternal
    generalize (x.id != sid) = a
    generalize x.cs.isEmpty = b
    generalize keep x = c
    cases excl <;> cases hp <;> cases a <;> cases b <;> cases c <;> rfl
  · unfold internalKeep C15Filters.nodePreInternal
    generalize (x.id != sid) = a
    generalize x.cs.isEmpty = b
    cases excl <;> cases hp <;> cases a <;> cases b <;> rfl
  · intro a b c d e
    unfold C15Filters.nodePostInternal C15Filters.edgePreInternal C15Filters.edgePostInternal C15Filters.nodePreInternal
    cases a <;> cases b <;> cases c <;> cases d <;> cases e <;> exact ⟨rfl, rfl, rfl⟩

/-- the hypotheses-free bridge evaluated on a concrete node: the excluded start without a parent is dropped, an inner
node below it is kept -/
example : C15Filters.nodePreInternal true true (0 != 0 || false) true true = false
    ∧ C15Filters.nodePreInternal true true (1 != 0 || false) true true = true := by decide

/-- the filter `leaf_iter` hands to `postorder_iter`, as regenerated = the one inside `leafIter`; `Node.leaf_nodes`
filters by `isLeaf` alone; both delegate to `postorder_iter` (the model's `postIter`) -/
theorem leaf_filter_bridge (keep : T → Bool) (x : T) (e p q : Bool) :
    (x.isLeaf && keep x) = C15Filters.leafFilter e true p (!x.cs.isEmpty) (keep x)
    ∧ x.isLeaf = C15Filters.leafFilter e false p (!x.cs.isEmpty) q
    ∧ x.isLeaf = C15Filters.leafNodesFilter e false p (!x.cs.isEmpty) q
    ∧ C15Filters.leafFilterDelegate = "postorder_iter" ∧ C15Filters.leafNodesFilterDelegate = "postorder_iter" := by
  refine ⟨?_, ?_, ?_, by decide, by decide⟩
  · unfold T.isLeaf C15Filters.leafFilter
    generalize x.cs.isEmpty = b
    generalize keep x = c
    cases b <;> cases c <;> rfl
  · unfold T.isLeaf C15Filters.leafFilter
    generalize x.cs.isEmpty = b
    cases b <;> rfl
  · unfold T.isLeaf C15Filters.leafNodesFilter
    generalize x.cs.isEmpty = b
    cases b <;> rfl

/-- `Tree.__len__` as regenerated (start value, increment per item of the leaf iterator) = `lenTree`, hence (with
`len_spec`) the number of leaves -/
theorem len_bridge (t : T) :
    lenTree t = C15Filters.treeLen (leafIter (fun _ => true) t).length
    ∧ C15Filters.treeLen (T.leaves t).length = (T.leaves t).length := by
  unfold C15Filters.treeLen lenTree
  constructor <;> omega

example : C15Filters.treeLen 3 = 3 := by decide

end DendroModel.C15

/-! ## wave 2: the filter CALL sequence is part of the machines

`Model/C15Calls.lean` runs the same stack / queue machines but emits, for every popped item, whether `filter_fn` is
called on it (`shown`) and whether it is yielded.  The composed filters of the wrappers short-circuit, so the user's
predicate is shown exactly the items of the iterator's domain. -/
namespace DendroModel.C15
open DendroModel DendroModel.C15.Aux DendroModel.C15.CallsAux

/-- the traced machines are conservative extensions of the plain ones: what they yield is the plain machine under
`guard && keep`, what they show to the filter is the plain machine under the structural guard alone — for every guard,
filter and tree -/
theorem traced_machines_conservative (guard keep : T → Bool) (t : T) :
    (yieldL (preIterE guard keep t) = preIter (fun x => guard x && keep x) t
      ∧ shownL (preIterE guard keep t) = preIter guard t)
    ∧ (yieldL (postIterE guard keep t) = postIter (fun x => guard x && keep x) t
      ∧ shownL (postIterE guard keep t) = postIter guard t)
    ∧ (yieldL (levelIterE guard keep t) = levelIter (fun x => guard x && keep x) t
      ∧ shownL (levelIterE guard keep t) = levelIter guard t) := by
  refine ⟨⟨preRunE_yield guard keep _ _, preRunE_shown guard keep _ _⟩,
    ⟨postRunE_yield guard keep _ _, postRunE_shown guard keep _ _⟩, ?_, ?_⟩
  · unfold levelIterE levelIter
    rw [yieldL_append, yieldL_visit, levelRunE_yield]
  · unfold levelIterE levelIter
    rw [shownL_append, shownL_visit, levelRunE_shown]

/-- the filter call sequence of the plain and the leaf iterators: the filter is shown exactly the items of the unfiltered
defining order, each once, in that order, whatever it answers — all nodes in pre, post and level order, the children for
`child_node_iter`; the LEAF iterator shows it the leaves left to right and never an internal node, and still yields
what `leafIter` yields -/
theorem filter_calls_spec (keep : T → Bool) (t : T) :
    shownL (preIterE (fun _ => true) keep t) = pre t
    ∧ shownL (postIterE (fun _ => true) keep t) = post t
    ∧ shownL (levelIterE (fun _ => true) keep t) = bfs (height t) [t]
    ∧ shownL (childRunE keep t.cs) = t.cs
    ∧ shownL (leafIterE keep t) = T.leaves t
    ∧ (∀ x ∈ shownL (leafIterE keep t), x.isLeaf = true)
    ∧ yieldL (leafIterE keep t) = leafIter keep t := by
  have hleaf : shownL (leafIterE keep t) = (post t).filter (fun x => x.isLeaf) := by
    unfold leafIterE
    rw [(traced_machines_conservative _ keep t).2.1.2, postorder_spec]
  refine ⟨?_, ?_, ?_, childRunE_shown keep t.cs, ?_, ?_, ?_⟩
  · rw [(traced_machines_conservative _ keep t).1.2, preorder_spec, filter_true]
  · rw [(traced_machines_conservative _ keep t).2.1.2, postorder_spec, filter_true]
  · rw [(traced_machines_conservative _ keep t).2.2.2, levelorder_spec, filter_true]
  · rw [hleaf]
    have := post_filter_leaf (fun _ => true) t
    simpa using this
  · intro x hx
    rw [hleaf] at hx
    exact (List.mem_filter.mp hx).2
  · unfold leafIterE leafIter
    exact (traced_machines_conservative _ keep t).2.1.1

/-- corner cases: a single node is a leaf (shown, as the only item); on `((2)1,3)0` the leaf iterator shows 2 and 3 only,
although it walks all four nodes -/
example : (shownL (leafIterE (fun _ => false) (.node 0 none none none []))).map T.id = [0]
    ∧ (shownL (leafIterE (fun x => x.id == 3)
        (.node 0 none none none [.node 1 none none none [.node 2 none none none []], .node 3 none none none []]))).map T.id = [2, 3]
    ∧ (yieldL (leafIterE (fun x => x.id == 3)
        (.node 0 none none none [.node 1 none none none [.node 2 none none none []], .node 3 none none none []]))).map T.id = [3] := by
  decide

/-- the filter call sequence of the internal-node iterators (ids below the start differ from the start's, as on every
protocol tree): the filter is shown exactly the non-leaves, the start dropped iff exclusion is requested and it has no
parent — never a leaf, never the excluded seed — in pre-order resp. post-order; and the traced machine yields what the
driver's `preIter (internalKeep …)` / `postIter (internalKeep …)` yield -/
theorem internal_filter_calls_spec (excl hasParent : Bool) (keep : T → Bool) (t : T)
    (hid : ∀ x ∈ T.nodesL t.cs, x.id ≠ t.id) :
    shownL (preIterE (internalGuard excl t.id hasParent) keep t)
      = (if (excl && !hasParent) = true then [] else [t].filter (fun x => !x.isLeaf))
        ++ (T.nodesL t.cs).filter (fun x => !x.isLeaf)
    ∧ shownL (postIterE (internalGuard excl t.id hasParent) keep t)
      = (postL t.cs).filter (fun x => !x.isLeaf)
        ++ (if (excl && !hasParent) = true then [] else [t].filter (fun x => !x.isLeaf))
    ∧ yieldL (preIterE (internalGuard excl t.id hasParent) keep t) = preIter (internalKeep excl t.id hasParent keep) t
    ∧ yieldL (postIterE (internalGuard excl t.id hasParent) keep t) = postIter (internalKeep excl t.id hasParent keep) t := by
  have hsplit : (fun x => internalGuard excl t.id hasParent x && keep x) = internalKeep excl t.id hasParent keep :=
    funext (fun x => (internalKeep_split excl hasParent t.id keep x).symm)
  have hspec := internal_nodes_spec excl hasParent (fun _ => true) t hid
  simp only [Bool.and_true] at hspec
  refine ⟨?_, ?_, ?_, ?_⟩
  · rw [(traced_machines_conservative _ keep t).1.2]
    exact hspec.1
  · rw [(traced_machines_conservative _ keep t).2.1.2]
    exact hspec.2
  · rw [(traced_machines_conservative _ keep t).1.1, hsplit]
  · rw [(traced_machines_conservative _ keep t).2.1.1, hsplit]

/-- `preorder_internal_node_iter(exclude_seed_node=True)` from the seed of `((2)1,3)0`: the filter is shown node 1 only -/
example : (shownL (preIterE (internalGuard true 0 false) (fun _ => false)
    (.node 0 none none none [.node 1 none none none [.node 2 none none none []], .node 3 none none none []]))).map T.id = [1] := by
  decide

/-- corner cases of `edge_order_spec` / `internal_edge_spec`: on a single-node tree the seed edge is terminal, so
`postorder_internal_edge_iter` / `preorder_internal_edge_iter` yield nothing (with and without exclusion), while the
plain edge iterators yield the seed edge (a seeded change once yielded the terminal seed edge as "internal") -/
example : (postEdgeIter (fun e => internalKeep false 0 false (fun _ => true) e.head) (.node 0 none none none [])).map (fun e => e.head.id) = []
    ∧ (preEdgeIter (fun e => internalKeep false 0 false (fun _ => true) e.head) (.node 0 none none none [])).map (fun e => e.head.id) = []
    ∧ (postEdgeIter (fun e => internalKeep true 0 false (fun _ => true) e.head) (.node 0 none none none [])).map (fun e => e.head.id) = []
    ∧ (postEdgeIter (fun _ => true) (.node 0 none none none [])).map (fun e => e.head.id) = [0]
    ∧ (treeInternalEdges false (.node 0 none none none [])).map (fun e => e.head.id) = [] := by decide

end DendroModel.C15

/-! ## wave 2: `postorder_iter` / `leaf_iter` one `next()` at a time (state after partial consumption) -/
namespace DendroModel.C15
open DendroModel DendroModel.C15.HeapAux DendroModel.C15.GenAux

/-- the post-order and the leaf heap generators (`poNext`, `lfNext`: the explicit stack of `(node, state)` pairs kept in
the generator's private list between two `next()` calls) keep their generator number, write only their own private list
— never a node's child list, never another generator's stack — and read only the node lists and their own stack, for
every fuel -/
theorem postorder_generator_steps_local (fuel : Nat) : Local (poNext fuel) ∧ Local (lfNext fuel) :=
  ⟨poNextW_local _ (fun _ _ _ _ => rfl) fuel, poNextW_local _ (fun h h' n hk => by simp [hk]) fuel⟩

/-- hence a suspended post-order (or leaf) generator is not disturbed by any other generator stepped in between, of
whatever kind (pre-, level-, post-order, leaf): under every interleaving each returns exactly what it returns alone -/
theorem postorder_generators_independent (fuel : Nat) (n2 : Heap → LvSt → Heap × LvSt × Option Nat) (h2 : Local n2)
    (σ : List Bool) (h : Heap) (s1 s2 : LvSt) (hne : s1.q ≠ s2.q) :
    (((gSched (poNext fuel) n2 h s1 s2 σ).filter (fun e => e.1)).map (fun e => e.2) = gSolo (poNext fuel) h s1 (σ.count true)
      ∧ ((gSched (poNext fuel) n2 h s1 s2 σ).filter (fun e => !e.1)).map (fun e => e.2) = gSolo n2 h s2 (σ.count false))
    ∧ (((gSched (lfNext fuel) n2 h s1 s2 σ).filter (fun e => e.1)).map (fun e => e.2) = gSolo (lfNext fuel) h s1 (σ.count true)
      ∧ ((gSched (lfNext fuel) n2 h s1 s2 σ).filter (fun e => !e.1)).map (fun e => e.2) = gSolo n2 h s2 (σ.count false)) :=
  ⟨any_generators_independent _ n2 (postorder_generator_steps_local fuel).1 h2 σ h s1 s2 hne,
   any_generators_independent _ n2 (postorder_generator_steps_local fuel).2 h2 σ h s1 s2 hne⟩

/-- the generators on `((2)1,3)0` (array with an unreachable 2-cycle): post-order 2 1 3 0 then StopIteration, leaves 2 3
then StopIteration; a post-order generator abandoned after two items and a level-order generator stepped in between -/
example : gSolo (poNext 14) (heapOf #[-1, 0, 1, 0, 5, 4]) ⟨0, .init 0⟩ 6 = [some 2, some 1, some 3, some 0, none, none]
    ∧ gSolo (lfNext 14) (heapOf #[-1, 0, 1, 0, 5, 4]) ⟨0, .init 0⟩ 4 = [some 2, some 3, none, none]
    ∧ gSched (poNext 14) lvNext (heapOf #[-1, 0, 1, 0, 5, 4]) ⟨0, .init 0⟩ ⟨1, .init 0⟩ [true, false, true, false, false]
      = [(true, some 2), (false, some 0), (true, some 1), (false, some 1), (false, some 3)] := by decide

end DendroModel.C15
