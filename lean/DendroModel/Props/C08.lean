import DendroModel.Model.C08
import DendroModel.Theory.C08Base
import DendroModel.Theory.C08Prune
import DendroModel.Theory.C08Extract
import DendroModel.Theory.C08Spec
import DendroModel.Theory.C08Len
import DendroModel.Theory.C08Cut
import DendroModel.Theory.C08Gen
import DendroModel.Theory.C08ExtractG
import DendroModel.Theory.C08Labels
import DendroModel.Theory.C08Upd
import DendroModel.Theory.C08Parse
import DendroModel.Theory.C08Strike
import DendroModel.Theory.C08UpdFull
import DendroModel.Theory.C08Heap
import DendroModel.Theory.C08Compose
import DendroModel.Theory.C08HeapEq
/-! C08 — property theorems.  Every `theorem` directly in `namespace DendroModel.C08` of this file is an obligation.
They are statements about the definitions `drv_c08` executes (`Model/C08.lean`): the mechanisms as the code runs them
(`pruneTaxa` = strike pass + leaf-removal loop + `T.sup`; `filterLeaves`; `retainTaxa`; `extractTree` = memo-driven fold over
the post-order sequence) against the specification `restrict` (the induced subtree by structural recursion).

Hypotheses used: `InnerNoTaxon t` (taxa sit on leaves), `NoneRej acc` (a taxon-driven filter rejects taxon-less nodes),
`(ids t).Nodup` (node identity).  They are satisfiable: see the `example`s at the end. -/
namespace DendroModel.C08
open DendroModel DendroModel.C08.Aux

/-- (b) suppressing unifurcations after an unsuppressed restriction = restriction with on-the-fly merging
    (the two orders in which the in-place and the extraction mechanisms do it) -/
theorem restrict_sup_commutes (keep : Acc) (t : T) : (restrict keep false t).map T.sup = restrict keep true t :=
  restrict_sup keep t

/-- `prune_taxa` (default leaf/internal flags; post-order strike, then the iterated removal of taxon-less leaves, then
    suppression if asked) yields exactly the subtree induced by the leaves whose taxon is not pruned; it fails
    (`none`) exactly when no leaf survives -/
theorem prune_eq_restrict (P : Nat → Bool) (sup : Bool) (t : T) (h : InnerNoTaxon t) :
    pruneTaxa P true false sup t = restrict (keepTaxa (fun k => !P k)) sup t := by
  rw [prune_eq P sup t h, keepOut_eq]

/-- `filter_leaf_nodes(recursive=True)` / `prune_leaves_without_taxa` with a taxon-driven filter: the resulting tree is the
    induced subtree.  (An arbitrary filter may also accept an internal node that became a leaf; that case is covered by the
    correspondence and the harness oracle only.) -/
theorem filter_eq_restrict (acc : Acc) (hN : NoneRej acc) (sup : Bool) (t : T) (h : InnerNoTaxon t) :
    (filterLeaves acc true sup t).map (·.1) = restrict acc sup t :=
  filter_fst acc hN sup t h

/-- the fuel `t.size` handed to the `while True` loop is never what stops it, for ANY filter and ANY tree: whatever the loop
    returns has no rejected leaf left (it stopped because a pass found nothing to remove) -/
theorem dropLoop_fuel (acc : Acc) (t r : T) (rem : List Nat)
    (hr : dropLoop acc true t.size t [] = some (r, rem)) : rejLeaves acc r = [] :=
  dropLoop_fix_any acc t.size t [] r rem (Nat.le_refl _) hr

/-- `filter_leaf_nodes(recursive=True)` with an ARBITRARY filter on ANY tree (internal taxa, filters that accept a node
    that became a leaf): the loop computes `restrictA` (a childless former internal node is asked too), then suppresses -/
theorem filter_eq_restrictA (acc : Acc) (sup : Bool) (t : T) :
    (filterLeaves acc true sup t).map (·.1) = (restrictA acc t).map (supIf sup) := by
  have spec := dropLoopA_spec acc t.size t [] (Nat.le_refl _)
  unfold filterLeaves
  cases hres : restrictA acc t with
  | none => simp [spec.2 hres]
  | some r => obtain ⟨rm, e, _⟩ := spec.1 r hres; simp [e]

/-- (e) for an arbitrary filter: reported removed nodes ++ nodes of the unsuppressed result is a permutation of the input's nodes -/
theorem removed_spec_any (acc : Acc) (sup : Bool) (t r : T) (rem : List Nat)
    (hr : filterLeaves acc true sup t = some (r, rem)) :
    ∃ r0, restrictA acc t = some r0 ∧ r = supIf sup r0 ∧ (rem ++ ids r0).Perm (ids t) := by
  have spec := dropLoopA_spec acc t.size t [] (Nat.le_refl _)
  unfold filterLeaves at hr
  cases hres : restrictA acc t with
  | none => rw [spec.2 hres] at hr; cases hr
  | some r0 =>
    obtain ⟨rm, e, p⟩ := spec.1 r0 hres
    rw [e] at hr
    simp only [Option.map_some, Option.some.injEq, Prod.mk.injEq, List.nil_append] at hr
    exact ⟨r0, rfl, hr.1.symm, hr.2 ▸ p⟩

/-- the generalised specification is the induced subtree whenever the filter is taxon-driven and taxa sit on leaves -/
theorem restrictA_eq_restrict (acc : Acc) (hN : NoneRej acc) (t : T) (h : InnerNoTaxon t) :
    restrictA acc t = restrict acc false t := restrictA_eq acc hN t h

/-- `filter_leaf_nodes(recursive=False)`: exactly one pass (the fuel is not touched), and (e) for that pass:
    the rejected current leaves ++ the nodes that stay is a permutation of the input's nodes -/
theorem filter_once_spec (acc : Acc) (sup : Bool) (t : T) :
    filterLeaves acc false sup t =
      (if rejLeaves acc t = [] then some (supIf sup t, [])
       else if t.isLeaf then none else some (supIf sup (dropPass acc t), rejLeaves acc t)) ∧
    (¬ rejected acc t = true → (rejLeaves acc t ++ ids (dropPass acc t)).Perm (ids t)) := by
  refine ⟨?_, dropPass_perm acc t⟩
  unfold filterLeaves
  obtain ⟨n, hn⟩ : ∃ n, t.size = n + 1 := ⟨t.size - 1, by have := size_pos t; omega⟩
  rw [hn]
  simp only [dropLoop]
  by_cases hb : rejLeaves acc t = []
  · simp [hb]
  · have hbe : (rejLeaves acc t).isEmpty = false := by
      cases hh : rejLeaves acc t with
      | nil => exact absurd hh hb
      | cons a b => rfl
    by_cases hl : t.isLeaf = true <;> simp [hb, hbe, hl]

/-- "by subtree": `prune_subtree(node i)` (detach the subtree, detach ancestors left childless, suppress if asked) yields
    the subtree induced by the leaves outside the pruned subtree `sub`; nothing but the bare seed is left exactly when the
    induced subtree is empty -/
theorem prune_subtree_eq_restrict (i : Nat) (sup : Bool) (t sub : T) (hnd : (ids t).Nodup) (hne : t.id ≠ i)
    (hf : t.find? i = some sub) :
    restrict (outside (ids sub)) sup t = if (cut i t).cs.isEmpty then none else some (pruneSubtree i sup t) := by
  rw [← restrict_supIf, cut_restrict i t sub hnd hne hf]
  by_cases h : (cut i t).cs.isEmpty = true <;> simp [h, pruneSubtree]

/-- (e) the nodes reported as removed are exactly the removed ones: together with the nodes of the unsuppressed induced
    subtree they are a rearrangement of the nodes of the input (no node twice, none missing, none reported that stayed) -/
theorem removed_spec (acc : Acc) (hN : NoneRej acc) (sup : Bool) (t : T) (h : InnerNoTaxon t) (r : T) (rem : List Nat)
    (hr : filterLeaves acc true sup t = some (r, rem)) :
    ∃ r0, restrict acc false t = some r0 ∧ r = supIf sup r0 ∧ (rem ++ ids r0).Perm (ids t) := by
  have spec := dropLoop_spec acc hN t.size t [] h (Nat.le_refl _)
  unfold filterLeaves at hr
  cases hres : restrict acc false t with
  | none => rw [spec.2 hres] at hr; cases hr
  | some r0 =>
    obtain ⟨rm, e, p⟩ := spec.1 r0 hres
    rw [e] at hr
    simp only [Option.map_some, Option.some.injEq, Prod.mk.injEq, List.nil_append] at hr
    exact ⟨r0, rfl, hr.1.symm, hr.2 ▸ p⟩

/-- (d) retaining `K` = pruning the namespace members outside `K`, and both are the subtree induced by `K`,
    provided the namespace `ns` holds every taxon that sits on a leaf -/
theorem retain_eq_prune_compl (ns : List Nat) (K : Nat → Bool) (sup : Bool) (t : T) (h : InnerNoTaxon t)
    (hns : ∀ lf ∈ t.leaves, ∀ k, lf.taxon = some k → k ∈ ns) :
    retainTaxa ns K sup t = pruneTaxa (fun k => !K k) true false sup t ∧
    retainTaxa ns K sup t = restrict (keepTaxa K) sup t := by
  have e1 : retainTaxa ns K sup t = restrict (keepTaxa K) sup t := by
    unfold retainTaxa
    rw [prune_eq_restrict _ sup t h]
    apply restrict_congr
    intro lf hl
    cases hx : lf.taxon with
    | none => simp [keepTaxa]
    | some k =>
      have := hns lf hl k hx
      simp [keepTaxa, this]
  refine ⟨?_, e1⟩
  rw [e1, prune_eq_restrict _ sup t h]
  apply restrict_congr
  intro lf _
  cases lf.taxon <;> simp [keepTaxa]

/-- `Node.extract_subtree` on the seed (the memo-driven post-order clone with on-the-fly merging, filter applied to leaves
    only as the `extract_tree_with…` wrappers do) yields the induced subtree, node for node: the clone of a node carries that
    node's id (`extraction_source`).  `none` ⇔ the code raises. -/
theorem extract_eq_restrict (acc : Acc) (sup : Bool) (t : T) (hnd : (ids t).Nodup) :
    (extractTree acc true false sup t).toOption = restrict acc sup t := by
  have := extract_eq acc true sup t hnd
  have e : leafKeep true acc = acc := by funext i x; simp [leafKeep]
  rwa [e] at this

/-- with the leaf filter switched off every leaf is kept -/
theorem extract_all_leaves (acc : Acc) (sup : Bool) (t : T) (hnd : (ids t).Nodup) :
    (extractTree acc false false sup t).toOption = restrict (fun _ _ => true) sup t := by
  have := extract_eq acc false sup t hnd
  have e : leafKeep false acc = (fun _ _ => true) := by funext i x; simp [leafKeep]
  rwa [e] at this

/-- on trees whose leaves all carry taxa the wrappers' filter (taxon-less nodes pass) keeps the same leaves as `keepTaxa` -/
theorem taxonFilter_restrict (K : Nat → Bool) (sup : Bool) (t : T) (hl : ∀ lf ∈ t.leaves, lf.taxon ≠ none) :
    restrict (taxonFilter K) sup t = restrict (keepTaxa K) sup t := by
  apply restrict_congr
  intro lf h
  cases hx : lf.taxon with
  | none => exact absurd hx (hl lf h)
  | some k => simp [taxonFilter, keepTaxa]

/-- (d) the API variants as their callers drive them: in-place pruning of the finite list `P`, in-place retaining of `K`
    (which prunes the members of the namespace list `ns` outside `K`), recursive leaf filtering, extraction with the kept taxa
    and extraction WITHOUT the list `P` all produce the same tree (or all fail), whenever `P` lists exactly the leaf taxa
    outside `K` (it may list anything else that is not on the tree) -/
theorem variants_agree (ns P : List Nat) (K : Nat → Bool) (sup : Bool) (t : T) (h : InnerNoTaxon t) (hnd : (ids t).Nodup)
    (hl : ∀ lf ∈ t.leaves, lf.taxon ≠ none) (hns : ∀ lf ∈ t.leaves, ∀ k, lf.taxon = some k → k ∈ ns)
    (hP : ∀ lf ∈ t.leaves, ∀ k, lf.taxon = some k → P.contains k = !K k) :
    let want := restrict (keepTaxa K) sup t
    pruneTaxa (fun k => P.contains k) true false sup t = want ∧
    retainTaxa ns K sup t = want ∧
    (filterLeaves (keepTaxa K) true sup t).map (·.1) = want ∧
    (extractTree (taxonFilter K) true false sup t).toOption = want ∧
    (extractTree (taxonFilter (fun k => !P.contains k)) true false sup t).toOption = want := by
  have r := retain_eq_prune_compl ns K sup t h hns
  refine ⟨?_, r.2, ?_, ?_, ?_⟩
  · rw [prune_eq_restrict _ sup t h]
    apply restrict_congr
    intro lf hlf
    cases hx : lf.taxon with
    | none => simp [keepTaxa]
    | some k =>
      have := hP lf hlf k hx
      show (!P.contains k) = K k
      rw [this]; simp
  · exact filter_eq_restrict (keepTaxa K) (fun _ => rfl) sup t h
  · rw [extract_eq_restrict _ sup t hnd, taxonFilter_restrict K sup t hl]
  · rw [extract_eq_restrict _ sup t hnd]
    apply restrict_congr
    intro lf hlf
    cases hx : lf.taxon with
    | none => exact absurd hx (hl lf hlf)
    | some k =>
      have := hP lf hlf k hx
      show (!P.contains k) = K k
      rw [this]; simp

/-- (a) the clades (leafset masks of all nodes) of the induced subtree are exactly the non-empty restrictions `C ∩ K`
    of the clades of the original tree; `K` given as a bit mask.  Holds with and without suppression. -/
theorem restrict_clades (Km : Nat) (sup : Bool) (t r : T)
    (hr : restrict (keepTaxa (fun k => Km.testBit k)) sup t = some r) (m : Nat) :
    m ∈ r.masksPost ↔ ∃ c ∈ t.masksPost, m = c &&& Km ∧ m ≠ 0 :=
  (restrict_clades_aux Km sup t).1 r hr m

/-- (a) no leaf survives exactly when `K` misses every clade -/
theorem restrict_none_clades (Km : Nat) (sup : Bool) (t : T)
    (hr : restrict (keepTaxa (fun k => Km.testBit k)) sup t = none) : ∀ c ∈ t.masksPost, c &&& Km = 0 :=
  (restrict_clades_aux Km sup t).2 hr

/-- (b) with suppression declined, weak form: the node records (id, taxon, length, label) of the result are a sublist of
    those of the input, in order (no length moves, nothing new appears) -/
theorem nosuppress_spec (keep : Acc) (t r : T) (hr : restrict keep false t = some r) :
    (heads r).Sublist (heads t) ∧ r.id = t.id ∧ r.len = t.len :=
  nosup_aux keep t r hr

/-- `alive` (used below) is "some kept leaf sits at or below the node", and that is exactly when the restriction is non-empty -/
theorem alive_spec (keep : Acc) (sup : Bool) (t : T) :
    alive keep t = t.leaves.any (fun lf => keep lf.id lf.taxon) ∧ (restrict keep sup t).isSome = alive keep t := by
  refine ⟨alive_any keep t, ?_⟩
  rw [← restrict_supIf, Option.isSome_map, (nodes_restrict keep t).1]

/-- (b) with suppression declined, which nodes stay: the result's nodes (pre-order, with unchanged id, taxon, length, label)
    are exactly the input's nodes that have a kept leaf at or below them -/
theorem nosuppress_nodes (keep : Acc) (t r : T) (hr : restrict keep false t = some r) :
    r.nodes.map head = (t.nodes.filter (alive keep)).map head :=
  (nodes_restrict keep t).2.1 r hr

/-- (b) with suppression declined, the parent/child structure: the result's (parent id, child record) pairs are exactly the
    input's pairs whose child has a kept leaf at or below it, in order: nothing is re-parented -/
theorem nosuppress_edges (keep : Acc) (t r : T) (hr : restrict keep false t = some r) :
    (pedges r).map eview = ((pedges t).filter (fun e => alive keep e.2)).map eview :=
  edges_restrict keep t r hr

/-- (b) with suppression every node of the result has either no or at least two children -/
theorem suppress_no_unary (keep : Acc) (t r : T) (hr : restrict keep true t = some r) : NoUnary r :=
  sup_no_unary keep t r hr

/-- (f) a tree reduced to a single surviving leaf is that leaf, carrying the lengths of all edges on its path to the seed
    (the seed's own included) accumulated by `addLen` in leaf-to-root order -/
theorem single_survivor (keep : Acc) (t lf : T)
    (h1 : t.leaves.filter (fun x => keep x.id x.taxon) = [lf]) :
    ∃ a, pathAcc keep t = some a ∧ restrict keep true t = some (lf.withLen a) :=
  single_aux keep t lf h1

/-- (c) path lengths between surviving leaves are unchanged, with and without suppression: for any two leaf predicates `p`, `q`
    that only select kept leaves (e.g. "is the leaf with id a" for a kept leaf a), the length of the path between the
    leaves they select is the same in the induced subtree as in the original tree (lengths read in ℚ, `None` = 0) -/
theorem restrict_pathlen (keep p q : Acc) (hp : ∀ i x, p i x = true → keep i x = true)
    (hq : ∀ i x, q i x = true → keep i x = true) (sup : Bool) (t r : T) (hw : LensWF t)
    (hr : restrict keep sup t = some r) : dist p q r = dist p q t :=
  dist_restrict keep p q hp hq sup t hw r hr

/-- (c)/(f) so is the length from above the seed's own edge down to any kept leaf -/
theorem restrict_rootlen (keep p : Acc) (hp : ∀ i x, p i x = true → keep i x = true) (sup : Bool) (t r : T) (hw : LensWF t)
    (hr : restrict keep sup t = some r) : (reach p r).map (· + oval r.len) = (reach p t).map (· + oval t.len) :=
  ((reach_restrict keep p hp sup t hw).1 r hr).1

/-- `Node.extract_subtree` called on ANY node `i` of the tree (not only the seed): the clone is the subtree induced below
    that node (`none` ⇔ the call raises) -/
theorem extract_node_eq_restrict (acc : Acc) (fl sup : Bool) (t sub : T) (i : Nat) (hnd : (ids t).Nodup) (hne : i ≠ t.id)
    (hf : t.find? i = some sub) :
    (extractNode acc fl false sup t i).toOption = restrict (leafKeep fl acc) sup sub :=
  extractNode_eq acc fl sup t sub i hnd hne hf

/-- extraction, including WHICH exception: `ValueError` iff the seed is a leaf the filter rejects, `SeedNodeDeletionException`
    iff the seed has children and no leaf survives -/
theorem extract_error_kind (acc : Acc) (fl sup : Bool) (t : T) (hnd : (ids t).Nodup) :
    extractTree acc fl false sup t =
      match restrict (leafKeep fl acc) sup t with
      | some r => .ok r
      | none => if t.cs.isEmpty then .valueError else .seedDeletion :=
  extract_full acc fl sup t hnd

/-- the executable exact-fraction path length the driver prints (`measure`) denotes the rational path length of the theorems -/
theorem distF_denotes (p q : Acc) (t : T) (hw : LensWF t) : (distF p q t).map oval = dist p q t :=
  distF_val p q t hw

/-- (c) stated on the executable measurement: the driver-computed path lengths of the induced subtree and of the input agree -/
theorem restrict_pathlen_exec (keep p q : Acc) (hp : ∀ i x, p i x = true → keep i x = true)
    (hq : ∀ i x, q i x = true → keep i x = true) (sup : Bool) (t r : T) (hw : LensWF t) (hwr : LensWF r)
    (hr : restrict keep sup t = some r) : (distF p q r).map oval = (distF p q t).map oval := by
  rw [distF_val p q r hwr, distF_val p q t hw]
  exact dist_restrict keep p q hp hq sup t hw r hr

/-! ### both filter flags (`is_apply_filter_to_leaf_nodes`, `is_apply_filter_to_internal_nodes`) -/

/-- `Node.extract_subtree` / `Tree.extract_tree` for ANY setting of the two filter flags: the memo-driven fold computes the
    recursive specification `exSpec` (a rejected node goes with everything below it, an internal node without surviving child
    goes, single children are merged when asked), and raises `ValueError` exactly when the seed itself is rejected by the
    filter, `SeedNodeDeletionException` exactly when the seed passes but nothing below it survives -/
theorem extract_flags_eq_spec (acc : Acc) (fl fi sup : Bool) (t : T) (hnd : (ids t).Nodup) :
    extractTree acc fl fi sup t =
      match exSpec acc fl fi sup t with
      | some r => .ok r
      | none => exErr acc fl fi t :=
  extractG_full acc fl fi sup t hnd

/-- with the internal-node filter off, the two-flag specification is the induced subtree -/
theorem exSpec_without_internal_filter (acc : Acc) (fl sup : Bool) (t : T) :
    exSpec acc fl false sup t = restrict (leafKeep fl acc) sup t :=
  exSpec_fi_false acc fl sup t

/-- `prune_taxa` with arbitrary flags on an arbitrary tree (taxa on internal nodes included).  NOTE what this is: only the
    SECOND phase is given a specification here — the `while` loop equals the recursive `restrictA hasTaxon` ("drop taxon-less
    leaves until none is left"), then suppression.  The first phase appears on the right-hand side as the model's own recursive
    `strike` pass: for `fl = false` or taxa on internal nodes there is no independent specification (the docstring of
    `prune_taxa` gives none), neither here nor in the harness (correspondence + well-formedness only).  On trees whose taxa sit
    on leaves the full statement is `prune_eq_restrict` / `prune_internal_flag_eq_restrict`. -/
theorem prune_flags_eq_spec (P : Nat → Bool) (fl fi sup : Bool) (t : T) :
    pruneTaxa P fl fi sup t = (strike P fl fi t).bind (fun t1 => (restrictA hasTaxon t1).map (supIf sup)) := by
  unfold pruneTaxa
  cases hs : strike P fl fi t with
  | none => rfl
  | some t1 =>
    simp only [Option.bind_some]
    exact filter_eq_restrictA hasTaxon sup t1

mutual
/-- on a tree whose taxa sit on leaves the internal-node flag of `prune_taxa` changes nothing -/
theorem strike_internal_flag_irrelevant (P : Nat → Bool) (fl fi : Bool) : ∀ t : T, InnerNoTaxon t →
    strike P fl fi t = strike P fl false t
  | .node i x l s [], _ => by simp [strike, strikeL]
  | .node i x l s (c :: cs), h => by
      simp only [InnerNoTaxon] at h
      have hx : x = none := h.1 (by simp)
      simp only [strike, strikeL_internal_flag_irrelevant P fl fi (c :: cs) h.2, hx, inP, Bool.and_false]
theorem strikeL_internal_flag_irrelevant (P : Nat → Bool) (fl fi : Bool) : ∀ cs : List T, InnerNoTaxonL cs →
    strikeL P fl fi cs = strikeL P fl false cs
  | [], _ => rfl
  | c :: cs, h => by
      simp only [InnerNoTaxonL] at h
      simp only [strikeL, strike_internal_flag_irrelevant P fl fi c h.1, strikeL_internal_flag_irrelevant P fl fi cs h.2]
end

/-- hence `prune_taxa(..., is_apply_filter_to_internal_nodes=True)` still yields the induced subtree there -/
theorem prune_internal_flag_eq_restrict (P : Nat → Bool) (fi sup : Bool) (t : T) (h : InnerNoTaxon t) :
    pruneTaxa P true fi sup t = restrict (keepTaxa (fun k => !P k)) sup t := by
  rw [← prune_eq_restrict P sup t h]
  unfold pruneTaxa
  rw [strike_internal_flag_irrelevant P true fi t h]

/-! ### by-label entry points -/

/-- `TaxonNamespace.get_taxa(labels)` as the by-label entry points use it: it collects exactly the members whose label one of
    the given labels names under the namespace's case rule, each once -/
theorem get_taxa_spec (cs : Bool) (ns : Ns) (labels : List String) :
    (∀ k, k ∈ getTaxa cs ns labels ↔ ∃ m ∈ ns, m.1 = k ∧ ∃ g ∈ labels, labelMatch cs m.2 g = true) ∧
    (getTaxa cs ns labels).Nodup :=
  ⟨mem_getTaxa cs ns labels, getTaxa_nodup cs ns labels⟩

/-- with distinct accession bits, a taxon is `named` iff THE label it carries matches one of the given labels -/
theorem named_iff_label (cs : Bool) (ns : Ns) (labels : List String) (k : Nat) (lab : String)
    (hnd : (ns.map (·.1)).Nodup) (hm : (k, lab) ∈ ns) :
    named cs ns labels k = labels.any (fun g => labelMatch cs lab g) :=
  named_of_label cs ns labels k lab hnd hm

/-- (d) by label: `prune_taxa_with_labels`, `retain_taxa_with_labels`, `extract_tree_with_taxa_labels` and
    `extract_tree_without_taxa_labels`, each resolving the labels through the namespace, yield the subtree induced by the leaves
    whose labels are not named (prune / without) resp. named (retain / with) — however many taxa share a label or differ from
    it only in case -/
theorem labels_variants_eq_restrict (cs : Bool) (ns : Ns) (labels : List String) (sup : Bool) (t : T)
    (h : InnerNoTaxon t) (hnd : (ids t).Nodup) (hl : ∀ lf ∈ t.leaves, lf.taxon ≠ none)
    (hns : ∀ lf ∈ t.leaves, ∀ k, lf.taxon = some k → k ∈ ns.map (·.1)) :
    pruneWithLabels cs ns labels sup t = restrict (keepTaxa (fun k => !named cs ns labels k)) sup t ∧
    retainWithLabels cs ns labels sup t = restrict (keepTaxa (named cs ns labels)) sup t ∧
    (extractWithLabels cs ns labels sup t).toOption = restrict (keepTaxa (named cs ns labels)) sup t ∧
    (extractWithoutLabels cs ns labels sup t).toOption = restrict (keepTaxa (fun k => !named cs ns labels k)) sup t := by
  have e : (fun k => (getTaxa cs ns labels).contains k) = named cs ns labels := by
    funext k; exact getTaxa_contains cs ns labels k
  have e' : (fun k => !(getTaxa cs ns labels).contains k) = (fun k => !named cs ns labels k) := by
    funext k; rw [getTaxa_contains]
  refine ⟨?_, ?_, ?_, ?_⟩
  · unfold pruneWithLabels; rw [e, prune_eq_restrict _ sup t h]
  · unfold retainWithLabels; rw [e]; exact (retain_eq_prune_compl _ _ sup t h hns).2
  · unfold extractWithLabels; rw [e, extract_eq_restrict _ sup t hnd, taxonFilter_restrict _ sup t hl]
  · unfold extractWithoutLabels; rw [e', extract_eq_restrict _ sup t hnd, taxonFilter_restrict _ sup t hl]

/-- (d) by label: pruning the labels `gs` and retaining the labels `hs` agree whenever, on the leaves of the tree, `hs` names
    exactly the taxa `gs` does not name (complementary label lists) -/
theorem labels_prune_retain_agree (cs : Bool) (ns : Ns) (gs hs : List String) (sup : Bool) (t : T)
    (h : InnerNoTaxon t) (hns : ∀ lf ∈ t.leaves, ∀ k, lf.taxon = some k → k ∈ ns.map (·.1))
    (hc : ∀ lf ∈ t.leaves, ∀ k, lf.taxon = some k → named cs ns hs k = !named cs ns gs k) :
    pruneWithLabels cs ns gs sup t = retainWithLabels cs ns hs sup t := by
  have e1 : (fun k => (getTaxa cs ns gs).contains k) = named cs ns gs := by funext k; exact getTaxa_contains cs ns gs k
  have e2 : (fun k => (getTaxa cs ns hs).contains k) = named cs ns hs := by funext k; exact getTaxa_contains cs ns hs k
  unfold pruneWithLabels retainWithLabels
  rw [e1, e2, prune_eq_restrict _ sup t h, (retain_eq_prune_compl _ _ sup t h hns).2]
  apply restrict_congr
  intro lf hlf
  cases hx : lf.taxon with
  | none => rfl
  | some k =>
    have := hc lf hlf k hx
    show (!named cs ns gs k) = named cs ns hs k
    rw [this]

/-! ### `update_bipartitions=True` -/

/-- pruning / retaining / filtering with `update_bipartitions=True`.  NOTE what this is: the model DEFINES the result of these
    calls as the in-place routine followed by `reencode` (C01's `encode` with the caller's suppress flag), mirroring the code's
    `self.update_bipartitions(suppress_unifurcations=…)`; the theorem only transports `prune_eq_restrict` & co. through that
    definition (the re-encoding is applied to the induced subtree).  What the re-encoding does to the induced subtree is stated
    by `upd_rooted_encoding` (rooted) and `upd_not_rooted`, `collapse_keeps_leafset_drops_one_clade`, `upd_leafsets_any_rooting`
    (unrooted / undefined rooting); that the code behaves like the model here is the correspondence (all rooting states). -/
theorem upd_eq_fresh_encoding (rooted : Option Bool) (ns : List Nat) (K : Nat → Bool) (sup : Bool) (t : T) (h : InnerNoTaxon t)
    (hns : ∀ lf ∈ t.leaves, ∀ k, lf.taxon = some k → k ∈ ns) :
    pruneTaxaUpd rooted (fun k => !K k) sup t = (restrict (keepTaxa K) sup t).map (reencode rooted sup) ∧
    retainTaxaUpd rooted ns K sup t = (restrict (keepTaxa K) sup t).map (reencode rooted sup) ∧
    filterLeavesUpd rooted (keepTaxa K) sup t = (restrict (keepTaxa K) sup t).map (reencode rooted sup) := by
  have r := retain_eq_prune_compl ns K sup t h hns
  refine ⟨?_, ?_, ?_⟩
  · unfold pruneTaxaUpd; rw [← r.1, r.2]
  · unfold retainTaxaUpd; rw [r.2]
  · unfold filterLeavesUpd
    rw [← filter_eq_restrict (keepTaxa K) (fun _ => rfl) sup t h, Option.map_map]
    rfl

/-- on a ROOTED tree the re-encoding leaves the induced subtree exactly as it is (nothing is collapsed; nothing is left to
    suppress, or suppression was declined) and lists one (leafset, split = leafset) pair per node, in post-order -/
theorem upd_rooted_encoding (keep : Acc) (sup : Bool) (t r : T) (hr : restrict keep sup t = some r) :
    reencode (some true) sup r = (r, r.masksPost.map (fun (m : Nat) => (m, (m : Int)))) :=
  reencode_rooted keep sup t r hr

/-- hence (a) for the encoding itself: after pruning a rooted tree with `update_bipartitions=True`, the leafsets in
    `bipartition_encoding` are exactly the non-empty restrictions `C ∩ K` of the original clades -/
theorem upd_rooted_leafsets (Km : Nat) (sup : Bool) (t : T) (h : InnerNoTaxon t) (r : T) (enc : List (Nat × Int))
    (hp : pruneTaxaUpd (some true) (fun k => !Km.testBit k) sup t = some (r, enc)) (m : Nat) :
    m ∈ enc.map (·.1) ↔ ∃ c ∈ t.masksPost, m = c &&& Km ∧ m ≠ 0 := by
  unfold pruneTaxaUpd at hp
  have e : (fun k => !(!Km.testBit k)) = (fun k => Km.testBit k) := by funext k; simp
  rw [prune_eq_restrict _ sup t h, e] at hp
  cases hr : restrict (keepTaxa (fun k => Km.testBit k)) sup t with
  | none => rw [hr] at hp; cases hp
  | some r0 =>
    rw [hr] at hp
    simp only [Option.map_some, Option.some.injEq] at hp
    rw [upd_rooted_encoding _ sup t r0 hr] at hp
    simp only [Prod.mk.injEq] at hp
    rw [← hp.2, List.map_map]
    have : (fun x : Nat × Int => x.1) ∘ (fun (m : Nat) => (m, (m : Int))) = id := by funext m; rfl
    rw [this, List.map_id]
    exact restrict_clades Km sup t r0 hr m

/-- `prune_subtree(node, update_bipartitions=True)` on a rooted tree: the re-encoding leaves the pruned tree as it is and lists
    one (leafset, split = leafset) pair per node of it -/
theorem upd_subtree_rooted (i : Nat) (sup : Bool) (t sub : T) (hnd : (ids t).Nodup) (hne : t.id ≠ i)
    (hf : t.find? i = some sub) (hk : (cut i t).cs.isEmpty = false) :
    pruneSubtreeUpd (some true) i sup t =
      (pruneSubtree i sup t, (pruneSubtree i sup t).masksPost.map (fun (m : Nat) => (m, (m : Int)))) := by
  have h := prune_subtree_eq_restrict i sup t sub hnd hne hf
  rw [hk] at h
  simp only [Bool.false_eq_true, if_false] at h
  exact upd_rooted_encoding _ sup t _ h

/-- `Node.extract_subtree` started at any non-seed node, any setting of the two filter flags: the clone is the two-flag
    specification applied to the subtree below that node (`none` ⇔ the call raises) -/
theorem extract_node_flags_eq_spec (acc : Acc) (fl fi sup : Bool) (t sub : T) (i : Nat) (hnd : (ids t).Nodup) (hne : i ≠ t.id)
    (hf : t.find? i = some sub) :
    (extractNode acc fl fi sup t i).toOption = exSpec acc fl fi sup sub := by
  have hs : (ids sub).Nodup := List.Sublist.nodup (find_sublist i t sub hf) hnd
  have hb : (i == t.id) = false := by simpa using hne
  unfold extractNode
  rw [if_neg (by simp [hb])]
  simp only [hf]
  rw [extract_flags_eq_spec acc fl fi sup sub hs]
  cases exSpec acc fl fi sup sub with
  | some r => rfl
  | none =>
    obtain ⟨j, x, l, s, cs⟩ := sub
    have he : exErr acc fl fi (T.node j x l s cs) = .valueError ∨ exErr acc fl fi (T.node j x l s cs) = .seedDeletion := by
      simp only [exErr]
      by_cases hc : ((if cs.isEmpty then fl else fi) && !acc j x) = true
      · exact Or.inl (if_pos hc)
      · exact Or.inr (if_neg hc)
    rcases he with he | he <;> rw [he] <;> rfl

/-- re-encoding a tree that is NOT rooted (`is_rooted` False or None), as `update_bipartitions=True` does after an in-place
    pruning: the tree becomes the induced subtree with its basal bifurcation collapsed (then suppressed if asked), and the
    encoding lists exactly the leafsets of that tree, one per node in post-order -/
theorem upd_not_rooted (rooted : Option Bool) (hr : rooted ≠ some true) (sup : Bool) (r : T) :
    (reencode rooted sup r).1 = supIf sup r.collapseBasal ∧
    (reencode rooted sup r).2.map (·.1) = (supIf sup r.collapseBasal).masksPost :=
  reencode_not_rooted rooted hr sup r

/-- the collapse of the basal bifurcation keeps the tree's leafset and drops at most the clade of the dissolved child:
    the clade masks of the collapsed tree are a sublist of those of the tree -/
theorem collapse_keeps_leafset_drops_one_clade (t : T) :
    t.collapseBasal.mask = t.mask ∧ t.collapseBasal.masksPost.Sublist t.masksPost ∧
    t.collapseBasal.masksPost.length + 1 ≥ t.masksPost.length := by
  refine ⟨(collapse_masks t).1, (collapse_masks t).2, ?_⟩
  obtain ⟨i, x, l, s, cs⟩ := t
  match cs with
  | [] => simp [T.collapseBasal]
  | [a] => simp [T.collapseBasal]
  | a :: b :: c :: r => simp [T.collapseBasal]
  | [a, b] =>
    simp only [T.collapseBasal]
    obtain ⟨ja, ya, ma, ua, da⟩ := a
    obtain ⟨jb, yb, mb, ub, db⟩ := b
    have hpl : ∀ (xs : List T) (z : T), (T.masksPostL (xs ++ [z])).length = (T.masksPostL xs).length + z.masksPost.length := by
      intro xs z; induction xs with
      | nil => simp [T.masksPostL]
      | cons q qs ih => simp [T.masksPostL, ih]; omega
    by_cases hb : db.length ≥ 2
    · simp [T.cs, hb, T.masksPost, T.masksPostL, T.withLen]; omega
    · by_cases ha : da.length ≥ 2
      · simp [T.cs, hb, ha, T.masksPost, T.masksPostL, T.withLen, hpl]; omega
      · simp [T.cs, hb, ha]

/-- (a) for the encoding, every rooting state: after `prune_taxa(…, update_bipartitions=True)` the tree's leafset is the
    restriction of the original leafset, and every leafset listed in `bipartition_encoding` is a non-empty restriction `C ∩ K`
    of an original clade (on a rooted tree all of them are listed: `upd_rooted_leafsets`; on an unrooted one the clade of the
    dissolved basal child may be missing: `collapse_keeps_leafset_drops_one_clade`) -/
theorem upd_leafsets_any_rooting (rooted : Option Bool) (Km : Nat) (sup : Bool) (t : T) (h : InnerNoTaxon t) (r : T)
    (enc : List (Nat × Int)) (hp : pruneTaxaUpd rooted (fun k => !Km.testBit k) sup t = some (r, enc)) :
    r.mask = t.mask &&& Km ∧ ∀ m ∈ enc.map (·.1), ∃ c ∈ t.masksPost, m = c &&& Km ∧ m ≠ 0 := by
  unfold pruneTaxaUpd at hp
  have e : (fun k => !(!Km.testBit k)) = (fun k => Km.testBit k) := by funext k; simp
  rw [prune_eq_restrict _ sup t h, e] at hp
  cases hr : restrict (keepTaxa (fun k => Km.testBit k)) sup t with
  | none => rw [hr] at hp; cases hp
  | some r0 =>
    rw [hr] at hp
    simp only [Option.map_some, Option.some.injEq] at hp
    have hm0 := ((restrict_mask Km sup t).1 r0 hr).1
    by_cases hroot : rooted = some true
    · subst hroot
      rw [upd_rooted_encoding _ sup t r0 hr] at hp
      simp only [Prod.mk.injEq] at hp
      refine ⟨hp.1 ▸ hm0, fun m hm => ?_⟩
      rw [← hp.2, List.map_map] at hm
      have : (fun x : Nat × Int => x.1) ∘ (fun (m : Nat) => (m, (m : Int))) = id := by funext m; rfl
      rw [this, List.map_id] at hm
      exact (restrict_clades Km sup t r0 hr m).mp hm
    · obtain ⟨h1, h2⟩ := upd_not_rooted rooted hroot sup r0
      have hr1 : r = (reencode rooted sup r0).1 := by rw [hp]
      have he1 : enc = (reencode rooted sup r0).2 := by rw [hp]
      refine ⟨?_, fun m hm => ?_⟩
      · rw [hr1, h1, supIf_mask, (collapse_masks r0).1, hm0]
      · rw [he1, h2] at hm
        have hm' := (supIf_masks sup _ m).mp hm
        exact (restrict_clades Km sup t r0 hr m).mp ((collapse_masks r0).2.subset hm')

/-- a filter that accepts every node that has children makes the internal-node flag irrelevant: the two-flag specification
    is the induced subtree -/
theorem exSpec_eq_restrict_of_accepting_inner (acc : Acc) (fl fi sup : Bool) (t : T) (h : AccInner acc t) :
    exSpec acc fl fi sup t = restrict (leafKeep fl acc) sup t :=
  exSpec_accInner acc fl fi sup t h

/-- in particular the `extract_tree_with(out)_taxa(_labels)` filter ("taxon-less nodes pass") on a tree whose taxa sit on
    leaves: extraction with `is_apply_filter_to_internal_nodes=True` still yields the induced subtree -/
theorem extract_wrapper_filter_internal_flag (K : Nat → Bool) (fi sup : Bool) (t : T) (h : InnerNoTaxon t) (hnd : (ids t).Nodup) :
    (extractTree (taxonFilter K) true fi sup t).toOption = restrict (taxonFilter K) sup t := by
  rw [extract_flags_eq_spec _ true fi sup t hnd, exSpec_eq_restrict_of_accepting_inner _ true fi sup t (accInner_taxonFilter K t h)]
  have e : leafKeep true (taxonFilter K) = taxonFilter K := by funext i x; simp [leafKeep]
  rw [e]
  cases hr : restrict (taxonFilter K) sup t with
  | some r => rfl
  | none =>
    obtain ⟨j, x, l, s, cs⟩ := t
    have he : exErr (taxonFilter K) true fi (T.node j x l s cs) = .valueError ∨ exErr (taxonFilter K) true fi (T.node j x l s cs) = .seedDeletion := by
      simp only [exErr]
      by_cases hc : ((if cs.isEmpty then true else fi) && !taxonFilter K j x) = true
      · exact Or.inl (if_pos hc)
      · exact Or.inr (if_neg hc)
    rcases he with he | he <;> simp only [he] <;> rfl

/-! ### well-formed lengths are not an assumption about driver inputs -/

/-- every tree the driver parses from a protocol line has well-formed lengths (non-zero denominators) -/
theorem parsed_lengths_wf (toks : List String) (t : T) (rest : List String) (h : parseTree toks = some (t, rest)) : LensWF t :=
  parseTree_lensWF toks t rest h

/-- the two side conditions of the theorems above hold for every tree a driver op works on — `LensWF` because the parser only
    produces such lengths (derived), `(ids t).Nodup` because the driver's input guard `checkedTree` refuses a tree that names a node
    id twice (enforced at the boundary, NOT derived from `parseTree`; the harness numbers nodes in pre-order) -/
theorem checked_input_ok (toks : List String) (t : T) (rest : List String) (h : checkedTree toks = some (t, rest)) :
    (ids t).Nodup ∧ LensWF t := by
  unfold checkedTree at h
  cases hp : parseTree toks with
  | none => rw [hp] at h; cases h
  | some p =>
    obtain ⟨t', rest'⟩ := p
    rw [hp] at h
    simp only at h
    by_cases hn : (ids t').Nodup
    · simp only [hn, if_true, Option.some.injEq, Prod.mk.injEq] at h
      exact ⟨h.1 ▸ hn, h.1 ▸ parseTree_lensWF toks t' rest' hp⟩
    · simp [hn] at h

/-- and so has every induced subtree of a tree with well-formed lengths -/
theorem restrict_lengths_wf (keep : Acc) (sup : Bool) (t r : T) (hw : LensWF t) (hr : restrict keep sup t = some r) : LensWF r :=
  restrict_lensWF keep sup t r hw hr

/-- (c) for driver inputs, with no side condition left: the executable path lengths of the induced subtree and of the parsed
    tree agree in ℚ -/
theorem restrict_pathlen_parsed (keep p q : Acc) (hp : ∀ i x, p i x = true → keep i x = true)
    (hq : ∀ i x, q i x = true → keep i x = true) (sup : Bool) (toks rest : List String) (t r : T)
    (hparse : parseTree toks = some (t, rest)) (hr : restrict keep sup t = some r) :
    (distF p q r).map oval = (distF p q t).map oval :=
  restrict_pathlen_exec keep p q hp hq sup t r (parseTree_lensWF toks t rest hparse)
    (restrict_lensWF keep sup t r (parseTree_lensWF toks t rest hparse) hr) hr

/-! ### distinct node ids are DERIVED for driver inputs -/

/-- every tree the shared protocol parser returns has pairwise distinct node ids, for any token list it accepts (parent arrays
    with cycles or dangling entries included: those are unreachable from the entry whose parent is -1); via the C15 analysis of
    `buildTree` -/
theorem parseTree_ids_nodup (toks : List String) (t : T) (rest : List String) (h : parseTree toks = some (t, rest)) :
    (ids t).Nodup :=
  parseTree_ids_nodup' toks t rest h

/-- so the driver's input guard never refuses anything the parser accepts: `checkedTree` IS `parseTree`, and the hypotheses
    `(ids t).Nodup`, `LensWF t` of the theorems above hold for every driver input without relying on the guard -/
theorem checked_guard_never_fires (toks : List String) : checkedTree toks = parseTree toks := by
  unfold checkedTree
  cases hp : parseTree toks with
  | none => rfl
  | some p =>
    obtain ⟨t, rest⟩ := p
    simp [parseTree_ids_nodup toks t rest hp]

/-- extraction on a parsed tree, no side condition left: the memo fold equals the two-flag specification -/
theorem extract_flags_parsed (acc : Acc) (fl fi sup : Bool) (toks rest : List String) (t : T)
    (hparse : parseTree toks = some (t, rest)) :
    extractTree acc fl fi sup t = match exSpec acc fl fi sup t with | some r => .ok r | none => exErr acc fl fi t :=
  extract_flags_eq_spec acc fl fi sup t (parseTree_ids_nodup toks t rest hparse)

/-! ### the first pass of `prune_taxa` on arbitrary trees (taxa on internal nodes), independently described -/

/-- `allIn` is "every node at or below carries a pruned taxon", stated on the flat node list -/
theorem allIn_spec (P : Nat → Bool) (t : T) : allIn P t = t.nodes.all (fun n => inP P n.taxon) :=
  allIn_nodes P t

/-- default flags (leaf flag on, internal flag off), any tree: the post-order `strike` pass removes EXACTLY the nodes all of whose
    subtree (themselves included) carries pruned taxa — the surviving nodes are the others, in pre-order with unchanged records,
    and the parent/child pairs among them are unchanged; the seed goes iff everything carries pruned taxa -/
theorem strike_default_spec (P : Nat → Bool) (t : T) :
    (strike P true false t).isNone = allIn P t ∧
    (∀ r, strike P true false t = some r →
      r.nodes.map head = (t.nodes.filter (fun n => !allIn P n)).map head ∧
      (pedges r).map eview = ((pedges t).filter (fun e => !allIn P e.2)).map eview) :=
  ⟨(strike_default P t).1, fun r hr => ((strike_default P t).2 r hr).2⟩

/-- the first pass for the three flag settings that have a closed description equals `strikeSpec` (the driver runs it: op
    `strikespec`; the harness compares it with a from-scratch computation): both flags on = every node carrying a pruned taxon goes
    with its subtree (`chop`, decided top-down); default = `sweep` (top-down with `allIn`); both off = nothing happens.
    leaf flag off + internal flag on = `goneFI` / `dropFI` (see `strike_leaf_off_internal_on`). -/
theorem strike_eq_strikeSpec (P : Nat → Bool) (fl fi : Bool) (t : T) (r : Option T)
    (h : strikeSpec P fl fi t = some r) : strike P fl fi t = r := by
  cases fl <;> cases fi <;> simp only [strikeSpec, Option.some.injEq] at h
  · rw [← h]; exact strike_none P t
  · rw [← h]; exact strike_fi P t
  · rw [← h]; exact strike_eq_sweep P t
  · rw [← h]; exact strike_both P t

/-- hence `prune_taxa` with those flag settings on ANY tree, both phases specified independently of the loops:
    `strikeSpec`, then `restrictA hasTaxon` (taxon-less leaves go until none is left), then suppression -/
theorem prune_flags_full_spec (P : Nat → Bool) (fl fi sup : Bool) (t : T) (r : Option T)
    (h : strikeSpec P fl fi t = some r) :
    pruneTaxa P fl fi sup t = r.bind (fun t1 => (restrictA hasTaxon t1).map (supIf sup)) := by
  rw [prune_flags_eq_spec, strike_eq_strikeSpec P fl fi t r h]

/-- GAP CLOSED (`prune_taxa` with leaf flag off, internal flag on, any tree): the post-order pass removes exactly the nodes `goneFI`
    condemns, each with everything below it (`dropFI`, decided top-down without running the pass), where a node is condemned iff it
    carries a pruned taxon and at least one of its children is NOT condemned; a leaf never is.  (So along a chain of nodes that all
    carry pruned taxa every second one goes: the rule alternates, which is why no description by "all/some of the subtree" exists.) -/
theorem strike_leaf_off_internal_on (P : Nat → Bool) (t : T) :
    strike P false true t = (if goneFI P t then none else some (dropFI P t)) ∧
    goneFI P t = (inP P t.taxon && t.cs.any (fun c => !goneFI P c)) ∧ (t.cs = [] → goneFI P t = false) := by
  have hany : ∀ cs : List T, someStaysFI P cs = cs.any (fun c => !goneFI P c) := by
    intro cs; induction cs with
    | nil => rfl
    | cons c cs ih => simp [someStaysFI, ih]
  refine ⟨strike_fi P t, ?_, ?_⟩
  · obtain ⟨i, x, l, s, cs⟩ := t
    simp [goneFI, hany, T.taxon, T.cs]
  · obtain ⟨i, x, l, s, cs⟩ := t
    intro h; simp only [T.cs] at h; subst h; simp [goneFI, someStaysFI]

/-- hence `prune_taxa` has a two-phase specification independent of its loops for EVERY setting of the two flags on every tree -/
theorem prune_taxa_every_flag_setting (P : Nat → Bool) (fl fi sup : Bool) (t : T) :
    ∃ r, strikeSpec P fl fi t = some r ∧ pruneTaxa P fl fi sup t = r.bind (fun t1 => (restrictA hasTaxon t1).map (supIf sup)) := by
  have : ∃ r, strikeSpec P fl fi t = some r := by cases fl <;> cases fi <;> exact ⟨_, rfl⟩
  obtain ⟨r, hr⟩ := this
  exact ⟨r, hr, prune_flags_full_spec P fl fi sup t r hr⟩

/-! ### by label and `prune_leaves_without_taxa`, with `update_bipartitions=True`, any rooting state -/

/-- `prune_taxa_with_labels` / `retain_taxa_with_labels(…, update_bipartitions=True)`: the re-encoding (`reencode`: basal collapse
    when not rooted, suppression, fresh leafset/split list — see `upd_rooted_encoding`, `upd_not_rooted`) applied to the subtree
    induced by the leaves whose labels are not named resp. named -/
theorem labels_upd_eq (rooted : Option Bool) (cs : Bool) (ns : Ns) (labels : List String) (sup : Bool) (t : T)
    (h : InnerNoTaxon t) (hnd : (ids t).Nodup) (hl : ∀ lf ∈ t.leaves, lf.taxon ≠ none)
    (hns : ∀ lf ∈ t.leaves, ∀ k, lf.taxon = some k → k ∈ ns.map (·.1)) :
    pruneWithLabelsUpd rooted cs ns labels sup t
      = (restrict (keepTaxa (fun k => !named cs ns labels k)) sup t).map (reencode rooted sup) ∧
    retainWithLabelsUpd rooted cs ns labels sup t
      = (restrict (keepTaxa (named cs ns labels)) sup t).map (reencode rooted sup) := by
  obtain ⟨h1, h2, _, _⟩ := labels_variants_eq_restrict cs ns labels sup t h hnd hl hns
  exact ⟨by unfold pruneWithLabelsUpd; rw [h1], by unfold retainWithLabelsUpd; rw [h2]⟩

/-- `prune_leaves_without_taxa(update_bipartitions=True)` on a tree whose internal nodes carry no taxon, any rooting state: the
    re-encoding of the subtree induced by the leaves that carry a taxon; when the tree is not rooted that is the induced subtree
    with its basal bifurcation collapsed, and the encoding lists exactly its clades -/
theorem plwt_upd_eq (rooted : Option Bool) (sup : Bool) (t : T) (h : InnerNoTaxon t) :
    pruneLeavesWithoutTaxaUpd rooted sup t = (restrict hasTaxon sup t).map (reencode rooted sup) ∧
    (rooted ≠ some true → ∀ r x, pruneLeavesWithoutTaxaUpd rooted sup t = some (r, x) →
      ∃ r0, restrict hasTaxon sup t = some r0 ∧ r = supIf sup r0.collapseBasal ∧ x.map (·.1) = r.masksPost) := by
  have e : pruneLeavesWithoutTaxaUpd rooted sup t = (restrict hasTaxon sup t).map (reencode rooted sup) := by
    unfold pruneLeavesWithoutTaxaUpd filterLeavesUpd
    rw [← filter_eq_restrict hasTaxon (fun _ => rfl) sup t h, Option.map_map]
    rfl
  refine ⟨e, fun hr r x hx => ?_⟩
  rw [e] at hx
  cases hres : restrict hasTaxon sup t with
  | none => rw [hres] at hx; cases hx
  | some r0 =>
    rw [hres] at hx
    simp only [Option.map_some, Option.some.injEq] at hx
    obtain ⟨h1, h2⟩ := upd_not_rooted rooted hr sup r0
    rw [hx] at h1 h2
    simp only at h1 h2
    exact ⟨r0, rfl, h1, by rw [h2, h1]⟩

/-! ### `update_bipartitions=True` on trees that are not rooted, in full -/

/-- GAP CLOSED (unrooted `update_bipartitions`): on a tree that is not rooted (`is_rooted` False or None) the re-encoding after an
    in-place pruning leaves exactly the induced subtree with its basal bifurcation collapsed — nothing else moves: with suppression
    requested there is nothing left to suppress, the collapse creates no unary node — and stores one (leafset, split) pair per node of
    that tree in post-order, the split being the leafset normalised within the tree's own leafset on its lowest set bit
    (`Hier.norm`: complement within the leafset when the lowest bit is in, else unchanged).  The integer functions underneath are the
    ones regenerated from the source (`Gen/PyBits`). -/
theorem upd_unrooted_encoding (rooted : Option Bool) (hroot : rooted ≠ some true) (keep : Acc) (sup : Bool) (t r : T)
    (hr : restrict keep sup t = some r) :
    reencode rooted sup r =
      (r.collapseBasal, r.collapseBasal.masksPost.map (fun m => (m, ((Hier.norm r.mask (Lsb.lsb r.mask) m : Nat) : Int)))) :=
  reencode_unrooted_full rooted hroot sup r (fun h => sup_no_unary keep t r (h ▸ hr))

/-- the stored encoding equals a FRESH encoding of the pruned tree, every rooting state: running `encode_bipartitions` (same flags)
    once more on the tree that `update_bipartitions=True` left behind neither changes that tree nor yields another list -/
theorem upd_encoding_is_fresh (rooted : Option Bool) (keep : Acc) (sup : Bool) (t r : T) (hr : restrict keep sup t = some r) :
    reencode rooted sup (reencode rooted sup r).1 = reencode rooted sup r := by
  by_cases hroot : rooted = some true
  · subst hroot
    rw [upd_rooted_encoding keep sup t r hr]
    exact upd_rooted_encoding keep sup t r hr
  · exact reencode_unrooted_idem rooted hroot sup r (fun h => sup_no_unary keep t r (h ▸ hr))

/-- the whole call, not rooted: `prune_taxa` / `retain_taxa` / `filter_leaf_nodes(…, update_bipartitions=True)` on a tree whose taxa
    sit on leaves = induced subtree, basal collapse, closed-form encoding -/
theorem upd_unrooted_calls (rooted : Option Bool) (hroot : rooted ≠ some true) (ns : List Nat) (K : Nat → Bool) (sup : Bool) (t : T)
    (h : InnerNoTaxon t) (hns : ∀ lf ∈ t.leaves, ∀ k, lf.taxon = some k → k ∈ ns) :
    let want := (restrict (keepTaxa K) sup t).map (fun r =>
      (r.collapseBasal, r.collapseBasal.masksPost.map (fun m => (m, ((Hier.norm r.mask (Lsb.lsb r.mask) m : Nat) : Int)))))
    pruneTaxaUpd rooted (fun k => !K k) sup t = want ∧ retainTaxaUpd rooted ns K sup t = want ∧
    filterLeavesUpd rooted (keepTaxa K) sup t = want := by
  obtain ⟨h1, h2, h3⟩ := upd_eq_fresh_encoding rooted ns K sup t h hns
  have e : (restrict (keepTaxa K) sup t).map (reencode rooted sup) = (restrict (keepTaxa K) sup t).map (fun r =>
      (r.collapseBasal, r.collapseBasal.masksPost.map (fun m => (m, ((Hier.norm r.mask (Lsb.lsb r.mask) m : Nat) : Int))))) := by
    cases hr : restrict (keepTaxa K) sup t with
    | none => rfl
    | some r => simp only [Option.map_some]; rw [upd_unrooted_encoding rooted hroot _ sup t r hr]
  exact ⟨h1.trans e, h2.trans e, h3.trans e⟩

/-- `prune_subtree(node, update_bipartitions=True)` on a tree that is not rooted -/
theorem upd_subtree_unrooted (rooted : Option Bool) (hroot : rooted ≠ some true) (i : Nat) (sup : Bool) (t sub : T)
    (hnd : (ids t).Nodup) (hne : t.id ≠ i) (hf : t.find? i = some sub) (hk : (cut i t).cs.isEmpty = false) :
    pruneSubtreeUpd rooted i sup t =
      ((pruneSubtree i sup t).collapseBasal, (pruneSubtree i sup t).collapseBasal.masksPost.map (fun m =>
        (m, ((Hier.norm (pruneSubtree i sup t).mask (Lsb.lsb (pruneSubtree i sup t).mask) m : Nat) : Int)))) := by
  have h := prune_subtree_eq_restrict i sup t sub hnd hne hf
  rw [hk] at h
  simp only [Bool.false_eq_true, if_false] at h
  exact upd_unrooted_encoding rooted hroot _ sup t _ h

/-- the basal collapse is idempotent on any tree, and keeps a tree free of unary nodes free of them -/
theorem collapse_basal_idempotent (t : T) :
    t.collapseBasal.collapseBasal = t.collapseBasal ∧ (NoUnary t → NoUnary t.collapseBasal) :=
  ⟨collapse_idem t, collapse_noUnary t⟩

/-! ### tie (A): kernels regenerated from the source on every run (`Gen/C08Kernels.lean`) equal the model's -/

/-- `str.lower()` on ASCII + Latin-1 in closed form: A–Z and À–Þ (without ×) move up by 32, everything else stays -/
def lowerLatin1 (c : Nat) : Nat := if (65 ≤ c ∧ c ≤ 90) ∨ (192 ≤ c ∧ c ≤ 222 ∧ c ≠ 215) then c + 32 else c

/-- GAP CLOSED (non-ASCII case folding, up to the stated boundary): the fold method the source applies to BOTH the given and the
    stored label is `lower`, and its regenerated table is, for every code point below 256, the closed form above (one code point
    in, one out).  Above 255 the model claims nothing and the driver answers `out-of-range`. -/
theorem fold_table_is_latin1_lower :
    C08Kernels.foldMethod = "lower" ∧ C08Kernels.foldLimit = 256 ∧ ∀ c, c < 256 → C08Kernels.foldCp c = [lowerLatin1 c] := by
  refine ⟨by decide, rfl, ?_⟩
  decide +kernel

/-- on ASCII the regenerated folding is the core library's `Char.toLower` (what the model used before) -/
theorem fold_ascii_is_toLower : ∀ c, c < 128 → (C08Kernels.foldCp c).map Char.ofNat = [(Char.ofNat c).toLower] := by
  decide +kernel

/-- label matching folds both sides the same way, so it is an equivalence: a label matches itself, and taxa matching the same given
    label match each other (what makes "the leaves whose label is named" well defined) -/
theorem labelMatch_equiv (cs : Bool) (a b c : String) :
    labelMatch cs a a = true ∧ (labelMatch cs a b = labelMatch cs b a) ∧
    (labelMatch cs a b = true → labelMatch cs b c = true → labelMatch cs a c = true) := by
  refine ⟨by simp [labelMatch], ?_, ?_⟩
  · simp only [labelMatch]; exact Bool.eq_iff_iff.mpr ⟨fun h => by simpa using (by simpa using h : _ = _).symm, fun h => by simpa using (by simpa using h : _ = _).symm⟩
  · simp only [labelMatch, beq_iff_eq]; intro h1 h2; rw [h2, h1]

/-- a case-sensitive namespace compares labels as they are; a case-insensitive one identifies exactly the labels with equal folds -/
theorem labelMatch_spec (own given : String) :
    (labelMatch true own given = true ↔ given = own) ∧ (labelMatch false own given = true ↔ foldStr given = foldStr own) := by
  simp [labelMatch, foldCase]

theorem frac_add_comm (a b : Frac) : a + b = b + a := by
  show Frac.add a b = Frac.add b a
  simp only [Frac.add, Int.add_comm, Nat.mul_comm]

/-- the edge-length merge of `Tree.suppress_unifurcations` and of `Node.extract_subtree`, regenerated from the nested `if`s of the
    source, is the model's `addLen` (child first, parent second); both mechanisms test for exactly ONE child -/
theorem merge_kernels_are_addLen (child parent : Option Frac) :
    C08Kernels.mergeSuppress child parent = addLen child parent ∧ C08Kernels.mergeExtract child parent = addLen child parent ∧
    C08Kernels.oneChildSuppress = 1 ∧ C08Kernels.oneChildExtract = 1 := by
  refine ⟨?_, ?_, by decide, by decide⟩ <;>
    cases child <;> cases parent <;> simp [C08Kernels.mergeSuppress, C08Kernels.mergeExtract, addLen, frac_add_comm]

/-- the filters the four `extract_tree_with(out)_taxa(_labels)` wrappers build (regenerated from their lambdas) are the model's
    `taxonFilter` (taxon-less nodes pass; membership resp. non-membership otherwise), they apply it to leaves only, and they forward
    the caller's `suppress_unifurcations` unchanged -/
theorem wrapper_kernels_are_taxonFilter (K : Nat → Bool) (i : Nat) (x : Option Nat) (sup : Bool) :
    C08Kernels.withTaxaFilter K x = taxonFilter K i x ∧ C08Kernels.withLabelsFilter K x = taxonFilter K i x ∧
    C08Kernels.withoutTaxaFilter K x = taxonFilter (fun k => !K k) i x ∧
    C08Kernels.withoutLabelsFilter K x = taxonFilter (fun k => !K k) i x ∧
    [C08Kernels.withTaxaLeafFlag, C08Kernels.withoutTaxaLeafFlag, C08Kernels.withLabelsLeafFlag, C08Kernels.withoutLabelsLeafFlag]
      = [true, true, true, true] ∧
    [C08Kernels.withTaxaInnerFlag, C08Kernels.withoutTaxaInnerFlag, C08Kernels.withLabelsInnerFlag, C08Kernels.withoutLabelsInnerFlag]
      = [false, false, false, false] ∧
    [C08Kernels.withTaxaSup sup, C08Kernels.withoutTaxaSup sup, C08Kernels.withLabelsSup sup, C08Kernels.withoutLabelsSup sup]
      = [sup, sup, sup, sup] := by
  refine ⟨?_, ?_, ?_, ?_, by decide, by decide, by cases sup <;> decide⟩ <;>
    cases x <;> simp [C08Kernels.withTaxaFilter, C08Kernels.withLabelsFilter, C08Kernels.withoutTaxaFilter,
      C08Kernels.withoutLabelsFilter, C08Kernels.memS, taxonFilter]

/-- hence the wrappers, AS REGENERATED (filter, flags, forwarded suppression), are the model's entry points and yield the induced
    subtree -/
theorem wrappers_regenerated_eq_restrict (K : Nat → Bool) (sup : Bool) (t : T) (hnd : (ids t).Nodup)
    (hl : ∀ lf ∈ t.leaves, lf.taxon ≠ none) :
    (extractTree (fun _ x => C08Kernels.withTaxaFilter K x) C08Kernels.withTaxaLeafFlag C08Kernels.withTaxaInnerFlag
      (C08Kernels.withTaxaSup sup) t).toOption = restrict (keepTaxa K) sup t ∧
    (extractTree (fun _ x => C08Kernels.withoutTaxaFilter K x) C08Kernels.withoutTaxaLeafFlag C08Kernels.withoutTaxaInnerFlag
      (C08Kernels.withoutTaxaSup sup) t).toOption = restrict (keepTaxa (fun k => !K k)) sup t := by
  have e1 : (fun (_ : Nat) x => C08Kernels.withTaxaFilter K x) = taxonFilter K := by
    funext i x; exact (wrapper_kernels_are_taxonFilter K i x sup).1
  have e2 : (fun (_ : Nat) x => C08Kernels.withoutTaxaFilter K x) = taxonFilter (fun k => !K k) := by
    funext i x; exact (wrapper_kernels_are_taxonFilter K i x sup).2.2.1
  rw [e1, e2]
  refine ⟨?_, ?_⟩
  · show (extractTree (taxonFilter K) true false sup t).toOption = _
    rw [extract_eq_restrict _ sup t hnd, taxonFilter_restrict K sup t hl]
  · show (extractTree (taxonFilter (fun k => !K k)) true false sup t).toOption = _
    rw [extract_eq_restrict _ sup t hnd, taxonFilter_restrict _ sup t hl]

/-- the default values of the boolean flags of every entry point, as the source declares them today, are the ones the model and the
    harness assume when an argument is omitted: suppress on, update off, recursive on, leaf filter on, internal filter off -/
theorem defaults_as_modelled :
    ∀ p ∈ C08Kernels.defaults, p.2 = (p.1.endsWith "suppress_unifurcations" || p.1.endsWith "recursive" ||
      p.1.endsWith "is_apply_filter_to_leaf_nodes") := by
  decide +kernel

/-- … and the list covers the entry points of the property (30 flags) -/
theorem defaults_cover : C08Kernels.defaults.map (·.1) =
    ["extractTree.suppress_unifurcations", "extractTree.is_apply_filter_to_leaf_nodes", "extractTree.is_apply_filter_to_internal_nodes",
     "pruneTaxa.suppress_unifurcations", "pruneTaxa.update_bipartitions", "pruneTaxa.is_apply_filter_to_leaf_nodes",
     "pruneTaxa.is_apply_filter_to_internal_nodes", "pruneLabels.suppress_unifurcations", "pruneLabels.update_bipartitions",
     "pruneLabels.is_apply_filter_to_leaf_nodes", "pruneLabels.is_apply_filter_to_internal_nodes", "retainTaxa.suppress_unifurcations",
     "retainTaxa.update_bipartitions", "retainLabels.suppress_unifurcations", "retainLabels.update_bipartitions",
     "filterLeaves.suppress_unifurcations", "filterLeaves.update_bipartitions", "filterLeaves.recursive", "plwt.suppress_unifurcations",
     "plwt.update_bipartitions", "plwt.recursive", "pruneSubtree.suppress_unifurcations", "pruneSubtree.update_bipartitions",
     "withTaxa.suppress_unifurcations", "withoutTaxa.suppress_unifurcations", "withLabels.suppress_unifurcations",
     "withoutLabels.suppress_unifurcations", "extractSubtree.suppress_unifurcations", "extractSubtree.is_apply_filter_to_leaf_nodes",
     "extractSubtree.is_apply_filter_to_internal_nodes"] := by
  decide +kernel

/-! ### extraction never alters the source tree: frame theorem on the object store (`Model/C08Heap.lean`, driver op `extractheap`) -/

/-- GAP CLOSED (source immutability, was oracle only): run `Node.extract_subtree` as the code runs it on an object store `h` that
    holds the source tree (any store, any tree, any filter, any flags) — attributes of source nodes READ from the store, every
    assignment of the loop WRITTEN to the store, including the in-place `+=` on `children_to_add[0].edge.length` and the stray
    `nd1.edge.length = …` of the merge branch.  Then every object that existed before the call is bit for bit what it was, the store
    only grew, and the `nd1` write never hits `None` (no `AttributeError`). -/
theorem extract_frame (acc : Acc) (fl fi sup : Bool) (t : T) (h : List Cell) :
    (∀ a, a < h.length → (extractHeap acc fl fi sup t h).heap[a]? = h[a]?) ∧
    (extractHeap acc fl fi sup t h).heap.take h.length = h ∧
    h.length ≤ (extractHeap acc fl fi sup t h).heap.length ∧ (extractHeap acc fl fi sup t h).crashed = false := by
  obtain ⟨I, hc⟩ := extractHeap_inv acc fl fi sup t h
  refine ⟨I.frame, ?_, I.len, hc⟩
  apply List.ext_getElem?
  intro a
  rw [List.getElem?_take]
  by_cases ha : a < h.length
  · rw [if_pos ha]; exact I.frame a ha
  · rw [if_neg ha, List.getElem?_eq_none (by omega)]

/-- … and the extracted tree shares no object with the source: the node returned is an object allocated by the call, every object
    allocated by the call has only such objects as children (so the whole result lies in the new region of the store), and each
    carries a reference to a source node (`extraction_source`) -/
theorem extract_result_is_new (acc : Acc) (fl fi sup : Bool) (t : T) (h : List Cell) :
    (∀ a, (extractHeap acc fl fi sup t h).start = some a → h.length ≤ a ∧ a < (extractHeap acc fl fi sup t h).heap.length) ∧
    (∀ a c, h.length ≤ a → (extractHeap acc fl fi sup t h).heap[a]? = some c →
      (∀ k ∈ c.kids, h.length ≤ k ∧ k < (extractHeap acc fl fi sup t h).heap.length) ∧ c.src.isSome = true) := by
  obtain ⟨I, _⟩ := extractHeap_inv acc fl fi sup t h
  exact ⟨I.startOk, I.fresh⟩

/-! ### histories of in-place calls: restrictions compose -/

/-- restricting an induced subtree that was taken with suppression declined once more (with or without suppression) is restricting
    the ORIGINAL tree by both predicates at once: a later call sees nothing of the earlier one but the leaves it removed -/
theorem restrict_composes (p q : Acc) (sup : Bool) (t r : T) (h : restrict p false t = some r) :
    restrict q sup r = restrict (both p q) sup t :=
  restrict_restrict p q sup t r h

/-- `prune_subtree(i, suppress_unifurcations=False)` followed by `prune_subtree(j, suppress_unifurcations=sup2)` on the tree the first
    call left (the history a seeded change relied on: the first call leaves unary nodes behind, the second must deal with ALL of
    them, not only with the one it creates): the final tree is the subtree of the ORIGINAL tree induced by the leaves outside both
    pruned subtrees — so with `sup2` on it has no unary node at all (`suppress_no_unary`), whatever the first call left -/
theorem prune_subtree_twice (i j : Nat) (sup2 : Bool) (t subI subJ : T) (hnd : (ids t).Nodup) (hni : t.id ≠ i)
    (hfi : t.find? i = some subI) (hk : (cut i t).cs.isEmpty = false) (hnj : t.id ≠ j)
    (hfj : (pruneSubtree i false t).find? j = some subJ) :
    restrict (both (outside (ids subI)) (outside (ids subJ))) sup2 t =
      (if (cut j (pruneSubtree i false t)).cs.isEmpty then none else some (pruneSubtree j sup2 (pruneSubtree i false t))) ∧
    (sup2 = true → (cut j (pruneSubtree i false t)).cs.isEmpty = false → NoUnary (pruneSubtree j sup2 (pruneSubtree i false t))) := by
  have h1 := prune_subtree_eq_restrict i false t subI hnd hni hfi
  rw [hk] at h1
  simp only [Bool.false_eq_true, if_false] at h1
  have hnd1 : (ids (pruneSubtree i false t)).Nodup := (restrict_ids_sublist _ t _ h1).nodup hnd
  have hid1 : (pruneSubtree i false t).id = t.id := (nosuppress_spec _ t _ h1).2.1
  have h2 := prune_subtree_eq_restrict j sup2 (pruneSubtree i false t) subJ hnd1 (by rw [hid1]; exact hnj) hfj
  have h3 := restrict_composes _ (outside (ids subJ)) sup2 t _ h1
  refine ⟨by rw [← h3, h2], ?_⟩
  intro hs hne
  subst hs
  rw [hne] at h2
  simp only [Bool.false_eq_true, if_false] at h2
  exact suppress_no_unary _ _ _ h2

/-! ### the object-store model and the functional model are one function (suppression declined) -/

/-- on ANY store that holds the source tree (`Holds`: node `i` at address `i` with its attributes and child addresses; whatever else
    the store contains), for any filter and both filter flags, with `suppress_unifurcations=False`: the loop on the store
    (`extractHeap`, the model `extract_frame` is about) ends exactly as the functional fold (`extractTree`, the model
    `extract_flags_eq_spec` / `extract_eq_restrict` are about) — the same exception, or a start address at which the store holds,
    object for object (`Reads`: attributes, child order, `extraction_source` = node id), the tree the functional model returns.
    With suppression requested the same statement is NOT proved (see MODELLED_NOT_VERIFIED): there the store version updates lengths
    in place, so it needs the argument that memo entries are read once and that the stray `nd1` write only hits clones that never
    reach the result. -/
theorem extract_store_eq_functional_nosup (acc : Acc) (fl fi : Bool) (t : T) (h : List Cell) (hh : Holds h t) :
    match extractTree acc fl fi false t with
    | .ok r => ∃ a, (extractHeap acc fl fi false t h).start = some a ∧ Reads (extractHeap acc fl fi false t h).heap a r ∧
        (extractHeap acc fl fi false t h).seedDeleted = false ∧ (extractHeap acc fl fi false t h).crashed = false
    | .seedDeletion => (extractHeap acc fl fi false t h).seedDeleted = true
    | .valueError => (extractHeap acc fl fi false t h).seedDeleted = false ∧ (extractHeap acc fl fi false t h).start = none := by
  have R := fold_rel acc fl fi t.id h t hh (post t) (fun _ hn => hn) { heap := h } {}
    (Or.inr ⟨⟨[], by simp⟩, by simp [MemoRel], by simp [StartRel], rfl, rfl, rfl, rfl⟩)
  unfold extractTree extractHeap
  generalize (post t).foldl (hStep acc fl fi false t.id) { heap := h } = hs at R
  generalize (post t).foldl (exStep acc fl fi false t.id) {} = st at R
  simp only
  rcases R with ⟨d1, d2⟩ | R
  · simp [d2, d1]
  · obtain ⟨_, f2, f3, f4⟩ := R.flags
    have hstart := R.start
    simp only [f4, Bool.false_eq_true, if_false]
    cases hs' : st.start with
    | none =>
      cases ha : hs.start with
      | none => exact ⟨f3, rfl⟩
      | some a => rw [hs', ha] at hstart; simp [StartRel] at hstart
    | some r =>
      cases ha : hs.start with
      | none => rw [hs', ha] at hstart; simp [StartRel] at hstart
      | some a =>
        rw [hs', ha] at hstart
        exact ⟨a, rfl, hstart, f3, f2⟩

/-! ### the hypotheses are satisfiable, the statements are not vacuous -/
def demo : T :=
  .node 0 none (some ⟨9, 1⟩) none
    [.node 1 none (some ⟨3, 1⟩) none [.node 2 (some 0) (some ⟨1, 1⟩) none [], .node 3 (some 1) (some ⟨2, 1⟩) none []],
     .node 4 none (some ⟨8, 1⟩) none [.node 5 (some 2) (some ⟨4, 1⟩) none [],
        .node 6 none (some ⟨7, 1⟩) none [.node 7 (some 3) (some ⟨5, 1⟩) none [], .node 8 (some 4) (some ⟨6, 1⟩) none []]]]

example : InnerNoTaxon demo := by simp [demo, InnerNoTaxon, InnerNoTaxonL]
example : (ids demo).Nodup := by decide
example : LensWF demo := by simp [demo, LensWF, LensWFL, OWF]
example : dist (fun i _ => i == 3) (fun i _ => i == 5) demo = some 17 := by
  simp [demo, dist, distL, reach, reachL, oval, fval, T.len]; norm_num
example : NoneRej (keepTaxa (fun k => k == 1 || k == 2)) := fun _ => rfl
example : ∀ lf ∈ demo.leaves, lf.taxon ≠ none := by simp [demo, T.leaves, T.leavesL, T.taxon]
example : (pruneTaxa (fun k => !(k == 1 || k == 2)) true false true demo).map T.render = some "(0 - 9 (3 1 5) (5 2 12))" := by decide
example : (pruneTaxa (fun k => !(k == 1 || k == 2)) true false false demo).map T.render
    = some "(0 - 9 (1 - 3 (3 1 2)) (4 - 8 (5 2 4)))" := by decide
example : ((extractTree (taxonFilter (fun k => k == 1 || k == 2)) true false true demo).toOption).map T.render
    = some "(0 - 9 (3 1 5) (5 2 12))" := by decide
example : (restrict (keepTaxa (fun k => k == 3)) true demo).map T.render = some "(7 3 29)" := by decide
example : (filterLeaves (keepTaxa (fun k => k == 3)) true false demo).map (·.2) = some [2, 3, 5, 8, 1] := by decide
example : (demo.find? 4).map T.id = some 4 ∧ demo.id ≠ 4 ∧ (ids demo).Nodup := by decide
example : (pruneSubtree 4 true demo).render = "(1 - 12 (2 0 1) (3 1 2))" := by decide
example : (restrictA (fun i _ => i == 4 || i == 2) demo).map T.render = some "(0 - 9 (1 - 3 (2 0 1)) (4 - 8))" := by decide
example : (filterLeaves (fun i _ => i == 4 || i == 2) false false demo).map (·.2) = some [3, 5, 7, 8] := by decide
example : (match extractTree (fun _ _ => false) true false true demo with | .seedDeletion => true | _ => false) = true := by decide
example : (allDists demo).length = 10 := by decide
def demoInner : T :=
  .node 0 (some 9) none none [.node 1 (some 5) none none [.node 2 (some 0) none none [], .node 3 (some 1) none none []],
    .node 4 (some 6) none none [.node 5 (some 2) none none []]]
example : (strikeSpec (fun k => k == 0 || k == 1 || k == 5 || k == 2) true false demoInner).map (Option.map T.render)
    = some (some "(0 9 N (4 6 N))") := by decide
example : (strike (fun k => k == 0 || k == 1 || k == 5 || k == 2) true false demoInner).map T.render = some "(0 9 N (4 6 N))" := by decide
example : (strikeSpec (fun k => k == 5) true true demoInner).map (Option.map T.render) = some (some "(0 9 N (4 6 N (5 2 N)))") := by decide
example : (pruneLeavesWithoutTaxaUpd (some false) true demo).map (fun r => (r.1.render, r.2.map (·.1)))
    = some ("(0 - 9 (1 - 11 (2 0 1) (3 1 2)) (5 2 4) (6 - 7 (7 3 5) (8 4 6)))", [1, 2, 3, 4, 8, 16, 24, 31]) := by decide
example : (pruneWithLabelsUpd none true [(0, "A"), (1, "A"), (2, "B"), (3, "C"), (4, "D")] ["A"] true demo).map (fun r => r.1.render)
    = some "(4 - 17 (5 2 11) (7 3 5) (8 4 6))" := by decide
example : ((reencode (some false) true demo).1.render, (reencode (some false) true demo).2.map (·.1))
    = ("(0 - 9 (1 - 11 (2 0 1) (3 1 2)) (5 2 4) (6 - 7 (7 3 5) (8 4 6)))", [1, 2, 3, 4, 8, 16, 24, 31]) := by decide
example : (demo.collapseBasal.masksPost.length, demo.masksPost.length) = (8, 9) := by decide
example : AccInner (taxonFilter (fun k => k == 1)) demo := by simp [demo, AccInner, AccInnerL, taxonFilter]
example : (pruneTaxaUpd (some true) (fun k => !(k == 1 || k == 2)) true demo).map (fun r => (r.1.render, r.2))
    = some ("(0 - 9 (3 1 5) (5 2 12))", [(2, 2), (4, 4), (6, 6)]) := by decide
example : (exSpec (fun i _ => i != 4) true true true demo).map T.render = some "(1 - 12 (2 0 1) (3 1 2))" := by decide
example : getTaxa false [(0, "A"), (1, "a"), (2, "B"), (3, "A")] ["b", "A", "zz"] = [2, 0, 1, 3] := by decide +kernel
example : getTaxa true [(0, "A"), (1, "a"), (2, "B"), (3, "A")] ["b", "A"] = [0, 3] := by decide
example : (pruneWithLabels true [(0, "A"), (1, "A"), (2, "B"), (3, "C"), (4, "C")] ["A", "C"] true demo).map T.render
    = some "(5 2 21)" := by decide
example : ((extractNode (fun i _ => i != 3) true false true demo 1).toOption).map T.render = some "(2 0 4)" := by decide

example : (restrict (keepTaxa (fun k => k != 0)) true demo).map (fun r => (r.cs.length, r.collapseBasal.cs.length)) = some (2, 3) := by decide
example : (pruneTaxaUpd (some false) (fun k => k == 0) true demo).map (fun r => (r.1.render, r.2))
    = some ("(0 - 9 (3 1 13) (5 2 4) (6 - 7 (7 3 5) (8 4 6)))", [(2, 28), (4, 4), (8, 8), (16, 16), (24, 24), (30, 0)]) := by decide

example : foldStr "ÀÉ×Þzß" = "àé×þzß" ∧ labelMatch false "Éa" "éA" = true ∧ labelMatch true "Éa" "éA" = false := by decide +kernel
example : inFoldRange "Éa" = true ∧ inFoldRange "Σ" = false := by decide +kernel
example : getTaxa false [(0, "Éa"), (1, "éA"), (2, "E")] ["éa"] = [0, 1] := by decide +kernel

example : extractHeapShow (taxonFilter (fun k => k == 1 || k == 2)) true false true demo = "(0 - 9 (3 1 5) (5 2 12)) | source-intact" := by decide +kernel
example : (extractHeap (taxonFilter (fun k => k == 1 || k == 2)) true false true demo (heapOf demo 9)).heap.length = 12 := by decide +kernel

def demoChain : T :=
  .node 0 (some 9) none none [.node 1 (some 5) none none [.node 2 (some 6) none none [.node 3 (some 0) none none []]],
    .node 4 (some 7) none none [.node 5 (some 1) none none []]]
example : (strike (fun k => k == 5 || k == 6 || k == 0) false true demoChain).map T.render = some "(0 9 N (1 5 N) (4 7 N (5 1 N)))" := by decide
example : (goneFI (fun k => k == 5 || k == 6 || k == 0) demoChain, (dropFI (fun k => k == 5 || k == 6 || k == 0) demoChain).render)
    = (false, "(0 9 N (1 5 N) (4 7 N (5 1 N)))") := by decide

example : (pruneSubtree 2 false demo).render = "(0 - 9 (1 - 3 (3 1 2)) (4 - 8 (5 2 4) (6 - 7 (7 3 5) (8 4 6))))"
    ∧ ((pruneSubtree 2 false demo).find? 7).map T.id = some 7 ∧ (cut 2 demo).cs.isEmpty = false := by decide
example : (pruneSubtree 7 true (pruneSubtree 2 false demo)).render = "(0 - 9 (3 1 5) (4 - 8 (5 2 4) (8 4 13)))" := by decide
example : (restrict (both (outside [2]) (outside [7])) true demo).map T.render = some "(0 - 9 (3 1 5) (4 - 8 (5 2 4) (8 4 13)))" := by decide

def demo3 : T := .node 0 none none none [.node 1 (some 0) (some ⟨1, 1⟩) none [], .node 2 (some 1) none none []]
def store3 : List Cell := [{ kids := [1, 2] }, { taxon := some 0, len := some ⟨1, 1⟩ }, { taxon := some 1 }, { label := some "unrelated object" }]
example : Holds store3 demo3 := by
  intro n hn
  simp only [demo3, post, postL, List.append_nil, List.nil_append, List.cons_append, List.mem_cons, List.not_mem_nil, or_false] at hn
  rcases hn with rfl | rfl | rfl
  · exact ⟨{ taxon := some 0, len := some ⟨1, 1⟩ }, rfl, rfl, rfl, rfl, rfl⟩
  · exact ⟨{ taxon := some 1 }, rfl, rfl, rfl, rfl, rfl⟩
  · exact ⟨{ kids := [1, 2] }, rfl, rfl, rfl, rfl, rfl⟩
example : (extractHeap (fun i _ => i != 2) true false false demo3 store3).start = some 5
    ∧ (extractHeap (fun i _ => i != 2) true false false demo3 store3).heap.length = 6
    ∧ (match extractTree (fun i _ => i != 2) true false false demo3 with | .ok r => r.render | _ => "") = "(0 - N (1 0 1))" := by decide

end DendroModel.C08
