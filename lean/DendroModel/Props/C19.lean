import DendroModel.Model.C19Ext
/-! C19 — property theorems about the model the driver `drv_c19` executes (`DendroModel/Model/C19.lean`).
Only property theorems live directly in `namespace DendroModel.C19` of this file; helper lemmas are in
`DendroModel.C19.Aux`.  A row is observed through `get? t rows` (`none` = the taxon has no sequence).

Termination ("every such operation terminates") is carried by the definitions themselves: every model function is
total, the two `while` loops (`padLoop`, `freeFrom`) are well-founded recursions without fuel.
"Leaves its arguments unchanged" is value semantics in the model (checked on the implementation by the harness). -/
namespace DendroModel.C19.Aux
open DendroModel.C19

theorem get?_set_self (t : Taxon) (r : Row) (rs : Rows) : get? t (set t r rs) = some r := by
  induction rs with
  | nil => simp [set, get?]
  | cons kv rest ih =>
    obtain ⟨k, v⟩ := kv
    by_cases h : k = t <;> simp [set, get?, h, ih]

theorem get?_set_ne (t u : Taxon) (r : Row) (rs : Rows) (h : u ≠ t) : get? u (set t r rs) = get? u rs := by
  induction rs with
  | nil => simp [set, get?, Ne.symm h]
  | cons kv rest ih =>
    obtain ⟨k, v⟩ := kv
    by_cases hk : k = t
    · subst hk; simp [set, get?, Ne.symm h]
    · by_cases hu : k = u
      · subst hu; simp [set, get?, hk]
      · simp [set, get?, hk, hu, ih]

theorem get?_del_self (t : Taxon) (rs : Rows) : get? t (del t rs) = none := by
  induction rs with
  | nil => simp [del, get?]
  | cons kv rest ih =>
    obtain ⟨k, v⟩ := kv
    simp only [del] at ih
    by_cases h : k = t <;> simp [del, get?, h, ih]

theorem get?_del_ne (t u : Taxon) (rs : Rows) (h : u ≠ t) : get? u (del t rs) = get? u rs := by
  induction rs with
  | nil => simp [del, get?]
  | cons kv rest ih =>
    obtain ⟨k, v⟩ := kv
    simp only [del] at ih
    by_cases hk : k = t
    · subst hk; simp [del, get?, Ne.symm h, ih]
    · by_cases hu : k = u
      · subst hu; simp [del, get?, hk]
      · simp [del, get?, hk, hu, ih]

theorem get?_of_not_mem (t : Taxon) (rs : Rows) (h : t ∉ keys rs) : get? t rs = none := by
  induction rs with
  | nil => simp [get?]
  | cons kv rest ih =>
    obtain ⟨k, v⟩ := kv
    simp only [keys, List.map_cons, List.mem_cons, not_or] at h
    simp only [keys] at ih
    simp [get?, Ne.symm h.1, ih h.2]

theorem mem_keys_of_get? (t : Taxon) (rs : Rows) (r : Row) (h : get? t rs = some r) : t ∈ keys rs := by
  by_cases hm : t ∈ keys rs
  · exact hm
  · rw [get?_of_not_mem t rs hm] at h; cases h

theorem has_eq (t : Taxon) (rs : Rows) : has t rs = (get? t rs).isSome := rfl

/-- deleting a list of keys, each under a condition -/
theorem get?_foldl_del (p : Taxon → Bool) (ks : List Taxon) (rs : Rows) (u : Taxon) :
    get? u (ks.foldl (fun acc k => if p k then acc else del k acc) rs)
      = if u ∈ ks ∧ p u = false then none else get? u rs := by
  induction ks generalizing rs with
  | nil => simp
  | cons k ks ih =>
    simp only [List.foldl_cons, ih]
    by_cases hp : p k = true
    · simp only [hp, if_true]
      by_cases hu : u = k
      · subst hu; simp [hp]
      · simp [hu]
    · simp only [hp]
      by_cases hu : u = k
      · subst hu
        simp [hp, get?_del_self]
      · simp [hu, get?_del_ne k u rs hu]

/-- `mapNsRows` rewrites exactly the rows of the namespace's taxa -/
theorem get?_mapNsRows (f : Row → Row) (taxa : List Taxon) (hnd : taxa.Nodup) (rs : Rows) (t : Taxon) :
    get? t (mapNsRows f taxa rs) = if t ∈ taxa then (get? t rs).map f else get? t rs := by
  induction taxa generalizing rs with
  | nil => simp [mapNsRows]
  | cons a as ih =>
    have hnd' := (List.nodup_cons.mp hnd)
    simp only [mapNsRows, List.foldl_cons]
    have ih' := fun rs => ih hnd'.2 rs
    simp only [mapNsRows] at ih'
    rw [ih']
    by_cases hta : t = a
    · subst hta
      simp only [hnd'.1, if_false, List.mem_cons, true_or, if_true]
      cases hg : get? t rs with
      | none => simp [hg]
      | some r => simp [get?_set_self]
    · have hne : ¬ (t = a ∨ t ∈ as) ↔ t ∉ as := by simp [hta]
      cases hg : get? a rs with
      | none => simp [hta]
      | some r => simp [hta, get?_set_ne a t _ rs hta]

theorem length_le_foldl_max (taxa : List Taxon) (rs : Rows) (t : Taxon) (r : Row) (m0 : Nat)
    (ht : t ∈ taxa) (hg : get? t rs = some r) :
    r.length ≤ taxa.foldl (fun mx t => match get? t rs with
      | some r => if r.length > mx then r.length else mx
      | none => mx) m0 := by
  have mono : ∀ (l : List Taxon) (m : Nat), m ≤ l.foldl (fun mx t => match get? t rs with
      | some r => if r.length > mx then r.length else mx
      | none => mx) m := by
    intro l
    induction l with
    | nil => intro m; simp
    | cons a as ih =>
      intro m
      simp only [List.foldl_cons]
      refine Nat.le_trans ?_ (ih _)
      cases get? a rs with
      | none => simp
      | some r => simp only []; split <;> omega
  induction taxa generalizing m0 with
  | nil => simp at ht
  | cons a as ih =>
    simp only [List.foldl_cons]
    simp only [List.mem_cons] at ht
    rcases ht with ht | ht
    · subst ht
      rw [hg]
      refine Nat.le_trans ?_ (mono _ _)
      simp only []; split <;> omega
    · exact ih _ ht

theorem padLoop_length (value : Cell) (size : Nat) (append : Bool) (v : Row) :
    (padLoop value size append v).length = max v.length size := by
  induction h : size - v.length generalizing v with
  | zero =>
    rw [padLoop]
    have : ¬ v.length < size := by omega
    simp [this]; omega
  | succ n ih =>
    rw [padLoop]
    have hlt : v.length < size := by omega
    simp only [hlt, if_true]
    rw [ih]
    · cases append <;> simp <;> omega
    · cases append <;> simp <;> omega

end DendroModel.C19.Aux

namespace DendroModel.C19
open DendroModel.C19.Aux

/-! ## (d) row set algebra -/

/-- `add_sequences`: left-biased union — rows of `self` are kept, rows only in `other` are added -/
theorem add_spec (s o : Rows) (t : Taxon) :
    get? t (addSeqs s o) = match get? t s with
      | some r => some r
      | none => get? t o := by
  induction o generalizing s with
  | nil => simp only [addSeqs, List.foldl_nil, get?]; cases get? t s <;> rfl
  | cons kv rest ih =>
    obtain ⟨k, v⟩ := kv
    simp only [addSeqs, List.foldl_cons] at ih ⊢
    rw [ih]
    by_cases hk : k = t
    · subst hk
      cases hs : get? k s with
      | none => simp [has_eq, hs, get?_set_self, get?]
      | some r => simp [has_eq, hs]
    · have hne : t ≠ k := Ne.symm hk
      by_cases hh : has k s = true
      · simp [hh, get?, hk]
      · simp [hh, get?, hk, get?_set_ne k t v s hne]

/-- `replace_sequences`: exactly the rows shared with `other` are replaced by `other`'s; nothing is added -/
theorem replace_spec (s o : Rows) (hnd : (keys o).Nodup) (t : Taxon) :
    get? t (replaceSeqs s o) = match get? t s, get? t o with
      | some _, some b => some b
      | some a, none => some a
      | none, _ => none := by
  induction o generalizing s with
  | nil => simp only [replaceSeqs, List.foldl_nil, get?]; cases get? t s <;> rfl
  | cons kv rest ih =>
    obtain ⟨k, v⟩ := kv
    simp only [keys, List.map_cons, List.nodup_cons] at hnd
    simp only [replaceSeqs, List.foldl_cons, keys] at ih ⊢
    rw [ih _ hnd.2]
    by_cases hk : k = t
    · subst hk
      have hr : get? k rest = none := get?_of_not_mem k rest hnd.1
      cases hs : get? k s with
      | none => simp [has_eq, hs, hr]
      | some r => simp [has_eq, hs, hr, get?, get?_set_self]
    · have hne : t ≠ k := Ne.symm hk
      by_cases hh : has k s = true
      · simp [hh, get?, hk, get?_set_ne k t v s hne]
      · simp [hh, get?, hk]

/-- `update_sequences`: right-biased union -/
theorem update_spec (s o : Rows) (hnd : (keys o).Nodup) (t : Taxon) :
    get? t (updateSeqs s o) = match get? t o with
      | some b => some b
      | none => get? t s := by
  induction o generalizing s with
  | nil => simp [updateSeqs, get?]
  | cons kv rest ih =>
    obtain ⟨k, v⟩ := kv
    simp only [keys, List.map_cons, List.nodup_cons] at hnd
    simp only [updateSeqs, List.foldl_cons, keys] at ih ⊢
    rw [ih _ hnd.2]
    by_cases hk : k = t
    · subst hk
      simp [get?_of_not_mem k rest hnd.1, get?, get?_set_self]
    · simp [get?, hk, get?_set_ne k t v s (Ne.symm hk)]

/-- `extend_sequences`: shared rows get `other`'s cells appended, rows only in `self` are untouched, rows only in
    `other` are ignored unless `is_add_new_sequences` -/
theorem extend_spec (addNew : Bool) (s o : Rows) (hnd : (keys o).Nodup) (t : Taxon) :
    get? t (extendSeqs addNew s o) = match get? t s, get? t o with
      | some a, some b => some (a ++ b)
      | some a, none => some a
      | none, some b => if addNew then some b else none
      | none, none => none := by
  induction o generalizing s with
  | nil => simp only [extendSeqs, List.foldl_nil, get?]; cases get? t s <;> rfl
  | cons kv rest ih =>
    obtain ⟨k, v⟩ := kv
    simp only [keys, List.map_cons, List.nodup_cons] at hnd
    simp only [extendSeqs, List.foldl_cons, keys] at ih ⊢
    rw [ih _ hnd.2]
    by_cases hk : k = t
    · subst hk
      have hr : get? k rest = none := get?_of_not_mem k rest hnd.1
      cases hs : get? k s with
      | none => cases addNew <;> simp [has_eq, hs, hr, get?, get?_set_self]
      | some r => simp [has_eq, hs, hr, get?, get?_set_self, rowOf]
    · have hne : t ≠ k := Ne.symm hk
      by_cases hh : has k s = true
      · simp [hh, get?, hk, get?_set_ne k t _ s hne]
      · cases addNew <;> simp [hh, get?, hk, get?_set_ne k t _ s hne]

/-- `extend_matrix` is `extend_sequences(…, is_add_new_sequences=True)` -/
theorem extendMatrix_eq (s o : Rows) : extendMatrix s o = extendSeqs true s o := by
  simp only [extendMatrix, extendSeqs]
  congr 1
  funext acc kv
  cases has kv.1 acc <;> simp

/-- `remove_sequences` that returns normally has removed exactly the named rows -/
theorem remove_spec (taxa : List Taxon) (rs rs' : Rows) (h : removeSeqs taxa rs = (rs', none)) (u : Taxon) :
    get? u rs' = if u ∈ taxa then none else get? u rs := by
  induction taxa generalizing rs with
  | nil => simp [removeSeqs] at h; simp [h]
  | cons t ts ih =>
    simp only [removeSeqs] at h
    by_cases hh : has t rs = true
    · simp only [hh, if_true] at h
      rw [ih _ h]
      by_cases hu : u = t
      · subst hu; simp [get?_del_self]
      · simp [hu, get?_del_ne t u rs hu]
    · simp [hh] at h

/-- whether or not it raises, `remove_sequences` never touches a row it was not given -/
theorem remove_untouched (taxa : List Taxon) (rs : Rows) (u : Taxon) (hu : u ∉ taxa) :
    get? u (removeSeqs taxa rs).1 = get? u rs := by
  induction taxa generalizing rs with
  | nil => simp [removeSeqs]
  | cons t ts ih =>
    simp only [List.mem_cons, not_or] at hu
    simp only [removeSeqs]
    by_cases hh : has t rs = true
    · simp only [hh, if_true]
      rw [ih _ hu.2, get?_del_ne t u rs hu.1]
    · simp [hh]

/-- `remove_sequences` raises `KeyError` exactly when a named taxon has no row (any more) -/
theorem remove_ok_iff (taxa : List Taxon) (rs : Rows) :
    (removeSeqs taxa rs).2 = none ↔ taxa.Nodup ∧ ∀ t ∈ taxa, has t rs = true := by
  induction taxa generalizing rs with
  | nil => simp [removeSeqs]
  | cons t ts ih =>
    simp only [removeSeqs]
    by_cases hh : has t rs = true
    · simp only [hh, if_true, ih, List.nodup_cons, List.mem_cons, forall_eq_or_imp, true_and]
      constructor
      · rintro ⟨hnd, hall⟩
        have hnot : t ∉ ts := by
          intro hm
          have := hall t hm
          simp [has_eq, get?_del_self] at this
        refine ⟨⟨hnot, hnd⟩, ?_⟩
        intro a ha
        have hne : a ≠ t := by intro h; subst h; exact hnot ha
        have := hall a ha
        simpa [has_eq, get?_del_ne t a rs hne] using this
      · rintro ⟨⟨hnot, hnd⟩, hall⟩
        refine ⟨hnd, ?_⟩
        intro a ha
        have hne : a ≠ t := by intro h; subst h; exact hnot ha
        simpa [has_eq, get?_del_ne t a rs hne] using hall a ha
    · simp [hh]

/-- `discard_sequences`: the named rows are gone, all others unchanged; never raises -/
theorem discard_spec (taxa : List Taxon) (rs : Rows) (u : Taxon) :
    get? u (discardSeqs taxa rs) = if u ∈ taxa then none else get? u rs := by
  induction taxa generalizing rs with
  | nil => simp [discardSeqs]
  | cons t ts ih =>
    simp only [discardSeqs, List.foldl_cons] at ih ⊢
    rw [ih]
    by_cases hu : u = t
    · subst hu
      by_cases hh : has u rs = true
      · simp [hh, get?_del_self]
      · have : get? u rs = none := by simpa [has_eq] using hh
        simp [hh, this]
    · by_cases hh : has t rs = true
      · simp [hh, hu, get?_del_ne t u rs hu]
      · simp [hh, hu]

/-- `keep_sequences`: restriction to the named taxa -/
theorem keep_spec (taxa : List Taxon) (rs : Rows) (u : Taxon) :
    get? u (keepSeqs taxa rs) = if u ∈ taxa then get? u rs else none := by
  simp only [keepSeqs]
  rw [get?_foldl_del (fun k => taxa.contains k) (keys rs) rs u]
  by_cases hu : u ∈ taxa
  · simp [hu]
  · by_cases hk : u ∈ keys rs
    · simp [hu, hk]
    · simp [hu, hk, get?_of_not_mem u rs hk]

/- the namespace guard of the binary row operations: see `rowOp_spec` below -/

/-! ## (c) padding -/

/-- the `while len(v) < size` loop in closed form: existing cells are kept, only `value` is added, on the chosen side -/
theorem padLoop_eq (value : Cell) (size : Nat) (append : Bool) (v : Row) :
    padLoop value size append v =
      if append then v ++ List.replicate (size - v.length) value
      else List.replicate (size - v.length) value ++ v := by
  induction h : size - v.length generalizing v with
  | zero =>
    rw [padLoop]
    have : ¬ v.length < size := by omega
    simp [this]
  | succ n ih =>
    rw [padLoop]
    have hlt : v.length < size := by omega
    simp only [hlt, if_true]
    cases append with
    | true =>
      simp only [if_true]
      rw [ih _ (by simp; omega)]
      simp [List.replicate_succ]
    | false =>
      simp only [Bool.false_eq_true, if_false]
      rw [ih _ (by simp; omega)]
      simp [List.replicate_succ']

/-- `fill`: every row of a namespace taxon is padded by the loop, nothing else changes, no row appears or disappears -/
theorem fill_spec (value : Cell) (size : Option Nat) (append : Bool) (taxa : List Taxon) (hnd : taxa.Nodup)
    (rs : Rows) (t : Taxon) :
    get? t (fillRows value size append taxa rs) =
      if t ∈ taxa then (get? t rs).map (padLoop value (fillSize size taxa rs) append) else get? t rs := by
  simp only [fillRows]
  exact get?_mapNsRows _ taxa hnd rs t

/-- `fill` without `size` (or with a size not below the longest row) makes all rows of the namespace equally long -/
theorem fill_equal_length (value : Cell) (size : Option Nat) (append : Bool) (taxa : List Taxon) (hnd : taxa.Nodup)
    (rs : Rows) (hsize : maxLen taxa rs ≤ fillSize size taxa rs) (t : Taxon) (ht : t ∈ taxa) (r : Row)
    (h : get? t (fillRows value size append taxa rs) = some r) : r.length = fillSize size taxa rs := by
  rw [fill_spec value size append taxa hnd rs t] at h
  simp only [ht, if_true] at h
  cases hg : get? t rs with
  | none => simp [hg] at h
  | some r0 =>
    simp only [hg, Option.map_some, Option.some.injEq] at h
    subst h
    rw [padLoop_length]
    have h2 : r0.length ≤ maxLen taxa rs := by
      unfold maxLen
      exact length_le_foldl_max taxa rs t r0 0 ht hg
    exact Nat.max_eq_right (Nat.le_trans h2 hsize)

/-- `fill_taxa`: existing rows unchanged, every other taxon of the namespace gets an empty row -/
theorem fillTaxa_spec (taxa : List Taxon) (rs : Rows) (t : Taxon) :
    get? t (fillTaxa taxa rs) = match get? t rs with
      | some r => some r
      | none => if t ∈ taxa then some [] else none := by
  have h := add_spec rs (taxa.map (fun t => (t, []))) t
  have heq : addSeqs rs (taxa.map (fun t => (t, ([] : Row)))) = fillTaxa taxa rs := by
    simp [addSeqs, fillTaxa, List.foldl_map]
  rw [heq] at h
  rw [h]
  clear h heq
  cases get? t rs with
  | some r => rfl
  | none =>
    simp only []
    induction taxa with
    | nil => simp [get?]
    | cons a as ih =>
      by_cases ha : a = t
      · simp [get?, ha]
      · simp only [List.map_cons, get?, ha, if_false, List.mem_cons, Ne.symm ha, false_or]
        exact ih

/-- `pack`: afterwards every taxon of the namespace has a row; it is the old row (empty if there was none) padded
    by the loop — so existing cells are unaltered -/
theorem pack_spec (value : Cell) (size : Option Nat) (append : Bool) (taxa : List Taxon) (hnd : taxa.Nodup)
    (rs : Rows) (t : Taxon) (ht : t ∈ taxa) :
    get? t (packRows value size append taxa rs) =
      some (padLoop value (fillSize size taxa (fillTaxa taxa rs)) append (rowOf t rs)) := by
  simp only [packRows]
  rw [fill_spec value size append taxa hnd, fillTaxa_spec]
  simp only [ht, if_true, rowOf]
  cases get? t rs <;> simp

/-- `pack` without `size` leaves all rows of the namespace equally long -/
theorem pack_equal_length (value : Cell) (append : Bool) (taxa : List Taxon) (hnd : taxa.Nodup) (rs : Rows)
    (t u : Taxon) (ht : t ∈ taxa) (hu : u ∈ taxa) :
    (rowOf t (packRows value none append taxa rs)).length = (rowOf u (packRows value none append taxa rs)).length := by
  have key : ∀ x ∈ taxa, (rowOf x (packRows value none append taxa rs)).length
      = fillSize none taxa (fillTaxa taxa rs) := by
    intro x hx
    have h1 := pack_spec value none append taxa hnd rs x hx
    simp only [packRows] at h1 ⊢
    have := fill_equal_length value none append taxa hnd (fillTaxa taxa rs) (by simp [fillSize]) x hx _ h1
    simp only [rowOf, h1, Option.getD_some]
    exact this
  rw [key t ht, key u hu]

end DendroModel.C19

/-! ## (b) column selection, (a) concatenation -/
namespace DendroModel.C19.Aux
open DendroModel.C19

theorem filterMap_congr_mem {α β} (l : List α) (f g : α → Option β) (h : ∀ a ∈ l, f a = g a) :
    l.filterMap f = l.filterMap g := by
  induction l with
  | nil => rfl
  | cons a as ih =>
    simp only [List.filterMap_cons, h a (by simp)]
    rw [ih (fun b hb => h b (by simp [hb]))]

/-- invariant of the backwards deletion loop: the first `n` columns are still to be visited, the rest is final -/
theorem delLoop_inv (keep : Nat → Bool) : ∀ (n : Nat) (v : Row), n ≤ v.length →
    delLoop keep n v = ((List.range n).filter keep).filterMap (fun i => v[i]?) ++ v.drop n := by
  intro n
  induction n with
  | zero => intro v _; simp [delLoop]
  | succ n ih =>
    intro v h
    have hn : n < v.length := by omega
    simp only [delLoop, List.range_succ, List.filter_append, List.filterMap_append]
    by_cases hk : keep n = true
    · simp only [hk, if_true]
      rw [ih v (by omega), List.drop_eq_getElem_cons hn]
      simp [hk, hn]
    · simp only [hk, Bool.false_eq_true, if_false]
      have hlen : n ≤ (v.eraseIdx n).length := by
        rw [List.length_eraseIdx]; simp [hn]; omega
      rw [ih _ hlen]
      have h1 : ((List.range n).filter keep).filterMap (fun i => (v.eraseIdx n)[i]?)
          = ((List.range n).filter keep).filterMap (fun i => v[i]?) := by
        apply filterMap_congr_mem
        intro a ha
        have : a < n := by
          have := (List.mem_filter.mp ha).1
          simpa using this
        exact List.getElem?_eraseIdx_of_lt this
      have h2 : (v.eraseIdx n).drop n = v.drop (n + 1) := by
        rw [List.eraseIdx_eq_take_drop_succ]
        apply List.drop_left'
        simp; omega
      rw [h1, h2]
      simp [hk]

theorem rowOf_extendMatrix (s o : Rows) (hnd : (keys o).Nodup) (t : Taxon) :
    rowOf t (extendMatrix s o) = rowOf t s ++ rowOf t o := by
  rw [extendMatrix_eq]
  simp only [rowOf, extend_spec true s o hnd t]
  cases get? t s <;> cases get? t o <;> simp

theorem freeFrom_fresh (subs : List (Label × List Nat)) (base : Label) :
    ∀ (n i : Nat), pending subs i = n → hasSub subs (freeFrom subs base i) = false := by
  intro n
  induction n using Nat.strongRecOn with
  | _ n ih =>
    intro i hn
    rw [freeFrom]
    split
    · next h =>
      have := pending_decreases subs base i h
      exact ih _ (by omega) (i + 1) rfl
    · next h => simpa using h

theorem freeFrom_first (subs : List (Label × List Nat)) (base : Label) :
    ∀ (n i : Nat), pending subs i = n → ∃ j, i ≤ j ∧ freeFrom subs base i = cand base j ∧
      ∀ k, i ≤ k → k < j → hasSub subs (cand base k) = true := by
  intro n
  induction n using Nat.strongRecOn with
  | _ n ih =>
    intro i hn
    rw [freeFrom]
    split
    · next h =>
      have := pending_decreases subs base i h
      obtain ⟨j, hj, heq, hall⟩ := ih _ (by omega) (i + 1) rfl
      refine ⟨j, by omega, heq, ?_⟩
      intro k hk1 hk2
      by_cases hki : k = i
      · subst hki; exact h
      · exact hall k (by omega) hk2
    · next h => exact ⟨i, Nat.le_refl _, rfl, fun k h1 h2 => by omega⟩

/-- what one successful round of the `concatenate` loop does -/
theorem concatStep_ok (ns : Nat) (taxa : List Taxon) (nseqs : Nat) (st st' : CState) (cidx : Nat) (cm : Matrix)
    (h : concatStep ns taxa nseqs st cidx cm = .ok st') :
    cm.ns = ns ∧ st'.acc = extendMatrix st.acc cm.rows ∧ st'.pos = st.pos + vectorSize cm.rows ∧
    (∃ name, hasSub st.subs name = false ∧
      st'.subs = st.subs ++ [(name, List.range' st.pos (vectorSize cm.rows))]) ∧
    (∃ t0 rest, taxa = t0 :: rest ∧
      ∀ p ∈ items taxa cm.rows, p.2.length = (rowOf t0 cm.rows).length) := by
  unfold concatStep at h
  split at h
  · cases h
  · next hns =>
    split at h
    · cases h
    · split at h
      · cases h
      · split at h
        · cases h
        · next t0 rest =>
          split at h
          · cases h
          · next hany =>
            split at h
            · cases h
            · next hfree =>
              simp only [Except.ok.injEq] at h
              subst h
              refine ⟨by simpa using hns, rfl, rfl, ⟨_, by simpa using hfree, rfl⟩, _, _, rfl, ?_⟩
              intro p hp
              simp only [List.any_eq_true, not_exists, not_and, bne_iff_ne, ne_eq, Decidable.not_not] at hany
              exact hany p hp

def spans : Nat → List Nat → List (List Nat)
  | _, [] => []
  | pos, w :: ws => List.range' pos w :: spans (pos + w) ws

def lowerNames (subs : List (Label × List Nat)) : List Label := subs.map (fun s => lower s.1)

theorem concatLoop_inv (ns : Nat) (taxa : List Taxon) (nseqs : Nat) :
    ∀ (ms : List Matrix) (st st' : CState) (cidx : Nat),
      concatLoop ns taxa nseqs st cidx ms = .ok st' →
      (∀ m ∈ ms, m.ns = ns) ∧
      st'.subs.map Prod.snd = st.subs.map Prod.snd ++ spans st.pos (ms.map (fun m => vectorSize m.rows)) ∧
      ((lowerNames st.subs).Nodup → (lowerNames st'.subs).Nodup) ∧
      (∀ t, (∀ m ∈ ms, (keys m.rows).Nodup) →
        rowOf t st'.acc = rowOf t st.acc ++ (ms.map (fun m => rowOf t m.rows)).flatten) ∧
      (∀ m ∈ ms, ∃ t0 rest, taxa = t0 :: rest ∧
        ∀ p ∈ items taxa m.rows, p.2.length = (rowOf t0 m.rows).length) := by
  intro ms
  induction ms with
  | nil =>
    intro st st' cidx h
    simp only [concatLoop, Except.ok.injEq] at h
    subst h
    simp [spans]
  | cons cm rest ih =>
    intro st st' cidx h
    simp only [concatLoop] at h
    split at h
    · cases h
    · next st1 hstep =>
      obtain ⟨hns, hacc, hpos, ⟨name, hfresh, hsubs⟩, hrect⟩ := concatStep_ok _ _ _ _ _ _ _ hstep
      obtain ⟨ih1, ih2, ih3, ih4, ih5⟩ := ih st1 st' (cidx + 1) h
      refine ⟨?_, ?_, ?_, ?_, ?_⟩
      · intro m hm
        simp only [List.mem_cons] at hm
        rcases hm with hm | hm
        · subst hm; exact hns
        · exact ih1 m hm
      · rw [ih2, hsubs, hpos]
        simp [spans]
      · intro hnd
        apply ih3
        rw [hsubs]
        simp only [lowerNames, List.map_append, List.map_cons, List.map_nil]
        rw [List.nodup_append]
        refine ⟨hnd, by simp, ?_⟩
        intro a ha b hb
        simp only [List.mem_singleton] at hb
        subst hb
        simp only [hasSub, List.any_eq_false, beq_iff_eq] at hfresh
        simp only [List.mem_map] at ha
        obtain ⟨x, hx, hxa⟩ := ha
        intro heq
        exact hfresh x hx (by rw [hxa, heq])
      · intro t hnd
        rw [ih4 t (fun m hm => hnd m (by simp [hm])), hacc,
          rowOf_extendMatrix _ _ (hnd cm (by simp)) t]
        simp
      · intro m hm
        simp only [List.mem_cons] at hm
        rcases hm with hm | hm
        · subst hm; exact hrect
        · exact ih5 m hm

end DendroModel.C19.Aux

namespace DendroModel.C19
open DendroModel.C19.Aux

/-- (b) the backwards deletion loop of `export_character_indices` leaves exactly the selected columns, in ascending
    order (indices outside the row, negative ones and repetitions select nothing more) -/
theorem export_row_spec (idx : List Int) (v : Row) :
    exportRow idx v = ((List.range v.length).filter (inIdx idx)).filterMap (fun i => v[i]?) := by
  rw [exportRow, delLoop_inv (inIdx idx) v.length v (Nat.le_refl _)]
  simp

/-- (b) `export_character_indices`: every row of a namespace taxon is reduced to the selected columns; same taxa,
    same namespace; the subsets are dropped -/
theorem export_spec (m : Matrix) (hnd : m.taxa.Nodup) (idx : List Int) (t : Taxon) (ht : t ∈ m.taxa) :
    get? t (exportIdx m idx).rows = (get? t m.rows).map (exportRow idx) ∧
    (exportIdx m idx).ns = m.ns ∧ (exportIdx m idx).taxa = m.taxa := by
  simp only [exportIdx, get?_mapNsRows _ m.taxa hnd m.rows t, ht, if_true, and_self]

/-- (b) `export_character_subset` by name finds the subset whatever the case of the name and exports its indices -/
theorem exportSub_caseless (m : Matrix) (lab lab' : Label) (idx : List Nat) (hmem : (lab', idx) ∈ m.subs)
    (hcase : lower lab' = lower lab) (hnd : (m.subs.map (fun s => lower s.1)).Nodup) :
    exportSub m lab = .ok (exportIdx m (idx.map Int.ofNat)) := by
  have hfind : findSub m.subs lab = some idx := by
    generalize m.subs = subs at hmem hnd
    induction subs with
    | nil => simp at hmem
    | cons kv rest ih =>
      obtain ⟨k, v⟩ := kv
      simp only [List.map_cons, List.nodup_cons, List.mem_map, not_exists, not_and] at hnd
      by_cases hk : lower k = lower lab
      · simp only [findSub, List.find?_cons, hk, beq_self_eq_true, Option.map_some]
        simp only [List.mem_cons, Prod.mk.injEq] at hmem
        rcases hmem with ⟨_, hv⟩ | hmem
        · rw [hv]
        · exact absurd (by rw [hcase, hk]) (hnd.1 (lab', idx) hmem)
      · have hne : (lab', idx) ≠ (k, v) := by
          intro h
          simp only [Prod.mk.injEq] at h
          exact hk (by rw [← h.1, hcase])
        simp only [List.mem_cons, hne, false_or] at hmem
        have := ih hmem hnd.2
        simp only [findSub] at this ⊢
        simp [hk, this]
  simp [exportSub, hfind]

/-- (b) an undefined subset name is a `KeyError` -/
theorem exportSub_undefined (m : Matrix) (lab : Label) (h : ∀ s ∈ m.subs, lower s.1 ≠ lower lab) :
    exportSub m lab = .error .keyError := by
  have hfind : findSub m.subs lab = none := by
    simp only [findSub, Option.map_eq_none_iff, List.find?_eq_none, beq_iff_eq]
    exact h
  simp [exportSub, hfind]

/-- (e) the free-name search of the repaired `concatenate` returns (it is total by definition) a label that is not
    taken, whatever labels are present -/
theorem freeName_fresh (subs : List (Label × List Nat)) (base : Label) :
    hasSub subs (freeName subs base) = false := by
  unfold freeName
  split
  · exact freeFrom_fresh subs base _ 2 rfl
  · next h => simpa using h

/-- the search returns the label itself when free, else the first free `label_NNN`, `NNN ≥ 002` -/
theorem freeName_first (subs : List (Label × List Nat)) (base : Label) :
    (hasSub subs base = false ∧ freeName subs base = base) ∨
    (hasSub subs base = true ∧ ∃ j, 2 ≤ j ∧ freeName subs base = cand base j ∧
      ∀ k, 2 ≤ k → k < j → hasSub subs (cand base k) = true) := by
  unfold freeName
  by_cases h : hasSub subs base = true
  · right
    simp only [h, if_true, true_and]
    exact freeFrom_first subs base _ 2 rfl
  · left
    simp only [h]
    simp at h
    simp

/-- (a) rows of the concatenation: for every taxon, the concatenation of its sequences in argument order
    (a missing sequence counts as empty) -/
theorem concat_rows (ms : List Matrix) (r : Matrix) (h : concatenate ms = .ok r)
    (hnd : ∀ m ∈ ms, (keys m.rows).Nodup) (t : Taxon) :
    rowOf t r.rows = (ms.map (fun m => rowOf t m.rows)).flatten := by
  cases ms with
  | nil => simp [concatenate] at h
  | cons m0 rest =>
    simp only [concatenate] at h
    split at h
    · cases h
    · next st hloop =>
      simp only [Except.ok.injEq] at h
      subst h
      have := (concatLoop_inv _ _ _ _ _ _ _ hloop).2.2.2.1 t hnd
      simpa [rowOf, get?] using this

/-- (a) one recorded subset per source matrix, in argument order, covering consecutive column spans whose widths are
    the matrices' sequence sizes -/
theorem concat_subsets (ms : List Matrix) (r : Matrix) (h : concatenate ms = .ok r) :
    r.subs.map Prod.snd = spans 0 (ms.map (fun m => vectorSize m.rows)) := by
  cases ms with
  | nil => simp [concatenate] at h
  | cons m0 rest =>
    simp only [concatenate] at h
    split at h
    · cases h
    · next st hloop =>
      simp only [Except.ok.injEq] at h
      subst h
      have := (concatLoop_inv _ _ _ _ _ _ _ hloop).2.1
      simpa using this

/-- (a) the recorded subsets carry pairwise distinct names, even up to case (so none overwrites another) -/
theorem concat_names_distinct (ms : List Matrix) (r : Matrix) (h : concatenate ms = .ok r) :
    (r.subs.map (fun s => lower s.1)).Nodup := by
  cases ms with
  | nil => simp [concatenate] at h
  | cons m0 rest =>
    simp only [concatenate] at h
    split at h
    · cases h
    · next st hloop =>
      simp only [Except.ok.injEq] at h
      subst h
      exact (concatLoop_inv _ _ _ _ _ _ _ hloop).2.2.1 (by simp [lowerNames])

/-- (e) a list containing a matrix over another namespace is never concatenated -/
theorem concat_same_namespace (ms : List Matrix) (r : Matrix) (h : concatenate ms = .ok r) :
    ∀ m ∈ ms, m.ns = r.ns := by
  cases ms with
  | nil => simp [concatenate] at h
  | cons m0 rest =>
    simp only [concatenate] at h
    split at h
    · cases h
    · next st hloop =>
      simp only [Except.ok.injEq] at h
      subst h
      exact (concatLoop_inv _ _ _ _ _ _ _ hloop).1

/-- (a) in every concatenated source matrix whose rows all belong to the namespace, every row is exactly as long as
    the width of the subset recorded for that matrix (with `concat_rows` and `concat_subsets`: the subset covers exactly
    that matrix's columns) -/
theorem concat_subset_width (ms : List Matrix) (r : Matrix) (h : concatenate ms = .ok r) (m : Matrix) (hm : m ∈ ms)
    (hin : ∀ kv ∈ m.rows, kv.1 ∈ r.taxa) (t : Taxon) (ht : t ∈ r.taxa) (row : Row)
    (hrow : get? t m.rows = some row) : row.length = vectorSize m.rows := by
  cases ms with
  | nil => simp [concatenate] at h
  | cons m0 rest =>
    simp only [concatenate] at h
    split at h
    · cases h
    · next st hloop =>
      simp only [Except.ok.injEq] at h
      subst h
      simp only [] at hin ht
      obtain ⟨t0, tl, htaxa, hall⟩ := (concatLoop_inv _ _ _ _ _ _ _ hloop).2.2.2.2 m hm
      have mem_items : ∀ (u : Taxon) (ru : Row), u ∈ m0.taxa → get? u m.rows = some ru → (u, ru) ∈ items m0.taxa m.rows := by
        intro u ru hu hg
        simp only [items, List.mem_filterMap]
        exact ⟨u, hu, by simp [hg]⟩
      have h1 : row.length = (rowOf t0 m.rows).length := hall (t, row) (mem_items t row ht hrow)
      cases hrows : m.rows with
      | nil => rw [hrows] at hrow; simp [get?] at hrow
      | cons kv rs =>
        obtain ⟨k, rk⟩ := kv
        have hk : k ∈ m0.taxa := hin (k, rk) (by rw [hrows]; simp)
        have hg : get? k m.rows = some rk := by rw [hrows]; simp [get?]
        have h2 := hall (k, rk) (mem_items k rk hk hg)
        simp only [vectorSize]
        rw [hrows] at h1 h2
        simp only [] at h2
        omega

end DendroModel.C19

/-! ## non-vacuity: the hypotheses used above are satisfiable, and a concatenation with colliding labels succeeds -/
namespace DendroModel.C19.Aux
open DendroModel.C19

def mA : Matrix := { ns := 0, taxa := [0, 1], label := some ['x'], rows := [(0, [1, 2]), (1, [3, 4])], subs := [] }
def mB : Matrix := { ns := 0, taxa := [0, 1], label := some ['X'], rows := [(1, [5]), (0, [6])], subs := [] }
def mAB : Matrix :=
  { ns := 0, taxa := [0, 1], label := none, rows := [(0, [1, 2, 6]), (1, [3, 4, 5])],
    subs := [(['x'], [0, 1]), (['X', '_', '0', '0', '2'], [2])] }

/-- two matrices whose labels are equal up to case (the input on which the unrepaired loop never ends) -/
theorem ex_concat : concatenate [mA, mB] = .ok mAB := by
  have h2 : cand ['X'] 2 = ['X', '_', '0', '0', '2'] := by
    simp [cand, pad3, pad3Rev, digitsRev, digitChar]
  have h4 : ∀ idx, freeName [(['x'], idx)] ['X'] = ['X', '_', '0', '0', '2'] := by
    intro idx
    have h1 : hasSub [(['x'], idx)] ['X'] = true := by simp [hasSub, lower]
    have h3 : hasSub [(['x'], idx)] (cand ['X'] 2) = false := by rw [h2]; simp [hasSub, lower]
    rw [freeName, if_pos h1, freeFrom, dif_neg (by simp [h3]), h2]
  have h5 : freeName [] ['x'] = ['x'] := by simp [freeName, hasSub]
  have h6 : lower ['x'] ≠ lower ['X', '_', '0', '0', '2'] := by decide
  simp [concatenate, concatLoop, concatStep, mA, mB, mAB, items, get?, rowOf, baseLabel, h5, hasSub, h4, h6, vectorSize,
    extendMatrix, has, DendroModel.C19.set]
  decide

example : ∀ m ∈ [mA, mB], (keys m.rows).Nodup := by decide
example : mA.taxa.Nodup := by decide
example : ∀ kv ∈ mB.rows, kv.1 ∈ mAB.taxa := by decide
example : removeSeqs [1] mA.rows = ([(0, [1, 2])], none) := by decide
example : (removeSeqs [1, 1] mA.rows).2 = some .keyError := by decide
example : maxLen mA.taxa mB.rows ≤ fillSize none mA.taxa mB.rows := by simp [fillSize]
example : exportRow [2, 0, 0, -1, 7] [10, 11, 12, 13] = [10, 12] := by decide
example : ∃ o : Matrix, o.ns ≠ mA.ns := ⟨{ mA with ns := 1 }, by decide⟩

end DendroModel.C19.Aux

/-! ## (a) the subset of a source matrix covers exactly its columns -/
namespace DendroModel.C19.Aux
open DendroModel.C19

theorem length_flatten_map {α} (f : α → List Nat) (g : α → Nat) (l : List α) (h : ∀ x ∈ l, (f x).length = g x) :
    ((l.map f).flatten).length = (l.map g).sum := by
  induction l with
  | nil => simp
  | cons a as ih =>
    simp only [List.map_cons, List.flatten_cons, List.length_append, List.sum_cons, h a (by simp)]
    rw [ih (fun x hx => h x (by simp [hx]))]

theorem spans_append (pos : Nat) (ws1 : List Nat) (w : Nat) (ws2 : List Nat) :
    (spans pos (ws1 ++ w :: ws2))[ws1.length]? = some (List.range' (pos + ws1.sum) w) := by
  induction ws1 generalizing pos with
  | nil => simp [spans]
  | cons a as ih =>
    simp only [List.cons_append, spans, List.length_cons, List.getElem?_cons_succ, List.sum_cons]
    rw [ih]
    simp [Nat.add_assoc]

end DendroModel.C19.Aux

namespace DendroModel.C19
open DendroModel.C19.Aux

/-- (a) the subset recorded for a source matrix covers exactly that matrix's columns: it is the span
    `[off, off + width)` with `off` the total width of the matrices before it, and cutting that span out of a taxon's
    concatenated row gives back the taxon's row in that matrix (all rows belong to the namespace, the taxon has a row in
    every source matrix — which `concatenate` itself demands of complete matrices) -/
theorem concat_subset_covers (pre post : List Matrix) (m r : Matrix)
    (h : concatenate (pre ++ m :: post) = .ok r)
    (hnd : ∀ x ∈ pre ++ m :: post, (keys x.rows).Nodup)
    (hin : ∀ x ∈ pre ++ m :: post, ∀ kv ∈ x.rows, kv.1 ∈ r.taxa)
    (t : Taxon) (ht : t ∈ r.taxa) (hall : ∀ x ∈ pre ++ m :: post, has t x.rows = true) :
    (r.subs.map Prod.snd)[pre.length]?
      = some (List.range' (pre.map (fun x => vectorSize x.rows)).sum (vectorSize m.rows)) ∧
    ((rowOf t r.rows).drop (pre.map (fun x => vectorSize x.rows)).sum).take (vectorSize m.rows) = rowOf t m.rows := by
  have hw : ∀ x ∈ pre ++ m :: post, (rowOf t x.rows).length = vectorSize x.rows := by
    intro x hx
    have hh := hall x hx
    simp only [has_eq, Option.isSome_iff_exists] at hh
    obtain ⟨row, hrow⟩ := hh
    simp only [rowOf, hrow, Option.getD_some]
    exact concat_subset_width _ r h x hx (hin x hx) t ht row hrow
  constructor
  · rw [concat_subsets _ r h]
    simp only [List.map_append, List.map_cons]
    have := spans_append 0 (pre.map (fun x => vectorSize x.rows)) (vectorSize m.rows) (post.map (fun x => vectorSize x.rows))
    simpa using this
  · rw [concat_rows _ r h hnd t]
    simp only [List.map_append, List.map_cons, List.flatten_append, List.flatten_cons]
    have hlen : ((pre.map (fun x => rowOf t x.rows)).flatten).length = (pre.map (fun x => vectorSize x.rows)).sum :=
      length_flatten_map _ _ pre (fun x hx => hw x (by simp [hx]))
    rw [List.drop_left' hlen, List.take_left' (hw m (by simp))]

end DendroModel.C19

/-! ## success conditions, refusals, subset names, invariants (second round) -/
namespace DendroModel.C19

/-- what `concatenate` demands of each matrix of the list (its four `raise ValueError` guards):
    the first matrix's namespace, as many rows as the namespace has taxa and as the first matrix has rows,
    and all rows of namespace taxa as long as the row of the first taxon -/
def Concatenable (ns : Nat) (taxa : List Taxon) (nseqs : Nat) (cm : Matrix) : Prop :=
  cm.ns = ns ∧ cm.rows.length = taxa.length ∧ cm.rows.length = nseqs ∧
  ∀ p ∈ items taxa cm.rows, p.2.length = (rowOf (taxa.headD 0) cm.rows).length

/-- the state after a successful round: rows extended, one subset appended under the free name, offset advanced -/
def stepState (st : CState) (cidx : Nat) (cm : Matrix) : CState :=
  { acc := extendMatrix st.acc cm.rows,
    subs := st.subs ++ [(freeName st.subs (baseLabel cm cidx), List.range' st.pos (vectorSize cm.rows))],
    pos := st.pos + vectorSize cm.rows }

/-- the subsets `concatenate` records: per source matrix, in argument order, the first free name for its label
    (or for `locusNNN`) and the next span -/
def namedSpans : List (Label × List Nat) → Nat → Nat → List Matrix → List (Label × List Nat)
  | subs, _, _, [] => subs
  | subs, pos, cidx, m :: ms =>
    namedSpans (subs ++ [(freeName subs (baseLabel m cidx), List.range' pos (vectorSize m.rows))])
      (pos + vectorSize m.rows) (cidx + 1) ms

end DendroModel.C19

namespace DendroModel.C19.Aux
open DendroModel.C19

theorem concatStep_of (ns : Nat) (t0 : Taxon) (tl : List Taxon) (nseqs : Nat) (st : CState) (cidx : Nat) (cm : Matrix)
    (hc : Concatenable ns (t0 :: tl) nseqs cm) :
    concatStep ns (t0 :: tl) nseqs st cidx cm = .ok (stepState st cidx cm) := by
  obtain ⟨h1, h2, h3, h4⟩ := hc
  have hany : (items (t0 :: tl) cm.rows).any (fun p => p.2.length != (rowOf t0 cm.rows).length) = false := by
    simp only [List.any_eq_false, bne_iff_ne, ne_eq, Decidable.not_not]
    intro p hp
    simpa using h4 p hp
  unfold concatStep
  rw [if_neg (fun h => h h1), if_neg (fun h => h h2), if_neg (fun h => h h3)]
  simp only []
  rw [if_neg (by rw [hany]; simp), if_neg (by rw [freeName_fresh]; simp)]
  rfl

theorem concatStep_not (ns : Nat) (t0 : Taxon) (tl : List Taxon) (nseqs : Nat) (st : CState) (cidx : Nat) (cm : Matrix)
    (hc : ¬ Concatenable ns (t0 :: tl) nseqs cm) :
    concatStep ns (t0 :: tl) nseqs st cidx cm = .error .valueError := by
  unfold concatStep
  by_cases h1 : cm.ns = ns
  · rw [if_neg (fun h => h h1)]
    by_cases h2 : cm.rows.length = (t0 :: tl).length
    · rw [if_neg (fun h => h h2)]
      by_cases h3 : cm.rows.length = nseqs
      · rw [if_neg (fun h => h h3)]
        have h4 : ¬ ∀ p ∈ items (t0 :: tl) cm.rows, p.2.length = (rowOf t0 cm.rows).length := by
          intro h4
          exact hc ⟨h1, h2, h3, by simpa using h4⟩
        have hany : (items (t0 :: tl) cm.rows).any (fun p => p.2.length != (rowOf t0 cm.rows).length) = true := by
          simp only [List.any_eq_true, bne_iff_ne, ne_eq]
          simp only [Classical.not_forall] at h4
          obtain ⟨p, hp, hne⟩ := h4
          exact ⟨p, hp, hne⟩
        simp only []
        rw [if_pos hany]
      · rw [if_pos h3]
    · rw [if_pos h2]
  · rw [if_pos h1]

theorem concatLoop_ok_iff (ns : Nat) (t0 : Taxon) (tl : List Taxon) (nseqs : Nat) :
    ∀ (ms : List Matrix) (st : CState) (cidx : Nat),
      ((∃ st', concatLoop ns (t0 :: tl) nseqs st cidx ms = .ok st') ↔
        ∀ m ∈ ms, Concatenable ns (t0 :: tl) nseqs m) ∧
      (∀ e, concatLoop ns (t0 :: tl) nseqs st cidx ms = .error e → e = .valueError) ∧
      (∀ st', concatLoop ns (t0 :: tl) nseqs st cidx ms = .ok st' →
        st'.subs = namedSpans st.subs st.pos cidx ms) := by
  intro ms
  induction ms with
  | nil => intro st cidx; simp [concatLoop, namedSpans]
  | cons cm rest ih =>
    intro st cidx
    by_cases hc : Concatenable ns (t0 :: tl) nseqs cm
    · obtain ⟨ih1, ih2, ih3⟩ := ih (stepState st cidx cm) (cidx + 1)
      simp only [concatLoop, concatStep_of _ _ _ _ _ _ _ hc, List.mem_cons, forall_eq_or_imp, hc, true_and]
      refine ⟨ih1, ih2, ?_⟩
      intro st' h
      rw [ih3 st' h]
      simp [namedSpans, stepState]
    · simp only [concatLoop, concatStep_not _ _ _ _ _ _ _ hc, List.mem_cons, forall_eq_or_imp, hc, false_and]
      simp

/-- pigeonhole: a duplicate-free list inside another list that is not longer covers it -/
theorem subset_of_nodup_length (l1 l2 : List Nat) (hnd : l1.Nodup) (hsub : ∀ x ∈ l1, x ∈ l2)
    (hlen : l2.length ≤ l1.length) : ∀ x ∈ l2, x ∈ l1 := by
  induction l1 generalizing l2 with
  | nil =>
    intro x hx
    cases l2 with
    | nil => cases hx
    | cons a as => simp at hlen
  | cons a l1 ih =>
    obtain ⟨ha, hnd'⟩ := List.nodup_cons.mp hnd
    have ha2 : a ∈ l2 := hsub a (by simp)
    have hsub' : ∀ x ∈ l1, x ∈ l2.erase a := by
      intro x hx
      have hne : x ≠ a := by intro h; subst h; exact ha hx
      exact (List.mem_erase_of_ne hne).mpr (hsub x (by simp [hx]))
    have hlen' : (l2.erase a).length ≤ l1.length := by
      rw [List.length_erase_of_mem ha2]
      simp at hlen
      omega
    intro x hx
    by_cases hxa : x = a
    · simp [hxa]
    · have := ih (l2.erase a) hnd' hsub' hlen' x ((List.mem_erase_of_ne hxa).mpr hx)
      simp [this]

theorem namedSpans_labels_kept (ms : List Matrix) (labs : List Label) :
    ∀ (subs : List (Label × List Nat)) (pos cidx : Nat),
      ms.map Matrix.label = labs.map some →
      ((subs.map (fun s => lower s.1)) ++ labs.map lower).Nodup →
      (namedSpans subs pos cidx ms).map Prod.fst = subs.map Prod.fst ++ labs := by
  induction ms generalizing labs with
  | nil =>
    intro subs pos cidx hl _
    cases labs with
    | nil => simp [namedSpans]
    | cons a as => simp at hl
  | cons m ms ih =>
    intro subs pos cidx hl hnd
    cases labs with
    | nil => simp at hl
    | cons a as =>
      simp only [List.map_cons, List.cons.injEq] at hl
      have hfree : hasSub subs a = false := by
        simp only [hasSub, List.any_eq_false, beq_iff_eq]
        intro x hx heq
        have := (List.nodup_append.mp hnd).2.2 (lower x.1) (List.mem_map.mpr ⟨x, hx, rfl⟩) (lower a) (by simp)
        exact this heq
      have hname : freeName subs (baseLabel m cidx) = a := by
        simp [baseLabel, hl.1, freeName, hfree]
      simp only [namedSpans, hname]
      rw [ih as _ _ _ hl.2]
      · simp
      · simp only [List.map_append, List.map_cons, List.map_nil, List.append_assoc, List.singleton_append]
        simpa using hnd

end DendroModel.C19.Aux

namespace DendroModel.C19
open DendroModel.C19.Aux

/-- (a, e) success conditions of `concatenate`, exactly: over a non-empty namespace the call returns a matrix iff every
    matrix of the list passes the four documented guards.  In particular no combination of labels (repeated, equal up
    to case, colliding with generated names, the same object twice) makes it fail: the `add_character_subset` refusal
    is dead code after the free-name search -/
theorem concat_ok_iff (m0 : Matrix) (rest : List Matrix) (ht : m0.taxa ≠ []) :
    (∃ r, concatenate (m0 :: rest) = .ok r) ↔
      ∀ m ∈ m0 :: rest, Concatenable m0.ns m0.taxa m0.rows.length m := by
  obtain ⟨t0, tl, htaxa⟩ : ∃ t0 tl, m0.taxa = t0 :: tl := by
    cases h : m0.taxa with
    | nil => exact absurd h ht
    | cons a as => exact ⟨a, as, rfl⟩
  have key := (concatLoop_ok_iff m0.ns t0 tl m0.rows.length (m0 :: rest) ⟨[], [], 0⟩ 0).1
  simp only [concatenate, htaxa]
  rw [← key]
  constructor
  · rintro ⟨r, h⟩
    split at h
    · cases h
    · next st hst => exact ⟨st, hst⟩
  · rintro ⟨st, hst⟩
    rw [hst]
    exact ⟨_, rfl⟩

/-- the auditor's form: complete rectangular matrices over one non-empty namespace are always concatenated -/
theorem concat_succeeds (m0 : Matrix) (rest : List Matrix) (ht : m0.taxa ≠ [])
    (h : ∀ m ∈ m0 :: rest, Concatenable m0.ns m0.taxa m0.rows.length m) : ∃ r, concatenate (m0 :: rest) = .ok r :=
  (concat_ok_iff m0 rest ht).mpr h

/-- (e) over a non-empty namespace the only refusal is `ValueError` -/
theorem concat_error_kind (m0 : Matrix) (rest : List Matrix) (ht : m0.taxa ≠ []) (e : Err)
    (h : concatenate (m0 :: rest) = .error e) : e = .valueError := by
  obtain ⟨t0, tl, htaxa⟩ : ∃ t0 tl, m0.taxa = t0 :: tl := by
    cases h' : m0.taxa with
    | nil => exact absurd h' ht
    | cons a as => exact ⟨a, as, rfl⟩
  have key := (concatLoop_ok_iff m0.ns t0 tl m0.rows.length (m0 :: rest) ⟨[], [], 0⟩ 0).2.1
  simp only [concatenate, htaxa] at h
  split at h
  · next e' he =>
    simp only [Except.error.injEq] at h
    subst h
    exact key e' he
  · cases h

/-- (e) a list containing a matrix over a different namespace is refused with `ValueError` -/
theorem concat_refuses_foreign (m0 : Matrix) (rest : List Matrix) (ht : m0.taxa ≠ []) (m : Matrix)
    (hm : m ∈ m0 :: rest) (hns : m.ns ≠ m0.ns) : concatenate (m0 :: rest) = .error .valueError := by
  cases hres : concatenate (m0 :: rest) with
  | error e => rw [concat_error_kind m0 rest ht e hres]
  | ok r =>
    have := (concat_ok_iff m0 rest ht).mp ⟨r, hres⟩ m hm
    exact absurd this.1 hns

/-- (a) which name each recorded subset receives, and which span: exactly `namedSpans`.  `namedSpans` is the loop's own
    subset bookkeeping isolated from rows and guards (a projection of the loop, not an independent specification); the
    content about the names is in `freeName_first`, `concat_labels_kept`, `concat_names_distinct` -/
theorem concat_subset_labels (ms : List Matrix) (r : Matrix) (h : concatenate ms = .ok r) :
    r.subs = namedSpans [] 0 0 ms := by
  cases ms with
  | nil => simp [concatenate] at h
  | cons m0 rest =>
    cases htaxa : m0.taxa with
    | nil =>
      simp only [concatenate, htaxa, concatLoop, concatStep] at h
      split at h
      · cases h
      · next st hst =>
        split at hst
        · next e he => cases hst
        · next st1 he =>
          exfalso
          split at he
          · cases he
          · split at he
            · cases he
            · split at he <;> cases he
    | cons t0 tl =>
      simp only [concatenate, htaxa] at h
      split at h
      · cases h
      · next st hst =>
        simp only [Except.ok.injEq] at h
        subst h
        exact (concatLoop_ok_iff m0.ns t0 tl m0.rows.length (m0 :: rest) ⟨[], [], 0⟩ 0).2.2 st hst

/-- (a) when every source matrix carries a label and the labels are pairwise distinct up to case, each subset is
    recorded under its matrix's own label -/
theorem concat_labels_kept (ms : List Matrix) (r : Matrix) (h : concatenate ms = .ok r) (labs : List Label)
    (hl : ms.map Matrix.label = labs.map some) (hnd : (labs.map lower).Nodup) :
    r.subs.map Prod.fst = labs := by
  rw [concat_subset_labels ms r h]
  simpa using namedSpans_labels_kept ms labs [] 0 0 hl (by simpa using hnd)

end DendroModel.C19

namespace DendroModel.C19.Aux
open DendroModel.C19

theorem keys_set (t : Taxon) (r : Row) (rs : Rows) :
    keys (set t r rs) = if t ∈ keys rs then keys rs else keys rs ++ [t] := by
  induction rs with
  | nil => simp [set, keys]
  | cons kv rest ih =>
    obtain ⟨k, v⟩ := kv
    simp only [keys] at ih
    by_cases hk : k = t
    · subst hk; simp [set, keys]
    · by_cases hm : t ∈ List.map Prod.fst rest
      · simp [set, keys, hk, ih, hm]
      · simp [set, keys, hk, ih, hm, Ne.symm hk]

theorem nodup_set (t : Taxon) (r : Row) (rs : Rows) (h : (keys rs).Nodup) : (keys (set t r rs)).Nodup := by
  rw [keys_set]
  split
  · exact h
  · next hm =>
    rw [List.nodup_append]
    refine ⟨h, by simp, ?_⟩
    intro a ha b hb
    simp only [List.mem_singleton] at hb
    subst hb
    intro hab
    subst hab
    exact hm ha

theorem nodup_del (t : Taxon) (rs : Rows) (h : (keys rs).Nodup) : (keys (del t rs)).Nodup := by
  induction rs with
  | nil => simp [del, keys]
  | cons kv rest ih =>
    obtain ⟨k, v⟩ := kv
    simp only [keys, List.map_cons, List.nodup_cons] at h
    simp only [keys, del] at ih
    by_cases hk : k = t
    · subst hk
      simpa [del, keys, List.filter_cons] using ih h.2
    · simp only [del, keys, List.filter_cons, bne_iff_ne, ne_eq, hk, not_false_eq_true, if_true,
        List.map_cons, List.nodup_cons]
      refine ⟨?_, ih h.2⟩
      intro hm
      apply h.1
      simp only [List.mem_map] at hm ⊢
      obtain ⟨x, hx, hxk⟩ := hm
      exact ⟨x, (List.mem_filter.mp hx).1, hxk⟩

theorem nodup_foldl {α} (step : Rows → α → Rows) (hstep : ∀ acc a, (keys acc).Nodup → (keys (step acc a)).Nodup)
    (l : List α) (rs : Rows) (h : (keys rs).Nodup) : (keys (l.foldl step rs)).Nodup := by
  induction l generalizing rs with
  | nil => exact h
  | cons a as ih => exact ih _ (hstep rs a h)

theorem removeSeqs_nodup (taxa : List Taxon) (rs : Rows) (h : (keys rs).Nodup) :
    (keys (removeSeqs taxa rs).1).Nodup := by
  induction taxa generalizing rs with
  | nil => exact h
  | cons t ts ih =>
    simp only [removeSeqs]
    split
    · exact ih _ (nodup_del t rs h)
    · exact h

theorem has_of_mem_keys (t : Taxon) (rs : Rows) (h : t ∈ keys rs) : has t rs = true := by
  cases hg : get? t rs with
  | some r => simp [has_eq, hg]
  | none =>
    exfalso
    induction rs with
    | nil => simp [keys] at h
    | cons kv rest ih =>
      obtain ⟨k, v⟩ := kv
      by_cases hk : k = t
      · simp [get?, hk] at hg
      · simp only [get?, hk, if_false] at hg
        simp only [keys, List.map_cons, List.mem_cons] at h
        rcases h with h | h
        · exact hk h.symm
        · exact ih h hg

end DendroModel.C19.Aux

namespace DendroModel.C19
open DendroModel.C19.Aux

/-- "all sequences of these operations": every operation keeps the row store a dict (distinct keys), so the hypotheses
    `(keys _).Nodup` of the specifications hold along every history that starts from dicts -/
theorem keys_nodup_preserved (s o : Rows) (hs : (keys s).Nodup) :
    (keys (addSeqs s o)).Nodup ∧ (keys (replaceSeqs s o)).Nodup ∧ (keys (updateSeqs s o)).Nodup ∧
    (∀ b, (keys (extendSeqs b s o)).Nodup) ∧ (keys (extendMatrix s o)).Nodup ∧
    (∀ taxa, (keys (removeSeqs taxa s).1).Nodup ∧ (keys (discardSeqs taxa s)).Nodup ∧ (keys (keepSeqs taxa s)).Nodup ∧
      (keys (fillTaxa taxa s)).Nodup ∧ (∀ f, (keys (mapNsRows f taxa s)).Nodup)) := by
  have fin : ∀ {α} (step : Rows → α → Rows) (l : List α),
      (∀ acc a, (keys acc).Nodup → (keys (step acc a)).Nodup) → (keys (l.foldl step s)).Nodup :=
    fun step l hstep => nodup_foldl step hstep l s hs
  refine ⟨?_, ?_, ?_, ?_, ?_, ?_⟩
  · exact fin _ o (fun acc a h => by
      split <;> first | exact h | exact nodup_set _ _ _ h)
  · exact fin _ o (fun acc a h => by
      split <;> first | exact h | exact nodup_set _ _ _ h)
  · exact fin _ o (fun acc a h => nodup_set _ _ _ h)
  · intro b
    exact fin _ o (fun acc a h => by
      repeat' split
      all_goals first | exact h | exact nodup_set _ _ _ h)
  · exact fin _ o (fun acc a h => by
      split <;> exact nodup_set _ _ _ h)
  · intro taxa
    refine ⟨removeSeqs_nodup taxa s hs, ?_, ?_, ?_, ?_⟩
    · exact fin _ taxa (fun acc a h => by
        split <;> first | exact h | exact nodup_del _ _ h)
    · exact fin _ (keys s) (fun acc a h => by
        split <;> first | exact h | exact nodup_del _ _ h)
    · exact fin _ taxa (fun acc a h => by
        split <;> first | exact h | exact nodup_set _ _ _ h)
    · intro f
      exact fin _ taxa (fun acc a h => by
        split <;> first | exact h | exact nodup_set _ _ _ h)

/-- the result of `concatenate` is a dict again -/
theorem concat_keys_nodup (ms : List Matrix) (r : Matrix) (h : concatenate ms = .ok r) : (keys r.rows).Nodup := by
  have loop : ∀ (ns : Nat) (taxa : List Taxon) (nseqs : Nat) (ms : List Matrix) (st st' : CState) (cidx : Nat),
      concatLoop ns taxa nseqs st cidx ms = .ok st' → (keys st.acc).Nodup → (keys st'.acc).Nodup := by
    intro ns taxa nseqs ms
    induction ms with
    | nil => intro st st' cidx h hn; simp only [concatLoop, Except.ok.injEq] at h; subst h; exact hn
    | cons cm rest ih =>
      intro st st' cidx h hn
      simp only [concatLoop] at h
      split at h
      · cases h
      · next st1 hstep =>
        have hacc := (concatStep_ok _ _ _ _ _ _ _ hstep).2.1
        exact ih st1 st' _ h (by rw [hacc]; exact (keys_nodup_preserved st.acc cm.rows hn).2.2.2.2.1)
  cases ms with
  | nil => simp [concatenate] at h
  | cons m0 rest =>
    simp only [concatenate] at h
    split at h
    · cases h
    · next st hst =>
      simp only [Except.ok.injEq] at h
      subst h
      exact loop _ _ _ _ _ _ _ hst (by simp [keys])

/-- `extend_matrix`: union of the two row sets; shared rows are `self`'s cells followed by `other`'s -/
theorem extendMatrix_spec (s o : Rows) (hnd : (keys o).Nodup) (t : Taxon) :
    get? t (extendMatrix s o) = match get? t s, get? t o with
      | some a, some b => some (a ++ b)
      | some a, none => some a
      | none, some b => some b
      | none, none => none := by
  rw [extendMatrix_eq, extend_spec true s o hnd t]
  cases get? t s <;> cases get? t o <;> simp

/-- (d, e) the binary row operations as methods: over the same namespace the call succeeds and changes nothing but the
    rows (namespace, label and subsets of `self` are kept, the rows are the operation's); over a different namespace
    it is refused with `ValueError` and there is no result -/
theorem rowOp_spec (f : Rows → Rows → Rows) (self other : Matrix) :
    (other.ns = self.ns ∧ ∃ r, rowOp f self other = .ok r ∧ r.rows = f self.rows other.rows ∧ r.ns = self.ns ∧
        r.taxa = self.taxa ∧ r.label = self.label ∧ r.subs = self.subs) ∨
    (other.ns ≠ self.ns ∧ rowOp f self other = .error .valueError) := by
  by_cases h : other.ns = self.ns
  · left; exact ⟨h, { self with rows := f self.rows other.rows }, by simp [rowOp, h], rfl, rfl, rfl, rfl, rfl⟩
  · right; exact ⟨h, by simp [rowOp, h]⟩

/-- (c) when every row belongs to a namespace taxon (the documented state of a matrix), `fill` to at least the longest
    row leaves ALL sequences of the matrix equally long -/
theorem fill_all_equal (value : Cell) (size : Option Nat) (append : Bool) (taxa : List Taxon) (hnd : taxa.Nodup)
    (rs : Rows) (hin : ∀ k ∈ keys rs, k ∈ taxa) (hsize : maxLen taxa rs ≤ fillSize size taxa rs)
    (t : Taxon) (r : Row) (h : get? t (fillRows value size append taxa rs) = some r) :
    r.length = fillSize size taxa rs := by
  by_cases ht : t ∈ taxa
  · exact fill_equal_length value size append taxa hnd rs hsize t ht r h
  · rw [fill_spec value size append taxa hnd rs t] at h
    simp only [ht, if_false] at h
    exact absurd (hin t (mem_keys_of_get? t rs r h)) ht

/-- (c) `pack` with no size, or with any size not below the longest row, leaves all rows of the namespace equally long -/
theorem pack_equal_length_sized (value : Cell) (size : Option Nat) (append : Bool) (taxa : List Taxon)
    (hnd : taxa.Nodup) (rs : Rows)
    (hsize : maxLen taxa (fillTaxa taxa rs) ≤ fillSize size taxa (fillTaxa taxa rs))
    (t : Taxon) (ht : t ∈ taxa) :
    (rowOf t (packRows value size append taxa rs)).length = fillSize size taxa (fillTaxa taxa rs) := by
  have h1 := pack_spec value size append taxa hnd rs t ht
  have := fill_equal_length value size append taxa hnd (fillTaxa taxa rs) hsize t ht _ (by simpa [packRows] using h1)
  simp only [rowOf, h1, Option.getD_some]
  exact this

/-- (a) completeness is forced: in a successful concatenation every source matrix whose rows are a dict keyed by
    namespace taxa has a row for EVERY taxon of the (duplicate-free) namespace — `len(cm) == len(taxon_namespace)` -/
theorem concat_all_present (m0 : Matrix) (rest : List Matrix) (r : Matrix) (h : concatenate (m0 :: rest) = .ok r)
    (htx : m0.taxa ≠ []) (m : Matrix) (hm : m ∈ m0 :: rest) (hnd : (keys m.rows).Nodup)
    (hin : ∀ k ∈ keys m.rows, k ∈ m0.taxa) (t : Taxon) (ht : t ∈ m0.taxa) : has t m.rows = true := by
  have hc := (concat_ok_iff m0 rest htx).mp ⟨r, h⟩ m hm
  have hlen : m0.taxa.length ≤ (keys m.rows).length := by simp [keys, hc.2.1]
  exact has_of_mem_keys t m.rows (subset_of_nodup_length (keys m.rows) m0.taxa hnd hin hlen t ht)

end DendroModel.C19

/-! ## non-vacuity of the success / refusal / invariant theorems -/
namespace DendroModel.C19.Aux
open DendroModel.C19

theorem ex_concatenable : ∀ m ∈ [mA, mB], Concatenable mA.ns mA.taxa mA.rows.length m := by
  intro m hm
  simp only [List.mem_cons, List.not_mem_nil, or_false] at hm
  rcases hm with rfl | rfl <;> (unfold Concatenable; decide)

example : ∃ r, concatenate [mA, mB] = .ok r := concat_succeeds mA [mB] (by decide) ex_concatenable
example : concatenate [mA, { mB with ns := 1 }] = .error .valueError :=
  concat_refuses_foreign mA [{ mB with ns := 1 }] (by decide) { mB with ns := 1 } (by simp) (by decide)
example : ¬ Concatenable mA.ns mA.taxa mA.rows.length { mB with rows := [(1, [5])] } := by
  unfold Concatenable; decide
example : [mA, { mB with label := some ['y'] }].map Matrix.label = [['x'], ['y']].map some ∧
    ([['x'], ['y']].map lower).Nodup := by decide
example : (keys mA.rows).Nodup ∧ ∀ k ∈ keys mB.rows, k ∈ mA.taxa := by decide
example : maxLen mA.taxa (fillTaxa mA.taxa [(0, [1, 2])]) ≤ fillSize (some 5) mA.taxa (fillTaxa mA.taxa [(0, [1, 2])]) := by
  decide

end DendroModel.C19.Aux

namespace DendroModel.C19

/-- boundary of the model (and of the code: `cm[0]` raises `IndexError`, or the row count check `ValueError`):
    over an empty namespace nothing is ever concatenated -/
theorem concat_empty_namespace_refused (m0 : Matrix) (rest : List Matrix) (ht : m0.taxa = []) (r : Matrix) :
    concatenate (m0 :: rest) ≠ .ok r := by
  intro h
  simp only [concatenate, ht, concatLoop, concatStep] at h
  split at h
  · cases h
  · next st hst =>
    split at hst
    · cases hst
    · next st1 he =>
      split at he
      · cases he
      · split at he
        · cases he
        · split at he <;> cases he

end DendroModel.C19

/-! ## extension round: subsets, sizes, column selection with index shift, reading-and-concatenating, loop measures -/
namespace DendroModel.C19.Aux
open DendroModel.C19

theorem mem_insertAsc (x a : Nat) (l : List Nat) : a ∈ insertAsc x l ↔ a = x ∨ a ∈ l := by
  induction l with
  | nil => simp [insertAsc]
  | cons y ys ih =>
    simp only [insertAsc]
    split
    · simp
    · split
      · next h => subst h; simp
      · simp only [List.mem_cons, ih]
        constructor
        · rintro (h | h | h) <;> simp [h]
        · rintro (h | h | h) <;> simp [h]

/-- strictly ascending -/
def Asc : List Nat → Prop
  | [] => True
  | [_] => True
  | a :: b :: r => a < b ∧ Asc (b :: r)

theorem asc_insertAsc (x : Nat) (l : List Nat) (h : Asc l) : Asc (insertAsc x l) := by
  induction l with
  | nil => simp [insertAsc, Asc]
  | cons y ys ih =>
    simp only [insertAsc]
    split
    · next hlt => exact ⟨hlt, h⟩
    · split
      · exact h
      · next h1 h2 =>
        have hyx : y < x := by omega
        cases ys with
        | nil => simp [insertAsc, Asc, hyx]
        | cons z zs =>
          have hz := ih h.2
          simp only [insertAsc] at hz ⊢
          split
          · next hxz => exact ⟨hyx, by simpa [hxz] using hz⟩
          · split
            · next hxz' hxz => simpa [hxz', hxz] using h
            · next hxz' hxz =>
              refine ⟨h.1, ?_⟩
              simpa [hxz', hxz] using hz

end DendroModel.C19.Aux

namespace DendroModel.C19.Aux
open DendroModel.C19

theorem findSub_append_single (subs : List (Label × List Nat)) (lab lab' : Label) (idx : List Nat)
    (hfree : hasSub subs lab = false) :
    findSub (subs ++ [(lab, idx)]) lab' =
      if lower lab = lower lab' then some idx else findSub subs lab' := by
  simp only [findSub, List.find?_append]
  by_cases h : lower lab = lower lab'
  · have hnone : subs.find? (fun s => lower s.1 == lower lab') = none := by
      simp only [List.find?_eq_none, beq_iff_eq]
      simp only [hasSub, List.any_eq_false, beq_iff_eq] at hfree
      intro x hx heq
      exact hfree x hx (by rw [heq, h])
    simp [hnone, h]
  · have hsingle : [(lab, idx)].find? (fun s => lower s.1 == lower lab') = none := by
      simp [h]
    simp [hsingle, h]

theorem exportRow_congr (a b : List Int) (h : ∀ i, inIdx a i = inIdx b i) : exportRow a = exportRow b := by
  funext v
  have : inIdx a = inIdx b := funext h
  simp [exportRow, this]

theorem attained_foldl_max (taxa : List Taxon) (rs : Rows) (m0 : Nat) :
    let res := taxa.foldl (fun mx t => match get? t rs with
      | some r => if r.length > mx then r.length else mx
      | none => mx) m0
    res = m0 ∨ ∃ t ∈ taxa, ∃ r, get? t rs = some r ∧ r.length = res := by
  induction taxa generalizing m0 with
  | nil => simp
  | cons a as ih =>
    simp only [List.foldl_cons]
    rcases ih (match get? a rs with
      | some r => if r.length > m0 then r.length else m0
      | none => m0) with h | ⟨t, ht, r, hg, hl⟩
    · cases hg : get? a rs with
      | none => left; simpa [hg] using h
      | some r =>
        simp only [hg] at h ⊢
        by_cases hgt : r.length > m0
        · simp only [hgt, if_true] at h ⊢
          right; exact ⟨a, by simp, r, hg, h.symm⟩
        · left; simpa [hgt] using h
    · right; exact ⟨t, by simp [ht], r, hg, hl⟩

end DendroModel.C19.Aux

namespace DendroModel.C19
open DendroModel.C19.Aux

/-- `set(character_indices)`: the stored indices are exactly the given ones … -/
theorem mem_idxSet (idx : List Nat) (i : Nat) : i ∈ idxSet idx ↔ i ∈ idx := by
  induction idx with
  | nil => simp [idxSet]
  | cons x xs ih =>
    simp only [idxSet, List.foldr_cons] at ih ⊢
    rw [mem_insertAsc, ih]
    simp

/-- … listed strictly ascending (so without repetition) -/
theorem idxSet_ascending (idx : List Nat) : Asc (idxSet idx) := by
  induction idx with
  | nil => simp [idxSet, Asc]
  | cons x xs ih => exact asc_insertAsc x _ ih

/-- `new_character_subset`: a name that is taken (up to case) is refused with `ValueError`; a free name is appended
    after the existing subsets with `set(indices)`, and nothing else of the matrix changes -/
theorem newSubset_spec (m : Matrix) (lab : Label) (idx : List Nat) :
    (hasSub m.subs lab = true ∧ newSubset m lab idx = .error .valueError) ∨
    (hasSub m.subs lab = false ∧ ∃ r, newSubset m lab idx = .ok r ∧ r.subs = m.subs ++ [(lab, idxSet idx)] ∧
      r.rows = m.rows ∧ r.ns = m.ns ∧ r.taxa = m.taxa ∧ r.label = m.label) := by
  by_cases h : hasSub m.subs lab = true
  · left; exact ⟨h, by simp [newSubset, h]⟩
  · right
    have h' : hasSub m.subs lab = false := by simpa using h
    exact ⟨h', { m with subs := m.subs ++ [(lab, idxSet idx)] }, by simp [newSubset, h'], rfl, rfl, rfl, rfl, rfl⟩

/-- after a successful `new_character_subset` the new name (in any case) looks up the new index set, every other name
    looks up what it did before, and the names stay pairwise distinct up to case -/
theorem newSubset_lookup (m r : Matrix) (lab : Label) (idx : List Nat) (h : newSubset m lab idx = .ok r)
    (lab' : Label) :
    findSub r.subs lab' = (if lower lab = lower lab' then some (idxSet idx) else findSub m.subs lab') ∧
    ((m.subs.map (fun s => lower s.1)).Nodup → (r.subs.map (fun s => lower s.1)).Nodup) := by
  rcases newSubset_spec m lab idx with ⟨_, he⟩ | ⟨hfree, r', hr, hsubs, _⟩
  · rw [he] at h; cases h
  · rw [hr] at h
    simp only [Except.ok.injEq] at h
    subst h
    rw [hsubs]
    refine ⟨findSub_append_single m.subs lab lab' (idxSet idx) hfree, ?_⟩
    intro hnd
    simp only [List.map_append, List.map_cons, List.map_nil]
    rw [List.nodup_append]
    refine ⟨hnd, by simp, ?_⟩
    intro a ha b hb
    simp only [List.mem_singleton] at hb
    subst hb
    simp only [hasSub, List.any_eq_false, beq_iff_eq] at hfree
    simp only [List.mem_map] at ha
    obtain ⟨x, hx, hxa⟩ := ha
    intro heq
    exact hfree x hx (by rw [hxa, heq])

/-- (b) a subset defined with `new_character_subset` and exported by name (any case) selects exactly the columns it was
    given: order, repetitions in the given index list do not matter -/
theorem newSubset_export (m r : Matrix) (lab lab' : Label) (idx : List Nat) (h : newSubset m lab idx = .ok r)
    (hcase : lower lab = lower lab') :
    exportSub r lab' = .ok (exportIdx r (idx.map Int.ofNat)) := by
  have hl := (newSubset_lookup m r lab idx h lab').1
  simp only [hcase, if_true] at hl
  have hc : exportRow ((idxSet idx).map Int.ofNat) = exportRow (idx.map Int.ofNat) := by
    apply exportRow_congr
    intro i
    have : ((i : Int) ∈ (idxSet idx).map Int.ofNat) ↔ ((i : Int) ∈ idx.map Int.ofNat) := by
      simp only [List.mem_map, Int.ofNat_eq_natCast, Int.natCast_inj, exists_eq_right]
      exact mem_idxSet idx i
    simp only [inIdx, List.contains_eq_mem, this]
  simp [exportSub, hl, exportIdx, hc]

/-- `max_sequence_size` is the maximum: an upper bound of every row of a namespace taxon, and attained (or 0) -/
theorem maxSeqSize_spec (m : Matrix) :
    (∀ t ∈ m.taxa, ∀ r, get? t m.rows = some r → r.length ≤ maxSeqSize m) ∧
    (maxSeqSize m = 0 ∨ ∃ t ∈ m.taxa, ∃ r, get? t m.rows = some r ∧ r.length = maxSeqSize m) := by
  constructor
  · intro t ht r hg
    unfold maxSeqSize maxLen
    exact length_le_foldl_max m.taxa m.rows t r 0 ht hg
  · unfold maxSeqSize maxLen
    exact attained_foldl_max m.taxa m.rows 0

/-- (c) `fill` to a size that a row already reaches leaves that row as it is (rows are never shortened) -/
theorem padLoop_id (value : Cell) (size : Nat) (append : Bool) (v : Row) (h : size ≤ v.length) :
    padLoop value size append v = v := by
  rw [padLoop_eq]
  have : size - v.length = 0 := by omega
  cases append <;> simp [this]

end DendroModel.C19

/-! ### column selection: reading the result by position (index shift) and contiguous spans -/
namespace DendroModel.C19.Aux
open DendroModel.C19

/-- selection by one left-to-right pass, the column counter starting at `k` (specification) -/
def selectFrom (keep : Nat → Bool) : Nat → Row → Row
  | _, [] => []
  | k, c :: cs => if keep k then c :: selectFrom keep (k + 1) cs else selectFrom keep (k + 1) cs

theorem spec_eq_selectFrom (keep : Nat → Bool) (v : Row) (k : Nat) :
    ((List.range' k v.length).filter keep).filterMap (fun i => v[i - k]?) = selectFrom keep k v := by
  induction v generalizing k with
  | nil => simp [selectFrom]
  | cons c cs ih =>
    have hshift : ((List.range' (k + 1) cs.length).filter keep).filterMap (fun i => (c :: cs)[i - k]?)
        = ((List.range' (k + 1) cs.length).filter keep).filterMap (fun i => cs[i - (k + 1)]?) := by
      apply filterMap_congr_mem
      intro i hi
      have hi' := (List.mem_filter.mp hi).1
      simp only [List.mem_range'_1] at hi'
      have : i - k = (i - (k + 1)) + 1 := by omega
      rw [this, List.getElem?_cons_succ]
    simp only [List.length_cons, List.range'_succ, selectFrom]
    by_cases hk : keep k = true
    · simp only [List.filter_cons, hk, if_true, List.filterMap_cons, Nat.sub_self, List.getElem?_cons_zero]
      rw [hshift, ih]
    · simp only [List.filter_cons, hk, Bool.false_eq_true, if_false]
      rw [hshift, ih]

theorem exportRow_eq_selectFrom (idx : List Int) (v : Row) : exportRow idx v = selectFrom (inIdx idx) 0 v := by
  rw [export_row_spec, ← spec_eq_selectFrom (inIdx idx) v 0, List.range_eq_range']
  simp

theorem selectFrom_span_ge (off w : Nat) (v : Row) (k : Nat) (hk : off ≤ k) :
    selectFrom (fun i => decide (off ≤ i ∧ i < off + w)) k v = v.take (off + w - k) := by
  induction v generalizing k with
  | nil => simp [selectFrom]
  | cons c cs ih =>
    simp only [selectFrom]
    by_cases hlt : k < off + w
    · have : off + w - k = (off + w - (k + 1)) + 1 := by omega
      simp only [hk, hlt, and_self, decide_true, if_true, this, List.take_succ_cons]
      rw [ih (k + 1) (by omega)]
    · have : off + w - k = 0 := by omega
      simp only [hlt, and_false, decide_false, this, List.take_zero]
      rw [ih (k + 1) (by omega)]
      have : off + w - (k + 1) = 0 := by omega
      simp [this]

theorem selectFrom_span_le (off w : Nat) (v : Row) (k : Nat) (hk : k ≤ off) :
    selectFrom (fun i => decide (off ≤ i ∧ i < off + w)) k v = (v.drop (off - k)).take w := by
  induction v generalizing k with
  | nil => simp [selectFrom]
  | cons c cs ih =>
    by_cases heq : k = off
    · subst heq
      rw [selectFrom_span_ge k w (c :: cs) k (Nat.le_refl _)]
      simp
    · have hlt : k < off := by omega
      have : off - k = (off - (k + 1)) + 1 := by omega
      simp only [selectFrom, this, List.drop_succ_cons]
      have hnot : ¬ off ≤ k := by omega
      simp only [hnot, false_and, decide_false]
      exact ih (k + 1) (by omega)

theorem inIdx_span (off w i : Nat) :
    inIdx ((List.range' off w).map Int.ofNat) i = decide (off ≤ i ∧ i < off + w) := by
  simp only [inIdx, List.contains_eq_mem, List.mem_map, Int.ofNat_eq_natCast, Int.natCast_inj, exists_eq_right,
    List.mem_range'_1]

theorem selectFrom_length_le (keep : Nat → Bool) (k : Nat) (v : Row) : (selectFrom keep k v).length ≤ v.length := by
  induction v generalizing k with
  | nil => simp [selectFrom]
  | cons c cs ih =>
    simp only [selectFrom]
    split
    · simp only [List.length_cons]; have := ih (k + 1); omega
    · simp only [List.length_cons]; have := ih (k + 1); omega

/-- reading the selection by position: the column at source position `k + j` that is kept lands at the position that
    counts the kept columns before it -/
theorem selectFrom_getElem (keep : Nat → Bool) (v : Row) (k j : Nat) (hj : j < v.length) (hkeep : keep (k + j) = true) :
    (selectFrom keep k v)[((List.range' k j).filter keep).length]? = v[j]? := by
  induction v generalizing k j with
  | nil => simp at hj
  | cons c cs ih =>
    cases j with
    | zero => simp only [Nat.add_zero] at hkeep; simp [selectFrom, hkeep]
    | succ j =>
      have hj' : j < cs.length := by simpa using hj
      have hk' : keep (k + 1 + j) = true := by rw [← hkeep]; congr 1; omega
      have := ih (k + 1) j hj' hk'
      simp only [List.range'_succ, List.getElem?_cons_succ, selectFrom]
      by_cases hk : keep k = true
      · simp only [hk, if_true, List.filter_cons, List.length_cons, List.getElem?_cons_succ]
        exact this
      · simp only [hk, List.filter_cons]
        exact this

end DendroModel.C19.Aux

namespace DendroModel.C19
open DendroModel.C19.Aux

/-- (b) the exported row only depends on WHICH columns are named: order, repetition, negative and out-of-range entries
    of the index list are immaterial -/
theorem export_depends_on_set (a b : List Int) (h : ∀ i : Nat, ((i : Int) ∈ a ↔ (i : Int) ∈ b)) (v : Row) :
    exportRow a v = exportRow b v := by
  rw [exportRow_congr a b]
  intro i
  simp only [inIdx, List.contains_eq_mem, h i]

/-- (b) the deletion loop equals one left-to-right pass that keeps the named columns: ascending order is explicit -/
theorem export_one_pass (idx : List Int) (v : Row) : exportRow idx v = selectFrom (inIdx idx) 0 v :=
  exportRow_eq_selectFrom idx v

/-- (b) index shift: a selected column `j` of the source is found in the exported row at position
    "number of selected columns before `j`" — and nothing is longer than the source -/
theorem export_index_shift (idx : List Int) (v : Row) (j : Nat) (hj : j < v.length) (hsel : inIdx idx j = true) :
    (exportRow idx v)[((List.range j).filter (inIdx idx)).length]? = v[j]? ∧
    (exportRow idx v).length ≤ v.length := by
  rw [exportRow_eq_selectFrom]
  refine ⟨?_, selectFrom_length_le _ _ _⟩
  have := selectFrom_getElem (inIdx idx) v 0 j hj (by simpa using hsel)
  simpa [List.range_eq_range'] using this

/-- (b) exporting a contiguous span `[off, off+w)` (what `concatenate` records per source matrix) cuts exactly that
    slice out of every row -/
theorem export_span (off w : Nat) (v : Row) :
    exportRow ((List.range' off w).map Int.ofNat) v = (v.drop off).take w := by
  rw [exportRow_eq_selectFrom]
  have hk : inIdx ((List.range' off w).map Int.ofNat) = fun i => decide (off ≤ i ∧ i < off + w) :=
    funext (inIdx_span off w)
  rw [hk, selectFrom_span_le off w v 0 (Nat.zero_le _)]
  simp

/-- (a)+(b) round trip: exporting from a concatenation the subset recorded for a source matrix gives back that
    matrix's rows, for every taxon of the namespace -/
theorem concat_export_roundtrip (pre post : List Matrix) (m r : Matrix)
    (h : concatenate (pre ++ m :: post) = .ok r)
    (hnd : ∀ x ∈ pre ++ m :: post, (keys x.rows).Nodup)
    (hin : ∀ x ∈ pre ++ m :: post, ∀ kv ∈ x.rows, kv.1 ∈ r.taxa)
    (htaxa : r.taxa.Nodup)
    (hall : ∀ t ∈ r.taxa, ∀ x ∈ pre ++ m :: post, has t x.rows = true) :
    ∃ name idx e, r.subs[pre.length]? = some (name, idx) ∧ exportSub r name = .ok e ∧
      ∀ t ∈ r.taxa, rowOf t e.rows = rowOf t m.rows := by
  have hsubs := concat_subsets _ r h
  have hspan : (r.subs.map Prod.snd)[pre.length]?
      = some (List.range' (pre.map (fun x => vectorSize x.rows)).sum (vectorSize m.rows)) := by
    rw [hsubs]
    simp only [List.map_append, List.map_cons]
    have := spans_append 0 (pre.map (fun x => vectorSize x.rows)) (vectorSize m.rows) (post.map (fun x => vectorSize x.rows))
    simpa using this
  simp only [List.getElem?_map] at hspan
  cases hget : r.subs[pre.length]? with
  | none => simp [hget] at hspan
  | some entry =>
    obtain ⟨name, idx⟩ := entry
    simp only [hget, Option.map_some, Option.some.injEq] at hspan
    subst hspan
    have hmem : (name, List.range' (pre.map (fun x => vectorSize x.rows)).sum (vectorSize m.rows)) ∈ r.subs :=
      List.mem_of_getElem? hget
    have hexp := exportSub_caseless r name name _ hmem rfl (concat_names_distinct _ r h)
    refine ⟨name, _, _, rfl, hexp, ?_⟩
    intro t ht
    have hcov := (concat_subset_covers pre post m r h hnd hin t ht (hall t ht)).2
    have hrow := (export_spec r htaxa
      ((List.range' (pre.map (fun x => vectorSize x.rows)).sum (vectorSize m.rows)).map Int.ofNat) t ht).1
    have hempty : ∀ ix, exportRow ix [] = [] := by intro ix; simp [exportRow, delLoop]
    have : rowOf t (exportIdx r ((List.range' (pre.map (fun x => vectorSize x.rows)).sum
        (vectorSize m.rows)).map Int.ofNat)).rows
        = exportRow ((List.range' (pre.map (fun x => vectorSize x.rows)).sum (vectorSize m.rows)).map Int.ofNat)
            (rowOf t r.rows) := by
      simp only [rowOf, hrow]
      cases get? t r.rows <;> simp [hempty]
    rw [this, export_span, hcov]

end DendroModel.C19

/-! ### reading and concatenating: `concatenate_from_streams` / `concatenate_from_paths` over an abstract reader -/
namespace DendroModel.C19.Aux
open DendroModel.C19

theorem parseLoop_ok {σ : Type} (parse : σ → Option Matrix) (streams : List σ) (ms : List Matrix)
    (h : streams.map parse = ms.map some) (acc : List Matrix) (i : Nat) :
    parseLoop parse acc i streams = .ok (acc ++ ms) := by
  induction streams generalizing ms acc i with
  | nil =>
    cases ms with
    | nil => simp [parseLoop]
    | cons a as => simp at h
  | cons s ss ih =>
    cases ms with
    | nil => simp at h
    | cons a as =>
      simp only [List.map_cons, List.cons.injEq] at h
      simp only [parseLoop, h.1]
      rw [ih as h.2]
      simp

theorem parseLoop_err {σ : Type} (parse : σ → Option Matrix) (pre : List σ) (s : σ) (post : List σ) (ms : List Matrix)
    (hpre : pre.map parse = ms.map some) (hs : parse s = none) (acc : List Matrix) (i : Nat) :
    parseLoop parse acc i (pre ++ s :: post) = .error (.parseError (i + pre.length)) := by
  induction pre generalizing ms acc i with
  | nil => simp [parseLoop, hs]
  | cons p ps ih =>
    cases ms with
    | nil => simp at hpre
    | cons a as =>
      simp only [List.map_cons, List.cons.injEq] at hpre
      simp only [List.cons_append, parseLoop, hpre.1, List.length_cons]
      rw [ih as hpre.2]
      congr 2
      omega

theorem openLoop_ok {π σ : Type} (opn : π → Option σ) (paths : List π) (streams : List σ)
    (h : paths.map opn = streams.map some) (acc : List σ) (i : Nat) :
    openLoop opn acc i paths = .ok (acc ++ streams) := by
  induction paths generalizing streams acc i with
  | nil =>
    cases streams with
    | nil => simp [openLoop]
    | cons a as => simp at h
  | cons s ss ih =>
    cases streams with
    | nil => simp at h
    | cons a as =>
      simp only [List.map_cons, List.cons.injEq] at h
      simp only [openLoop, h.1]
      rw [ih as h.2]
      simp

theorem openLoop_err {π σ : Type} (opn : π → Option σ) (pre : List π) (p : π) (post : List π) (ss : List σ)
    (hpre : pre.map opn = ss.map some) (hp : opn p = none) (acc : List σ) (i : Nat) :
    openLoop opn acc i (pre ++ p :: post) = .error (.openError (i + pre.length)) := by
  induction pre generalizing ss acc i with
  | nil => simp [openLoop, hp]
  | cons q qs ih =>
    cases ss with
    | nil => simp at hpre
    | cons a as =>
      simp only [List.map_cons, List.cons.injEq] at hpre
      simp only [List.cons_append, openLoop, hpre.1, List.length_cons]
      rw [ih as hpre.2]
      congr 2
      omega

/-- `n` rounds of a loop body -/
def iter {α : Type} (f : α → α) : Nat → α → α
  | 0, a => a
  | n + 1, a => iter f n (f a)

end DendroModel.C19.Aux

namespace DendroModel.C19
open DendroModel.C19.Aux

/-- (a) `concatenate_from_streams` IS `concatenate` of the matrices the reader delivers, in stream order — for any
    reader: same result, same refusal -/
theorem fromStreams_eq_concatenate {σ : Type} (parse : σ → Option Matrix) (streams : List σ) (ms : List Matrix)
    (h : streams.map parse = ms.map some) :
    concatFromStreams parse streams = match concatenate ms with
      | .ok r => .ok r
      | .error e => .error (.concat e) := by
  simp only [concatFromStreams, parseLoop_ok parse streams ms h [] 0, List.nil_append]
  cases concatenate ms <;> rfl

/-- the first stream the reader rejects stops the call with that reader error; nothing is concatenated, whatever the
    later streams hold -/
theorem fromStreams_reader_error {σ : Type} (parse : σ → Option Matrix) (pre : List σ) (s : σ) (post : List σ)
    (ms : List Matrix) (hpre : pre.map parse = ms.map some) (hs : parse s = none) :
    concatFromStreams parse (pre ++ s :: post) = .error (.parseError pre.length) := by
  simp [concatFromStreams, parseLoop_err parse pre s post ms hpre hs [] 0]

/-- `concatenate_from_paths` is `concatenate_from_streams` of the opened files, in path order -/
theorem fromPaths_eq_fromStreams {π σ : Type} (opn : π → Option σ) (parse : σ → Option Matrix) (paths : List π)
    (streams : List σ) (h : paths.map opn = streams.map some) :
    concatFromPaths opn parse paths = concatFromStreams parse streams := by
  simp [concatFromPaths, openLoop_ok opn paths streams h [] 0]

/-- every path is opened before any is read: the first path that cannot be opened stops the call, even when an
    earlier file is unreadable -/
theorem fromPaths_open_error {π σ : Type} (opn : π → Option σ) (parse : σ → Option Matrix) (pre : List π) (p : π)
    (post : List π) (ss : List σ) (hpre : pre.map opn = ss.map some) (hp : opn p = none) :
    concatFromPaths opn parse (pre ++ p :: post) = .error (.openError pre.length) := by
  simp [concatFromPaths, openLoop_err opn pre p post ss hpre hp [] 0]

/-- (a) hence the statement's clauses transfer: rows of a successful `concatenate_from_streams` are the per-taxon
    concatenation of the parsed matrices' rows in stream order, with the subsets of `concatenate` -/
theorem fromStreams_rows {σ : Type} (parse : σ → Option Matrix) (streams : List σ) (ms : List Matrix) (r : Matrix)
    (hp : streams.map parse = ms.map some) (h : concatFromStreams parse streams = .ok r)
    (hnd : ∀ m ∈ ms, (keys m.rows).Nodup) (t : Taxon) :
    rowOf t r.rows = (ms.map (fun m => rowOf t m.rows)).flatten ∧ r.subs = namedSpans [] 0 0 ms := by
  rw [fromStreams_eq_concatenate parse streams ms hp] at h
  cases hc : concatenate ms with
  | error e => simp [hc] at h
  | ok r' =>
    simp only [hc, Except.ok.injEq] at h
    subst h
    exact ⟨concat_rows ms r' hc hnd t, concat_subset_labels ms r' hc⟩

/-! ### loop measures, explicitly -/

/-- arithmetic of `fill`'s loop measure: one round of the body (`append` / `insert(0, …)`, the expression `padLoop`
    recurses on) lowers `size - len(v)` by exactly one.  The statement is about that body expression, not about `padLoop`
    itself; `padLoop_iterate` is the statement about the loop -/
theorem padLoop_measure_step (value : Cell) (size : Nat) (append : Bool) (v : Row) (h : v.length < size) :
    size - (if append then v ++ [value] else value :: v).length + 1 = size - v.length := by
  cases append <;> simp <;> omega

/-- … so the loop body runs exactly `size - len(v)` times -/
theorem padLoop_iterate (value : Cell) (size : Nat) (append : Bool) (v : Row) :
    padLoop value size append v =
      iter (fun w => if append then w ++ [value] else value :: w) (size - v.length) v := by
  induction h : size - v.length generalizing v with
  | zero =>
    rw [padLoop]
    have : ¬ v.length < size := by omega
    simp [this, iter]
  | succ n ih =>
    rw [padLoop]
    have hlt : v.length < size := by omega
    simp only [hlt, if_true, iter]
    apply ih
    cases append <;> simp <;> omega

/-- the free-name search of `concatenate`: its measure `pending` (subset keys with decimal suffix ≥ i) is at most the
    number of subsets, drops at every taken candidate (`pending_decreases`), and bounds the number of probes: the
    answer is candidate number `j` with `i ≤ j ≤ i + pending ≤ i + #subsets` -/
theorem freeFrom_probes_bound (subs : List (Label × List Nat)) (base : Label) :
    ∀ (n i : Nat), pending subs i = n →
      ∃ j, freeFrom subs base i = cand base j ∧ i ≤ j ∧ j ≤ i + pending subs i ∧ pending subs i ≤ subs.length := by
  intro n
  induction n using Nat.strongRecOn with
  | _ n ih =>
    intro i hn
    have hle : pending subs i ≤ subs.length := by
      unfold pending; exact List.length_filter_le _ _
    rw [freeFrom]
    split
    · next h =>
      have hdec := pending_decreases subs base i h
      obtain ⟨j, hj, h1, h2, _⟩ := ih _ (by omega) (i + 1) rfl
      exact ⟨j, hj, by omega, by omega, hle⟩
    · exact ⟨i, rfl, Nat.le_refl _, by omega, hle⟩

/-- `export_character_indices`' deletion loop never lengthens a row (this statement is only the length bound; that the
    loop makes one round per column is its structural recursion on `n`, and what it leaves is `export_row_spec`) -/
theorem delLoop_length_le (keep : Nat → Bool) (n : Nat) (v : Row) : (delLoop keep n v).length ≤ v.length := by
  induction n generalizing v with
  | zero => simp [delLoop]
  | succ n ih =>
    simp only [delLoop]
    split
    · exact ih v
    · refine Nat.le_trans (ih _) ?_
      rw [List.length_eraseIdx]
      split <;> omega

end DendroModel.C19

/-! ### non-vacuity of the extension-round theorems -/
namespace DendroModel.C19.Aux
open DendroModel.C19

example : ∃ r, newSubset mAB ['y'] [3, 1, 1] = .ok r ∧ r.subs.map Prod.snd = [[0, 1], [2], [1, 3]] := ⟨_, rfl, by decide⟩
example : newSubset mAB ['x', '_', '0', '0', '2'] [0] = .error .valueError := rfl
example : hasSub mAB.subs ['y'] = false ∧ lower ['Y'] = lower ['y'] := by decide
example : (2 : Nat) < [10, 11, 12].length ∧ inIdx [2, 0] 2 = true := by decide
example : (exportRow [2, 0] [10, 11, 12])[1]? = some 12 := by decide
example : ∀ i : Nat, ((i : Int) ∈ [2, 0, 0, -1] ↔ (i : Int) ∈ [0, 2]) := by
  intro i; simp; omega
example : concatFromStreams (fun o : Option Matrix => o) [some mA, some mB] = .ok mAB := by
  rw [fromStreams_eq_concatenate (fun o : Option Matrix => o) [some mA, some mB] [mA, mB] rfl, ex_concat]
example : concatFromStreams (fun o : Option Matrix => o) [some mA, none, some mB] = .error (.parseError 1) :=
  fromStreams_reader_error _ [some mA] none [some mB] [mA] rfl rfl
example : concatFromPaths (fun p : Option (Option Matrix) => p) (fun o => o) [some (some mA), none]
    = .error (.openError 1) :=
  fromPaths_open_error _ _ [some (some mA)] none [] [some mA] rfl rfl
example : ∃ name idx e, mAB.subs[1]? = some (name, idx) ∧ exportSub mAB name = .ok e ∧
    ∀ t ∈ mAB.taxa, rowOf t e.rows = rowOf t mB.rows :=
  concat_export_roundtrip [mA] [] mB mAB ex_concat (by decide) (by decide) (by decide) (by decide)
example : pending [(['x', '_', '0', '0', '2'], [0])] 2 = 1 := by decide

end DendroModel.C19.Aux

/-! ### element access (`matrix[taxon]` reads, writes, deletes), iteration order, and the namespace invariant -/
namespace DendroModel.C19.Aux
open DendroModel.C19

theorem mem_keys_set (t u : Taxon) (r : Row) (rs : Rows) (h : u ∈ keys (set t r rs)) : u = t ∨ u ∈ keys rs := by
  rw [keys_set] at h
  split at h
  · exact Or.inr h
  · simp only [List.mem_append, List.mem_singleton] at h
    rcases h with h | h
    · exact Or.inr h
    · exact Or.inl h

theorem mem_keys_del (t u : Taxon) (rs : Rows) (h : u ∈ keys (del t rs)) : u ∈ keys rs := by
  simp only [keys, del, List.mem_map] at h ⊢
  obtain ⟨x, hx, hxu⟩ := h
  exact ⟨x, (List.mem_filter.mp hx).1, hxu⟩

theorem keysP_foldl {α} (P : Taxon → Prop) (step : Rows → α → Rows) (l : List α)
    (hstep : ∀ acc a, a ∈ l → (∀ k ∈ keys acc, P k) → ∀ k ∈ keys (step acc a), P k)
    (rs : Rows) (h : ∀ k ∈ keys rs, P k) : ∀ k ∈ keys (l.foldl step rs), P k := by
  induction l generalizing rs with
  | nil => exact h
  | cons a as ih =>
    exact ih (fun acc b hb => hstep acc b (by simp [hb])) _ (hstep rs a (by simp) h)

theorem items_cons_present (a : Taxon) (as : List Taxon) (rs : Rows) :
    items (a :: as) rs = (match get? a rs with
      | some r => [(a, r)]
      | none => []) ++ items as rs := by
  simp only [items, List.filterMap_cons]
  cases get? a rs <;> simp

end DendroModel.C19.Aux

namespace DendroModel.C19
open DendroModel.C19.Aux

/-- `matrix[taxon]` — the channel through which sequences are observed: it returns the taxon's row; when the taxon has
    no row yet it CREATES an empty one (the only change), provided the taxon is in the namespace, else `ValueError` -/
theorem getItem_spec (m : Matrix) (t : Taxon) :
    (∃ r, get? t m.rows = some r ∧ getItem m t = .ok (m, r)) ∨
    (get? t m.rows = none ∧ t ∈ m.taxa ∧ ∃ m', getItem m t = .ok (m', []) ∧ get? t m'.rows = some [] ∧
      (∀ u, u ≠ t → get? u m'.rows = get? u m.rows) ∧ m'.subs = m.subs ∧ m'.ns = m.ns ∧ m'.taxa = m.taxa) ∨
    (get? t m.rows = none ∧ t ∉ m.taxa ∧ getItem m t = .error .valueError) := by
  cases hg : get? t m.rows with
  | some r => left; exact ⟨r, rfl, by simp [getItem, hg]⟩
  | none =>
    right
    by_cases ht : t ∈ m.taxa
    · left
      refine ⟨rfl, ht, { m with rows := set t [] m.rows }, by simp [getItem, hg, ht], get?_set_self t [] m.rows, ?_, rfl, rfl, rfl⟩
      intro u hu
      exact get?_set_ne t u [] m.rows hu
    · right; exact ⟨rfl, ht, by simp [getItem, hg, ht]⟩

/-- observing twice is observing once: after `matrix[taxon]` succeeded, asking again returns the same row and changes
    nothing any more -/
theorem getItem_idempotent (m m' : Matrix) (t : Taxon) (r : Row) (h : getItem m t = .ok (m', r)) :
    getItem m' t = .ok (m', r) ∧ r = rowOf t m.rows := by
  rcases getItem_spec m t with ⟨r0, hg, he⟩ | ⟨hg, _, m1, he, hrow, _⟩ | ⟨_, _, he⟩
  · rw [he] at h
    simp only [Except.ok.injEq, Prod.mk.injEq] at h
    obtain ⟨rfl, rfl⟩ := h
    exact ⟨he, by simp [rowOf, hg]⟩
  · rw [he] at h
    simp only [Except.ok.injEq, Prod.mk.injEq] at h
    obtain ⟨rfl, rfl⟩ := h
    exact ⟨by simp [getItem, hrow], by simp [rowOf, hg]⟩
  · rw [he] at h; cases h

/-- `matrix[taxon] = values`: inside the namespace exactly that row is (re)placed, else `ValueError` -/
theorem setItem_spec (m : Matrix) (t : Taxon) (row : Row) :
    (t ∈ m.taxa ∧ ∃ m', setItem m t row = .ok m' ∧ get? t m'.rows = some row ∧
      (∀ u, u ≠ t → get? u m'.rows = get? u m.rows) ∧ m'.subs = m.subs ∧ m'.ns = m.ns ∧ m'.taxa = m.taxa) ∨
    (t ∉ m.taxa ∧ setItem m t row = .error .valueError) := by
  by_cases ht : t ∈ m.taxa
  · left
    exact ⟨ht, { m with rows := set t row m.rows }, by simp [setItem, ht], get?_set_self t row m.rows,
      fun u hu => get?_set_ne t u row m.rows hu, rfl, rfl, rfl⟩
  · right; exact ⟨ht, by simp [setItem, ht]⟩

/-- `new_sequence`: refuses a taxon that already has a row or is outside the namespace; else adds exactly that row -/
theorem newSequence_spec (m : Matrix) (t : Taxon) (row : Row) :
    (has t m.rows = false ∧ t ∈ m.taxa ∧ ∃ m', newSequence m t row = .ok m' ∧ get? t m'.rows = some row ∧
      (∀ u, u ≠ t → get? u m'.rows = get? u m.rows)) ∨
    ((has t m.rows = true ∨ t ∉ m.taxa) ∧ newSequence m t row = .error .valueError) := by
  by_cases hh : has t m.rows = true
  · right; exact ⟨Or.inl hh, by simp [newSequence, hh]⟩
  · have hh' : has t m.rows = false := by simpa using hh
    by_cases ht : t ∈ m.taxa
    · left
      exact ⟨hh', ht, { m with rows := set t row m.rows }, by simp [newSequence, hh', ht], get?_set_self t row m.rows,
        fun u hu => get?_set_ne t u row m.rows hu⟩
    · right; exact ⟨Or.inr ht, by simp [newSequence, hh', ht]⟩

/-- `del matrix[taxon]`: removes exactly that row; `KeyError` when there is none -/
theorem delItem_spec (m : Matrix) (t : Taxon) :
    (has t m.rows = true ∧ ∃ m', delItem m t = .ok m' ∧ get? t m'.rows = none ∧
      (∀ u, u ≠ t → get? u m'.rows = get? u m.rows)) ∨
    (has t m.rows = false ∧ delItem m t = .error .keyError) := by
  by_cases hh : has t m.rows = true
  · left
    exact ⟨hh, { m with rows := del t m.rows }, by simp [delItem, hh], get?_del_self t m.rows,
      fun u hu => get?_del_ne t u m.rows hu⟩
  · right; exact ⟨by simpa using hh, by simp [delItem, hh]⟩

/-- `items()` / iteration: exactly the namespace taxa that have a row, in namespace order, each with its row -/
theorem itemsOf_spec (m : Matrix) :
    (itemsOf m).map Prod.fst = m.taxa.filter (fun t => has t m.rows) ∧
    ∀ p ∈ itemsOf m, get? p.1 m.rows = some p.2 := by
  unfold itemsOf
  generalize m.taxa = taxa
  induction taxa with
  | nil => simp [items]
  | cons a as ih =>
    rw [items_cons_present]
    cases hg : get? a m.rows with
    | none =>
      simp only [List.nil_append, List.filter_cons, has_eq, hg, Option.isSome_none, Bool.false_eq_true, if_false]
      exact ih
    | some r =>
      simp only [List.singleton_append, List.map_cons, List.filter_cons, has_eq, hg, Option.isSome_some, if_true,
        List.mem_cons, forall_eq_or_imp, ih.1, true_and]
      exact ih.2

/-- "all sequences of these operations", second invariant: every operation keeps the rows keyed by taxa for which a
    predicate `P` holds (take `P := (· ∈ namespace)`: no row ever belongs to a taxon outside the namespace), given that
    the rows it takes from another matrix are -/
theorem keys_invariant_preserved (P : Taxon → Prop) (s o : Rows) (hs : ∀ k ∈ keys s, P k) (ho : ∀ k ∈ keys o, P k) :
    (∀ k ∈ keys (addSeqs s o), P k) ∧ (∀ k ∈ keys (replaceSeqs s o), P k) ∧ (∀ k ∈ keys (updateSeqs s o), P k) ∧
    (∀ b, ∀ k ∈ keys (extendSeqs b s o), P k) ∧ (∀ k ∈ keys (extendMatrix s o), P k) ∧
    (∀ taxa, (∀ k ∈ keys (removeSeqs taxa s).1, P k) ∧ (∀ k ∈ keys (discardSeqs taxa s), P k) ∧
      (∀ k ∈ keys (keepSeqs taxa s), P k) ∧ (∀ f, ∀ k ∈ keys (mapNsRows f taxa s), P k) ∧
      ((∀ t ∈ taxa, P t) → ∀ k ∈ keys (fillTaxa taxa s), P k)) := by
  have hset : ∀ (acc : Rows) (t : Taxon) (r : Row), P t → (∀ k ∈ keys acc, P k) → ∀ k ∈ keys (set t r acc), P k := by
    intro acc t r ht hacc k hk
    rcases mem_keys_set t k r acc hk with h | h
    · subst h; exact ht
    · exact hacc k h
  have hdel : ∀ (acc : Rows) (t : Taxon), (∀ k ∈ keys acc, P k) → ∀ k ∈ keys (del t acc), P k :=
    fun acc t hacc k hk => hacc k (mem_keys_del t k acc hk)
  have hkey : ∀ kv ∈ o, P kv.1 := fun kv hkv => ho kv.1 (by simp only [keys, List.mem_map]; exact ⟨kv, hkv, rfl⟩)
  refine ⟨?_, ?_, ?_, ?_, ?_, ?_⟩
  · exact keysP_foldl P _ o (fun acc a ha h => by
      split
      · exact h
      · exact hset acc a.1 a.2 (hkey a ha) h) s hs
  · exact keysP_foldl P _ o (fun acc a ha h => by
      split
      · exact hset acc a.1 a.2 (hkey a ha) h
      · exact h) s hs
  · exact keysP_foldl P _ o (fun acc a ha h => hset acc a.1 a.2 (hkey a ha) h) s hs
  · intro b
    exact keysP_foldl P _ o (fun acc a ha h => by
      split
      · split
        · exact h
        · exact hset acc a.1 a.2 (hkey a ha) h
      · exact hset acc a.1 _ (hkey a ha) h) s hs
  · exact keysP_foldl P _ o (fun acc a ha h => by
      split
      · exact hset acc a.1 _ (hkey a ha) h
      · exact hset acc a.1 a.2 (hkey a ha) h) s hs
  · intro taxa
    refine ⟨?_, ?_, ?_, ?_, ?_⟩
    · have : ∀ (ts : List Taxon) (rs : Rows), (∀ k ∈ keys rs, P k) → ∀ k ∈ keys (removeSeqs ts rs).1, P k := by
        intro ts
        induction ts with
        | nil => intro rs h; exact h
        | cons t ts ih =>
          intro rs h
          simp only [removeSeqs]
          split
          · exact ih _ (hdel rs t h)
          · exact h
      exact this taxa s hs
    · exact keysP_foldl P _ taxa (fun acc a _ h => by
        split
        · exact hdel acc a h
        · exact h) s hs
    · exact keysP_foldl P _ (keys s) (fun acc a _ h => by
        split
        · exact h
        · exact hdel acc a h) s hs
    · intro f
      exact keysP_foldl P _ taxa (fun acc a _ h => by
        split
        · next r hr => exact hset acc a _ (h a (mem_keys_of_get? a acc r hr)) h
        · exact h) s hs
    · intro htaxa
      exact keysP_foldl P _ taxa (fun acc a ha h => by
        split
        · exact h
        · exact hset acc a [] (htaxa a ha) h) s hs

end DendroModel.C19

namespace DendroModel.C19.Aux
open DendroModel.C19

example : ∃ m', getItem { mA with rows := [(0, [1])] } 1 = .ok (m', []) ∧ m'.rows = [(0, [1]), (1, [])] := ⟨_, rfl, rfl⟩
example : getItem mA 7 = .error .valueError := rfl
example : ∃ r, getItem mA 1 = .ok (mA, r) ∧ r = [3, 4] := ⟨_, rfl, rfl⟩
example : setItem mA 7 [1] = .error .valueError ∧ delItem mA 7 = .error .keyError := ⟨rfl, rfl⟩
example : itemsOf mB = [(0, [6]), (1, [5])] := by decide
example : (∀ k ∈ keys mA.rows, k ∈ mA.taxa) ∧ (∀ k ∈ keys mB.rows, k ∈ mA.taxa) ∧ ∀ t ∈ mA.taxa, t ∈ mA.taxa := by decide

end DendroModel.C19.Aux

/-! ### well-formedness is an invariant of every operation, hence of every history -/
namespace DendroModel.C19

/-- a well-formed matrix: the row store is a dict (distinct keys) over taxa of its own namespace, and the subset names are
    pairwise distinct up to case.  These are exactly the hypotheses the specifications above use. -/
def WF (m : Matrix) : Prop :=
  (keys m.rows).Nodup ∧ (∀ k ∈ keys m.rows, k ∈ m.taxa) ∧ (m.subs.map (fun s => lower s.1)).Nodup

end DendroModel.C19

namespace DendroModel.C19.Aux
open DendroModel.C19

theorem concatLoop_keys (P : Taxon → Prop) (ns : Nat) (taxa : List Taxon) (nseqs : Nat) :
    ∀ (ms : List Matrix) (st st' : CState) (cidx : Nat),
      concatLoop ns taxa nseqs st cidx ms = .ok st' → (∀ m ∈ ms, ∀ k ∈ keys m.rows, P k) →
      (∀ k ∈ keys st.acc, P k) → ∀ k ∈ keys st'.acc, P k := by
  intro ms
  induction ms with
  | nil => intro st st' cidx h _ hn; simp only [concatLoop, Except.ok.injEq] at h; subst h; exact hn
  | cons cm rest ih =>
    intro st st' cidx h hall hn
    simp only [concatLoop] at h
    split at h
    · cases h
    · next st1 hstep =>
      have hacc := (concatStep_ok _ _ _ _ _ _ _ hstep).2.1
      refine ih st1 st' _ h (fun m hm => hall m (by simp [hm])) ?_
      rw [hacc]
      exact (keys_invariant_preserved P st.acc cm.rows hn (hall cm (by simp))).2.2.2.2.1

end DendroModel.C19.Aux

namespace DendroModel.C19
open DendroModel.C19.Aux

/-- "for all sequences of these operations": every operation of the matrix alphabet takes well-formed matrices to a
    well-formed matrix (whether it succeeds, refuses, or — `remove_sequences` — stops half-way).  This is the ONE-STEP
    fact; the induction over a history is `history_wfn`.  `WF` does not contain `m.taxa.Nodup` (constant along a history,
    see `WFN`), and `hns` (same namespace members) is an assumption the model's `ns` guard does not establish.  `o` is the other matrix of a binary operation; matrices
    over the same namespace see the same namespace members. -/
theorem wf_preserved (m o : Matrix) (hm : WF m) (ho : WF o) (hns : o.taxa = m.taxa) :
    (∀ f, f ∈ [addSeqs, replaceSeqs, updateSeqs, extendSeqs false, extendSeqs true, extendMatrix] →
      ∀ r, rowOp f m o = .ok r → WF r) ∧
    (∀ taxa, WF { m with rows := (removeSeqs taxa m.rows).1 } ∧ WF { m with rows := discardSeqs taxa m.rows } ∧
      WF { m with rows := keepSeqs taxa m.rows }) ∧
    (∀ v size app, WF { m with rows := fillRows v size app m.taxa m.rows } ∧
      WF { m with rows := packRows v size app m.taxa m.rows }) ∧
    WF { m with rows := fillTaxa m.taxa m.rows } ∧
    (∀ idx, WF (exportIdx m idx)) ∧
    (∀ lab idx r, newSubset m lab idx = .ok r → WF r) ∧
    (∀ t m' r, getItem m t = .ok (m', r) → WF m') ∧
    (∀ t row r, setItem m t row = .ok r → WF r) ∧
    (∀ t row r, newSequence m t row = .ok r → WF r) ∧
    (∀ t r, delItem m t = .ok r → WF r) ∧
    WF (clearRows m) := by
  obtain ⟨hm1, hm2, hm3⟩ := hm
  obtain ⟨ho1, ho2, _⟩ := ho
  have ho2' : ∀ k ∈ keys o.rows, k ∈ m.taxa := fun k hk => hns ▸ ho2 k hk
  have nd := keys_nodup_preserved m.rows o.rows hm1
  have inv := keys_invariant_preserved (· ∈ m.taxa) m.rows o.rows hm2 ho2'
  have setwf : ∀ (t : Taxon) (row : Row), t ∈ m.taxa → WF { m with rows := set t row m.rows } := by
    intro t row ht
    refine ⟨nodup_set t row m.rows hm1, ?_, hm3⟩
    intro k hk
    rcases mem_keys_set t k row m.rows hk with h | h
    · subst h; exact ht
    · exact hm2 k h
  refine ⟨?_, ?_, ?_, ?_, ?_, ?_, ?_, ?_, ?_, ?_, ?_⟩
  · intro f hf r hr
    have hr' : r = { m with rows := f m.rows o.rows } := by
      simp only [rowOp] at hr
      split at hr
      · cases hr
      · simp only [Except.ok.injEq] at hr; exact hr.symm
    subst hr'
    simp only [List.mem_cons, List.not_mem_nil, or_false] at hf
    rcases hf with h | h | h | h | h | h <;> subst h
    · exact ⟨nd.1, inv.1, hm3⟩
    · exact ⟨nd.2.1, inv.2.1, hm3⟩
    · exact ⟨nd.2.2.1, inv.2.2.1, hm3⟩
    · exact ⟨nd.2.2.2.1 false, inv.2.2.2.1 false, hm3⟩
    · exact ⟨nd.2.2.2.1 true, inv.2.2.2.1 true, hm3⟩
    · exact ⟨nd.2.2.2.2.1, inv.2.2.2.2.1, hm3⟩
  · intro taxa
    have n := nd.2.2.2.2.2 taxa
    have i := inv.2.2.2.2.2 taxa
    exact ⟨⟨n.1, i.1, hm3⟩, ⟨n.2.1, i.2.1, hm3⟩, ⟨n.2.2.1, i.2.2.1, hm3⟩⟩
  · intro v size app
    have n := nd.2.2.2.2.2 m.taxa
    have i := inv.2.2.2.2.2 m.taxa
    refine ⟨⟨n.2.2.2.2 _, i.2.2.2.1 _, hm3⟩, ?_⟩
    have nd2 := keys_nodup_preserved (fillTaxa m.taxa m.rows) o.rows n.2.2.2.1
    have inv2 := keys_invariant_preserved (· ∈ m.taxa) (fillTaxa m.taxa m.rows) o.rows (i.2.2.2.2 (fun t ht => ht)) ho2'
    exact ⟨(nd2.2.2.2.2.2 m.taxa).2.2.2.2 _, (inv2.2.2.2.2.2 m.taxa).2.2.2.1 _, hm3⟩
  · have n := nd.2.2.2.2.2 m.taxa
    have i := inv.2.2.2.2.2 m.taxa
    exact ⟨n.2.2.2.1, i.2.2.2.2 (fun t ht => ht), hm3⟩
  · intro idx
    have n := nd.2.2.2.2.2 m.taxa
    have i := inv.2.2.2.2.2 m.taxa
    exact ⟨n.2.2.2.2 _, i.2.2.2.1 _, by simp [exportIdx]⟩
  · intro lab idx r hr
    have hl := (newSubset_lookup m r lab idx hr lab).2 hm3
    rcases newSubset_spec m lab idx with ⟨_, he⟩ | ⟨_, r', hr', _, hrows, _, htaxa, _⟩
    · rw [he] at hr; cases hr
    · rw [hr'] at hr
      simp only [Except.ok.injEq] at hr
      subst hr
      exact ⟨by rw [hrows]; exact hm1, by rw [hrows, htaxa]; exact hm2, hl⟩
  · intro t m' r h
    simp only [getItem] at h
    split at h
    · simp only [Except.ok.injEq, Prod.mk.injEq] at h
      rw [← h.1]; exact ⟨hm1, hm2, hm3⟩
    · split at h
      · next ht =>
        simp only [Except.ok.injEq, Prod.mk.injEq] at h
        rw [← h.1]
        exact setwf t [] (by simpa using ht)
      · cases h
  · intro t row r h
    simp only [setItem] at h
    split at h
    · next ht =>
      simp only [Except.ok.injEq] at h
      rw [← h]; exact setwf t row (by simpa using ht)
    · cases h
  · intro t row r h
    simp only [newSequence] at h
    split at h
    · cases h
    · split at h
      · next ht =>
        simp only [Except.ok.injEq] at h
        rw [← h]; exact setwf t row (by simpa using ht)
      · cases h
  · intro t r h
    simp only [delItem] at h
    split at h
    · simp only [Except.ok.injEq] at h
      rw [← h]
      exact ⟨nodup_del t m.rows hm1, fun k hk => hm2 k (mem_keys_del t k m.rows hk), hm3⟩
    · cases h
  · exact ⟨by simp [clearRows, keys], by simp [clearRows, keys], hm3⟩

/-- … and `concatenate` of well-formed matrices over one namespace returns a well-formed matrix -/
theorem concat_wf (m0 : Matrix) (rest : List Matrix) (r : Matrix) (h : concatenate (m0 :: rest) = .ok r)
    (hwf : ∀ m ∈ m0 :: rest, WF m ∧ m.taxa = m0.taxa) : WF r := by
  refine ⟨concat_keys_nodup _ r h, ?_, concat_names_distinct _ r h⟩
  simp only [concatenate] at h
  split at h
  · cases h
  · next st hst =>
    simp only [Except.ok.injEq] at h
    subst h
    exact concatLoop_keys (· ∈ m0.taxa) _ _ _ _ _ _ _ hst
      (fun m hm k hk => (hwf m hm).2 ▸ (hwf m hm).1.2.1 k hk) (by simp [keys])

end DendroModel.C19

namespace DendroModel.C19.Aux
open DendroModel.C19
example : WF mA ∧ WF mB ∧ mB.taxa = mA.taxa := by
  unfold WF; decide
example : WF mAB := concat_wf mA [mB] mAB ex_concat (by
  intro m hm
  simp only [List.mem_cons, List.not_mem_nil, or_false] at hm
  rcases hm with rfl | rfl <;> (unfold WF; decide))
end DendroModel.C19.Aux

namespace DendroModel.C19
open DendroModel.C19.Aux

/-- `remove_sequences` that raises: the taxa before the first one without a row are removed, that one stops the loop
    with `KeyError`, the rest of the list is never looked at -/
theorem remove_partial_state (pre : List Taxon) (t : Taxon) (post : List Taxon) (rs rs1 : Rows)
    (hpre : removeSeqs pre rs = (rs1, none)) (ht : has t rs1 = false) :
    removeSeqs (pre ++ t :: post) rs = (rs1, some .keyError) := by
  induction pre generalizing rs with
  | nil =>
    simp only [removeSeqs, Prod.mk.injEq] at hpre
    simp [removeSeqs, hpre.1, ht]
  | cons a as ih =>
    simp only [removeSeqs] at hpre
    by_cases ha : has a rs = true
    · simp only [ha, if_true] at hpre
      simp only [List.cons_append, removeSeqs, ha, if_true]
      exact ih _ hpre
    · simp [ha] at hpre

/-- the main loop of `concatenate` makes exactly one round per matrix: one subset per source matrix -/
theorem concat_rounds (ms : List Matrix) (r : Matrix) (h : concatenate ms = .ok r) : r.subs.length = ms.length := by
  have := congrArg List.length (concat_subsets ms r h)
  have hsp : ∀ (p : Nat) (ws : List Nat), (spans p ws).length = ws.length := by
    intro p ws; induction ws generalizing p with
    | nil => simp [spans]
    | cons a as ih => simp [spans, ih]
  simpa [hsp] using this

end DendroModel.C19

namespace DendroModel.C19.Aux
open DendroModel.C19
example : removeSeqs [1] mA.rows = ([(0, [1, 2])], none) ∧ has 5 [(0, [1, 2])] = false := by decide
end DendroModel.C19.Aux

/-! ### second audit: exact rows of a concatenation, purity of the `cm[0]` probe, namespace coherence -/
namespace DendroModel.C19.Aux
open DendroModel.C19

theorem concatLoop_has (ns : Nat) (taxa : List Taxon) (nseqs : Nat) (t : Taxon) :
    ∀ (ms : List Matrix) (st st' : CState) (cidx : Nat),
      concatLoop ns taxa nseqs st cidx ms = .ok st' → (∀ m ∈ ms, (keys m.rows).Nodup) →
      (has t st.acc = true ∨ ∃ m ∈ ms, has t m.rows = true) → has t st'.acc = true := by
  intro ms
  induction ms with
  | nil =>
    intro st st' cidx h _ hor
    simp only [concatLoop, Except.ok.injEq] at h
    subst h
    rcases hor with h | ⟨m, hm, _⟩
    · exact h
    · cases hm
  | cons cm rest ih =>
    intro st st' cidx h hnd hor
    simp only [concatLoop] at h
    split at h
    · cases h
    · next st1 hstep =>
      have hacc := (concatStep_ok _ _ _ _ _ _ _ hstep).2.1
      refine ih st1 st' _ h (fun m hm => hnd m (by simp [hm])) ?_
      have hspec := extendMatrix_spec st.acc cm.rows (hnd cm (by simp)) t
      rcases hor with hst | ⟨m, hm, hhas⟩
      · left
        rw [hacc, has_eq, hspec]
        simp only [has_eq, Option.isSome_iff_exists] at hst
        obtain ⟨a, ha⟩ := hst
        rw [ha]; cases get? t cm.rows <;> simp
      · simp only [List.mem_cons] at hm
        rcases hm with hm | hm
        · subst hm
          left
          rw [hacc, has_eq, hspec]
          simp only [has_eq, Option.isSome_iff_exists] at hhas
          obtain ⟨b, hb⟩ := hhas
          rw [hb]; cases get? t st.acc <;> simp
        · right; exact ⟨m, hm, hhas⟩

theorem concat_taxa (m0 : Matrix) (rest : List Matrix) (r : Matrix) (h : concatenate (m0 :: rest) = .ok r) :
    r.taxa = m0.taxa ∧ r.ns = m0.ns := by
  simp only [concatenate] at h
  split at h
  · cases h
  · simp only [Except.ok.injEq] at h; subst h; exact ⟨rfl, rfl⟩

end DendroModel.C19.Aux

namespace DendroModel.C19
open DendroModel.C19.Aux

/-- (a) the rows of a concatenation, exactly (no "missing = empty" reading): the result has a row for every taxon of
    the namespace and for no other taxon, and that row is the concatenation, in argument order, of the taxon's rows in
    the source matrices.  A zero-width source row contributes nothing but is a row; `none` only outside the namespace. -/
theorem concat_get? (m0 : Matrix) (rest : List Matrix) (r : Matrix) (h : concatenate (m0 :: rest) = .ok r)
    (hwf : ∀ m ∈ m0 :: rest, WF m ∧ m.taxa = m0.taxa) (htx : m0.taxa ≠ []) (t : Taxon) :
    get? t r.rows =
      if t ∈ m0.taxa then some (((m0 :: rest).map (fun m => rowOf t m.rows)).flatten) else none := by
  have hnd : ∀ m ∈ m0 :: rest, (keys m.rows).Nodup := fun m hm => (hwf m hm).1.1
  by_cases ht : t ∈ m0.taxa
  · simp only [ht, if_true]
    have h0 : has t m0.rows = true :=
      concat_all_present m0 rest r h htx m0 (by simp) (hnd m0 (by simp)) (hwf m0 (by simp)).1.2.1 t ht
    have hr : has t r.rows = true := by
      have hcopy := h
      simp only [concatenate] at hcopy
      split at hcopy
      · cases hcopy
      · next st hst =>
        simp only [Except.ok.injEq] at hcopy
        subst hcopy
        exact concatLoop_has _ _ _ t _ _ _ _ hst hnd (Or.inr ⟨m0, by simp, h0⟩)
    have hrows := concat_rows _ r h hnd t
    simp only [has_eq, Option.isSome_iff_exists] at hr
    obtain ⟨x, hx⟩ := hr
    simp only [rowOf, hx, Option.getD_some] at hrows
    rw [hx, hrows]
    rfl
  · simp only [ht, if_false]
    have hw := concat_wf m0 rest r h hwf
    apply get?_of_not_mem
    intro hk
    exact ht ((concat_taxa m0 rest r h).1 ▸ hw.2.1 t hk)

/-- (e) "leaves its argument matrices unchanged", for the one observation `concatenate` makes that could write:
    `cm[0]` (`__getitem__`, which creates a missing row).  For a matrix that passes the guards and whose rows are a dict
    over the (duplicate-free) namespace, the first taxon has a row, so the probe returns that row and the matrix as it was -/
theorem concat_probe_pure (ns : Nat) (t0 : Taxon) (tl : List Taxon) (n : Nat) (cm : Matrix)
    (hc : Concatenable ns (t0 :: tl) n cm) (hnd : (keys cm.rows).Nodup)
    (hin : ∀ k ∈ keys cm.rows, k ∈ t0 :: tl) :
    getItem cm t0 = .ok (cm, rowOf t0 cm.rows) := by
  have hlen : (t0 :: tl).length ≤ (keys cm.rows).length := by simp [keys, hc.2.1]
  have hmem : t0 ∈ keys cm.rows := subset_of_nodup_length (keys cm.rows) (t0 :: tl) hnd hin hlen t0 (by simp)
  have hhas := has_of_mem_keys t0 cm.rows hmem
  simp only [has_eq, Option.isSome_iff_exists] at hhas
  obtain ⟨x, hx⟩ := hhas
  simp [getItem, hx, rowOf]

/-- … hence a successful `concatenate` of well-formed matrices over one namespace changed none of its arguments through
    its probes -/
theorem concat_probes_pure (m0 : Matrix) (rest : List Matrix) (r : Matrix) (h : concatenate (m0 :: rest) = .ok r)
    (hwf : ∀ m ∈ m0 :: rest, WF m ∧ m.taxa = m0.taxa) (t0 : Taxon) (tl : List Taxon) (htx : m0.taxa = t0 :: tl)
    (m : Matrix) (hm : m ∈ m0 :: rest) : getItem m t0 = .ok (m, rowOf t0 m.rows) := by
  have hc := (concat_ok_iff m0 rest (by rw [htx]; simp)).mp ⟨r, h⟩ m hm
  rw [htx] at hc
  exact concat_probe_pure m0.ns t0 tl m0.rows.length m hc (hwf m hm).1.1
    (fun k hk => by rw [← htx, ← (hwf m hm).2]; exact (hwf m hm).1.2.1 k hk)

end DendroModel.C19

namespace DendroModel.C19.Aux
open DendroModel.C19
theorem ex_wf_pair : ∀ m ∈ [mA, mB], WF m ∧ m.taxa = mA.taxa := by
  intro m hm
  simp only [List.mem_cons, List.not_mem_nil, or_false] at hm
  rcases hm with rfl | rfl <;> (unfold WF; decide)
example : get? 1 mAB.rows = some [3, 4, 5] := by
  have := concat_get? mA [mB] mAB ex_concat ex_wf_pair (by decide) 1
  simpa [mA, mB, rowOf, get?] using this
example : get? 7 mAB.rows = none := by
  have := concat_get? mA [mB] mAB ex_concat ex_wf_pair (by decide) 7
  simpa [mA] using this
example : getItem mB 0 = .ok (mB, [6]) :=
  concat_probes_pure mA [mB] mAB ex_concat ex_wf_pair 0 [1] rfl mB (by simp)
end DendroModel.C19.Aux

/-! ### the history object: well-formedness along every sequence of operations, as ONE theorem -/
namespace DendroModel.C19

/-- well-formed including the namespace itself: `WF` plus duplicate-free namespace members — every hypothesis the
    specifications of this file use about a single matrix -/
def WFN (m : Matrix) : Prop := WF m ∧ m.taxa.Nodup

/-- what a history must satisfy about the OTHER matrices it mentions: they are well-formed and see the same namespace
    members as the matrix the history runs on.  (The model's guards compare only the namespace identity `ns`; that the
    same identity means the same member list is an invariant of the protocol — the driver refuses input that breaks it.) -/
def OpOK (taxa : List Taxon) : Op → Prop
  | .add o | .replace o | .update o | .extend _ o | .extendMatrix o => WF o ∧ o.taxa = taxa
  | _ => True

/-- one call keeps the namespace and well-formedness -/
theorem step_wfn (m : Matrix) (op : Op) (hm : WFN m) (hop : OpOK m.taxa op) :
    WFN (step m op) ∧ (step m op).taxa = m.taxa ∧ (step m op).ns = m.ns := by
  obtain ⟨hwf, hnd⟩ := hm
  have key : ∀ r : Matrix, WF r → r.taxa = m.taxa → r.ns = m.ns → WFN r ∧ r.taxa = m.taxa ∧ r.ns = m.ns :=
    fun r h1 h2 h3 => ⟨⟨h1, h2 ▸ hnd⟩, h2, h3⟩
  have self : WFN m ∧ m.taxa = m.taxa ∧ m.ns = m.ns := ⟨⟨hwf, hnd⟩, rfl, rfl⟩
  have binary : ∀ (f : Rows → Rows → Rows) (o : Matrix),
      f ∈ [addSeqs, replaceSeqs, updateSeqs, extendSeqs false, extendSeqs true, extendMatrix] →
      WF o ∧ o.taxa = m.taxa →
      WFN (orSelf m (rowOp f m o)) ∧ (orSelf m (rowOp f m o)).taxa = m.taxa ∧ (orSelf m (rowOp f m o)).ns = m.ns := by
    intro f o hf ho
    cases hr : rowOp f m o with
    | error e => simpa [orSelf] using self
    | ok r =>
      have hw := (wf_preserved m o hwf ho.1 ho.2).1 f hf r hr
      rcases rowOp_spec f m o with ⟨_, r', hr', _, hns, htx, _⟩ | ⟨_, he⟩
      · rw [hr'] at hr; simp only [Except.ok.injEq] at hr; subst hr
        simpa [orSelf] using key r' hw htx hns
      · rw [he] at hr; cases hr
  have W := wf_preserved m m hwf hwf rfl
  cases op with
  | add o => exact binary addSeqs o (by simp) hop
  | replace o => exact binary replaceSeqs o (by simp) hop
  | update o => exact binary updateSeqs o (by simp) hop
  | extend b o => cases b <;> exact binary _ o (by simp) hop
  | extendMatrix o => exact binary extendMatrix o (by simp) hop
  | remove taxa => exact key _ (W.2.1 taxa).1 rfl rfl
  | discard taxa => exact key _ (W.2.1 taxa).2.1 rfl rfl
  | keep taxa => exact key _ (W.2.1 taxa).2.2 rfl rfl
  | fill v size app => exact key _ (W.2.2.1 v size app).1 rfl rfl
  | fillTaxa => exact key _ W.2.2.2.1 rfl rfl
  | pack v size app => exact key _ (W.2.2.1 v size app).2 rfl rfl
  | newSubset lab idx =>
    simp only [step]
    cases hr : newSubset m lab idx with
    | error e => simpa [orSelf] using self
    | ok r =>
      have hw := W.2.2.2.2.2.1 lab idx r hr
      rcases newSubset_spec m lab idx with ⟨_, he⟩ | ⟨_, r', hr', _, _, hns, htx, _⟩
      · rw [he] at hr; cases hr
      · rw [hr'] at hr; simp only [Except.ok.injEq] at hr; subst hr
        simpa [orSelf] using key r' hw htx hns
  | getItem t =>
    simp only [step]
    cases hr : getItem m t with
    | error e => simpa using self
    | ok p =>
      obtain ⟨m', r⟩ := p
      have hw := W.2.2.2.2.2.2.1 t m' r hr
      rcases getItem_spec m t with ⟨r0, _, he⟩ | ⟨_, _, m1, he, _, _, _, hns, htx⟩ | ⟨_, _, he⟩
      · rw [he] at hr; simp only [Except.ok.injEq, Prod.mk.injEq] at hr
        rw [← hr.1]; simpa using self
      · rw [he] at hr; simp only [Except.ok.injEq, Prod.mk.injEq] at hr
        obtain ⟨rfl, _⟩ := hr
        simpa using key m1 hw htx hns
      · rw [he] at hr; cases hr
  | setItem t row =>
    simp only [step]
    cases hr : setItem m t row with
    | error e => simpa [orSelf] using self
    | ok r =>
      have hw := W.2.2.2.2.2.2.2.1 t row r hr
      simp only [setItem] at hr
      split at hr
      · simp only [Except.ok.injEq] at hr; subst hr; simpa [orSelf] using key _ hw rfl rfl
      · cases hr
  | newSequence t row =>
    simp only [step]
    cases hr : newSequence m t row with
    | error e => simpa [orSelf] using self
    | ok r =>
      have hw := W.2.2.2.2.2.2.2.2.1 t row r hr
      simp only [newSequence] at hr
      split at hr
      · cases hr
      · split at hr
        · simp only [Except.ok.injEq] at hr; subst hr; simpa [orSelf] using key _ hw rfl rfl
        · cases hr
  | delItem t =>
    simp only [step]
    cases hr : delItem m t with
    | error e => simpa [orSelf] using self
    | ok r =>
      have hw := W.2.2.2.2.2.2.2.2.2.1 t r hr
      simp only [delItem] at hr
      split at hr
      · simp only [Except.ok.injEq] at hr; subst hr; simpa [orSelf] using key _ hw rfl rfl
      · cases hr
  | clear => exact key _ W.2.2.2.2.2.2.2.2.2.2 rfl rfl

/-- "for all sequences of these operations": along ANY history — whatever mixture of successful, refused and
    half-finished calls — the matrix stays well-formed over the same duplicate-free namespace, so every specification of
    this file applies to every intermediate state -/
theorem history_wfn (ops : List Op) (m : Matrix) (hm : WFN m) (hops : ∀ op ∈ ops, OpOK m.taxa op) :
    WFN (run m ops) ∧ (run m ops).taxa = m.taxa ∧ (run m ops).ns = m.ns := by
  induction ops generalizing m with
  | nil => exact ⟨hm, rfl, rfl⟩
  | cons op rest ih =>
    have h1 := step_wfn m op hm (hops op (by simp))
    have h2 := ih (step m op) h1.1 (fun o ho => by rw [h1.2.1]; exact hops o (by simp [ho]))
    simp only [run, List.foldl_cons] at h2 ⊢
    exact ⟨h2.1, h2.2.1.trans h1.2.1, h2.2.2.trans h1.2.2⟩

end DendroModel.C19

namespace DendroModel.C19.Aux
open DendroModel.C19
example : WFN mA ∧ ∀ op ∈ [Op.extend true mB, .getItem 7, .remove [1, 1], .fillTaxa, .newSubset ['s'] [2, 0], .add mB],
    OpOK mA.taxa op := by
  refine ⟨⟨by unfold WF; decide, by decide⟩, ?_⟩
  intro op hop
  simp only [List.mem_cons, List.not_mem_nil, or_false] at hop
  rcases hop with rfl | rfl | rfl | rfl | rfl | rfl <;> simp only [OpOK] <;> first | trivial | (unfold WF; decide)
example : (run mA [.extend true mB, .getItem 7, .remove [1, 1], .fillTaxa]).rows = [(0, [1, 2, 6]), (1, [])] := by decide
end DendroModel.C19.Aux

/-! ### `concatenate_from_streams` over the shared namespace that grows while streams are read -/
namespace DendroModel.C19.Aux
open DendroModel.C19

/-- the namespace after all streams were read -/
def finalTaxa (taxa : List Taxon) (ps : List Parsed) : List Taxon := ps.foldl (fun t p => growTaxa t p.rows) taxa

theorem readLoopNS_ok {σ : Type} (parse : σ → Option Parsed) (streams : List σ) (ps : List Parsed)
    (h : streams.map parse = ps.map some) (taxa : List Taxon) (acc : List Parsed) (i : Nat) :
    readLoopNS parse taxa acc i streams = .ok (finalTaxa taxa ps, acc ++ ps) := by
  induction streams generalizing ps taxa acc i with
  | nil =>
    cases ps with
    | nil => simp [readLoopNS, finalTaxa]
    | cons a as => simp at h
  | cons s ss ih =>
    cases ps with
    | nil => simp at h
    | cons a as =>
      simp only [List.map_cons, List.cons.injEq] at h
      simp only [readLoopNS, h.1]
      rw [ih as h.2]
      simp [finalTaxa]

end DendroModel.C19.Aux

namespace DendroModel.C19
open DendroModel.C19.Aux

/-- with ONE namespace shared by all streams, `concatenate_from_streams` is `concatenate` of the matrices read, each
    seen over the namespace as it is AFTER the last stream was read -/
theorem fromStreamsNS_eq {σ : Type} (ns : Nat) (parse : σ → Option Parsed) (streams : List σ) (ps : List Parsed)
    (h : streams.map parse = ps.map some) :
    concatFromStreamsNS ns parse streams = match concatenate (ps.map (asMatrix ns (finalTaxa [] ps))) with
      | .ok r => .ok r
      | .error e => .error (.concat e) := by
  simp only [concatFromStreamsNS, readLoopNS_ok parse streams ps h [] [] 0, List.nil_append]
  cases concatenate (ps.map (asMatrix ns (finalTaxa [] ps))) <;> rfl

/-- the consequence the stateless reader cannot show: if ANY stream lacks a taxon that some stream (earlier or later)
    introduced — its row count differs from the size of the final namespace — the whole call is refused with `ValueError`
    ("Number of sequences not equal to the number of taxa"), even though each stream alone is a fine matrix -/
theorem fromStreamsNS_incomplete_refused {σ : Type} (ns : Nat) (parse : σ → Option Parsed) (streams : List σ)
    (ps : List Parsed) (h : streams.map parse = ps.map some) (p : Parsed) (hp : p ∈ ps)
    (hlen : p.rows.length ≠ (finalTaxa [] ps).length) (hne : finalTaxa [] ps ≠ []) :
    concatFromStreamsNS ns parse streams = .error (.concat .valueError) := by
  rw [fromStreamsNS_eq ns parse streams ps h]
  cases ps with
  | nil => cases hp
  | cons p0 rest =>
    have hres : ∀ r, concatenate ((p0 :: rest).map (asMatrix ns (finalTaxa [] (p0 :: rest)))) ≠ .ok r := by
      intro r hr
      have := (concat_ok_iff (asMatrix ns (finalTaxa [] (p0 :: rest)) p0)
        (rest.map (asMatrix ns (finalTaxa [] (p0 :: rest)))) (by simpa [asMatrix] using hne)).mp ⟨r, by simpa using hr⟩
        (asMatrix ns (finalTaxa [] (p0 :: rest)) p) (by
          simp only [List.mem_cons, List.mem_map] at hp ⊢
          rcases hp with hp | hp
          · left; rw [hp]
          · right; exact ⟨p, hp, rfl⟩)
      exact hlen (by simpa [asMatrix] using this.2.1)
    cases hc : concatenate ((p0 :: rest).map (asMatrix ns (finalTaxa [] (p0 :: rest)))) with
    | ok r => exact absurd hc (hres r)
    | error e =>
      have := concat_error_kind (asMatrix ns (finalTaxa [] (p0 :: rest)) p0)
        (rest.map (asMatrix ns (finalTaxa [] (p0 :: rest)))) (by simpa [asMatrix] using hne) e (by simpa using hc)
      simp [this]

end DendroModel.C19

namespace DendroModel.C19.Aux
open DendroModel.C19
def pA : Parsed := { label := none, rows := [(0, [1, 2]), (1, [3, 4])] }
def pC : Parsed := { label := none, rows := [(0, [5]), (2, [6])] }
example : finalTaxa [] [pA, pC] = [0, 1, 2] ∧ pA.rows.length ≠ (finalTaxa [] [pA, pC]).length := by decide
example : concatFromStreamsNS 0 (fun o : Option Parsed => o) [some pA, some pC] = .error (.concat .valueError) :=
  fromStreamsNS_incomplete_refused 0 _ _ [pA, pC] rfl pA (by simp) (by decide) (by decide)
end DendroModel.C19.Aux

/-! ### last round: exact refusal kinds of `concatenate` -/
namespace DendroModel.C19

/-- `concatenate([])`: `char_matrices[0]` raises `IndexError` -/
theorem concat_nil : concatenate [] = .error .indexError := rfl

/-- over a namespace WITHOUT taxa the first matrix decides: with rows it fails the row-count guard (`ValueError`), without
    rows it reaches `cm[0]` (`IndexError`); later matrices are never looked at -/
theorem concat_empty_namespace_error (m0 : Matrix) (rest : List Matrix) (ht : m0.taxa = []) :
    concatenate (m0 :: rest) = .error (if m0.rows = [] then .indexError else .valueError) := by
  simp only [concatenate, ht, concatLoop, concatStep]
  by_cases hr : m0.rows = []
  · simp [hr]
  · have : m0.rows.length ≠ 0 := by
      intro h; exact hr (List.eq_nil_of_length_eq_zero h)
    simp [hr, this]

/-- (e) the outcome of `concatenate`, completely: which inputs succeed, which are refused with `ValueError`, which end in
    `IndexError` — there is no other outcome -/
theorem concat_outcome (ms : List Matrix) :
    (ms = [] ∧ concatenate ms = .error .indexError) ∨
    (∃ m0 rest, ms = m0 :: rest ∧ m0.taxa = [] ∧ m0.rows = [] ∧ concatenate ms = .error .indexError) ∨
    (∃ m0 rest, ms = m0 :: rest ∧ m0.taxa = [] ∧ m0.rows ≠ [] ∧ concatenate ms = .error .valueError) ∨
    (∃ m0 rest, ms = m0 :: rest ∧ m0.taxa ≠ [] ∧ (∃ m ∈ ms, ¬ Concatenable m0.ns m0.taxa m0.rows.length m) ∧
      concatenate ms = .error .valueError) ∨
    (∃ m0 rest, ms = m0 :: rest ∧ m0.taxa ≠ [] ∧ (∀ m ∈ ms, Concatenable m0.ns m0.taxa m0.rows.length m) ∧
      ∃ r, concatenate ms = .ok r) := by
  cases ms with
  | nil => left; exact ⟨rfl, rfl⟩
  | cons m0 rest =>
    right
    by_cases ht : m0.taxa = []
    · have h := concat_empty_namespace_error m0 rest ht
      by_cases hr : m0.rows = []
      · left; exact ⟨m0, rest, rfl, ht, hr, by simpa [hr] using h⟩
      · right; left; exact ⟨m0, rest, rfl, ht, hr, by simpa [hr] using h⟩
    · right; right
      by_cases hall : ∀ m ∈ m0 :: rest, Concatenable m0.ns m0.taxa m0.rows.length m
      · right; exact ⟨m0, rest, rfl, ht, hall, concat_succeeds m0 rest ht hall⟩
      · left
        refine ⟨m0, rest, rfl, ht, ?_, ?_⟩
        · simp only [Classical.not_forall] at hall
          obtain ⟨m, hm, hn⟩ := hall
          exact ⟨m, hm, hn⟩
        · cases hc : concatenate (m0 :: rest) with
          | ok r => exact absurd ((concat_ok_iff m0 rest ht).mp ⟨r, hc⟩) hall
          | error e => rw [concat_error_kind m0 rest ht e hc]

/-- `IndexError` exactly for the empty list and for a first matrix that is empty over an empty namespace -/
theorem concat_indexError_iff (ms : List Matrix) :
    concatenate ms = .error .indexError ↔ ms = [] ∨ ∃ m0 rest, ms = m0 :: rest ∧ m0.taxa = [] ∧ m0.rows = [] := by
  constructor
  · intro h
    rcases concat_outcome ms with ⟨h1, _⟩ | ⟨m0, rest, h1, h2, h3, _⟩ | ⟨_, _, _, _, _, he⟩ | ⟨_, _, _, _, _, he⟩ |
      ⟨_, _, _, _, _, r, he⟩
    · exact Or.inl h1
    · exact Or.inr ⟨m0, rest, h1, h2, h3⟩
    · rw [he] at h; cases h
    · rw [he] at h; cases h
    · rw [he] at h; cases h
  · rintro (h | ⟨m0, rest, h1, h2, h3⟩)
    · subst h; rfl
    · subst h1
      simpa [h3] using concat_empty_namespace_error m0 rest h2

end DendroModel.C19

namespace DendroModel.C19.Aux
open DendroModel.C19
example : concatenate [{ mA with taxa := [], rows := [] }, mB] = .error .indexError := by
  simpa using concat_empty_namespace_error { mA with taxa := [], rows := [] } [mB] rfl
example : concatenate [{ mA with taxa := [] }, mB] = .error .valueError := by
  have := concat_empty_namespace_error { mA with taxa := [] } [mB] rfl
  simpa [mA] using this
end DendroModel.C19.Aux

/-! ### insertion order of the rows (Python dict order) — specified here, deliberately NOT part of the correspondence -/
namespace DendroModel.C19

/-- keys of `ns` that are not yet present are appended, in the order in which they first appear -/
def appendNew (ks ns : List Taxon) : List Taxon :=
  ns.foldl (fun acc k => if acc.contains k then acc else acc ++ [k]) ks

end DendroModel.C19

namespace DendroModel.C19.Aux
open DendroModel.C19

theorem keys_del (t : Taxon) (rs : Rows) : keys (del t rs) = (keys rs).filter (fun k => k != t) := by
  induction rs with
  | nil => simp [del, keys]
  | cons kv rest ih =>
    obtain ⟨k, v⟩ := kv
    simp only [keys, del] at ih ⊢
    by_cases hk : k = t
    · subst hk; simp [ih]
    · simp [hk, ih]

theorem has_eq_contains (t : Taxon) (rs : Rows) : has t rs = (keys rs).contains t := by
  by_cases h : t ∈ keys rs
  · rw [has_of_mem_keys t rs h]; simp [h]
  · have : get? t rs = none := get?_of_not_mem t rs h
    simp [has_eq, this, h]

theorem filter_ne_of_not_mem (t : Taxon) (l : List Taxon) (h : t ∉ l) : l.filter (fun k => k != t) = l := by
  induction l with
  | nil => rfl
  | cons a as ih =>
    simp only [List.mem_cons, not_or] at h
    have : a ≠ t := fun e => h.1 e.symm
    simp [this, ih h.2]

theorem filter_true' (l : List Taxon) : l.filter (fun _ => true) = l := by
  induction l with
  | nil => rfl
  | cons a as ih => simp [ih]

theorem keys_foldl_appendNew {α} (key : α → Taxon) (step : Rows → α → Rows) (l : List α)
    (hstep : ∀ acc a, keys (step acc a) = if has (key a) acc then keys acc else keys acc ++ [key a])
    (s : Rows) : keys (l.foldl step s) = appendNew (keys s) (l.map key) := by
  induction l generalizing s with
  | nil => simp [appendNew]
  | cons a as ih =>
    simp only [List.foldl_cons, List.map_cons, appendNew]
    rw [ih, hstep, has_eq_contains]
    rfl

theorem keys_foldl_const {α} (step : Rows → α → Rows) (l : List α)
    (hstep : ∀ acc a, keys (step acc a) = keys acc) (s : Rows) : keys (l.foldl step s) = keys s := by
  induction l generalizing s with
  | nil => rfl
  | cons a as ih => simp only [List.foldl_cons]; rw [ih, hstep]

theorem keys_foldl_filter (p : Taxon → Bool) (step : Rows → Taxon → Rows) (l : List Taxon)
    (hstep : ∀ acc t, keys (step acc t) = if p t then keys acc else (keys acc).filter (fun k => k != t))
    (s : Rows) : keys (l.foldl step s) = (keys s).filter (fun k => !(l.contains k && !p k)) := by
  induction l generalizing s with
  | nil => simp [filter_true']
  | cons a as ih =>
    simp only [List.foldl_cons]
    rw [ih, hstep]
    by_cases hp : p a = true
    · simp only [hp, if_true]
      apply List.filter_congr
      intro k _
      by_cases hka : k = a
      · subst hka; simp [hp]
      · simp [hka]
    · simp only [hp, Bool.false_eq_true, if_false, List.filter_filter]
      apply List.filter_congr
      intro k _
      by_cases hka : k = a
      · subst hka; simp [hp]
      · simp [hka]

theorem keys_set_has (t : Taxon) (r : Row) (rs : Rows) :
    keys (set t r rs) = if has t rs then keys rs else keys rs ++ [t] := by
  rw [keys_set, has_eq_contains]; simp

end DendroModel.C19.Aux

namespace DendroModel.C19
open DendroModel.C19.Aux

/-- dict semantics of the row store: assigning to an existing key keeps its position, a new key goes last; deleting a
    key keeps the relative order of the others -/
theorem order_set_del (t : Taxon) (r : Row) (rs : Rows) :
    keys (set t r rs) = (if t ∈ keys rs then keys rs else keys rs ++ [t]) ∧
    keys (del t rs) = (keys rs).filter (fun k => k != t) :=
  ⟨keys_set t r rs, keys_del t rs⟩

/-- insertion order after the binary row operations: `add`, `update`, `extend(…, True)`, `extend_matrix` append the taxa
    new to `self` in `other`'s order; `replace` and plain `extend` leave the order as it is -/
theorem order_binary (s o : Rows) :
    keys (addSeqs s o) = appendNew (keys s) (keys o) ∧ keys (updateSeqs s o) = appendNew (keys s) (keys o) ∧
    keys (extendSeqs true s o) = appendNew (keys s) (keys o) ∧ keys (extendMatrix s o) = appendNew (keys s) (keys o) ∧
    keys (replaceSeqs s o) = keys s ∧ keys (extendSeqs false s o) = keys s := by
  refine ⟨?_, ?_, ?_, ?_, ?_, ?_⟩
  · exact keys_foldl_appendNew Prod.fst _ o (fun acc a => by
      by_cases h : has a.1 acc = true <;> simp [h, keys_set_has]) s
  · exact keys_foldl_appendNew Prod.fst _ o (fun acc a => keys_set_has a.1 a.2 acc) s
  · exact keys_foldl_appendNew Prod.fst _ o (fun acc a => by
      by_cases h : has a.1 acc = true <;> simp [h, keys_set_has]) s
  · exact keys_foldl_appendNew Prod.fst _ o (fun acc a => by
      by_cases h : has a.1 acc = true <;> simp [h, keys_set_has]) s
  · exact keys_foldl_const _ o (fun acc a => by
      by_cases h : has a.1 acc = true <;> simp [h, keys_set_has]) s
  · exact keys_foldl_const _ o (fun acc a => by
      by_cases h : has a.1 acc = true <;> simp [h, keys_set_has]) s

/-- insertion order after the unary operations: `fill`, `pack`'s padding and `export` keep it; `fill_taxa` appends the
    namespace taxa that had no row, in namespace order; `discard`/`keep` (and a `remove` that returns) filter it -/
theorem order_unary (taxa : List Taxon) (s : Rows) :
    (∀ f, keys (mapNsRows f taxa s) = keys s) ∧ keys (fillTaxa taxa s) = appendNew (keys s) taxa ∧
    keys (discardSeqs taxa s) = (keys s).filter (fun k => !taxa.contains k) ∧
    keys (keepSeqs taxa s) = (keys s).filter (fun k => taxa.contains k) ∧
    (∀ s', removeSeqs taxa s = (s', none) → keys s' = (keys s).filter (fun k => !taxa.contains k)) := by
  refine ⟨?_, ?_, ?_, ?_, ?_⟩
  · intro f
    exact keys_foldl_const _ taxa (fun acc a => by
      cases hg : get? a acc with
      | none => rfl
      | some r =>
        simp only []
        rw [keys_set_has]
        simp [has_eq, hg]) s
  · have := keys_foldl_appendNew (fun t : Taxon => t) (fun acc t => if has t acc then acc else set t [] acc) taxa
      (fun acc a => by by_cases h : has a acc = true <;> simp [h, keys_set_has]) s
    simpa [fillTaxa] using this
  · have := keys_foldl_filter (fun _ => false) (fun acc t => if has t acc then del t acc else acc) taxa
      (fun acc t => by
        simp only [Bool.false_eq_true, if_false]
        by_cases h : has t acc = true
        · simp [h, keys_del]
        · simp only [h, Bool.false_eq_true, if_false]
          rw [filter_ne_of_not_mem]
          intro hm; exact h (has_of_mem_keys t acc hm)) s
    simpa [discardSeqs] using this
  · have := keys_foldl_filter (fun k => taxa.contains k) (fun acc k => if taxa.contains k then acc else del k acc) (keys s)
      (fun acc t => by by_cases h : t ∈ taxa <;> simp [h, keys_del]) s
    simp only [keepSeqs]
    rw [this]
    apply List.filter_congr
    intro k hk
    by_cases h : k ∈ taxa <;> simp [h, hk]
  · intro s' h
    induction taxa generalizing s with
    | nil => simp [removeSeqs] at h; subst h; simp [filter_true']
    | cons t ts ih =>
      simp only [removeSeqs] at h
      by_cases hh : has t s = true
      · simp only [hh, if_true] at h
        rw [ih _ h, keys_del, List.filter_filter]
        apply List.filter_congr
        intro k _
        by_cases hkt : k = t
        · subst hkt; simp
        · simp [hkt]
      · simp [hh] at h

/-- `sequence_size` / `vector_size` is the length of the FIRST-INSERTED row (0 for an empty matrix) — the one place where
    insertion order reaches a result (`concatenate` uses it as subset width, on rectangular matrices only) -/
theorem vectorSize_first (rs : Rows) :
    vectorSize rs = match keys rs with
      | [] => 0
      | k :: _ => (rowOf k rs).length := by
  cases rs with
  | nil => rfl
  | cons kv rest => obtain ⟨k, v⟩ := kv; simp [vectorSize, keys, rowOf, get?]

end DendroModel.C19

namespace DendroModel.C19.Aux
open DendroModel.C19
example : keys (addSeqs [(2, [1]), (0, [])] [(0, [5]), (1, [6]), (2, [7])]) = [2, 0, 1] := by decide
example : appendNew [2, 0] [0, 1, 2] = [2, 0, 1] := by decide
example : keys (keepSeqs [0, 1] mB.rows) = [1, 0] ∧ removeSeqs [0] mB.rows = ([(1, [5])], none) := by decide
example : vectorSize mB.rows = 1 := by decide
end DendroModel.C19.Aux

/-! ### which rows a concatenation has, in which order; the round trip without the "missing = empty" reading -/
namespace DendroModel.C19.Aux
open DendroModel.C19

theorem mem_appendNew (ks ns : List Taxon) (k : Taxon) : k ∈ appendNew ks ns ↔ k ∈ ks ∨ k ∈ ns := by
  induction ns generalizing ks with
  | nil => simp [appendNew]
  | cons a as ih =>
    simp only [appendNew, List.foldl_cons] at ih ⊢
    rw [ih]
    by_cases ha : ks.contains a = true
    · have : a ∈ ks := by simpa using ha
      simp only [ha, if_true, List.mem_cons]
      constructor
      · rintro (h | h); exact Or.inl h; exact Or.inr (Or.inr h)
      · rintro (h | h | h); exact Or.inl h; exact Or.inl (h ▸ this); exact Or.inr h
    · simp only [ha, Bool.false_eq_true, if_false, List.mem_append, List.mem_cons, List.not_mem_nil, or_false]
      constructor
      · rintro ((h | h) | h); exact Or.inl h; exact Or.inr (Or.inl h); exact Or.inr (Or.inr h)
      · rintro (h | h | h); exact Or.inl (Or.inl h); exact Or.inl (Or.inr h); exact Or.inr h

theorem appendNew_of_subset (ks ns : List Taxon) (h : ∀ k ∈ ns, k ∈ ks) : appendNew ks ns = ks := by
  induction ns with
  | nil => rfl
  | cons a as ih =>
    have ha : ks.contains a = true := by simpa using h a (by simp)
    simp only [appendNew, List.foldl_cons, ha, if_true]
    exact ih (fun k hk => h k (by simp [hk]))

theorem appendNew_nil_nodup (ns : List Taxon) (h : ns.Nodup) : ∀ ks, (∀ k ∈ ns, k ∉ ks) → appendNew ks ns = ks ++ ns := by
  induction ns with
  | nil => intro ks _; simp [appendNew]
  | cons a as ih =>
    intro ks hd
    obtain ⟨ha, has'⟩ := List.nodup_cons.mp h
    have hc : ks.contains a = false := by simpa using hd a (by simp)
    simp only [appendNew, List.foldl_cons, hc, Bool.false_eq_true, if_false]
    have := ih has' (ks ++ [a]) (fun k hk => by
      simp only [List.mem_append, List.mem_singleton, not_or]
      exact ⟨hd k (by simp [hk]), fun e => ha (e ▸ hk)⟩)
    simp only [appendNew] at this
    rw [this]; simp

theorem concatLoop_order (ns : Nat) (taxa : List Taxon) (nseqs : Nat) :
    ∀ (ms : List Matrix) (st st' : CState) (cidx : Nat),
      concatLoop ns taxa nseqs st cidx ms = .ok st' →
      keys st'.acc = ms.foldl (fun ks m => appendNew ks (keys m.rows)) (keys st.acc) := by
  intro ms
  induction ms with
  | nil => intro st st' cidx h; simp only [concatLoop, Except.ok.injEq] at h; subst h; rfl
  | cons cm rest ih =>
    intro st st' cidx h
    simp only [concatLoop] at h
    split at h
    · cases h
    · next st1 hstep =>
      have hacc := (concatStep_ok _ _ _ _ _ _ _ hstep).2.1
      rw [ih st1 st' _ h, hacc, (order_binary st.acc cm.rows).2.2.2.1]
      rfl

theorem mem_fold_appendNew (ms : List Matrix) (ks : List Taxon) (k : Taxon) :
    k ∈ ms.foldl (fun ks m => appendNew ks (keys m.rows)) ks ↔ k ∈ ks ∨ ∃ m ∈ ms, k ∈ keys m.rows := by
  induction ms generalizing ks with
  | nil => simp
  | cons m ms ih =>
    simp only [List.foldl_cons]
    rw [ih, mem_appendNew]
    constructor
    · rintro ((h | h) | ⟨x, hx, hk⟩)
      · exact Or.inl h
      · exact Or.inr ⟨m, by simp, h⟩
      · exact Or.inr ⟨x, by simp [hx], hk⟩
    · rintro (h | ⟨x, hx, hk⟩)
      · exact Or.inl (Or.inl h)
      · simp only [List.mem_cons] at hx
        rcases hx with hx | hx
        · subst hx; exact Or.inl (Or.inr hk)
        · exact Or.inr ⟨x, hx, hk⟩

theorem has_iff_mem_keys (t : Taxon) (rs : Rows) : has t rs = true ↔ t ∈ keys rs := by
  rw [has_eq_contains]; simp

end DendroModel.C19.Aux

namespace DendroModel.C19
open DendroModel.C19.Aux

/-- (a) insertion order of a concatenation: the first matrix's row order, then — per later matrix, in argument order — the
    taxa not seen before, in that matrix's order -/
theorem concat_order (ms : List Matrix) (r : Matrix) (h : concatenate ms = .ok r) :
    keys r.rows = ms.foldl (fun ks m => appendNew ks (keys m.rows)) [] := by
  cases ms with
  | nil => simp [concatenate] at h
  | cons m0 rest =>
    simp only [concatenate] at h
    split at h
    · cases h
    · next st hst =>
      simp only [Except.ok.injEq] at h
      subst h
      simpa [keys] using concatLoop_order _ _ _ _ _ _ _ hst

/-- (a) which rows the result HAS, with no assumption on the inputs: a taxon has a row in the concatenation iff it has
    one in some source matrix -/
theorem concat_has_iff (ms : List Matrix) (r : Matrix) (h : concatenate ms = .ok r) (t : Taxon) :
    has t r.rows = true ↔ ∃ m ∈ ms, has t m.rows = true := by
  rw [has_iff_mem_keys, concat_order ms r h, mem_fold_appendNew]
  simp [has_iff_mem_keys]

/-- for well-formed complete inputs (what `concatenate` accepts) the result keeps exactly the FIRST matrix's row order -/
theorem concat_order_first (m0 : Matrix) (rest : List Matrix) (r : Matrix) (h : concatenate (m0 :: rest) = .ok r)
    (hwf : ∀ m ∈ m0 :: rest, WF m ∧ m.taxa = m0.taxa) (htx : m0.taxa ≠ []) : keys r.rows = keys m0.rows := by
  rw [concat_order _ r h]
  simp only [List.foldl_cons]
  have h0 : appendNew [] (keys m0.rows) = keys m0.rows := by
    have := appendNew_nil_nodup (keys m0.rows) (hwf m0 (by simp)).1.1 [] (by simp)
    simpa using this
  rw [h0]
  have hsub : ∀ m ∈ rest, ∀ k ∈ keys m.rows, k ∈ keys m0.rows := by
    intro m hm k hk
    have hk' : k ∈ m0.taxa := (hwf m (by simp [hm])).2 ▸ (hwf m (by simp [hm])).1.2.1 k hk
    exact (has_iff_mem_keys k m0.rows).mp
      (concat_all_present m0 rest r h htx m0 (by simp) (hwf m0 (by simp)).1.1 (hwf m0 (by simp)).1.2.1 k hk')
  clear h h0
  induction rest with
  | nil => rfl
  | cons m ms ih =>
    simp only [List.foldl_cons]
    rw [appendNew_of_subset _ _ (hsub m (by simp))]
    exact ih (fun x hx => hwf x (by
      simp only [List.mem_cons] at hx ⊢
      rcases hx with hx | hx
      · exact Or.inl hx
      · exact Or.inr (Or.inr hx))) (fun x hx => hsub x (by simp [hx]))

/-- (a)+(b) the round trip stated on the rows themselves: exporting from a concatenation the subset recorded for a
    source matrix yields, for every namespace taxon, a row that EXISTS and equals the row of that source matrix
    (so a zero-width source row comes back as an empty row, not as "no row") -/
theorem concat_export_roundtrip_exact (pre post : List Matrix) (m r : Matrix)
    (h : concatenate (pre ++ m :: post) = .ok r)
    (hnd : ∀ x ∈ pre ++ m :: post, (keys x.rows).Nodup)
    (hin : ∀ x ∈ pre ++ m :: post, ∀ kv ∈ x.rows, kv.1 ∈ r.taxa)
    (htaxa : r.taxa.Nodup)
    (hall : ∀ t ∈ r.taxa, ∀ x ∈ pre ++ m :: post, has t x.rows = true) :
    ∃ name idx e, r.subs[pre.length]? = some (name, idx) ∧ exportSub r name = .ok e ∧
      ∀ t ∈ r.taxa, ∃ row, get? t m.rows = some row ∧ get? t e.rows = some row := by
  obtain ⟨name, idx, e, hsub, hexp, hrow⟩ := concat_export_roundtrip pre post m r h hnd hin htaxa hall
  refine ⟨name, idx, e, hsub, hexp, ?_⟩
  intro t ht
  have hm := hall t ht m (by simp)
  simp only [has_eq, Option.isSome_iff_exists] at hm
  obtain ⟨row, hmrow⟩ := hm
  refine ⟨row, hmrow, ?_⟩
  have hr : has t r.rows = true := (concat_has_iff _ r h t).mpr ⟨m, by simp, by simp [has_eq, hmrow]⟩
  simp only [has_eq, Option.isSome_iff_exists] at hr
  obtain ⟨x, hx⟩ := hr
  have he : ∃ ix, e = exportIdx r ix := by
    simp only [exportSub] at hexp
    split at hexp
    · cases hexp
    · simp only [Except.ok.injEq] at hexp; exact ⟨_, hexp.symm⟩
  obtain ⟨ix, rfl⟩ := he
  have hget := (export_spec r htaxa ix t ht).1
  rw [hx] at hget
  have := hrow t ht
  simp only [rowOf, hget, hmrow, Option.map_some, Option.getD_some] at this
  rw [hget]
  simp [this]

end DendroModel.C19

namespace DendroModel.C19.Aux
open DendroModel.C19
example : keys mAB.rows = keys mA.rows := concat_order_first mA [mB] mAB ex_concat ex_wf_pair (by decide)
example : has 1 mAB.rows = true := (concat_has_iff [mA, mB] mAB ex_concat 1).mpr ⟨mB, by simp, by decide⟩
example : ∃ name idx e, mAB.subs[1]? = some (name, idx) ∧ exportSub mAB name = .ok e ∧
    ∀ t ∈ mAB.taxa, ∃ row, get? t mB.rows = some row ∧ get? t e.rows = some row :=
  concat_export_roundtrip_exact [mA] [] mB mAB ex_concat (by decide) (by decide) (by decide) (by decide)
end DendroModel.C19.Aux

/-! ### the UNREPAIRED free-name loop does not terminate (why the repair, and the fuel-free definition, matter) -/
namespace DendroModel.C19.Aux
open DendroModel.C19

/-- one round of the loop as it stood before the repair: `while cs_label in subsets: label = "%s_%03d" % (new_label, i); i += 1`
    — the candidate is assigned to `label`, so `cs_label` (the variable the condition tests) never changes.
    State = (cs_label, i); `none` = the loop has exited.  (Specification-side only: the driver cannot run a loop that
    does not return; on the implementation this behaviour is what the harness reports as `Timeout-concat`.) -/
def unrepairedRound (subs : List (Label × List Nat)) (st : Label × Nat) : Option (Label × Nat) :=
  if hasSub subs st.1 then some (st.1, st.2 + 1) else none

def rounds (subs : List (Label × List Nat)) : Nat → Label × Nat → Option (Label × Nat)
  | 0, st => some st
  | n + 1, st => match unrepairedRound subs st with
    | none => none
    | some st' => rounds subs n st'

end DendroModel.C19.Aux

namespace DendroModel.C19
open DendroModel.C19.Aux

/-- with a taken label the unrepaired loop is still running after ANY number of rounds (only the counter moves); with the
    same input the repaired search `freeName` returns a free label (`freeName_fresh`) -/
theorem unrepaired_search_never_halts (subs : List (Label × List Nat)) (base : Label) (h : hasSub subs base = true)
    (n i : Nat) : rounds subs n (base, i) = some (base, i + n) ∧ hasSub subs (freeName subs base) = false := by
  refine ⟨?_, freeName_fresh subs base⟩
  induction n generalizing i with
  | zero => rfl
  | succ n ih =>
    simp only [rounds, unrepairedRound, h, if_true]
    rw [ih (i + 1)]
    congr 2
    omega

end DendroModel.C19

namespace DendroModel.C19.Aux
open DendroModel.C19
example : hasSub [(['x'], [0, 1])] ['X'] = true := by decide
end DendroModel.C19.Aux

namespace DendroModel.C19
open DendroModel.C19.Aux

/-- insertion order after element access: `matrix[t]` that creates a row and `matrix[t] = …` / `new_sequence` for a taxon
    without a row put it LAST; assigning to an existing row keeps its place; `del matrix[t]` keeps the others' order -/
theorem order_element (m : Matrix) (t : Taxon) (row : Row) :
    (∀ m' r, getItem m t = .ok (m', r) → keys m'.rows = if has t m.rows then keys m.rows else keys m.rows ++ [t]) ∧
    (∀ m', setItem m t row = .ok m' → keys m'.rows = if has t m.rows then keys m.rows else keys m.rows ++ [t]) ∧
    (∀ m', newSequence m t row = .ok m' → keys m'.rows = keys m.rows ++ [t]) ∧
    (∀ m', delItem m t = .ok m' → keys m'.rows = (keys m.rows).filter (fun k => k != t)) := by
  refine ⟨?_, ?_, ?_, ?_⟩
  · intro m' r h
    simp only [getItem] at h
    split at h
    · next r0 hg =>
      simp only [Except.ok.injEq, Prod.mk.injEq] at h
      rw [← h.1]; simp [has_eq, hg]
    · next hg =>
      split at h
      · simp only [Except.ok.injEq, Prod.mk.injEq] at h
        rw [← h.1]
        simp only [keys_set_has]
      · cases h
  · intro m' h
    simp only [setItem] at h
    split at h
    · simp only [Except.ok.injEq] at h; rw [← h]; simp only [keys_set_has]
    · cases h
  · intro m' h
    simp only [newSequence] at h
    split at h
    · cases h
    · next hh =>
      split at h
      · simp only [Except.ok.injEq] at h; rw [← h]
        simp only [keys_set_has]
        simp [hh]
      · cases h
  · intro m' h
    simp only [delItem] at h
    split at h
    · simp only [Except.ok.injEq] at h; rw [← h]; exact keys_del t m.rows
    · cases h

/-- `concatenate_from_streams` over the shared growing namespace succeeds exactly when, against the namespace as it is
    after the LAST stream, every stream read is complete (as many rows as taxa) and rectangular -/
theorem fromStreamsNS_ok_iff {σ : Type} (ns : Nat) (parse : σ → Option Parsed) (streams : List σ)
    (p0 : Parsed) (rest : List Parsed) (h : streams.map parse = (p0 :: rest).map some)
    (hne : finalTaxa [] (p0 :: rest) ≠ []) :
    (∃ r, concatFromStreamsNS ns parse streams = .ok r) ↔
      ∀ p ∈ p0 :: rest, p.rows.length = (finalTaxa [] (p0 :: rest)).length ∧
        ∀ q ∈ items (finalTaxa [] (p0 :: rest)) p.rows,
          q.2.length = (rowOf ((finalTaxa [] (p0 :: rest)).headD 0) p.rows).length := by
  have hex : (∃ r, concatFromStreamsNS ns parse streams = .ok r) ↔
      ∃ r, concatenate ((p0 :: rest).map (asMatrix ns (finalTaxa [] (p0 :: rest)))) = .ok r := by
    rw [fromStreamsNS_eq ns parse streams (p0 :: rest) h]
    cases concatenate ((p0 :: rest).map (asMatrix ns (finalTaxa [] (p0 :: rest)))) <;> simp
  have key := concat_ok_iff (asMatrix ns (finalTaxa [] (p0 :: rest)) p0)
    (rest.map (asMatrix ns (finalTaxa [] (p0 :: rest)))) (by simpa [asMatrix] using hne)
  rw [hex]
  simp only [List.map_cons] at key ⊢
  rw [key]
  constructor
  · intro hc p hp
    have := hc (asMatrix ns (finalTaxa [] (p0 :: rest)) p) (by
      simp only [List.mem_cons, List.mem_map] at hp ⊢
      rcases hp with hp | hp
      · left; rw [hp]
      · right; exact ⟨p, hp, rfl⟩)
    exact ⟨by simpa [asMatrix] using this.2.1, by simpa [asMatrix] using this.2.2.2⟩
  · intro hc m hm
    simp only [List.mem_cons, List.mem_map] at hm
    have h0 := hc p0 (by simp)
    rcases hm with hm | ⟨p, hp, hm⟩
    · subst hm
      exact ⟨rfl, by simpa [asMatrix] using h0.1, rfl, by simpa [asMatrix] using h0.2⟩
    · subst hm
      have hp' := hc p (by simp [hp])
      exact ⟨rfl, by simpa [asMatrix] using hp'.1, by simp [asMatrix, hp'.1, h0.1], by simpa [asMatrix] using hp'.2⟩

end DendroModel.C19

namespace DendroModel.C19.Aux
open DendroModel.C19
def pB : Parsed := { label := none, rows := [(1, [5]), (0, [6])] }
example : finalTaxa [] [pA, pB] = [0, 1] ∧ finalTaxa [] [pA, pB] ≠ [] := by decide
example : ∃ r, concatFromStreamsNS 0 (fun o : Option Parsed => o) [some pA, some pB] = .ok r :=
  (fromStreamsNS_ok_iff 0 _ _ pA [pB] rfl (by decide)).mpr (by decide)
example : ∃ m', getItem { mA with rows := [(1, [3])] } 0 = .ok (m', []) ∧ keys m'.rows = [1, 0] := ⟨_, rfl, rfl⟩
end DendroModel.C19.Aux
