import DendroModel.Model.C19Ext
import DendroModel.Model.C19Heap
import DendroModel.Model.C19Seq
import DendroModel.Gen.C19Kernels
/-! C19 — property theorems about the model the driver `drv_c19` executes (`DendroModel/Model/C19.lean`).
Only property theorems live directly in `namespace DendroModel.C19` of this file; helper lemmas are in
`DendroModel.C19.Aux`.  A row is observed through `get? t rows` (`none` = the taxon has no sequence).

Termination ("every such operation terminates") is carried by the definitions themselves: every model function is
total, the two `while` loops (`padLoop`, `freeFrom`) are well-founded recursions without fuel.
"Leaves its arguments unchanged" is value semantics in the model (checked on the implementation by the harness). -/
namespace DendroModel.C19.Aux
open DendroModel.C19

theorem get?_set_self (t : Taxon) (r : Row) (rs : Rows) : get? t (set t r rs) = some r := by
  induction rs with
  | nil => simp [set, get?]
  | cons kv rest ih =>
    obtain ⟨k, v⟩ := kv
    by_cases h : k = t <;> simp [set, get?, h, ih]

theorem get?_set_ne (t u : Taxon) (r : Row) (rs : Rows) (h : u ≠ t) : get? u (set t r rs) = get? u rs := by
  induction rs with
  | nil => simp [set, get?, Ne.symm h]
  | cons kv rest ih =>
    obtain ⟨k, v⟩ := kv
    by_cases hk : k = t
    · subst hk; simp [set, get?, Ne.symm h]
    · by_cases hu : k = u
      · subst hu; simp [set, get?, hk]
      · simp [set, get?, hk, hu, ih]

theorem get?_del_self (t : Taxon) (rs : Rows) : get? t (del t rs) = none := by
  induction rs with
  | nil => simp [del, get?]
  | cons kv rest ih =>
    obtain ⟨k, v⟩ := kv
    simp only [del] at ih
    by_cases h : k = t <;> simp [del, get?, h, ih]

theorem get?_del_ne (t u : Taxon) (rs : Rows) (h : u ≠ t) : get? u (del t rs) = get? u rs := by
  induction rs with
  | nil => simp [del, get?]
  | cons kv rest ih =>
    obtain ⟨k, v⟩ := kv
    simp only [del] at ih
    by_cases hk : k = t
    · subst hk; simp [del, get?, Ne.symm h, ih]
    · by_cases hu : k = u
      · subst hu; simp [del, get?, hk]
      · simp [del, get?, hk, hu, ih]

theorem get?_of_not_mem (t : Taxon) (rs : Rows) (h : t ∉ keys rs) : get? t rs = none := by
  induction rs with
  | nil => simp [get?]
  | cons kv rest ih =>
    obtain ⟨k, v⟩ := kv
    simp only [keys, List.map_cons, List.mem_cons, not_or] at h
    simp only [keys] at ih
    simp [get?, Ne.symm h.1, ih h.2]

theorem mem_keys_of_get? (t : Taxon) (rs : Rows) (r : Row) (h : get? t rs = some r) : t ∈ keys rs := by
  by_cases hm : t ∈ keys rs
  · exact hm
  · rw [get?_of_not_mem t rs hm] at h; cases h

theorem has_eq (t : Taxon) (rs : Rows) : has t rs = (get? t rs).isSome := rfl

/-- deleting a list of keys, each under a condition -/
theorem get?_foldl_del (p : Taxon → Bool) (ks : List Taxon) (rs : Rows) (u : Taxon) :
    get? u (ks.foldl (fun acc k => if p k then acc else del k acc) rs)
      = if u ∈ ks ∧ p u = false then none else get? u rs := by
  induction ks generalizing rs with
  | nil => simp
  | cons k ks ih =>
    simp only [List.foldl_cons, ih]
    by_cases hp : p k = true
    · simp only [hp, if_true]
      by_cases hu : u = k
      · subst hu; simp [hp]
      · simp [hu]
    · simp only [hp]
      by_cases hu : u = k
      · subst hu
        simp [hp, get?_del_self]
      · simp [hu, get?_del_ne k u rs hu]

/-- `mapNsRows` rewrites exactly the rows of the namespace's taxa -/
theorem get?_mapNsRows (f : Row → Row) (taxa : List Taxon) (hnd : taxa.Nodup) (rs : Rows) (t : Taxon) :
    get? t (mapNsRows f taxa rs) = if t ∈ taxa then (get? t rs).map f else get? t rs := by
  induction taxa generalizing rs with
  | nil => simp [mapNsRows]
  | cons a as ih =>
    have hnd' := (List.nodup_cons.mp hnd)
    simp only [mapNsRows, List.foldl_cons]
    have ih' := fun rs => ih hnd'.2 rs
    simp only [mapNsRows] at ih'
    rw [ih']
    by_cases hta : t = a
    · subst hta
      simp only [hnd'.1, if_false, List.mem_cons, true_or, if_true]
      cases hg : get? t rs with
      | none => simp [hg]
      | some r => simp [get?_set_self]
    · have hne : ¬ (t = a ∨ t ∈ as) ↔ t ∉ as := by simp [hta]
      cases hg : get? a rs with
      | none => simp [hta]
      | some r => simp [hta, get?_set_ne a t _ rs hta]

theorem length_le_foldl_max (taxa : List Taxon) (rs : Rows) (t : Taxon) (r : Row) (m0 : Nat)
    (ht : t ∈ taxa) (hg : get? t rs = some r) :
    r.length ≤ taxa.foldl (fun mx t => match get? t rs with
      | some r => if r.length > mx then r.length else mx
      | none => mx) m0 := by
  have mono : ∀ (l : List Taxon) (m : Nat), m ≤ l.foldl (fun mx t => match get? t rs with
      | some r => if r.length > mx then r.length else mx
      | none => mx) m := by
    intro l
    induction l with
    | nil => intro m; simp
    | cons a as ih =>
      intro m
      simp only [List.foldl_cons]
      refine Nat.le_trans ?_ (ih _)
      cases get? a rs with
      | none => simp
      | some r => simp only []; split <;> omega
  induction taxa generalizing m0 with
  | nil => simp at ht
  | cons a as ih =>
    simp only [List.foldl_cons]
    simp only [List.mem_cons] at ht
    rcases ht with ht | ht
    · subst ht
      rw [hg]
      refine Nat.le_trans ?_ (mono _ _)
      simp only []; split <;> omega
    · exact ih _ ht

theorem padLoop_length (value : Cell) (size : Nat) (append : Bool) (v : Row) :
    (padLoop value size append v).length = max v.length size := by
  induction h : size - v.length generalizing v with
  | zero =>
    rw [padLoop]
    have : ¬ v.length < size := by omega
    simp [this]; omega
  | succ n ih =>
    rw [padLoop]
    have hlt : v.length < size := by omega
    simp only [hlt, if_true]
    rw [ih]
    · cases append <;> simp <;> omega
    · cases append <;> simp <;> omega

end DendroModel.C19.Aux

namespace DendroModel.C19
open DendroModel.C19.Aux

/-! ## (d) row set algebra -/

/-- `add_sequences`: left-biased union — rows of `self` are kept, rows only in `other` are added -/
theorem add_spec (s o : Rows) (t : Taxon) :
    get? t (addSeqs s o) = match get? t s with
      | some r => some r
      | none => get? t o := by
  induction o generalizing s with
  | nil => simp only [addSeqs, List.foldl_nil, get?]; cases get? t s <;> rfl
  | cons kv rest ih =>
    obtain ⟨k, v⟩ := kv
    simp only [addSeqs, List.foldl_cons] at ih ⊢
    rw [ih]
    by_cases hk : k = t
    · subst hk
      cases hs : get? k s with
      | none => simp [has_eq, hs, get?_set_self, get?]
      | some r => simp [has_eq, hs]
    · have hne : t ≠ k := Ne.symm hk
      by_cases hh : has k s = true
      · simp [hh, get?, hk]
      · simp [hh, get?, hk, get?_set_ne k t v s hne]

/-- `replace_sequences`: exactly the rows shared with `other` are replaced by `other`'s; nothing is added -/
theorem replace_spec (s o : Rows) (hnd : (keys o).Nodup) (t : Taxon) :
    get? t (replaceSeqs s o) = match get? t s, get? t o with
      | some _, some b => some b
      | some a, none => some a
      | none, _ => none := by
  induction o generalizing s with
  | nil => simp only [replaceSeqs, List.foldl_nil, get?]; cases get? t s <;> rfl
  | cons kv rest ih =>
    obtain ⟨k, v⟩ := kv
    simp only [keys, List.map_cons, List.nodup_cons] at hnd
    simp only [replaceSeqs, List.foldl_cons, keys] at ih ⊢
    rw [ih _ hnd.2]
    by_cases hk : k = t
    · subst hk
      have hr : get? k rest = none := get?_of_not_mem k rest hnd.1
      cases hs : get? k s with
      | none => simp [has_eq, hs, hr]
      | some r => simp [has_eq, hs, hr, get?, get?_set_self]
    · have hne : t ≠ k := Ne.symm hk
      by_cases hh : has k s = true
      · simp [hh, get?, hk, get?_set_ne k t v s hne]
      · simp [hh, get?, hk]

/-- `update_sequences`: right-biased union -/
theorem update_spec (s o : Rows) (hnd : (keys o).Nodup) (t : Taxon) :
    get? t (updateSeqs s o) = match get? t o with
      | some b => some b
      | none => get? t s := by
  induction o generalizing s with
  | nil => simp [updateSeqs, get?]
  | cons kv rest ih =>
    obtain ⟨k, v⟩ := kv
    simp only [keys, List.map_cons, List.nodup_cons] at hnd
    simp only [updateSeqs, List.foldl_cons, keys] at ih ⊢
    rw [ih _ hnd.2]
    by_cases hk : k = t
    · subst hk
      simp [get?_of_not_mem k rest hnd.1, get?, get?_set_self]
    · simp [get?, hk, get?_set_ne k t v s (Ne.symm hk)]

/-- `extend_sequences`: shared rows get `other`'s cells appended, rows only in `self` are untouched, rows only in
    `other` are ignored unless `is_add_new_sequences` -/
theorem extend_spec (addNew : Bool) (s o : Rows) (hnd : (keys o).Nodup) (t : Taxon) :
    get? t (extendSeqs addNew s o) = match get? t s, get? t o with
      | some a, some b => some (a ++ b)
      | some a, none => some a
      | none, some b => if addNew then some b else none
      | none, none => none := by
  induction o generalizing s with
  | nil => simp only [extendSeqs, List.foldl_nil, get?]; cases get? t s <;> rfl
  | cons kv rest ih =>
    obtain ⟨k, v⟩ := kv
    simp only [keys, List.map_cons, List.nodup_cons] at hnd
    simp only [extendSeqs, List.foldl_cons, keys] at ih ⊢
    rw [ih _ hnd.2]
    by_cases hk : k = t
    · subst hk
      have hr : get? k rest = none := get?_of_not_mem k rest hnd.1
      cases hs : get? k s with
      | none => cases addNew <;> simp [has_eq, hs, hr, get?, get?_set_self]
      | some r => simp [has_eq, hs, hr, get?, get?_set_self, rowOf]
    · have hne : t ≠ k := Ne.symm hk
      by_cases hh : has k s = true
      · simp [hh, get?, hk, get?_set_ne k t _ s hne]
      · cases addNew <;> simp [hh, get?, hk, get?_set_ne k t _ s hne]

/-- `extend_matrix` is `extend_sequences(…, is_add_new_sequences=True)` -/
theorem extendMatrix_eq (s o : Rows) : extendMatrix s o = extendSeqs true s o := by
  simp only [extendMatrix, extendSeqs]
  congr 1
  funext acc kv
  cases has kv.1 acc <;> simp

/-- `remove_sequences` that returns normally has removed exactly the named rows -/
theorem remove_spec (taxa : List Taxon) (rs rs' : Rows) (h : removeSeqs taxa rs = (rs', none)) (u : Taxon) :
    get? u rs' = if u ∈ taxa then none else get? u rs := by
  induction taxa generalizing rs with
  | nil => simp [removeSeqs] at h; simp [h]
  | cons t ts ih =>
    simp only [removeSeqs] at h
    by_cases hh : has t rs = true
    · simp only [hh, if_true] at h
      rw [ih _ h]
      by_cases hu : u = t
      · subst hu; simp [get?_del_self]
      · simp [hu, get?_del_ne t u rs hu]
    · simp [hh] at h

/-- whether or not it raises, `remove_sequences` never touches a row it was not given -/
theorem remove_untouched (taxa : List Taxon) (rs : Rows) (u : Taxon) (hu : u ∉ taxa) :
    get? u (removeSeqs taxa rs).1 = get? u rs := by
  induction taxa generalizing rs with
  | nil => simp [removeSeqs]
  | cons t ts ih =>
    simp only [List.mem_cons, not_or] at hu
    simp only [removeSeqs]
    by_cases hh : has t rs = true
    · simp only [hh, if_true]
      rw [ih _ hu.2, get?_del_ne t u rs hu.1]
    · simp [hh]

/-- `remove_sequences` raises `KeyError` exactly when a named taxon has no row (any more) -/
theorem remove_ok_iff (taxa : List Taxon) (rs : Rows) :
    (removeSeqs taxa rs).2 = none ↔ taxa.Nodup ∧ ∀ t ∈ taxa, has t rs = true := by
  induction taxa generalizing rs with
  | nil => simp [removeSeqs]
  | cons t ts ih =>
    simp only [removeSeqs]
    by_cases hh : has t rs = true
    · simp only [hh, if_true, ih, List.nodup_cons, List.mem_cons, forall_eq_or_imp, true_and]
      constructor
      · rintro ⟨hnd, hall⟩
        have hnot : t ∉ ts := by
          intro hm
          have := hall t hm
          simp [has_eq, get?_del_self] at this
        refine ⟨⟨hnot, hnd⟩, ?_⟩
        intro a ha
        have hne : a ≠ t := by intro h; subst h; exact hnot ha
        have := hall a ha
        simpa [has_eq, get?_del_ne t a rs hne] using this
      · rintro ⟨⟨hnot, hnd⟩, hall⟩
        refine ⟨hnd, ?_⟩
        intro a ha
        have hne : a ≠ t := by intro h; subst h; exact hnot ha
        simpa [has_eq, get?_del_ne t a rs hne] using hall a ha
    · simp [hh]

/-- `discard_sequences`: the named rows are gone, all others unchanged; never raises -/
theorem discard_spec (taxa : List Taxon) (rs : Rows) (u : Taxon) :
    get? u (discardSeqs taxa rs) = if u ∈ taxa then none else get? u rs := by
  induction taxa generalizing rs with
  | nil => simp [discardSeqs]
  | cons t ts ih =>
    simp only [discardSeqs, List.foldl_cons] at ih ⊢
    rw [ih]
    by_cases hu : u = t
    · subst hu
      by_cases hh : has u rs = true
      · simp [hh, get?_del_self]
      · have : get? u rs = none := by simpa [has_eq] using hh
        simp [hh, this]
    · by_cases hh : has t rs = true
      · simp [hh, hu, get?_del_ne t u rs hu]
      · simp [hh, hu]

/-- `keep_sequences`: restriction to the named taxa -/
theorem keep_spec (taxa : List Taxon) (rs : Rows) (u : Taxon) :
    get? u (keepSeqs taxa rs) = if u ∈ taxa then get? u rs else none := by
  simp only [keepSeqs]
  rw [get?_foldl_del (fun k => taxa.contains k) (keys rs) rs u]
  by_cases hu : u ∈ taxa
  · simp [hu]
  · by_cases hk : u ∈ keys rs
    · simp [hu, hk]
    · simp [hu, hk, get?_of_not_mem u rs hk]

/- the namespace guard of the binary row operations: see `rowOp_spec` below -/

/-! ## (c) padding -/

/-- the `while len(v) < size` loop in closed form: existing cells are kept, only `value` is added, on the chosen side -/
theorem padLoop_eq (value : Cell) (size : Nat) (append : Bool) (v : Row) :
    padLoop value size append v =
      if append then v ++ List.replicate (size - v.length) value
      else List.replicate (size - v.length) value ++ v := by
  induction h : size - v.length generalizing v with
  | zero =>
    rw [padLoop]
    have : ¬ v.length < size := by omega
    simp [this]
  | succ n ih =>
    rw [padLoop]
    have hlt : v.length < size := by omega
    simp only [hlt, if_true]
    cases append with
    | true =>
      simp only [if_true]
      rw [ih _ (by simp; omega)]
      simp [List.replicate_succ]
    | false =>
      simp only [Bool.false_eq_true, if_false]
      rw [ih _ (by simp; omega)]
      simp [List.replicate_succ']

/-- `fill`: every row of a namespace taxon is padded by the loop, nothing else changes, no row appears or disappears -/
theorem fill_spec (value : Cell) (size : Option Nat) (append : Bool) (taxa : List Taxon) (hnd : taxa.Nodup)
    (rs : Rows) (t : Taxon) :
    get? t (fillRows value size append taxa rs) =
      if t ∈ taxa then (get? t rs).map (padLoop value (fillSize size taxa rs) append) else get? t rs := by
  simp only [fillRows]
  exact get?_mapNsRows _ taxa hnd rs t

/-- `fill` without `size` (or with a size not below the longest row) makes all rows of the namespace equally long -/
theorem fill_equal_length (value : Cell) (size : Option Nat) (append : Bool) (taxa : List Taxon) (hnd : taxa.Nodup)
    (rs : Rows) (hsize : maxLen taxa rs ≤ fillSize size taxa rs) (t : Taxon) (ht : t ∈ taxa) (r : Row)
    (h : get? t (fillRows value size append taxa rs) = some r) : r.length = fillSize size taxa rs := by
  rw [fill_spec value size append taxa hnd rs t] at h
  simp only [ht, if_true] at h
  cases hg : get? t rs with
  | none => simp [hg] at h
  | some r0 =>
    simp only [hg, Option.map_some, Option.some.injEq] at h
    subst h
    rw [padLoop_length]
    have h2 : r0.length ≤ maxLen taxa rs := by
      unfold maxLen
      exact length_le_foldl_max taxa rs t r0 0 ht hg
    exact Nat.max_eq_right (Nat.le_trans h2 hsize)

/-- `fill_taxa`: existing rows unchanged, every other taxon of the namespace gets an empty row -/
theorem fillTaxa_spec (taxa : List Taxon) (rs : Rows) (t : Taxon) :
    get? t (fillTaxa taxa rs) = match get? t rs with
      | some r => some r
      | none => if t ∈ taxa then some [] else none := by
  have h := add_spec rs (taxa.map (fun t => (t, []))) t
  have heq : addSeqs rs (taxa.map (fun t => (t, ([] : Row)))) = fillTaxa taxa rs := by
    simp [addSeqs, fillTaxa, List.foldl_map]
  rw [heq] at h
  rw [h]
  clear h heq
  cases get? t rs with
  | some r => rfl
  | none =>
    simp only []
    induction taxa with
    | nil => simp [get?]
    | cons a as ih =>
      by_cases ha : a = t
      · simp [get?, ha]
      · simp only [List.map_cons, get?, ha, if_false, List.mem_cons, Ne.symm ha, false_or]
        exact ih

/-- `pack`: afterwards every taxon of the namespace has a row; it is the old row (empty if there was none) padded
    by the loop — so existing cells are unaltered -/
theorem pack_spec (value : Cell) (size : Option Nat) (append : Bool) (taxa : List Taxon) (hnd : taxa.Nodup)
    (rs : Rows) (t : Taxon) (ht : t ∈ taxa) :
    get? t (packRows value size append taxa rs) =
      some (padLoop value (fillSize size taxa (fillTaxa taxa rs)) append (rowOf t rs)) := by
  simp only [packRows]
  rw [fill_spec value size append taxa hnd, fillTaxa_spec]
  simp only [ht, if_true, rowOf]
  cases get? t rs <;> simp

/-- `pack` without `size` leaves all rows of the namespace equally long -/
theorem pack_equal_length (value : Cell) (append : Bool) (taxa : List Taxon) (hnd : taxa.Nodup) (rs : Rows)
    (t u : Taxon) (ht : t ∈ taxa) (hu : u ∈ taxa) :
    (rowOf t (packRows value none append taxa rs)).length = (rowOf u (packRows value none append taxa rs)).length := by
  have key : ∀ x ∈ taxa, (rowOf x (packRows value none append taxa rs)).length
      = fillSize none taxa (fillTaxa taxa rs) := by
    intro x hx
    have h1 := pack_spec value none append taxa hnd rs x hx
    simp only [packRows] at h1 ⊢
    have := fill_equal_length value none append taxa hnd (fillTaxa taxa rs) (by simp [fillSize]) x hx _ h1
    simp only [rowOf, h1, Option.getD_some]
    exact this
  rw [key t ht, key u hu]

end DendroModel.C19

/-! ## (b) column selection, (a) concatenation -/
namespace DendroModel.C19.Aux
open DendroModel.C19

theorem filterMap_congr_mem {α β} (l : List α) (f g : α → Option β) (h : ∀ a ∈ l, f a = g a) :
    l.filterMap f = l.filterMap g := by
  induction l with
  | nil => rfl
  | cons a as ih =>
    simp only [List.filterMap_cons, h a (by simp)]
    rw [ih (fun b hb => h b (by simp [hb]))]

/-- invariant of the backwards deletion loop: the first `n` columns are still to be visited, the rest is final -/
theorem delLoop_inv (keep : Nat → Bool) : ∀ (n : Nat) (v : Row), n ≤ v.length →
    delLoop keep n v = ((List.range n).filter keep).filterMap (fun i => v[i]?) ++ v.drop n := by
  intro n
  induction n with
  | zero => intro v _; simp [delLoop]
  | succ n ih =>
    intro v h
    have hn : n < v.length := by omega
    simp only [delLoop, List.range_succ, List.filter_append, List.filterMap_append]
    by_cases hk : keep n = true
    · simp only [hk, if_true]
      rw [ih v (by omega), List.drop_eq_getElem_cons hn]
      simp [hk, hn]
    · simp only [hk, Bool.false_eq_true, if_false]
      have hlen : n ≤ (v.eraseIdx n).length := by
        rw [List.length_eraseIdx]; simp [hn]; omega
      rw [ih _ hlen]
      have h1 : ((List.range n).filter keep).filterMap (fun i => (v.eraseIdx n)[i]?)
          = ((List.range n).filter keep).filterMap (fun i => v[i]?) := by
        apply filterMap_congr_mem
        intro a ha
        have : a < n := by
          have := (List.mem_filter.mp ha).1
          simpa using this
        exact List.getElem?_eraseIdx_of_lt this
      have h2 : (v.eraseIdx n).drop n = v.drop (n + 1) := by
        rw [List.eraseIdx_eq_take_drop_succ]
        apply List.drop_left'
        simp; omega
      rw [h1, h2]
      simp [hk]

theorem rowOf_extendMatrix (s o : Rows) (hnd : (keys o).Nodup) (t : Taxon) :
    rowOf t (extendMatrix s o) = rowOf t s ++ rowOf t o := by
  rw [extendMatrix_eq]
  simp only [rowOf, extend_spec true s o hnd t]
  cases get? t s <;> cases get? t o <;> simp

theorem freeFrom_fresh (subs : List (Label × List Nat)) (base : Label) :
    ∀ (n i : Nat), pending subs i = n → hasSub subs (freeFrom subs base i) = false := by
  intro n
  induction n using Nat.strongRecOn with
  | _ n ih =>
    intro i hn
    rw [freeFrom]
    split
    · next h =>
      have := pending_decreases subs base i h
      exact ih _ (by omega) (i + 1) rfl
    · next h => simpa using h

theorem freeFrom_first (subs : List (Label × List Nat)) (base : Label) :
    ∀ (n i : Nat), pending subs i = n → ∃ j, i ≤ j ∧ freeFrom subs base i = cand base j ∧
      ∀ k, i ≤ k → k < j → hasSub subs (cand base k) = true := by
  intro n
  induction n using Nat.strongRecOn with
  | _ n ih =>
    intro i hn
    rw [freeFrom]
    split
    · next h =>
      have := pending_decreases subs base i h
      obtain ⟨j, hj, heq, hall⟩ := ih _ (by omega) (i + 1) rfl
      refine ⟨j, by omega, heq, ?_⟩
      intro k hk1 hk2
      by_cases hki : k = i
      · subst hki; exact h
      · exact hall k (by omega) hk2
    · next h => exact ⟨i, Nat.le_refl _, rfl, fun k h1 h2 => by omega⟩

/-- what one successful round of the `concatenate` loop does -/
theorem concatStep_ok (ns : Nat) (taxa : List Taxon) (nseqs : Nat) (st st' : CState) (cidx : Nat) (cm : Matrix)
    (h : concatStep ns taxa nseqs st cidx cm = .ok st') :
    cm.ns = ns ∧ st'.acc = extendMatrix st.acc cm.rows ∧ st'.pos = st.pos + vectorSize cm.rows ∧
    (∃ name, hasSub st.subs name = false ∧
      st'.subs = st.subs ++ [(name, List.range' st.pos (vectorSize cm.rows))]) ∧
    (∃ t0 rest, taxa = t0 :: rest ∧
      ∀ p ∈ items taxa cm.rows, p.2.length = (rowOf t0 cm.rows).length) := by
  unfold concatStep at h
  split at h
  · cases h
  · next hns =>
    split at h
    · cases h
    · split at h
      · cases h
      · split at h
        · cases h
        · next t0 rest =>
          split at h
          · cases h
          · next hany =>
            split at h
            · cases h
            · next hfree =>
              simp only [Except.ok.injEq] at h
              subst h
              refine ⟨by simpa using hns, rfl, rfl, ⟨_, by simpa using hfree, rfl⟩, _, _, rfl, ?_⟩
              intro p hp
              simp only [List.any_eq_true, not_exists, not_and, bne_iff_ne, ne_eq, Decidable.not_not] at hany
              exact hany p hp

def spans : Nat → List Nat → List (List Nat)
  | _, [] => []
  | pos, w :: ws => List.range' pos w :: spans (pos + w) ws

def lowerNames (subs : List (Label × List Nat)) : List Label := subs.map (fun s => lower s.1)

theorem concatLoop_inv (ns : Nat) (taxa : List Taxon) (nseqs : Nat) :
    ∀ (ms : List Matrix) (st st' : CState) (cidx : Nat),
      concatLoop ns taxa nseqs st cidx ms = .ok st' →
      (∀ m ∈ ms, m.ns = ns) ∧
      st'.subs.map Prod.snd = st.subs.map Prod.snd ++ spans st.pos (ms.map (fun m => vectorSize m.rows)) ∧
      ((lowerNames st.subs).Nodup → (lowerNames st'.subs).Nodup) ∧
      (∀ t, (∀ m ∈ ms, (keys m.rows).Nodup) →
        rowOf t st'.acc = rowOf t st.acc ++ (ms.map (fun m => rowOf t m.rows)).flatten) ∧
      (∀ m ∈ ms, ∃ t0 rest, taxa = t0 :: rest ∧
        ∀ p ∈ items taxa m.rows, p.2.length = (rowOf t0 m.rows).length) := by
  intro ms
  induction ms with
  | nil =>
    intro st st' cidx h
    simp only [concatLoop, Except.ok.injEq] at h
    subst h
    simp [spans]
  | cons cm rest ih =>
    intro st st' cidx h
    simp only [concatLoop] at h
    split at h
    · cases h
    · next st1 hstep =>
      obtain ⟨hns, hacc, hpos, ⟨name, hfresh, hsubs⟩, hrect⟩ := concatStep_ok _ _ _ _ _ _ _ hstep
      obtain ⟨ih1, ih2, ih3, ih4, ih5⟩ := ih st1 st' (cidx + 1) h
      refine ⟨?_, ?_, ?_, ?_, ?_⟩
      · intro m hm
        simp only [List.mem_cons] at hm
        rcases hm with hm | hm
        · subst hm; exact hns
        · exact ih1 m hm
      · rw [ih2, hsubs, hpos]
        simp [spans]
      · intro hnd
        apply ih3
        rw [hsubs]
        simp only [lowerNames, List.map_append, List.map_cons, List.map_nil]
        rw [List.nodup_append]
        refine ⟨hnd, by simp, ?_⟩
        intro a ha b hb
        simp only [List.mem_singleton] at hb
        subst hb
        simp only [hasSub, List.any_eq_false, beq_iff_eq] at hfresh
        simp only [List.mem_map] at ha
        obtain ⟨x, hx, hxa⟩ := ha
        intro heq
        exact hfresh x hx (by rw [hxa, heq])
      · intro t hnd
        rw [ih4 t (fun m hm => hnd m (by simp [hm])), hacc,
          rowOf_extendMatrix _ _ (hnd cm (by simp)) t]
        simp
      · intro m hm
        simp only [List.mem_cons] at hm
        rcases hm with hm | hm
        · subst hm; exact hrect
        · exact ih5 m hm

end DendroModel.C19.Aux

namespace DendroModel.C19
open DendroModel.C19.Aux

/-- (b) the backwards deletion loop of `export_character_indices` leaves exactly the selected columns, in ascending
    order (indices outside the row, negative ones and repetitions select nothing more) -/
theorem export_row_spec (idx : List Int) (v : Row) :
    exportRow idx v = ((List.range v.length).filter (inIdx idx)).filterMap (fun i => v[i]?) := by
  rw [exportRow, delLoop_inv (inIdx idx) v.length v (Nat.le_refl _)]
  simp

/-- (b) `export_character_indices`: every row of a namespace taxon is reduced to the selected columns; same taxa,
    same namespace; the subsets are dropped -/
theorem export_spec (m : Matrix) (hnd : m.taxa.Nodup) (idx : List Int) (t : Taxon) (ht : t ∈ m.taxa) :
    get? t (exportIdx m idx).rows = (get? t m.rows).map (exportRow idx) ∧
    (exportIdx m idx).ns = m.ns ∧ (exportIdx m idx).taxa = m.taxa := by
  simp only [exportIdx, get?_mapNsRows _ m.taxa hnd m.rows t, ht, if_true, and_self]

/-- (b) `export_character_subset` by name finds the subset whatever the case of the name and exports its indices -/
theorem exportSub_caseless (m : Matrix) (lab lab' : Label) (idx : List Nat) (hmem : (lab', idx) ∈ m.subs)
    (hcase : lower lab' = lower lab) (hnd : (m.subs.map (fun s => lower s.1)).Nodup) :
    exportSub m lab = .ok (exportIdx m (idx.map Int.ofNat)) := by
  have hfind : findSub m.subs lab = some idx := by
    generalize m.subs = subs at hmem hnd
    induction subs with
    | nil => simp at hmem
    | cons kv rest ih =>
      obtain ⟨k, v⟩ := kv
      simp only [List.map_cons, List.nodup_cons, List.mem_map, not_exists, not_and] at hnd
      by_cases hk : lower k = lower lab
      · simp only [findSub, List.find?_cons, hk, beq_self_eq_true, Option.map_some]
        simp only [List.mem_cons, Prod.mk.injEq] at hmem
        rcases hmem with ⟨_, hv⟩ | hmem
        · rw [hv]
        · exact absurd (by rw [hcase, hk]) (hnd.1 (lab', idx) hmem)
      · have hne : (lab', idx) ≠ (k, v) := by
          intro h
          simp only [Prod.mk.injEq] at h
          exact hk (by rw [← h.1, hcase])
        simp only [List.mem_cons, hne, false_or] at hmem
        have := ih hmem hnd.2
        simp only [findSub] at this ⊢
        simp [hk, this]
  simp [exportSub, hfind]

/-- (b) an undefined subset name is a `KeyError` -/
theorem exportSub_undefined (m : Matrix) (lab : Label) (h : ∀ s ∈ m.subs, lower s.1 ≠ lower lab) :
    exportSub m lab = .error .keyError := by
  have hfind : findSub m.subs lab = none := by
    simp only [findSub, Option.map_eq_none_iff, List.find?_eq_none, beq_iff_eq]
    exact h
  simp [exportSub, hfind]

/-- (e) the free-name search of the repaired `concatenate` returns (it is total by definition) a label that is not
    taken, whatever labels are present -/
theorem freeName_fresh (subs : List (Label × List Nat)) (base : Label) :
    hasSub subs (freeName subs base) = false := by
  unfold freeName
  split
  · exact freeFrom_fresh subs base _ 2 rfl
  · next h => simpa using h

/-- the search returns the label itself when free, else the first free `label_NNN`, `NNN ≥ 002` -/
theorem freeName_first (subs : List (Label × List Nat)) (base : Label) :
    (hasSub subs base = false ∧ freeName subs base = base) ∨
    (hasSub subs base = true ∧ ∃ j, 2 ≤ j ∧ freeName subs base = cand base j ∧
      ∀ k, 2 ≤ k → k < j → hasSub subs (cand base k) = true) := by
  unfold freeName
  by_cases h : hasSub subs base = true
  · right
    simp only [h, if_true, true_and]
    exact freeFrom_first subs base _ 2 rfl
  · left
    simp only [h]
    simp at h
    simp

/-- (a) rows of the concatenation: for every taxon, the concatenation of its sequences in argument order
    (a missing sequence counts as empty) -/
theorem concat_rows (ms : List Matrix) (r : Matrix) (h : concatenate ms = .ok r)
    (hnd : ∀ m ∈ ms, (keys m.rows).Nodup) (t : Taxon) :
    rowOf t r.rows = (ms.map (fun m => rowOf t m.rows)).flatten := by
  cases ms with
  | nil => simp [concatenate] at h
  | cons m0 rest =>
    simp only [concatenate] at h
    split at h
    · cases h
    · next st hloop =>
      simp only [Except.ok.injEq] at h
      subst h
      have := (concatLoop_inv _ _ _ _ _ _ _ hloop).2.2.2.1 t hnd
      simpa [rowOf, get?] using this

/-- (a) one recorded subset per source matrix, in argument order, covering consecutive column spans whose widths are
    the matrices' sequence sizes -/
theorem concat_subsets (ms : List Matrix) (r : Matrix) (h : concatenate ms = .ok r) :
    r.subs.map Prod.snd = spans 0 (ms.map (fun m => vectorSize m.rows)) := by
  cases ms with
  | nil => simp [concatenate] at h
  | cons m0 rest =>
    simp only [concatenate] at h
    split at h
    · cases h
    · next st hloop =>
      simp only [Except.ok.injEq] at h
      subst h
      have := (concatLoop_inv _ _ _ _ _ _ _ hloop).2.1
      simpa using this

/-- (a) the recorded subsets carry pairwise distinct names, even up to case (so none overwrites another) -/
theorem concat_names_distinct (ms : List Matrix) (r : Matrix) (h : concatenate ms = .ok r) :
    (r.subs.map (fun s => lower s.1)).Nodup := by
  cases ms with
  | nil => simp [concatenate] at h
  | cons m0 rest =>
    simp only [concatenate] at h
    split at h
    · cases h
    · next st hloop =>
      simp only [Except.ok.injEq] at h
      subst h
      exact (concatLoop_inv _ _ _ _ _ _ _ hloop).2.2.1 (by simp [lowerNames])

/-- (e) a list containing a matrix over another namespace is never concatenated -/
theorem concat_same_namespace (ms : List Matrix) (r : Matrix) (h : concatenate ms = .ok r) :
    ∀ m ∈ ms, m.ns = r.ns := by
  cases ms with
  | nil => simp [concatenate] at h
  | cons m0 rest =>
    simp only [concatenate] at h
    split at h
    · cases h
    · next st hloop =>
      simp only [Except.ok.injEq] at h
      subst h
      exact (concatLoop_inv _ _ _ _ _ _ _ hloop).1

/-- (a) in every concatenated source matrix whose rows all belong to the namespace, every row is exactly as long as
    the width of the subset recorded for that matrix (with `concat_rows` and `concat_subsets`: the subset covers exactly
    that matrix's columns) -/
theorem concat_subset_width (ms : List Matrix) (r : Matrix) (h : concatenate ms = .ok r) (m : Matrix) (hm : m ∈ ms)
    (hin : ∀ kv ∈ m.rows, kv.1 ∈ r.taxa) (t : Taxon) (ht : t ∈ r.taxa) (row : Row)
    (hrow : get? t m.rows = some row) : row.length = vectorSize m.rows := by
  cases ms with
  | nil => simp [concatenate] at h
  | cons m0 rest =>
    simp only [concatenate] at h
    split at h
    · cases h
    · next st hloop =>
      simp only [Except.ok.injEq] at h
      subst h
      simp only [] at hin ht
      obtain ⟨t0, tl, htaxa, hall⟩ := (concatLoop_inv _ _ _ _ _ _ _ hloop).2.2.2.2 m hm
      have mem_items : ∀ (u : Taxon) (ru : Row), u ∈ m0.taxa → get? u m.rows = some ru → (u, ru) ∈ items m0.taxa m.rows := by
        intro u ru hu hg
        simp only [items, List.mem_filterMap]
        exact ⟨u, hu, by simp [hg]⟩
      have h1 : row.length = (rowOf t0 m.rows).length := hall (t, row) (mem_items t row ht hrow)
      cases hrows : m.rows with
      | nil => rw [hrows] at hrow; simp [get?] at hrow
      | cons kv rs =>
        obtain ⟨k, rk⟩ := kv
        have hk : k ∈ m0.taxa := hin (k, rk) (by rw [hrows]; simp)
        have hg : get? k m.rows = some rk := by rw [hrows]; simp [get?]
        have h2 := hall (k, rk) (mem_items k rk hk hg)
        simp only [vectorSize]
        rw [hrows] at h1 h2
        simp only [] at h2
        omega

end DendroModel.C19

/-! ## non-vacuity: the hypotheses used above are satisfiable, and a concatenation with colliding labels succeeds -/
namespace DendroModel.C19.Aux
open DendroModel.C19

def mA : Matrix := { ns := 0, taxa := [0, 1], label := some ['x'], rows := [(0, [1, 2]), (1, [3, 4])], subs := [] }
def mB : Matrix := { ns := 0, taxa := [0, 1], label := some ['X'], rows := [(1, [5]), (0, [6])], subs := [] }
def mAB : Matrix :=
  { ns := 0, taxa := [0, 1], label := none, rows := [(0, [1, 2, 6]), (1, [3, 4, 5])],
    subs := [(['x'], [0, 1]), (['X', '_', '0', '0', '2'], [2])] }

/-- two matrices whose labels are equal up to case (the input on which the unrepaired loop never ends) -/
theorem ex_concat : concatenate [mA, mB] = .ok mAB := by
  have h2 : cand ['X'] 2 = ['X', '_', '0', '0', '2'] := by
    simp [cand, pad3, pad3Rev, digitsRev, digitChar]
  have h4 : ∀ idx, freeName [(['x'], idx)] ['X'] = ['X', '_', '0', '0', '2'] := by
    intro idx
    have h1 : hasSub [(['x'], idx)] ['X'] = true := by simp [hasSub, lower]
    have h3 : hasSub [(['x'], idx)] (cand ['X'] 2) = false := by rw [h2]; simp [hasSub, lower]
    rw [freeName, if_pos h1, freeFrom, dif_neg (by simp [h3]), h2]
  have h5 : freeName [] ['x'] = ['x'] := by simp [freeName, hasSub]
  have h6 : lower ['x'] ≠ lower ['X', '_', '0', '0', '2'] := by decide
  simp [concatenate, concatLoop, concatStep, mA, mB, mAB, items, get?, rowOf, baseLabel, h5, hasSub, h4, h6, vectorSize,
    extendMatrix, has, DendroModel.C19.set]
  decide

example : ∀ m ∈ [mA, mB], (keys m.rows).Nodup := by decide
example : mA.taxa.Nodup := by decide
example : ∀ kv ∈ mB.rows, kv.1 ∈ mAB.taxa := by decide
example : removeSeqs [1] mA.rows = ([(0, [1, 2])], none) := by decide
example : (removeSeqs [1, 1] mA.rows).2 = some .keyError := by decide
example : maxLen mA.taxa mB.rows ≤ fillSize none mA.taxa mB.rows := by simp [fillSize]
example : exportRow [2, 0, 0, -1, 7] [10, 11, 12, 13] = [10, 12] := by decide
example : ∃ o : Matrix, o.ns ≠ mA.ns := ⟨{ mA with ns := 1 }, by decide⟩

end DendroModel.C19.Aux

/-! ## (a) the subset of a source matrix covers exactly its columns -/
namespace DendroModel.C19.Aux
open DendroModel.C19

theorem length_flatten_map {α} (f : α → List Nat) (g : α → Nat) (l : List α) (h : ∀ x ∈ l, (f x).length = g x) :
    ((l.map f).flatten).length = (l.map g).sum := by
  induction l with
  | nil => simp
  | cons a as ih =>
    simp only [List.map_cons, List.flatten_cons, List.length_append, List.sum_cons, h a (by simp)]
    rw [ih (fun x hx => h x (by simp [hx]))]

theorem spans_append (pos : Nat) (ws1 : List Nat) (w : Nat) (ws2 : List Nat) :
    (spans pos (ws1 ++ w :: ws2))[ws1.length]? = some (List.range' (pos + ws1.sum) w) := by
  induction ws1 generalizing pos with
  | nil => simp [spans]
  | cons a as ih =>
    simp only [List.cons_append, spans, List.length_cons, List.getElem?_cons_succ, List.sum_cons]
    rw [ih]
    simp [Nat.add_assoc]

end DendroModel.C19.Aux

namespace DendroModel.C19
open DendroModel.C19.Aux

/-- (a) the subset recorded for a source matrix covers exactly that matrix's columns: it is the span
    `[off, off + width)` with `off` the total width of the matrices before it, and cutting that span out of a taxon's
    concatenated row gives back the taxon's row in that matrix (all rows belong to the namespace, the taxon has a row in
    every source matrix — which `concatenate` itself demands of complete matrices) -/
theorem concat_subset_covers (pre post : List Matrix) (m r : Matrix)
    (h : concatenate (pre ++ m :: post) = .ok r)
    (hnd : ∀ x ∈ pre ++ m :: post, (keys x.rows).Nodup)
    (hin : ∀ x ∈ pre ++ m :: post, ∀ kv ∈ x.rows, kv.1 ∈ r.taxa)
    (t : Taxon) (ht : t ∈ r.taxa) (hall : ∀ x ∈ pre ++ m :: post, has t x.rows = true) :
    (r.subs.map Prod.snd)[pre.length]?
      = some (List.range' (pre.map (fun x => vectorSize x.rows)).sum (vectorSize m.rows)) ∧
    ((rowOf t r.rows).drop (pre.map (fun x => vectorSize x.rows)).sum).take (vectorSize m.rows) = rowOf t m.rows := by
  have hw : ∀ x ∈ pre ++ m :: post, (rowOf t x.rows).length = vectorSize x.rows := by
    intro x hx
    have hh := hall x hx
    simp only [has_eq, Option.isSome_iff_exists] at hh
    obtain ⟨row, hrow⟩ := hh
    simp only [rowOf, hrow, Option.getD_some]
    exact concat_subset_width _ r h x hx (hin x hx) t ht row hrow
  constructor
  · rw [concat_subsets _ r h]
    simp only [List.map_append, List.map_cons]
    have := spans_append 0 (pre.map (fun x => vectorSize x.rows)) (vectorSize m.rows) (post.map (fun x => vectorSize x.rows))
    simpa using this
  · rw [concat_rows _ r h hnd t]
    simp only [List.map_append, List.map_cons, List.flatten_append, List.flatten_cons]
    have hlen : ((pre.map (fun x => rowOf t x.rows)).flatten).length = (pre.map (fun x => vectorSize x.rows)).sum :=
      length_flatten_map _ _ pre (fun x hx => hw x (by simp [hx]))
    rw [List.drop_left' hlen, List.take_left' (hw m (by simp))]

end DendroModel.C19

/-! ## success conditions, refusals, subset names, invariants (second round) -/
namespace DendroModel.C19

/-- what `concatenate` demands of each matrix of the list (its four `raise ValueError` guards):
    the first matrix's namespace, as many rows as the namespace has taxa and as the first matrix has rows,
    and all rows of namespace taxa as long as the row of the first taxon -/
def Concatenable (ns : Nat) (taxa : List Taxon) (nseqs : Nat) (cm : Matrix) : Prop :=
  cm.ns = ns ∧ cm.rows.length = taxa.length ∧ cm.rows.length = nseqs ∧
  ∀ p ∈ items taxa cm.rows, p.2.length = (rowOf (taxa.headD 0) cm.rows).length

/-- the state after a successful round: rows extended, one subset appended under the free name, offset advanced -/
def stepState (st : CState) (cidx : Nat) (cm : Matrix) : CState :=
  { acc := extendMatrix st.acc cm.rows,
    subs := st.subs ++ [(freeName st.subs (baseLabel cm cidx), List.range' st.pos (vectorSize cm.rows))],
    pos := st.pos + vectorSize cm.rows }

/-- the subsets `concatenate` records: per source matrix, in argument order, the first free name for its label
    (or for `locusNNN`) and the next span -/
def namedSpans : List (Label × List Nat) → Nat → Nat → List Matrix → List (Label × List Nat)
  | subs, _, _, [] => subs
  | subs, pos, cidx, m :: ms =>
    namedSpans (subs ++ [(freeName subs (baseLabel m cidx), List.range' pos (vectorSize m.rows))])
      (pos + vectorSize m.rows) (cidx + 1) ms

end DendroModel.C19

namespace DendroModel.C19.Aux
open DendroModel.C19

theorem concatStep_of (ns : Nat) (t0 : Taxon) (tl : List Taxon) (nseqs : Nat) (st : CState) (cidx : Nat) (cm : Matrix)
    (hc : Concatenable ns (t0 :: tl) nseqs cm) :
    concatStep ns (t0 :: tl) nseqs st cidx cm = .ok (stepState st cidx cm) := by
  obtain ⟨h1, h2, h3, h4⟩ := hc
  have hany : (items (t0 :: tl) cm.rows).any (fun p => p.2.length != (rowOf t0 cm.rows).length) = false := by
    simp only [List.any_eq_false, bne_iff_ne, ne_eq, Decidable.not_not]
    intro p hp
    simpa using h4 p hp
  unfold concatStep
  rw [if_neg (fun h => h h1), if_neg (fun h => h h2), if_neg (fun h => h h3)]
  simp only []
  rw [if_neg (by rw [hany]; simp), if_neg (by rw [freeName_fresh]; simp)]
  rfl

theorem concatStep_not (ns : Nat) (t0 : Taxon) (tl : List Taxon) (nseqs : Nat) (st : CState) (cidx : Nat) (cm : Matrix)
    (hc : ¬ Concatenable ns (t0 :: tl) nseqs cm) :
    concatStep ns (t0 :: tl) nseqs st cidx cm = .error .valueError := by
  unfold concatStep
  by_cases h1 : cm.ns = ns
  · rw [if_neg (fun h => h h1)]
    by_cases h2 : cm.rows.length = (t0 :: tl).length
    · rw [if_neg (fun h => h h2)]
      by_cases h3 : cm.rows.length = nseqs
      · rw [if_neg (fun h => h h3)]
        have h4 : ¬ ∀ p ∈ items (t0 :: tl) cm.rows, p.2.length = (rowOf t0 cm.rows).length := by
          intro h4
          exact hc ⟨h1, h2, h3, by simpa using h4⟩
        have hany : (items (t0 :: tl) cm.rows).any (fun p => p.2.length != (rowOf t0 cm.rows).length) = true := by
          simp only [List.any_eq_true, bne_iff_ne, ne_eq]
          simp only [Classical.not_forall] at h4
          obtain ⟨p, hp, hne⟩ := h4
          exact ⟨p, hp, hne⟩
        simp only []
        rw [if_pos hany]
      · rw [if_pos h3]
    · rw [if_pos h2]
  · rw [if_pos h1]

theorem concatLoop_ok_iff (ns : Nat) (t0 : Taxon) (tl : List Taxon) (nseqs : Nat) :
    ∀ (ms : List Matrix) (st : CState) (cidx : Nat),
      ((∃ st', concatLoop ns (t0 :: tl) nseqs st cidx ms = .ok st') ↔
        ∀ m ∈ ms, Concatenable ns (t0 :: tl) nseqs m) ∧
      (∀ e, concatLoop ns (t0 :: tl) nseqs st cidx ms = .error e → e = .valueError) ∧
      (∀ st', concatLoop ns (t0 :: tl) nseqs st cidx ms = .ok st' →
        st'.subs = namedSpans st.subs st.pos cidx ms) := by
  intro ms
  induction ms with
  | nil => intro st cidx; simp [concatLoop, namedSpans]
  | cons cm rest ih =>
    intro st cidx
    by_cases hc : Concatenable ns (t0 :: tl) nseqs cm
    · obtain ⟨ih1, ih2, ih3⟩ := ih (stepState st cidx cm) (cidx + 1)
      simp only [concatLoop, concatStep_of _ _ _ _ _ _ _ hc, List.mem_cons, forall_eq_or_imp, hc, true_and]
      refine ⟨ih1, ih2, ?_⟩
      intro st' h
      rw [ih3 st' h]
      simp [namedSpans, stepState]
    · simp only [concatLoop, concatStep_not _ _ _ _ _ _ _ hc, List.mem_cons, forall_eq_or_imp, hc, false_and]
      simp

/-- pigeonhole: a duplicate-free list inside another list that is not longer covers it -/
theorem subset_of_nodup_length (l1 l2 : List Nat) (hnd : l1.Nodup) (hsub : ∀ x ∈ l1, x ∈ l2)
    (hlen : l2.length ≤ l1.length) : ∀ x ∈ l2, x ∈ l1 := by
  induction l1 generalizing l2 with
  | nil =>
    intro x hx
    cases l2 with
    | nil => cases hx
    | cons a as => simp at hlen
  | cons a l1 ih =>
    obtain ⟨ha, hnd'⟩ := List.nodup_cons.mp hnd
    have ha2 : a ∈ l2 := hsub a (by simp)
    have hsub' : ∀ x ∈ l1, x ∈ l2.erase a := by
      intro x hx
      have hne : x ≠ a := by intro h; subst h; exact ha hx
      exact (List.mem_erase_of_ne hne).mpr (hsub x (by simp [hx]))
    have hlen' : (l2.erase a).length ≤ l1.length := by
      rw [List.length_erase_of_mem ha2]
      simp at hlen
      omega
    intro x hx
    by_cases hxa : x = a
    · simp [hxa]
    · have := ih (l2.erase a) hnd' hsub' hlen' x ((List.mem_erase_of_ne hxa).mpr hx)
      simp [this]

theorem namedSpans_labels_kept (ms : List Matrix) (labs : List Label) :
    ∀ (subs : List (Label × List Nat)) (pos cidx : Nat),
      ms.map Matrix.label = labs.map some →
      ((subs.map (fun s => lower s.1)) ++ labs.map lower).Nodup →
      (namedSpans subs pos cidx ms).map Prod.fst = subs.map Prod.fst ++ labs := by
  induction ms generalizing labs with
  | nil =>
    intro subs pos cidx hl _
    cases labs with
    | nil => simp [namedSpans]
    | cons a as => simp at hl
  | cons m ms ih =>
    intro subs pos cidx hl hnd
    cases labs with
    | nil => simp at hl
    | cons a as =>
      simp only [List.map_cons, List.cons.injEq] at hl
      have hfree : hasSub subs a = false := by
        simp only [hasSub, List.any_eq_false, beq_iff_eq]
        intro x hx heq
        have := (List.nodup_append.mp hnd).2.2 (lower x.1) (List.mem_map.mpr ⟨x, hx, rfl⟩) (lower a) (by simp)
        exact this heq
      have hname : freeName subs (baseLabel m cidx) = a := by
        simp [baseLabel, hl.1, freeName, hfree]
      simp only [namedSpans, hname]
      rw [ih as _ _ _ hl.2]
      · simp
      · simp only [List.map_append, List.map_cons, List.map_nil, List.append_assoc, List.singleton_append]
        simpa using hnd

end DendroModel.C19.Aux

namespace DendroModel.C19
open DendroModel.C19.Aux

/-- (a, e) success conditions of `concatenate`, exactly: over a non-empty namespace the call returns a matrix iff every
    matrix of the list passes the four documented guards.  In particular no combination of labels (repeated, equal up
    to case, colliding with generated names, the same object twice) makes it fail: the `add_character_subset` refusal
    is dead code after the free-name search -/
theorem concat_ok_iff (m0 : Matrix) (rest : List Matrix) (ht : m0.taxa ≠ []) :
    (∃ r, concatenate (m0 :: rest) = .ok r) ↔
      ∀ m ∈ m0 :: rest, Concatenable m0.ns m0.taxa m0.rows.length m := by
  obtain ⟨t0, tl, htaxa⟩ : ∃ t0 tl, m0.taxa = t0 :: tl := by
    cases h : m0.taxa with
    | nil => exact absurd h ht
    | cons a as => exact ⟨a, as, rfl⟩
  have key := (concatLoop_ok_iff m0.ns t0 tl m0.rows.length (m0 :: rest) ⟨[], [], 0⟩ 0).1
  simp only [concatenate, htaxa]
  rw [← key]
  constructor
  · rintro ⟨r, h⟩
    split at h
    · cases h
    · next st hst => exact ⟨st, hst⟩
  · rintro ⟨st, hst⟩
    rw [hst]
    exact ⟨_, rfl⟩

/-- the auditor's form: complete rectangular matrices over one non-empty namespace are always concatenated -/
theorem concat_succeeds (m0 : Matrix) (rest : List Matrix) (ht : m0.taxa ≠ [])
    (h : ∀ m ∈ m0 :: rest, Concatenable m0.ns m0.taxa m0.rows.length m) : ∃ r, concatenate (m0 :: rest) = .ok r :=
  (concat_ok_iff m0 rest ht).mpr h

/-- (e) over a non-empty namespace the only refusal is `ValueError` -/
theorem concat_error_kind (m0 : Matrix) (rest : List Matrix) (ht : m0.taxa ≠ []) (e : Err)
    (h : concatenate (m0 :: rest) = .error e) : e = .valueError := by
  obtain ⟨t0, tl, htaxa⟩ : ∃ t0 tl, m0.taxa = t0 :: tl := by
    cases h' : m0.taxa with
    | nil => exact absurd h' ht
    | cons a as => exact ⟨a, as, rfl⟩
  have key := (concatLoop_ok_iff m0.ns t0 tl m0.rows.length (m0 :: rest) ⟨[], [], 0⟩ 0).2.1
  simp only [concatenate, htaxa] at h
  split at h
  · next e' he =>
    simp only [Except.error.injEq] at h
    subst h
    exact key e' he
  · cases h

/-- (e) a list containing a matrix over a different namespace is refused with `ValueError` -/
theorem concat_refuses_foreign (m0 : Matrix) (rest : List Matrix) (ht : m0.taxa ≠ []) (m : Matrix)
    (hm : m ∈ m0 :: rest) (hns : m.ns ≠ m0.ns) : concatenate (m0 :: rest) = .error .valueError := by
  cases hres : concatenate (m0 :: rest) with
  | error e => rw [concat_error_kind m0 rest ht e hres]
  | ok r =>
    have := (concat_ok_iff m0 rest ht).mp ⟨r, hres⟩ m hm
    exact absurd this.1 hns

/-- (a) which name each recorded subset receives, and which span: exactly `namedSpans`.  `namedSpans` is the loop's own
    subset bookkeeping isolated from rows and guards (a projection of the loop, not an independent specification); the
    content about the names is in `freeName_first`, `concat_labels_kept`, `concat_names_distinct` -/
theorem concat_subset_labels (ms : List Matrix) (r : Matrix) (h : concatenate ms = .ok r) :
    r.subs = namedSpans [] 0 0 ms := by
  cases ms with
  | nil => simp [concatenate] at h
  | cons m0 rest =>
    cases htaxa : m0.taxa with
    | nil =>
      simp only [concatenate, htaxa, concatLoop, concatStep] at h
      split at h
      · cases h
      · next st hst =>
        split at hst
        · next e he => cases hst
        · next st1 he =>
          exfalso
          split at he
          · cases he
          · split at he
            · cases he
            · split at he <;> cases he
    | cons t0 tl =>
      simp only [concatenate, htaxa] at h
      split at h
      · cases h
      · next st hst =>
        simp only [Except.ok.injEq] at h
        subst h
        exact (concatLoop_ok_iff m0.ns t0 tl m0.rows.length (m0 :: rest) ⟨[], [], 0⟩ 0).2.2 st hst

/-- (a) when every source matrix carries a label and the labels are pairwise distinct up to case, each subset is
    recorded under its matrix's own label -/
theorem concat_labels_kept (ms : List Matrix) (r : Matrix) (h : concatenate ms = .ok r) (labs : List Label)
    (hl : ms.map Matrix.label = labs.map some) (hnd : (labs.map lower).Nodup) :
    r.subs.map Prod.fst = labs := by
  rw [concat_subset_labels ms r h]
  simpa using namedSpans_labels_kept ms labs [] 0 0 hl (by simpa using hnd)

end DendroModel.C19

namespace DendroModel.C19.Aux
open DendroModel.C19

theorem keys_set (t : Taxon) (r : Row) (rs : Rows) :
    keys (set t r rs) = if t ∈ keys rs then keys rs else keys rs ++ [t] := by
  induction rs with
  | nil => simp [set, keys]
  | cons kv rest ih =>
    obtain ⟨k, v⟩ := kv
    simp only [keys] at ih
    by_cases hk : k = t
    · subst hk; simp [set, keys]
    · by_cases hm : t ∈ List.map Prod.fst rest
      · simp [set, keys, hk, ih, hm]
      · simp [set, keys, hk, ih, hm, Ne.symm hk]

theorem nodup_set (t : Taxon) (r : Row) (rs : Rows) (h : (keys rs).Nodup) : (keys (set t r rs)).Nodup := by
  rw [keys_set]
  split
  · exact h
  · next hm =>
    rw [List.nodup_append]
    refine ⟨h, by simp, ?_⟩
    intro a ha b hb
    simp only [List.mem_singleton] at hb
    subst hb
    intro hab
    subst hab
    exact hm ha

theorem nodup_del (t : Taxon) (rs : Rows) (h : (keys rs).Nodup) : (keys (del t rs)).Nodup := by
  induction rs with
  | nil => simp [del, keys]
  | cons kv rest ih =>
    obtain ⟨k, v⟩ := kv
    simp only [keys, List.map_cons, List.nodup_cons] at h
    simp only [keys, del] at ih
    by_cases hk : k = t
    · subst hk
      simpa [del, keys, List.filter_cons] using ih h.2
    · simp only [del, keys, List.filter_cons, bne_iff_ne, ne_eq, hk, not_false_eq_true, if_true,
        List.map_cons, List.nodup_cons]
      refine ⟨?_, ih h.2⟩
      intro hm
      apply h.1
      simp only [List.mem_map] at hm ⊢
      obtain ⟨x, hx, hxk⟩ := hm
      exact ⟨x, (List.mem_filter.mp hx).1, hxk⟩

theorem nodup_foldl {α} (step : Rows → α → Rows) (hstep : ∀ acc a, (keys acc).Nodup → (keys (step acc a)).Nodup)
    (l : List α) (rs : Rows) (h : (keys rs).Nodup) : (keys (l.foldl step rs)).Nodup := by
  induction l generalizing rs with
  | nil => exact h
  | cons a as ih => exact ih _ (hstep rs a h)

theorem removeSeqs_nodup (taxa : List Taxon) (rs : Rows) (h : (keys rs).Nodup) :
    (keys (removeSeqs taxa rs).1).Nodup := by
  induction taxa generalizing rs with
  | nil => exact h
  | cons t ts ih =>
    simp only [removeSeqs]
    split
    · exact ih _ (nodup_del t rs h)
    · exact h

theorem has_of_mem_keys (t : Taxon) (rs : Rows) (h : t ∈ keys rs) : has t rs = true := by
  cases hg : get? t rs with
  | some r => simp [has_eq, hg]
  | none =>
    exfalso
    induction rs with
    | nil => simp [keys] at h
    | cons kv rest ih =>
      obtain ⟨k, v⟩ := kv
      by_cases hk : k = t
      · simp [get?, hk] at hg
      · simp only [get?, hk, if_false] at hg
        simp only [keys, List.map_cons, List.mem_cons] at h
        rcases h with h | h
        · exact hk h.symm
        · exact ih h hg

end DendroModel.C19.Aux

namespace DendroModel.C19
open DendroModel.C19.Aux

/-- "all sequences of these operations": every operation keeps the row store a dict (distinct keys), so the hypotheses
    `(keys _).Nodup` of the specifications hold along every history that starts from dicts -/
theorem keys_nodup_preserved (s o : Rows) (hs : (keys s).Nodup) :
    (keys (addSeqs s o)).Nodup ∧ (keys (replaceSeqs s o)).Nodup ∧ (keys (updateSeqs s o)).Nodup ∧
    (∀ b, (keys (extendSeqs b s o)).Nodup) ∧ (keys (extendMatrix s o)).Nodup ∧
    (∀ taxa, (keys (removeSeqs taxa s).1).Nodup ∧ (keys (discardSeqs taxa s)).Nodup ∧ (keys (keepSeqs taxa s)).Nodup ∧
      (keys (fillTaxa taxa s)).Nodup ∧ (∀ f, (keys (mapNsRows f taxa s)).Nodup)) := by
  have fin : ∀ {α} (step : Rows → α → Rows) (l : List α),
      (∀ acc a, (keys acc).Nodup → (keys (step acc a)).Nodup) → (keys (l.foldl step s)).Nodup :=
    fun step l hstep => nodup_foldl step hstep l s hs
  refine ⟨?_, ?_, ?_, ?_, ?_, ?_⟩
  · exact fin _ o (fun acc a h => by
      split <;> first | exact h | exact nodup_set _ _ _ h)
  · exact fin _ o (fun acc a h => by
      split <;> first | exact h | exact nodup_set _ _ _ h)
  · exact fin _ o (fun acc a h => nodup_set _ _ _ h)
  · intro b
    exact fin _ o (fun acc a h => by
      repeat' split
      all_goals first | exact h | exact nodup_set _ _ _ h)
  · exact fin _ o (fun acc a h => by
      split <;> exact nodup_set _ _ _ h)
  · intro taxa
    refine ⟨removeSeqs_nodup taxa s hs, ?_, ?_, ?_, ?_⟩
    · exact fin _ taxa (fun acc a h => by
        split <;> first | exact h | exact nodup_del _ _ h)
    · exact fin _ (keys s) (fun acc a h => by
        split <;> first | exact h | exact nodup_del _ _ h)
    · exact fin _ taxa (fun acc a h => by
        split <;> first | exact h | exact nodup_set _ _ _ h)
    · intro f
      exact fin _ taxa (fun acc a h => by
        split <;> first | exact h | exact nodup_set _ _ _ h)

/-- the result of `concatenate` is a dict again -/
theorem concat_keys_nodup (ms : List Matrix) (r : Matrix) (h : concatenate ms = .ok r) : (keys r.rows).Nodup := by
  have loop : ∀ (ns : Nat) (taxa : List Taxon) (nseqs : Nat) (ms : List Matrix) (st st' : CState) (cidx : Nat),
      concatLoop ns taxa nseqs st cidx ms = .ok st' → (keys st.acc).Nodup → (keys st'.acc).Nodup := by
    intro ns taxa nseqs ms
    induction ms with
    | nil => intro st st' cidx h hn; simp only [concatLoop, Except.ok.injEq] at h; subst h; exact hn
    | cons cm rest ih =>
      intro st st' cidx h hn
      simp only [concatLoop] at h
      split at h
      · cases h
      · next st1 hstep =>
        have hacc := (concatStep_ok _ _ _ _ _ _ _ hstep).2.1
        exact ih st1 st' _ h (by rw [hacc]; exact (keys_nodup_preserved st.acc cm.rows hn).2.2.2.2.1)
  cases ms with
  | nil => simp [concatenate] at h
  | cons m0 rest =>
    simp only [concatenate] at h
    split at h
    · cases h
    · next st hst =>
      simp only [Except.ok.injEq] at h
      subst h
      exact loop _ _ _ _ _ _ _ hst (by simp [keys])

/-- `extend_matrix`: union of the two row sets; shared rows are `self`'s cells followed by `other`'s -/
theorem extendMatrix_spec (s o : Rows) (hnd : (keys o).Nodup) (t : Taxon) :
    get? t (extendMatrix s o) = match get? t s, get? t o with
      | some a, some b => some (a ++ b)
      | some a, none => some a
      | none, some b => some b
      | none, none => none := by
  rw [extendMatrix_eq, extend_spec true s o hnd t]
  cases get? t s <;> cases get? t o <;> simp

/-- (d, e) the binary row operations as methods: over the same namespace the call succeeds and changes nothing but the
    rows (namespace, label and subsets of `self` are kept, the rows are the operation's); over a different namespace
    it is refused with `ValueError` and there is no result -/
theorem rowOp_spec (f : Rows → Rows → Rows) (self other : Matrix) :
    (other.ns = self.ns ∧ ∃ r, rowOp f self other = .ok r ∧ r.rows = f self.rows other.rows ∧ r.ns = self.ns ∧
        r.taxa = self.taxa ∧ r.label = self.label ∧ r.subs = self.subs) ∨
    (other.ns ≠ self.ns ∧ rowOp f self other = .error .valueError) := by
  by_cases h : other.ns = self.ns
  · left; exact ⟨h, { self with rows := f self.rows other.rows }, by simp [rowOp, h], rfl, rfl, rfl, rfl, rfl⟩
  · right; exact ⟨h, by simp [rowOp, h]⟩

/-- (c) when every row belongs to a namespace taxon (the documented state of a matrix), `fill` to at least the longest
    row leaves ALL sequences of the matrix equally long -/
theorem fill_all_equal (value : Cell) (size : Option Nat) (append : Bool) (taxa : List Taxon) (hnd : taxa.Nodup)
    (rs : Rows) (hin : ∀ k ∈ keys rs, k ∈ taxa) (hsize : maxLen taxa rs ≤ fillSize size taxa rs)
    (t : Taxon) (r : Row) (h : get? t (fillRows value size append taxa rs) = some r) :
    r.length = fillSize size taxa rs := by
  by_cases ht : t ∈ taxa
  · exact fill_equal_length value size append taxa hnd rs hsize t ht r h
  · rw [fill_spec value size append taxa hnd rs t] at h
    simp only [ht, if_false] at h
    exact absurd (hin t (mem_keys_of_get? t rs r h)) ht

/-- (c) `pack` with no size, or with any size not below the longest row, leaves all rows of the namespace equally long -/
theorem pack_equal_length_sized (value : Cell) (size : Option Nat) (append : Bool) (taxa : List Taxon)
    (hnd : taxa.Nodup) (rs : Rows)
    (hsize : maxLen taxa (fillTaxa taxa rs) ≤ fillSize size taxa (fillTaxa taxa rs))
    (t : Taxon) (ht : t ∈ taxa) :
    (rowOf t (packRows value size append taxa rs)).length = fillSize size taxa (fillTaxa taxa rs) := by
  have h1 := pack_spec value size append taxa hnd rs t ht
  have := fill_equal_length value size append taxa hnd (fillTaxa taxa rs) hsize t ht _ (by simpa [packRows] using h1)
  simp only [rowOf, h1, Option.getD_some]
  exact this

/-- (a) completeness is forced: in a successful concatenation every source matrix whose rows are a dict keyed by
    namespace taxa has a row for EVERY taxon of the (duplicate-free) namespace — `len(cm) == len(taxon_namespace)` -/
theorem concat_all_present (m0 : Matrix) (rest : List Matrix) (r : Matrix) (h : concatenate (m0 :: rest) = .ok r)
    (htx : m0.taxa ≠ []) (m : Matrix) (hm : m ∈ m0 :: rest) (hnd : (keys m.rows).Nodup)
    (hin : ∀ k ∈ keys m.rows, k ∈ m0.taxa) (t : Taxon) (ht : t ∈ m0.taxa) : has t m.rows = true := by
  have hc := (concat_ok_iff m0 rest htx).mp ⟨r, h⟩ m hm
  have hlen : m0.taxa.length ≤ (keys m.rows).length := by simp [keys, hc.2.1]
  exact has_of_mem_keys t m.rows (subset_of_nodup_length (keys m.rows) m0.taxa hnd hin hlen t ht)

end DendroModel.C19

/-! ## non-vacuity of the success / refusal / invariant theorems -/
namespace DendroModel.C19.Aux
open DendroModel.C19

theorem ex_concatenable : ∀ m ∈ [mA, mB], Concatenable mA.ns mA.taxa mA.rows.length m := by
  intro m hm
  simp only [List.mem_cons, List.not_mem_nil, or_false] at hm
  rcases hm with rfl | rfl <;> (unfold Concatenable; decide)

example : ∃ r, concatenate [mA, mB] = .ok r := concat_succeeds mA [mB] (by decide) ex_concatenable
example : concatenate [mA, { mB with ns := 1 }] = .error .valueError :=
  concat_refuses_foreign mA [{ mB with ns := 1 }] (by decide) { mB with ns := 1 } (by simp) (by decide)
example : ¬ Concatenable mA.ns mA.taxa mA.rows.length { mB with rows := [(1, [5])] } := by
  unfold Concatenable; decide
example : [mA, { mB with label := some ['y'] }].map Matrix.label = [['x'], ['y']].map some ∧
    ([['x'], ['y']].map lower).Nodup := by decide
example : (keys mA.rows).Nodup ∧ ∀ k ∈ keys mB.rows, k ∈ mA.taxa := by decide
example : maxLen mA.taxa (fillTaxa mA.taxa [(0, [1, 2])]) ≤ fillSize (some 5) mA.taxa (fillTaxa mA.taxa [(0, [1, 2])]) := by
  decide

end DendroModel.C19.Aux

namespace DendroModel.C19

/-- boundary of the model (and of the code: `cm[0]` raises `IndexError`, or the row count check `ValueError`):
    over an empty namespace nothing is ever concatenated -/
theorem concat_empty_namespace_refused (m0 : Matrix) (rest : List Matrix) (ht : m0.taxa = []) (r : Matrix) :
    concatenate (m0 :: rest) ≠ .ok r := by
  intro h
  simp only [concatenate, ht, concatLoop, concatStep] at h
  split at h
  · cases h
  · next st hst =>
    split at hst
    · cases hst
    · next st1 he =>
      split at he
      · cases he
      · split at he
        · cases he
        · split at he <;> cases he

end DendroModel.C19

/-! ## extension round: subsets, sizes, column selection with index shift, reading-and-concatenating, loop measures -/
namespace DendroModel.C19.Aux
open DendroModel.C19

theorem mem_insertAsc (x a : Nat) (l : List Nat) : a ∈ insertAsc x l ↔ a = x ∨ a ∈ l := by
  induction l with
  | nil => simp [insertAsc]
  | cons y ys ih =>
    simp only [insertAsc]
    split
    · simp
    · split
      · next h => subst h; simp
      · simp only [List.mem_cons, ih]
        constructor
        · rintro (h | h | h) <;> simp [h]
        · rintro (h | h | h) <;> simp [h]

/-- strictly ascending -/
def Asc : List Nat → Prop
  | [] => True
  | [_] => True
  | a :: b :: r => a < b ∧ Asc (b :: r)

theorem asc_insertAsc (x : Nat) (l : List Nat) (h : Asc l) : Asc (insertAsc x l) := by
  induction l with
  | nil => simp [insertAsc, Asc]
  | cons y ys ih =>
    simp only [insertAsc]
    split
    · next hlt => exact ⟨hlt, h⟩
    · split
      · exact h
      · next h1 h2 =>
        have hyx : y < x := by omega
        cases ys with
        | nil => simp [insertAsc, Asc, hyx]
        | cons z zs =>
          have hz := ih h.2
          simp only [insertAsc] at hz ⊢
          split
          · next hxz => exact ⟨hyx, by simpa [hxz] using hz⟩
          · split
            · next hxz' hxz => simpa [hxz', hxz] using h
            · next hxz' hxz =>
              refine ⟨h.1, ?_⟩
              simpa [hxz', hxz] using hz

end DendroModel.C19.Aux

namespace DendroModel.C19.Aux
open DendroModel.C19

theorem findSub_append_single (subs : List (Label × List Nat)) (lab lab' : Label) (idx : List Nat)
    (hfree : hasSub subs lab = false) :
    findSub (subs ++ [(lab, idx)]) lab' =
      if lower lab = lower lab' then some idx else findSub subs lab' := by
  simp only [findSub, List.find?_append]
  by_cases h : lower lab = lower lab'
  · have hnone : subs.find? (fun s => lower s.1 == lower lab') = none := by
      simp only [List.find?_eq_none, beq_iff_eq]
      simp only [hasSub, List.any_eq_false, beq_iff_eq] at hfree
      intro x hx heq
      exact hfree x hx (by rw [heq, h])
    simp [hnone, h]
  · have hsingle : [(lab, idx)].find? (fun s => lower s.1 == lower lab') = none := by
      simp [h]
    simp [hsingle, h]

theorem exportRow_congr (a b : List Int) (h : ∀ i, inIdx a i = inIdx b i) : exportRow a = exportRow b := by
  funext v
  have : inIdx a = inIdx b := funext h
  simp [exportRow, this]

theorem attained_foldl_max (taxa : List Taxon) (rs : Rows) (m0 : Nat) :
    let res := taxa.foldl (fun mx t => match get? t rs with
      | some r => if r.length > mx then r.length else mx
      | none => mx) m0
    res = m0 ∨ ∃ t ∈ taxa, ∃ r, get? t rs = some r ∧ r.length = res := by
  induction taxa generalizing m0 with
  | nil => simp
  | cons a as ih =>
    simp only [List.foldl_cons]
    rcases ih (match get? a rs with
      | some r => if r.length > m0 then r.length else m0
      | none => m0) with h | ⟨t, ht, r, hg, hl⟩
    · cases hg : get? a rs with
      | none => left; simpa [hg] using h
      | some r =>
        simp only [hg] at h ⊢
        by_cases hgt : r.length > m0
        · simp only [hgt, if_true] at h ⊢
          right; exact ⟨a, by simp, r, hg, h.symm⟩
        · left; simpa [hgt] using h
    · right; exact ⟨t, by simp [ht], r, hg, hl⟩

end DendroModel.C19.Aux

namespace DendroModel.C19
open DendroModel.C19.Aux

/-- `set(character_indices)`: the stored indices are exactly the given ones … -/
theorem mem_idxSet (idx : List Nat) (i : Nat) : i ∈ idxSet idx ↔ i ∈ idx := by
  induction idx with
  | nil => simp [idxSet]
  | cons x xs ih =>
    simp only [idxSet, List.foldr_cons] at ih ⊢
    rw [mem_insertAsc, ih]
    simp

/-- … listed strictly ascending (so without repetition) -/
theorem idxSet_ascending (idx : List Nat) : Asc (idxSet idx) := by
  induction idx with
  | nil => simp [idxSet, Asc]
  | cons x xs ih => exact asc_insertAsc x _ ih

/-- `new_character_subset`: a name that is taken (up to case) is refused with `ValueError`; a free name is appended
    after the existing subsets with `set(indices)`, and nothing else of the matrix changes -/
theorem newSubset_spec (m : Matrix) (lab : Label) (idx : List Nat) :
    (hasSub m.subs lab = true ∧ newSubset m lab idx = .error .valueError) ∨
    (hasSub m.subs lab = false ∧ ∃ r, newSubset m lab idx = .ok r ∧ r.subs = m.subs ++ [(lab, idxSet idx)] ∧
      r.rows = m.rows ∧ r.ns = m.ns ∧ r.taxa = m.taxa ∧ r.label = m.label) := by
  by_cases h : hasSub m.subs lab = true
  · left; exact ⟨h, by simp [newSubset, h]⟩
  · right
    have h' : hasSub m.subs lab = false := by simpa using h
    exact ⟨h', { m with subs := m.subs ++ [(lab, idxSet idx)] }, by simp [newSubset, h'], rfl, rfl, rfl, rfl, rfl⟩

/-- after a successful `new_character_subset` the new name (in any case) looks up the new index set, every other name
    looks up what it did before, and the names stay pairwise distinct up to case -/
theorem newSubset_lookup (m r : Matrix) (lab : Label) (idx : List Nat) (h : newSubset m lab idx = .ok r)
    (lab' : Label) :
    findSub r.subs lab' = (if lower lab = lower lab' then some (idxSet idx) else findSub m.subs lab') ∧
    ((m.subs.map (fun s => lower s.1)).Nodup → (r.subs.map (fun s => lower s.1)).Nodup) := by
  rcases newSubset_spec m lab idx with ⟨_, he⟩ | ⟨hfree, r', hr, hsubs, _⟩
  · rw [he] at h; cases h
  · rw [hr] at h
    simp only [Except.ok.injEq] at h
    subst h
    rw [hsubs]
    refine ⟨findSub_append_single m.subs lab lab' (idxSet idx) hfree, ?_⟩
    intro hnd
    simp only [List.map_append, List.map_cons, List.map_nil]
    rw [List.nodup_append]
    refine ⟨hnd, by simp, ?_⟩
    intro a ha b hb
    simp only [List.mem_singleton] at hb
    subst hb
    simp only [hasSub, List.any_eq_false, beq_iff_eq] at hfree
    simp only [List.mem_map] at ha
    obtain ⟨x, hx, hxa⟩ := ha
    intro heq
    exact hfree x hx (by rw [hxa, heq])

/-- (b) a subset defined with `new_character_subset` and exported by name (any case) selects exactly the columns it was
    given: order, repetitions in the given index list do not matter -/
theorem newSubset_export (m r : Matrix) (lab lab' : Label) (idx : List Nat) (h : newSubset m lab idx = .ok r)
    (hcase : lower lab = lower lab') :
    exportSub r lab' = .ok (exportIdx r (idx.map Int.ofNat)) := by
  have hl := (newSubset_lookup m r lab idx h lab').1
  simp only [hcase, if_true] at hl
  have hc : exportRow ((idxSet idx).map Int.ofNat) = exportRow (idx.map Int.ofNat) := by
    apply exportRow_congr
    intro i
    have : ((i : Int) ∈ (idxSet idx).map Int.ofNat) ↔ ((i : Int) ∈ idx.map Int.ofNat) := by
      simp only [List.mem_map, Int.ofNat_eq_natCast, Int.natCast_inj, exists_eq_right]
      exact mem_idxSet idx i
    simp only [inIdx, List.contains_eq_mem, this]
  simp [exportSub, hl, exportIdx, hc]

/-- `max_sequence_size` is the maximum: an upper bound of every row of a namespace taxon, and attained (or 0) -/
theorem maxSeqSize_spec (m : Matrix) :
    (∀ t ∈ m.taxa, ∀ r, get? t m.rows = some r → r.length ≤ maxSeqSize m) ∧
    (maxSeqSize m = 0 ∨ ∃ t ∈ m.taxa, ∃ r, get? t m.rows = some r ∧ r.length = maxSeqSize m) := by
  constructor
  · intro t ht r hg
    unfold maxSeqSize maxLen
    exact length_le_foldl_max m.taxa m.rows t r 0 ht hg
  · unfold maxSeqSize maxLen
    exact attained_foldl_max m.taxa m.rows 0

/-- (c) `fill` to a size that a row already reaches leaves that row as it is (rows are never shortened) -/
theorem padLoop_id (value : Cell) (size : Nat) (append : Bool) (v : Row) (h : size ≤ v.length) :
    padLoop value size append v = v := by
  rw [padLoop_eq]
  have : size - v.length = 0 := by omega
  cases append <;> simp [this]

end DendroModel.C19

/-! ### column selection: reading the result by position (index shift) and contiguous spans -/
namespace DendroModel.C19.Aux
open DendroModel.C19

/-- selection by one left-to-right pass, the column counter starting at `k` (specification) -/
def selectFrom (keep : Nat → Bool) : Nat → Row → Row
  | _, [] => []
  | k, c :: cs => if keep k then c :: selectFrom keep (k + 1) cs else selectFrom keep (k + 1) cs

theorem spec_eq_selectFrom (keep : Nat → Bool) (v : Row) (k : Nat) :
    ((List.range' k v.length).filter keep).filterMap (fun i => v[i - k]?) = selectFrom keep k v := by
  induction v generalizing k with
  | nil => simp [selectFrom]
  | cons c cs ih =>
    have hshift : ((List.range' (k + 1) cs.length).filter keep).filterMap (fun i => (c :: cs)[i - k]?)
        = ((List.range' (k + 1) cs.length).filter keep).filterMap (fun i => cs[i - (k + 1)]?) := by
      apply filterMap_congr_mem
      intro i hi
      have hi' := (List.mem_filter.mp hi).1
      simp only [List.mem_range'_1] at hi'
      have : i - k = (i - (k + 1)) + 1 := by omega
      rw [this, List.getElem?_cons_succ]
    simp only [List.length_cons, List.range'_succ, selectFrom]
    by_cases hk : keep k = true
    · simp only [List.filter_cons, hk, if_true, List.filterMap_cons, Nat.sub_self, List.getElem?_cons_zero]
      rw [hshift, ih]
    · simp only [List.filter_cons, hk, Bool.false_eq_true, if_false]
      rw [hshift, ih]

theorem exportRow_eq_selectFrom (idx : List Int) (v : Row) : exportRow idx v = selectFrom (inIdx idx) 0 v := by
  rw [export_row_spec, ← spec_eq_selectFrom (inIdx idx) v 0, List.range_eq_range']
  simp

theorem selectFrom_span_ge (off w : Nat) (v : Row) (k : Nat) (hk : off ≤ k) :
    selectFrom (fun i => decide (off ≤ i ∧ i < off + w)) k v = v.take (off + w - k) := by
  induction v generalizing k with
  | nil => simp [selectFrom]
  | cons c cs ih =>
    simp only [selectFrom]
    by_cases hlt : k < off + w
    · have : off + w - k = (off + w - (k + 1)) + 1 := by omega
      simp only [hk, hlt, and_self, decide_true, if_true, this, List.take_succ_cons]
      rw [ih (k + 1) (by omega)]
    · have : off + w - k = 0 := by omega
      simp only [hlt, and_false, decide_false, this, List.take_zero]
      rw [ih (k + 1) (by omega)]
      have : off + w - (k + 1) = 0 := by omega
      simp [this]

theorem selectFrom_span_le (off w : Nat) (v : Row) (k : Nat) (hk : k ≤ off) :
    selectFrom (fun i => decide (off ≤ i ∧ i < off + w)) k v = (v.drop (off - k)).take w := by
  induction v generalizing k with
  | nil => simp [selectFrom]
  | cons c cs ih =>
    by_cases heq : k = off
    · subst heq
      rw [selectFrom_span_ge k w (c :: cs) k (Nat.le_refl _)]
      simp
    · have hlt : k < off := by omega
      have : off - k = (off - (k + 1)) + 1 := by omega
      simp only [selectFrom, this, List.drop_succ_cons]
      have hnot : ¬ off ≤ k := by omega
      simp only [hnot, false_and, decide_false]
      exact ih (k + 1) (by omega)

theorem inIdx_span (off w i : Nat) :
    inIdx ((List.range' off w).map Int.ofNat) i = decide (off ≤ i ∧ i < off + w) := by
  simp only [inIdx, List.contains_eq_mem, List.mem_map, Int.ofNat_eq_natCast, Int.natCast_inj, exists_eq_right,
    List.mem_range'_1]

theorem selectFrom_length_le (keep : Nat → Bool) (k : Nat) (v : Row) : (selectFrom keep k v).length ≤ v.length := by
  induction v generalizing k with
  | nil => simp [selectFrom]
  | cons c cs ih =>
    simp only [selectFrom]
    split
    · simp only [List.length_cons]; have := ih (k + 1); omega
    · simp only [List.length_cons]; have := ih (k + 1); omega

/-- reading the selection by position: the column at source position `k + j` that is kept lands at the position that
    counts the kept columns before it -/
theorem selectFrom_getElem (keep : Nat → Bool) (v : Row) (k j : Nat) (hj : j < v.length) (hkeep : keep (k + j) = true) :
    (selectFrom keep k v)[((List.range' k j).filter keep).length]? = v[j]? := by
  induction v generalizing k j with
  | nil => simp at hj
  | cons c cs ih =>
    cases j with
    | zero => simp only [Nat.add_zero] at hkeep; simp [selectFrom, hkeep]
    | succ j =>
      have hj' : j < cs.length := by simpa using hj
      have hk' : keep (k + 1 + j) = true := by rw [← hkeep]; congr 1; omega
      have := ih (k + 1) j hj' hk'
      simp only [List.range'_succ, List.getElem?_cons_succ, selectFrom]
      by_cases hk : keep k = true
      · simp only [hk, if_true, List.filter_cons, List.length_cons, List.getElem?_cons_succ]
        exact this
      · simp only [hk, List.filter_cons]
        exact this

end DendroModel.C19.Aux

namespace DendroModel.C19
open DendroModel.C19.Aux

/-- (b) the exported row only depends on WHICH columns are named: order, repetition, negative and out-of-range entries
    of the index list are immaterial -/
theorem export_depends_on_set (a b : List Int) (h : ∀ i : Nat, ((i : Int) ∈ a ↔ (i : Int) ∈ b)) (v : Row) :
    exportRow a v = exportRow b v := by
  rw [exportRow_congr a b]
  intro i
  simp only [inIdx, List.contains_eq_mem, h i]

/-- (b) the deletion loop equals one left-to-right pass that keeps the named columns: ascending order is explicit -/
theorem export_one_pass (idx : List Int) (v : Row) : exportRow idx v = selectFrom (inIdx idx) 0 v :=
  exportRow_eq_selectFrom idx v

/-- (b) index shift: a selected column `j` of the source is found in the exported row at position
    "number of selected columns before `j`" — and nothing is longer than the source -/
theorem export_index_shift (idx : List Int) (v : Row) (j : Nat) (hj : j < v.length) (hsel : inIdx idx j = true) :
    (exportRow idx v)[((List.range j).filter (inIdx idx)).length]? = v[j]? ∧
    (exportRow idx v).length ≤ v.length := by
  rw [exportRow_eq_selectFrom]
  refine ⟨?_, selectFrom_length_le _ _ _⟩
  have := selectFrom_getElem (inIdx idx) v 0 j hj (by simpa using hsel)
  simpa [List.range_eq_range'] using this

/-- (b) exporting a contiguous span `[off, off+w)` (what `concatenate` records per source matrix) cuts exactly that
    slice out of every row -/
theorem export_span (off w : Nat) (v : Row) :
    exportRow ((List.range' off w).map Int.ofNat) v = (v.drop off).take w := by
  rw [exportRow_eq_selectFrom]
  have hk : inIdx ((List.range' off w).map Int.ofNat) = fun i => decide (off ≤ i ∧ i < off + w) :=
    funext (inIdx_span off w)
  rw [hk, selectFrom_span_le off w v 0 (Nat.zero_le _)]
  simp

/-- (a)+(b) round trip: exporting from a concatenation the subset recorded for a source matrix gives back that
    matrix's rows, for every taxon of the namespace -/
theorem concat_export_roundtrip (pre post : List Matrix) (m r : Matrix)
    (h : concatenate (pre ++ m :: post) = .ok r)
    (hnd : ∀ x ∈ pre ++ m :: post, (keys x.rows).Nodup)
    (hin : ∀ x ∈ pre ++ m :: post, ∀ kv ∈ x.rows, kv.1 ∈ r.taxa)
    (htaxa : r.taxa.Nodup)
    (hall : ∀ t ∈ r.taxa, ∀ x ∈ pre ++ m :: post, has t x.rows = true) :
    ∃ name idx e, r.subs[pre.length]? = some (name, idx) ∧ exportSub r name = .ok e ∧
      ∀ t ∈ r.taxa, rowOf t e.rows = rowOf t m.rows := by
  have hsubs := concat_subsets _ r h
  have hspan : (r.subs.map Prod.snd)[pre.length]?
      = some (List.range' (pre.map (fun x => vectorSize x.rows)).sum (vectorSize m.rows)) := by
    rw [hsubs]
    simp only [List.map_append, List.map_cons]
    have := spans_append 0 (pre.map (fun x => vectorSize x.rows)) (vectorSize m.rows) (post.map (fun x => vectorSize x.rows))
    simpa using this
  simp only [List.getElem?_map] at hspan
  cases hget : r.subs[pre.length]? with
  | none => simp [hget] at hspan
  | some entry =>
    obtain ⟨name, idx⟩ := entry
    simp only [hget, Option.map_some, Option.some.injEq] at hspan
    subst hspan
    have hmem : (name, List.range' (pre.map (fun x => vectorSize x.rows)).sum (vectorSize m.rows)) ∈ r.subs :=
      List.mem_of_getElem? hget
    have hexp := exportSub_caseless r name name _ hmem rfl (concat_names_distinct _ r h)
    refine ⟨name, _, _, rfl, hexp, ?_⟩
    intro t ht
    have hcov := (concat_subset_covers pre post m r h hnd hin t ht (hall t ht)).2
    have hrow := (export_spec r htaxa
      ((List.range' (pre.map (fun x => vectorSize x.rows)).sum (vectorSize m.rows)).map Int.ofNat) t ht).1
    have hempty : ∀ ix, exportRow ix [] = [] := by intro ix; simp [exportRow, delLoop]
    have : rowOf t (exportIdx r ((List.range' (pre.map (fun x => vectorSize x.rows)).sum
        (vectorSize m.rows)).map Int.ofNat)).rows
        = exportRow ((List.range' (pre.map (fun x => vectorSize x.rows)).sum (vectorSize m.rows)).map Int.ofNat)
            (rowOf t r.rows) := by
      simp only [rowOf, hrow]
      cases get? t r.rows <;> simp [hempty]
    rw [this, export_span, hcov]

end DendroModel.C19

/-! ### reading and concatenating: `concatenate_from_streams` / `concatenate_from_paths` over an abstract reader -/
namespace DendroModel.C19.Aux
open DendroModel.C19

theorem parseLoop_ok {σ : Type} (parse : σ → Option Matrix) (streams : List σ) (ms : List Matrix)
    (h : streams.map parse = ms.map some) (acc : List Matrix) (i : Nat) :
    parseLoop parse acc i streams = .ok (acc ++ ms) := by
  induction streams generalizing ms acc i with
  | nil =>
    cases ms with
    | nil => simp [parseLoop]
    | cons a as => simp at h
  | cons s ss ih =>
    cases ms with
    | nil => simp at h
    | cons a as =>
      simp only [List.map_cons, List.cons.injEq] at h
      simp only [parseLoop, h.1]
      rw [ih as h.2]
      simp

theorem parseLoop_err {σ : Type} (parse : σ → Option Matrix) (pre : List σ) (s : σ) (post : List σ) (ms : List Matrix)
    (hpre : pre.map parse = ms.map some) (hs : parse s = none) (acc : List Matrix) (i : Nat) :
    parseLoop parse acc i (pre ++ s :: post) = .error (.parseError (i + pre.length)) := by
  induction pre generalizing ms acc i with
  | nil => simp [parseLoop, hs]
  | cons p ps ih =>
    cases ms with
    | nil => simp at hpre
    | cons a as =>
      simp only [List.map_cons, List.cons.injEq] at hpre
      simp only [List.cons_append, parseLoop, hpre.1, List.length_cons]
      rw [ih as hpre.2]
      congr 2
      omega

theorem openLoop_ok {π σ : Type} (opn : π → Option σ) (paths : List π) (streams : List σ)
    (h : paths.map opn = streams.map some) (acc : List σ) (i : Nat) :
    openLoop opn acc i paths = .ok (acc ++ streams) := by
  induction paths generalizing streams acc i with
  | nil =>
    cases streams with
    | nil => simp [openLoop]
    | cons a as => simp at h
  | cons s ss ih =>
    cases streams with
    | nil => simp at h
    | cons a as =>
      simp only [List.map_cons, List.cons.injEq] at h
      simp only [openLoop, h.1]
      rw [ih as h.2]
      simp

theorem openLoop_err {π σ : Type} (opn : π → Option σ) (pre : List π) (p : π) (post : List π) (ss : List σ)
    (hpre : pre.map opn = ss.map some) (hp : opn p = none) (acc : List σ) (i : Nat) :
    openLoop opn acc i (pre ++ p :: post) = .error (.openError (i + pre.length)) := by
  induction pre generalizing ss acc i with
  | nil => simp [openLoop, hp]
  | cons q qs ih =>
    cases ss with
    | nil => simp at hpre
    | cons a as =>
      simp only [List.map_cons, List.cons.injEq] at hpre
      simp only [List.cons_append, openLoop, hpre.1, List.length_cons]
      rw [ih as hpre.2]
      congr 2
      omega

/-- `n` rounds of a loop body -/
def iter {α : Type} (f : α → α) : Nat → α → α
  | 0, a => a
  | n + 1, a => iter f n (f a)

end DendroModel.C19.Aux

namespace DendroModel.C19
open DendroModel.C19.Aux

/-- (a) `concatenate_from_streams` IS `concatenate` of the matrices the reader delivers, in stream order — for any
    reader: same result, same refusal -/
theorem fromStreams_eq_concatenate {σ : Type} (parse : σ → Option Matrix) (streams : List σ) (ms : List Matrix)
    (h : streams.map parse = ms.map some) :
    concatFromStreams parse streams = match concatenate ms with
      | .ok r => .ok r
      | .error e => .error (.concat e) := by
  simp only [concatFromStreams, parseLoop_ok parse streams ms h [] 0, List.nil_append]
  cases concatenate ms <;> rfl

/-- the first stream the reader rejects stops the call with that reader error; nothing is concatenated, whatever the
    later streams hold -/
theorem fromStreams_reader_error {σ : Type} (parse : σ → Option Matrix) (pre : List σ) (s : σ) (post : List σ)
    (ms : List Matrix) (hpre : pre.map parse = ms.map some) (hs : parse s = none) :
    concatFromStreams parse (pre ++ s :: post) = .error (.parseError pre.length) := by
  simp [concatFromStreams, parseLoop_err parse pre s post ms hpre hs [] 0]

/-- `concatenate_from_paths` is `concatenate_from_streams` of the opened files, in path order -/
theorem fromPaths_eq_fromStreams {π σ : Type} (opn : π → Option σ) (parse : σ → Option Matrix) (paths : List π)
    (streams : List σ) (h : paths.map opn = streams.map some) :
    concatFromPaths opn parse paths = concatFromStreams parse streams := by
  simp [concatFromPaths, openLoop_ok opn paths streams h [] 0]

/-- every path is opened before any is read: the first path that cannot be opened stops the call, even when an
    earlier file is unreadable -/
theorem fromPaths_open_error {π σ : Type} (opn : π → Option σ) (parse : σ → Option Matrix) (pre : List π) (p : π)
    (post : List π) (ss : List σ) (hpre : pre.map opn = ss.map some) (hp : opn p = none) :
    concatFromPaths opn parse (pre ++ p :: post) = .error (.openError pre.length) := by
  simp [concatFromPaths, openLoop_err opn pre p post ss hpre hp [] 0]

/-- (a) hence the statement's clauses transfer: rows of a successful `concatenate_from_streams` are the per-taxon
    concatenation of the parsed matrices' rows in stream order, with the subsets of `concatenate` -/
theorem fromStreams_rows {σ : Type} (parse : σ → Option Matrix) (streams : List σ) (ms : List Matrix) (r : Matrix)
    (hp : streams.map parse = ms.map some) (h : concatFromStreams parse streams = .ok r)
    (hnd : ∀ m ∈ ms, (keys m.rows).Nodup) (t : Taxon) :
    rowOf t r.rows = (ms.map (fun m => rowOf t m.rows)).flatten ∧ r.subs = namedSpans [] 0 0 ms := by
  rw [fromStreams_eq_concatenate parse streams ms hp] at h
  cases hc : concatenate ms with
  | error e => simp [hc] at h
  | ok r' =>
    simp only [hc, Except.ok.injEq] at h
    subst h
    exact ⟨concat_rows ms r' hc hnd t, concat_subset_labels ms r' hc⟩

/-! ### loop measures, explicitly -/

/-- arithmetic of `fill`'s loop measure: one round of the body (`append` / `insert(0, …)`, the expression `padLoop`
    recurses on) lowers `size - len(v)` by exactly one.  The statement is about that body expression, not about `padLoop`
    itself; `padLoop_iterate` is the statement about the loop -/
theorem padLoop_measure_step (value : Cell) (size : Nat) (append : Bool) (v : Row) (h : v.length < size) :
    size - (if append then v ++ [value] else value :: v).length + 1 = size - v.length := by
  cases append <;> simp <;> omega

/-- … so the loop body runs exactly `size - len(v)` times -/
theorem padLoop_iterate (value : Cell) (size : Nat) (append : Bool) (v : Row) :
    padLoop value size append v =
      iter (fun w => if append then w ++ [value] else value :: w) (size - v.length) v := by
  induction h : size - v.length generalizing v with
  | zero =>
    rw [padLoop]
    have : ¬ v.length < size := by omega
    simp [this, iter]
  | succ n ih =>
    rw [padLoop]
    have hlt : v.length < size := by omega
    simp only [hlt, if_true, iter]
    apply ih
    cases append <;> simp <;> omega

/-- the free-name search of `concatenate`: its measure `pending` (subset keys with decimal suffix ≥ i) is at most the
    number of subsets, drops at every taken candidate (`pending_decreases`), and bounds the number of probes: the
    answer is candidate number `j` with `i ≤ j ≤ i + pending ≤ i + #subsets` -/
theorem freeFrom_probes_bound (subs : List (Label × List Nat)) (base : Label) :
    ∀ (n i : Nat), pending subs i = n →
      ∃ j, freeFrom subs base i = cand base j ∧ i ≤ j ∧ j ≤ i + pending subs i ∧ pending subs i ≤ subs.length := by
  intro n
  induction n using Nat.strongRecOn with
  | _ n ih =>
    intro i hn
    have hle : pending subs i ≤ subs.length := by
      unfold pending; exact List.length_filter_le _ _
    rw [freeFrom]
    split
    · next h =>
      have hdec := pending_decreases subs base i h
      obtain ⟨j, hj, h1, h2, _⟩ := ih _ (by omega) (i + 1) rfl
      exact ⟨j, hj, by omega, by omega, hle⟩
    · exact ⟨i, rfl, Nat.le_refl _, by omega, hle⟩

/-- `export_character_indices`' deletion loop never lengthens a row (this statement is only the length bound; that the
    loop makes one round per column is its structural recursion on `n`, and what it leaves is `export_row_spec`) -/
theorem delLoop_length_le (keep : Nat → Bool) (n : Nat) (v : Row) : (delLoop keep n v).length ≤ v.length := by
  induction n generalizing v with
  | zero => simp [delLoop]
  | succ n ih =>
    simp only [delLoop]
    split
    · exact ih v
    · refine Nat.le_trans (ih _) ?_
      rw [List.length_eraseIdx]
      split <;> omega

end DendroModel.C19

/-! ### non-vacuity of the extension-round theorems -/
namespace DendroModel.C19.Aux
open DendroModel.C19

example : ∃ r, newSubset mAB ['y'] [3, 1, 1] = .ok r ∧ r.subs.map Prod.snd = [[0, 1], [2], [1, 3]] := ⟨_, rfl, by decide⟩
example : newSubset mAB ['x', '_', '0', '0', '2'] [0] = .error .valueError := rfl
example : hasSub mAB.subs ['y'] = false ∧ lower ['Y'] = lower ['y'] := by decide
example : (2 : Nat) < [10, 11, 12].length ∧ inIdx [2, 0] 2 = true := by decide
example : (exportRow [2, 0] [10, 11, 12])[1]? = some 12 := by decide
example : ∀ i : Nat, ((i : Int) ∈ [2, 0, 0, -1] ↔ (i : Int) ∈ [0, 2]) := by
  intro i; simp; omega
example : concatFromStreams (fun o : Option Matrix => o) [some mA, some mB] = .ok mAB := by
  rw [fromStreams_eq_concatenate (fun o : Option Matrix => o) [some mA, some mB] [mA, mB] rfl, ex_concat]
example : concatFromStreams (fun o : Option Matrix => o) [some mA, none, some mB] = .error (.parseError 1) :=
  fromStreams_reader_error _ [some mA] none [some mB] [mA] rfl rfl
example : concatFromPaths (fun p : Option (Option Matrix) => p) (fun o => o) [some (some mA), none]
    = .error (.openError 1) :=
  fromPaths_open_error _ _ [some (some mA)] none [] [some mA] rfl rfl
example : ∃ name idx e, mAB.subs[1]? = some (name, idx) ∧ exportSub mAB name = .ok e ∧
    ∀ t ∈ mAB.taxa, rowOf t e.rows = rowOf t mB.rows :=
  concat_export_roundtrip [mA] [] mB mAB ex_concat (by decide) (by decide) (by decide) (by decide)
example : pending [(['x', '_', '0', '0', '2'], [0])] 2 = 1 := by decide

end DendroModel.C19.Aux

/-! ### element access (`matrix[taxon]` reads, writes, deletes), iteration order, and the namespace invariant -/
namespace DendroModel.C19.Aux
open DendroModel.C19

theorem mem_keys_set (t u : Taxon) (r : Row) (rs : Rows) (h : u ∈ keys (set t r rs)) : u = t ∨ u ∈ keys rs := by
  rw [keys_set] at h
  split at h
  · exact Or.inr h
  · simp only [List.mem_append, List.mem_singleton] at h
    rcases h with h | h
    · exact Or.inr h
    · exact Or.inl h

theorem mem_keys_del (t u : Taxon) (rs : Rows) (h : u ∈ keys (del t rs)) : u ∈ keys rs := by
  simp only [keys, del, List.mem_map] at h ⊢
  obtain ⟨x, hx, hxu⟩ := h
  exact ⟨x, (List.mem_filter.mp hx).1, hxu⟩

theorem keysP_foldl {α} (P : Taxon → Prop) (step : Rows → α → Rows) (l : List α)
    (hstep : ∀ acc a, a ∈ l → (∀ k ∈ keys acc, P k) → ∀ k ∈ keys (step acc a), P k)
    (rs : Rows) (h : ∀ k ∈ keys rs, P k) : ∀ k ∈ keys (l.foldl step rs), P k := by
  induction l generalizing rs with
  | nil => exact h
  | cons a as ih =>
    exact ih (fun acc b hb => hstep acc b (by simp [hb])) _ (hstep rs a (by simp) h)

theorem items_cons_present (a : Taxon) (as : List Taxon) (rs : Rows) :
    items (a :: as) rs = (match get? a rs with
      | some r => [(a, r)]
      | none => []) ++ items as rs := by
  simp only [items, List.filterMap_cons]
  cases get? a rs <;> simp

end DendroModel.C19.Aux

namespace DendroModel.C19
open DendroModel.C19.Aux

/-- `matrix[taxon]` — the channel through which sequences are observed: it returns the taxon's row; when the taxon has
    no row yet it CREATES an empty one (the only change), provided the taxon is in the namespace, else `ValueError` -/
theorem getItem_spec (m : Matrix) (t : Taxon) :
    (∃ r, get? t m.rows = some r ∧ getItem m t = .ok (m, r)) ∨
    (get? t m.rows = none ∧ t ∈ m.taxa ∧ ∃ m', getItem m t = .ok (m', []) ∧ get? t m'.rows = some [] ∧
      (∀ u, u ≠ t → get? u m'.rows = get? u m.rows) ∧ m'.subs = m.subs ∧ m'.ns = m.ns ∧ m'.taxa = m.taxa) ∨
    (get? t m.rows = none ∧ t ∉ m.taxa ∧ getItem m t = .error .valueError) := by
  cases hg : get? t m.rows with
  | some r => left; exact ⟨r, rfl, by simp [getItem, hg]⟩
  | none =>
    right
    by_cases ht : t ∈ m.taxa
    · left
      refine ⟨rfl, ht, { m with rows := set t [] m.rows }, by simp [getItem, hg, ht], get?_set_self t [] m.rows, ?_, rfl, rfl, rfl⟩
      intro u hu
      exact get?_set_ne t u [] m.rows hu
    · right; exact ⟨rfl, ht, by simp [getItem, hg, ht]⟩

/-- observing twice is observing once: after `matrix[taxon]` succeeded, asking again returns the same row and changes
    nothing any more -/
theorem getItem_idempotent (m m' : Matrix) (t : Taxon) (r : Row) (h : getItem m t = .ok (m', r)) :
    getItem m' t = .ok (m', r) ∧ r = rowOf t m.rows := by
  rcases getItem_spec m t with ⟨r0, hg, he⟩ | ⟨hg, _, m1, he, hrow, _⟩ | ⟨_, _, he⟩
  · rw [he] at h
    simp only [Except.ok.injEq, Prod.mk.injEq] at h
    obtain ⟨rfl, rfl⟩ := h
    exact ⟨he, by simp [rowOf, hg]⟩
  · rw [he] at h
    simp only [Except.ok.injEq, Prod.mk.injEq] at h
    obtain ⟨rfl, rfl⟩ := h
    exact ⟨by simp [getItem, hrow], by simp [rowOf, hg]⟩
  · rw [he] at h; cases h

/-- `matrix[taxon] = values`: inside the namespace exactly that row is (re)placed, else `ValueError` -/
theorem setItem_spec (m : Matrix) (t : Taxon) (row : Row) :
    (t ∈ m.taxa ∧ ∃ m', setItem m t row = .ok m' ∧ get? t m'.rows = some row ∧
      (∀ u, u ≠ t → get? u m'.rows = get? u m.rows) ∧ m'.subs = m.subs ∧ m'.ns = m.ns ∧ m'.taxa = m.taxa) ∨
    (t ∉ m.taxa ∧ setItem m t row = .error .valueError) := by
  by_cases ht : t ∈ m.taxa
  · left
    exact ⟨ht, { m with rows := set t row m.rows }, by simp [setItem, ht], get?_set_self t row m.rows,
      fun u hu => get?_set_ne t u row m.rows hu, rfl, rfl, rfl⟩
  · right; exact ⟨ht, by simp [setItem, ht]⟩

/-- `new_sequence`: refuses a taxon that already has a row or is outside the namespace; else adds exactly that row -/
theorem newSequence_spec (m : Matrix) (t : Taxon) (row : Row) :
    (has t m.rows = false ∧ t ∈ m.taxa ∧ ∃ m', newSequence m t row = .ok m' ∧ get? t m'.rows = some row ∧
      (∀ u, u ≠ t → get? u m'.rows = get? u m.rows)) ∨
    ((has t m.rows = true ∨ t ∉ m.taxa) ∧ newSequence m t row = .error .valueError) := by
  by_cases hh : has t m.rows = true
  · right; exact ⟨Or.inl hh, by simp [newSequence, hh]⟩
  · have hh' : has t m.rows = false := by simpa using hh
    by_cases ht : t ∈ m.taxa
    · left
      exact ⟨hh', ht, { m with rows := set t row m.rows }, by simp [newSequence, hh', ht], get?_set_self t row m.rows,
        fun u hu => get?_set_ne t u row m.rows hu⟩
    · right; exact ⟨Or.inr ht, by simp [newSequence, hh', ht]⟩

/-- `del matrix[taxon]`: removes exactly that row; `KeyError` when there is none -/
theorem delItem_spec (m : Matrix) (t : Taxon) :
    (has t m.rows = true ∧ ∃ m', delItem m t = .ok m' ∧ get? t m'.rows = none ∧
      (∀ u, u ≠ t → get? u m'.rows = get? u m.rows)) ∨
    (has t m.rows = false ∧ delItem m t = .error .keyError) := by
  by_cases hh : has t m.rows = true
  · left
    exact ⟨hh, { m with rows := del t m.rows }, by simp [delItem, hh], get?_del_self t m.rows,
      fun u hu => get?_del_ne t u m.rows hu⟩
  · right; exact ⟨by simpa using hh, by simp [delItem, hh]⟩

/-- `items()` / iteration: exactly the namespace taxa that have a row, in namespace order, each with its row -/
theorem itemsOf_spec (m : Matrix) :
    (itemsOf m).map Prod.fst = m.taxa.filter (fun t => has t m.rows) ∧
    ∀ p ∈ itemsOf m, get? p.1 m.rows = some p.2 := by
  unfold itemsOf
  generalize m.taxa = taxa
  induction taxa with
  | nil => simp [items]
  | cons a as ih =>
    rw [items_cons_present]
    cases hg : get? a m.rows with
    | none =>
      simp only [List.nil_append, List.filter_cons, has_eq, hg, Option.isSome_none, Bool.false_eq_true, if_false]
      exact ih
    | some r =>
      simp only [List.singleton_append, List.map_cons, List.filter_cons, has_eq, hg, Option.isSome_some, if_true,
        List.mem_cons, forall_eq_or_imp, ih.1, true_and]
      exact ih.2

/-- "all sequences of these operations", second invariant: every operation keeps the rows keyed by taxa for which a
    predicate `P` holds (take `P := (· ∈ namespace)`: no row ever belongs to a taxon outside the namespace), given that
    the rows it takes from another matrix are -/
theorem keys_invariant_preserved (P : Taxon → Prop) (s o : Rows) (hs : ∀ k ∈ keys s, P k) (ho : ∀ k ∈ keys o, P k) :
    (∀ k ∈ keys (addSeqs s o), P k) ∧ (∀ k ∈ keys (replaceSeqs s o), P k) ∧ (∀ k ∈ keys (updateSeqs s o), P k) ∧
    (∀ b, ∀ k ∈ keys (extendSeqs b s o), P k) ∧ (∀ k ∈ keys (extendMatrix s o), P k) ∧
    (∀ taxa, (∀ k ∈ keys (removeSeqs taxa s).1, P k) ∧ (∀ k ∈ keys (discardSeqs taxa s), P k) ∧
      (∀ k ∈ keys (keepSeqs taxa s), P k) ∧ (∀ f, ∀ k ∈ keys (mapNsRows f taxa s), P k) ∧
      ((∀ t ∈ taxa, P t) → ∀ k ∈ keys (fillTaxa taxa s), P k)) := by
  have hset : ∀ (acc : Rows) (t : Taxon) (r : Row), P t → (∀ k ∈ keys acc, P k) → ∀ k ∈ keys (set t r acc), P k := by
    intro acc t r ht hacc k hk
    rcases mem_keys_set t k r acc hk with h | h
    · subst h; exact ht
    · exact hacc k h
  have hdel : ∀ (acc : Rows) (t : Taxon), (∀ k ∈ keys acc, P k) → ∀ k ∈ keys (del t acc), P k :=
    fun acc t hacc k hk => hacc k (mem_keys_del t k acc hk)
  have hkey : ∀ kv ∈ o, P kv.1 := fun kv hkv => ho kv.1 (by simp only [keys, List.mem_map]; exact ⟨kv, hkv, rfl⟩)
  refine ⟨?_, ?_, ?_, ?_, ?_, ?_⟩
  · exact keysP_foldl P _ o (fun acc a ha h => by
      split
      · exact h
      · exact hset acc a.1 a.2 (hkey a ha) h) s hs
  · exact keysP_foldl P _ o (fun acc a ha h => by
      split
      · exact hset acc a.1 a.2 (hkey a ha) h
      · exact h) s hs
  · exact keysP_foldl P _ o (fun acc a ha h => hset acc a.1 a.2 (hkey a ha) h) s hs
  · intro b
    exact keysP_foldl P _ o (fun acc a ha h => by
      split
      · split
        · exact h
        · exact hset acc a.1 a.2 (hkey a ha) h
      · exact hset acc a.1 _ (hkey a ha) h) s hs
  · exact keysP_foldl P _ o (fun acc a ha h => by
      split
      · exact hset acc a.1 _ (hkey a ha) h
      · exact hset acc a.1 a.2 (hkey a ha) h) s hs
  · intro taxa
    refine ⟨?_, ?_, ?_, ?_, ?_⟩
    · have : ∀ (ts : List Taxon) (rs : Rows), (∀ k ∈ keys rs, P k) → ∀ k ∈ keys (removeSeqs ts rs).1, P k := by
        intro ts
        induction ts with
        | nil => intro rs h; exact h
        | cons t ts ih =>
          intro rs h
          simp only [removeSeqs]
          split
          · exact ih _ (hdel rs t h)
          · exact h
      exact this taxa s hs
    · exact keysP_foldl P _ taxa (fun acc a _ h => by
        split
        · exact hdel acc a h
        · exact h) s hs
    · exact keysP_foldl P _ (keys s) (fun acc a _ h => by
        split
        · exact h
        · exact hdel acc a h) s hs
    · intro f
      exact keysP_foldl P _ taxa (fun acc a _ h => by
        split
        · next r hr => exact hset acc a _ (h a (mem_keys_of_get? a acc r hr)) h
        · exact h) s hs
    · intro htaxa
      exact keysP_foldl P _ taxa (fun acc a ha h => by
        split
        · exact h
        · exact hset acc a [] (htaxa a ha) h) s hs

end DendroModel.C19

namespace DendroModel.C19.Aux
open DendroModel.C19

example : ∃ m', getItem { mA with rows := [(0, [1])] } 1 = .ok (m', []) ∧ m'.rows = [(0, [1]), (1, [])] := ⟨_, rfl, rfl⟩
example : getItem mA 7 = .error .valueError := rfl
example : ∃ r, getItem mA 1 = .ok (mA, r) ∧ r = [3, 4] := ⟨_, rfl, rfl⟩
example : setItem mA 7 [1] = .error .valueError ∧ delItem mA 7 = .error .keyError := ⟨rfl, rfl⟩
example : itemsOf mB = [(0, [6]), (1, [5])] := by decide
example : (∀ k ∈ keys mA.rows, k ∈ mA.taxa) ∧ (∀ k ∈ keys mB.rows, k ∈ mA.taxa) ∧ ∀ t ∈ mA.taxa, t ∈ mA.taxa := by decide

end DendroModel.C19.Aux

/-! ### well-formedness is an invariant of every operation, hence of every history -/
namespace DendroModel.C19

/-- a well-formed matrix: the row store is a dict (distinct keys) over taxa of its own namespace, and the subset names are
    pairwise distinct up to case.  These are exactly the hypotheses the specifications above use. -/
def WF (m : Matrix) : Prop :=
  (keys m.rows).Nodup ∧ (∀ k ∈ keys m.rows, k ∈ m.taxa) ∧ (m.subs.map (fun s => lower s.1)).Nodup

end DendroModel.C19

namespace DendroModel.C19.Aux
open DendroModel.C19

theorem concatLoop_keys (P : Taxon → Prop) (ns : Nat) (taxa : List Taxon) (nseqs : Nat) :
    ∀ (ms : List Matrix) (st st' : CState) (cidx : Nat),
      concatLoop ns taxa nseqs st cidx ms = .ok st' → (∀ m ∈ ms, ∀ k ∈ keys m.rows, P k) →
      (∀ k ∈ keys st.acc, P k) → ∀ k ∈ keys st'.acc, P k := by
  intro ms
  induction ms with
  | nil => intro st st' cidx h _ hn; simp only [concatLoop, Except.ok.injEq] at h; subst h; exact hn
  | cons cm rest ih =>
    intro st st' cidx h hall hn
    simp only [concatLoop] at h
    split at h
    · cases h
    · next st1 hstep =>
      have hacc := (concatStep_ok _ _ _ _ _ _ _ hstep).2.1
      refine ih st1 st' _ h (fun m hm => hall m (by simp [hm])) ?_
      rw [hacc]
      exact (keys_invariant_preserved P st.acc cm.rows hn (hall cm (by simp))).2.2.2.2.1

end DendroModel.C19.Aux

namespace DendroModel.C19
open DendroModel.C19.Aux

/-- "for all sequences of these operations": every operation of the matrix alphabet takes well-formed matrices to a
    well-formed matrix (whether it succeeds, refuses, or — `remove_sequences` — stops half-way).  This is the ONE-STEP
    fact; the induction over a history is `history_wfn`.  `WF` does not contain `m.taxa.Nodup` (constant along a history,
    see `WFN`), and `hns` (same namespace members) is an assumption the model's `ns` guard does not establish.  `o` is the other matrix of a binary operation; matrices
    over the same namespace see the same namespace members. -/
theorem wf_preserved (m o : Matrix) (hm : WF m) (ho : WF o) (hns : o.taxa = m.taxa) :
    (∀ f, f ∈ [addSeqs, replaceSeqs, updateSeqs, extendSeqs false, extendSeqs true, extendMatrix] →
      ∀ r, rowOp f m o = .ok r → WF r) ∧
    (∀ taxa, WF { m with rows := (removeSeqs taxa m.rows).1 } ∧ WF { m with rows := discardSeqs taxa m.rows } ∧
      WF { m with rows := keepSeqs taxa m.rows }) ∧
    (∀ v size app, WF { m with rows := fillRows v size app m.taxa m.rows } ∧
      WF { m with rows := packRows v size app m.taxa m.rows }) ∧
    WF { m with rows := fillTaxa m.taxa m.rows } ∧
    (∀ idx, WF (exportIdx m idx)) ∧
    (∀ lab idx r, newSubset m lab idx = .ok r → WF r) ∧
    (∀ t m' r, getItem m t = .ok (m', r) → WF m') ∧
    (∀ t row r, setItem m t row = .ok r → WF r) ∧
    (∀ t row r, newSequence m t row = .ok r → WF r) ∧
    (∀ t r, delItem m t = .ok r → WF r) ∧
    WF (clearRows m) := by
  obtain ⟨hm1, hm2, hm3⟩ := hm
  obtain ⟨ho1, ho2, _⟩ := ho
  have ho2' : ∀ k ∈ keys o.rows, k ∈ m.taxa := fun k hk => hns ▸ ho2 k hk
  have nd := keys_nodup_preserved m.rows o.rows hm1
  have inv := keys_invariant_preserved (· ∈ m.taxa) m.rows o.rows hm2 ho2'
  have setwf : ∀ (t : Taxon) (row : Row), t ∈ m.taxa → WF { m with rows := set t row m.rows } := by
    intro t row ht
    refine ⟨nodup_set t row m.rows hm1, ?_, hm3⟩
    intro k hk
    rcases mem_keys_set t k row m.rows hk with h | h
    · subst h; exact ht
    · exact hm2 k h
  refine ⟨?_, ?_, ?_, ?_, ?_, ?_, ?_, ?_, ?_, ?_, ?_⟩
  · intro f hf r hr
    have hr' : r = { m with rows := f m.rows o.rows } := by
      simp only [rowOp] at hr
      split at hr
      · cases hr
      · simp only [Except.ok.injEq] at hr; exact hr.symm
    subst hr'
    simp only [List.mem_cons, List.not_mem_nil, or_false] at hf
    rcases hf with h | h | h | h | h | h <;> subst h
    · exact ⟨nd.1, inv.1, hm3⟩
    · exact ⟨nd.2.1, inv.2.1, hm3⟩
    · exact ⟨nd.2.2.1, inv.2.2.1, hm3⟩
    · exact ⟨nd.2.2.2.1 false, inv.2.2.2.1 false, hm3⟩
    · exact ⟨nd.2.2.2.1 true, inv.2.2.2.1 true, hm3⟩
    · exact ⟨nd.2.2.2.2.1, inv.2.2.2.2.1, hm3⟩
  · intro taxa
    have n := nd.2.2.2.2.2 taxa
    have i := inv.2.2.2.2.2 taxa
    exact ⟨⟨n.1, i.1, hm3⟩, ⟨n.2.1, i.2.1, hm3⟩, ⟨n.2.2.1, i.2.2.1, hm3⟩⟩
  · intro v size app
    have n := nd.2.2.2.2.2 m.taxa
    have i := inv.2.2.2.2.2 m.taxa
    refine ⟨⟨n.2.2.2.2 _, i.2.2.2.1 _, hm3⟩, ?_⟩
    have nd2 := keys_nodup_preserved (fillTaxa m.taxa m.rows) o.rows n.2.2.2.1
    have inv2 := keys_invariant_preserved (· ∈ m.taxa) (fillTaxa m.taxa m.rows) o.rows (i.2.2.2.2 (fun t ht => ht)) ho2'
    exact ⟨(nd2.2.2.2.2.2 m.taxa).2.2.2.2 _, (inv2.2.2.2.2.2 m.taxa).2.2.2.1 _, hm3⟩
  · have n := nd.2.2.2.2.2 m.taxa
    have i := inv.2.2.2.2.2 m.taxa
    exact ⟨n.2.2.2.1, i.2.2.2.2 (fun t ht => ht), hm3⟩
  · intro idx
    have n := nd.2.2.2.2.2 m.taxa
    have i := inv.2.2.2.2.2 m.taxa
    exact ⟨n.2.2.2.2 _, i.2.2.2.1 _, by simp [exportIdx]⟩
  · intro lab idx r hr
    have hl := (newSubset_lookup m r lab idx hr lab).2 hm3
    rcases newSubset_spec m lab idx with ⟨_, he⟩ | ⟨_, r', hr', _, hrows, _, htaxa, _⟩
    · rw [he] at hr; cases hr
    · rw [hr'] at hr
      simp only [Except.ok.injEq] at hr
      subst hr
      exact ⟨by rw [hrows]; exact hm1, by rw [hrows, htaxa]; exact hm2, hl⟩
  · intro t m' r h
    simp only [getItem] at h
    split at h
    · simp only [Except.ok.injEq, Prod.mk.injEq] at h
      rw [← h.1]; exact ⟨hm1, hm2, hm3⟩
    · split at h
      · next ht =>
        simp only [Except.ok.injEq, Prod.mk.injEq] at h
        rw [← h.1]
        exact setwf t [] (by simpa using ht)
      · cases h
  · intro t row r h
    simp only [setItem] at h
    split at h
    · next ht =>
      simp only [Except.ok.injEq] at h
      rw [← h]; exact setwf t row (by simpa using ht)
    · cases h
  · intro t row r h
    simp only [newSequence] at h
    split at h
    · cases h
    · split at h
      · next ht =>
        simp only [Except.ok.injEq] at h
        rw [← h]; exact setwf t row (by simpa using ht)
      · cases h
  · intro t r h
    simp only [delItem] at h
    split at h
    · simp only [Except.ok.injEq] at h
      rw [← h]
      exact ⟨nodup_del t m.rows hm1, fun k hk => hm2 k (mem_keys_del t k m.rows hk), hm3⟩
    · cases h
  · exact ⟨by simp [clearRows, keys], by simp [clearRows, keys], hm3⟩

/-- … and `concatenate` of well-formed matrices over one namespace returns a well-formed matrix -/
theorem concat_wf (m0 : Matrix) (rest : List Matrix) (r : Matrix) (h : concatenate (m0 :: rest) = .ok r)
    (hwf : ∀ m ∈ m0 :: rest, WF m ∧ m.taxa = m0.taxa) : WF r := by
  refine ⟨concat_keys_nodup _ r h, ?_, concat_names_distinct _ r h⟩
  simp only [concatenate] at h
  split at h
  · cases h
  · next st hst =>
    simp only [Except.ok.injEq] at h
    subst h
    exact concatLoop_keys (· ∈ m0.taxa) _ _ _ _ _ _ _ hst
      (fun m hm k hk => (hwf m hm).2 ▸ (hwf m hm).1.2.1 k hk) (by simp [keys])

end DendroModel.C19

namespace DendroModel.C19.Aux
open DendroModel.C19
example : WF mA ∧ WF mB ∧ mB.taxa = mA.taxa := by
  unfold WF; decide
example : WF mAB := concat_wf mA [mB] mAB ex_concat (by
  intro m hm
  simp only [List.mem_cons, List.not_mem_nil, or_false] at hm
  rcases hm with rfl | rfl <;> (unfold WF; decide))
end DendroModel.C19.Aux

namespace DendroModel.C19
open DendroModel.C19.Aux

/-- `remove_sequences` that raises: the taxa before the first one without a row are removed, that one stops the loop
    with `KeyError`, the rest of the list is never looked at -/
theorem remove_partial_state (pre : List Taxon) (t : Taxon) (post : List Taxon) (rs rs1 : Rows)
    (hpre : removeSeqs pre rs = (rs1, none)) (ht : has t rs1 = false) :
    removeSeqs (pre ++ t :: post) rs = (rs1, some .keyError) := by
  induction pre generalizing rs with
  | nil =>
    simp only [removeSeqs, Prod.mk.injEq] at hpre
    simp [removeSeqs, hpre.1, ht]
  | cons a as ih =>
    simp only [removeSeqs] at hpre
    by_cases ha : has a rs = true
    · simp only [ha, if_true] at hpre
      simp only [List.cons_append, removeSeqs, ha, if_true]
      exact ih _ hpre
    · simp [ha] at hpre

/-- the main loop of `concatenate` makes exactly one round per matrix: one subset per source matrix -/
theorem concat_rounds (ms : List Matrix) (r : Matrix) (h : concatenate ms = .ok r) : r.subs.length = ms.length := by
  have := congrArg List.length (concat_subsets ms r h)
  have hsp : ∀ (p : Nat) (ws : List Nat), (spans p ws).length = ws.length := by
    intro p ws; induction ws generalizing p with
    | nil => simp [spans]
    | cons a as ih => simp [spans, ih]
  simpa [hsp] using this

end DendroModel.C19

namespace DendroModel.C19.Aux
open DendroModel.C19
example : removeSeqs [1] mA.rows = ([(0, [1, 2])], none) ∧ has 5 [(0, [1, 2])] = false := by decide
end DendroModel.C19.Aux

/-! ### second audit: exact rows of a concatenation, purity of the `cm[0]` probe, namespace coherence -/
namespace DendroModel.C19.Aux
open DendroModel.C19

theorem concatLoop_has (ns : Nat) (taxa : List Taxon) (nseqs : Nat) (t : Taxon) :
    ∀ (ms : List Matrix) (st st' : CState) (cidx : Nat),
      concatLoop ns taxa nseqs st cidx ms = .ok st' → (∀ m ∈ ms, (keys m.rows).Nodup) →
      (has t st.acc = true ∨ ∃ m ∈ ms, has t m.rows = true) → has t st'.acc = true := by
  intro ms
  induction ms with
  | nil =>
    intro st st' cidx h _ hor
    simp only [concatLoop, Except.ok.injEq] at h
    subst h
    rcases hor with h | ⟨m, hm, _⟩
    · exact h
    · cases hm
  | cons cm rest ih =>
    intro st st' cidx h hnd hor
    simp only [concatLoop] at h
    split at h
    · cases h
    · next st1 hstep =>
      have hacc := (concatStep_ok _ _ _ _ _ _ _ hstep).2.1
      refine ih st1 st' _ h (fun m hm => hnd m (by simp [hm])) ?_
      have hspec := extendMatrix_spec st.acc cm.rows (hnd cm (by simp)) t
      rcases hor with hst | ⟨m, hm, hhas⟩
      · left
        rw [hacc, has_eq, hspec]
        simp only [has_eq, Option.isSome_iff_exists] at hst
        obtain ⟨a, ha⟩ := hst
        rw [ha]; cases get? t cm.rows <;> simp
      · simp only [List.mem_cons] at hm
        rcases hm with hm | hm
        · subst hm
          left
          rw [hacc, has_eq, hspec]
          simp only [has_eq, Option.isSome_iff_exists] at hhas
          obtain ⟨b, hb⟩ := hhas
          rw [hb]; cases get? t st.acc <;> simp
        · right; exact ⟨m, hm, hhas⟩

theorem concat_taxa (m0 : Matrix) (rest : List Matrix) (r : Matrix) (h : concatenate (m0 :: rest) = .ok r) :
    r.taxa = m0.taxa ∧ r.ns = m0.ns := by
  simp only [concatenate] at h
  split at h
  · cases h
  · simp only [Except.ok.injEq] at h; subst h; exact ⟨rfl, rfl⟩

end DendroModel.C19.Aux

namespace DendroModel.C19
open DendroModel.C19.Aux

/-- (a) the rows of a concatenation, exactly (no "missing = empty" reading): the result has a row for every taxon of
    the namespace and for no other taxon, and that row is the concatenation, in argument order, of the taxon's rows in
    the source matrices.  A zero-width source row contributes nothing but is a row; `none` only outside the namespace. -/
theorem concat_get? (m0 : Matrix) (rest : List Matrix) (r : Matrix) (h : concatenate (m0 :: rest) = .ok r)
    (hwf : ∀ m ∈ m0 :: rest, WF m ∧ m.taxa = m0.taxa) (htx : m0.taxa ≠ []) (t : Taxon) :
    get? t r.rows =
      if t ∈ m0.taxa then some (((m0 :: rest).map (fun m => rowOf t m.rows)).flatten) else none := by
  have hnd : ∀ m ∈ m0 :: rest, (keys m.rows).Nodup := fun m hm => (hwf m hm).1.1
  by_cases ht : t ∈ m0.taxa
  · simp only [ht, if_true]
    have h0 : has t m0.rows = true :=
      concat_all_present m0 rest r h htx m0 (by simp) (hnd m0 (by simp)) (hwf m0 (by simp)).1.2.1 t ht
    have hr : has t r.rows = true := by
      have hcopy := h
      simp only [concatenate] at hcopy
      split at hcopy
      · cases hcopy
      · next st hst =>
        simp only [Except.ok.injEq] at hcopy
        subst hcopy
        exact concatLoop_has _ _ _ t _ _ _ _ hst hnd (Or.inr ⟨m0, by simp, h0⟩)
    have hrows := concat_rows _ r h hnd t
    simp only [has_eq, Option.isSome_iff_exists] at hr
    obtain ⟨x, hx⟩ := hr
    simp only [rowOf, hx, Option.getD_some] at hrows
    rw [hx, hrows]
    rfl
  · simp only [ht, if_false]
    have hw := concat_wf m0 rest r h hwf
    apply get?_of_not_mem
    intro hk
    exact ht ((concat_taxa m0 rest r h).1 ▸ hw.2.1 t hk)

/-- (e) "leaves its argument matrices unchanged", for the one observation `concatenate` makes that could write:
    `cm[0]` (`__getitem__`, which creates a missing row).  For a matrix that passes the guards and whose rows are a dict
    over the (duplicate-free) namespace, the first taxon has a row, so the probe returns that row and the matrix as it was -/
theorem concat_probe_pure (ns : Nat) (t0 : Taxon) (tl : List Taxon) (n : Nat) (cm : Matrix)
    (hc : Concatenable ns (t0 :: tl) n cm) (hnd : (keys cm.rows).Nodup)
    (hin : ∀ k ∈ keys cm.rows, k ∈ t0 :: tl) :
    getItem cm t0 = .ok (cm, rowOf t0 cm.rows) := by
  have hlen : (t0 :: tl).length ≤ (keys cm.rows).length := by simp [keys, hc.2.1]
  have hmem : t0 ∈ keys cm.rows := subset_of_nodup_length (keys cm.rows) (t0 :: tl) hnd hin hlen t0 (by simp)
  have hhas := has_of_mem_keys t0 cm.rows hmem
  simp only [has_eq, Option.isSome_iff_exists] at hhas
  obtain ⟨x, hx⟩ := hhas
  simp [getItem, hx, rowOf]

/-- … hence a successful `concatenate` of well-formed matrices over one namespace changed none of its arguments through
    its probes -/
theorem concat_probes_pure (m0 : Matrix) (rest : List Matrix) (r : Matrix) (h : concatenate (m0 :: rest) = .ok r)
    (hwf : ∀ m ∈ m0 :: rest, WF m ∧ m.taxa = m0.taxa) (t0 : Taxon) (tl : List Taxon) (htx : m0.taxa = t0 :: tl)
    (m : Matrix) (hm : m ∈ m0 :: rest) : getItem m t0 = .ok (m, rowOf t0 m.rows) := by
  have hc := (concat_ok_iff m0 rest (by rw [htx]; simp)).mp ⟨r, h⟩ m hm
  rw [htx] at hc
  exact concat_probe_pure m0.ns t0 tl m0.rows.length m hc (hwf m hm).1.1
    (fun k hk => by rw [← htx, ← (hwf m hm).2]; exact (hwf m hm).1.2.1 k hk)

end DendroModel.C19

namespace DendroModel.C19.Aux
open DendroModel.C19
theorem ex_wf_pair : ∀ m ∈ [mA, mB], WF m ∧ m.taxa = mA.taxa := by
  intro m hm
  simp only [List.mem_cons, List.not_mem_nil, or_false] at hm
  rcases hm with rfl | rfl <;> (unfold WF; decide)
example : get? 1 mAB.rows = some [3, 4, 5] := by
  have := concat_get? mA [mB] mAB ex_concat ex_wf_pair (by decide) 1
  simpa [mA, mB, rowOf, get?] using this
example : get? 7 mAB.rows = none := by
  have := concat_get? mA [mB] mAB ex_concat ex_wf_pair (by decide) 7
  simpa [mA] using this
example : getItem mB 0 = .ok (mB, [6]) :=
  concat_probes_pure mA [mB] mAB ex_concat ex_wf_pair 0 [1] rfl mB (by simp)
end DendroModel.C19.Aux

/-! ### the history object: well-formedness along every sequence of operations, as ONE theorem -/
namespace DendroModel.C19

/-- well-formed including the namespace itself: `WF` plus duplicate-free namespace members — every hypothesis the
    specifications of this file use about a single matrix -/
def WFN (m : Matrix) : Prop := WF m ∧ m.taxa.Nodup

/-- what a history must satisfy about the OTHER matrices it mentions: they are well-formed and see the same namespace
    members as the matrix the history runs on.  (The model's guards compare only the namespace identity `ns`; that the
    same identity means the same member list is an invariant of the protocol — the driver refuses input that breaks it.) -/
def OpOK (taxa : List Taxon) : Op → Prop
  | .add o | .replace o | .update o | .extend _ o | .extendMatrix o => WF o ∧ o.taxa = taxa
  | _ => True

/-- one call keeps the namespace and well-formedness -/
theorem step_wfn (m : Matrix) (op : Op) (hm : WFN m) (hop : OpOK m.taxa op) :
    WFN (step m op) ∧ (step m op).taxa = m.taxa ∧ (step m op).ns = m.ns := by
  obtain ⟨hwf, hnd⟩ := hm
  have key : ∀ r : Matrix, WF r → r.taxa = m.taxa → r.ns = m.ns → WFN r ∧ r.taxa = m.taxa ∧ r.ns = m.ns :=
    fun r h1 h2 h3 => ⟨⟨h1, h2 ▸ hnd⟩, h2, h3⟩
  have self : WFN m ∧ m.taxa = m.taxa ∧ m.ns = m.ns := ⟨⟨hwf, hnd⟩, rfl, rfl⟩
  have binary : ∀ (f : Rows → Rows → Rows) (o : Matrix),
      f ∈ [addSeqs, replaceSeqs, updateSeqs, extendSeqs false, extendSeqs true, extendMatrix] →
      WF o ∧ o.taxa = m.taxa →
      WFN (orSelf m (rowOp f m o)) ∧ (orSelf m (rowOp f m o)).taxa = m.taxa ∧ (orSelf m (rowOp f m o)).ns = m.ns := by
    intro f o hf ho
    cases hr : rowOp f m o with
    | error e => simpa [orSelf] using self
    | ok r =>
      have hw := (wf_preserved m o hwf ho.1 ho.2).1 f hf r hr
      rcases rowOp_spec f m o with ⟨_, r', hr', _, hns, htx, _⟩ | ⟨_, he⟩
      · rw [hr'] at hr; simp only [Except.ok.injEq] at hr; subst hr
        simpa [orSelf] using key r' hw htx hns
      · rw [he] at hr; cases hr
  have W := wf_preserved m m hwf hwf rfl
  cases op with
  | add o => exact binary addSeqs o (by simp) hop
  | replace o => exact binary replaceSeqs o (by simp) hop
  | update o => exact binary updateSeqs o (by simp) hop
  | extend b o => cases b <;> exact binary _ o (by simp) hop
  | extendMatrix o => exact binary extendMatrix o (by simp) hop
  | remove taxa => exact key _ (W.2.1 taxa).1 rfl rfl
  | discard taxa => exact key _ (W.2.1 taxa).2.1 rfl rfl
  | keep taxa => exact key _ (W.2.1 taxa).2.2 rfl rfl
  | fill v size app => exact key _ (W.2.2.1 v size app).1 rfl rfl
  | fillTaxa => exact key _ W.2.2.2.1 rfl rfl
  | pack v size app => exact key _ (W.2.2.1 v size app).2 rfl rfl
  | newSubset lab idx =>
    simp only [step]
    cases hr : newSubset m lab idx with
    | error e => simpa [orSelf] using self
    | ok r =>
      have hw := W.2.2.2.2.2.1 lab idx r hr
      rcases newSubset_spec m lab idx with ⟨_, he⟩ | ⟨_, r', hr', _, _, hns, htx, _⟩
      · rw [he] at hr; cases hr
      · rw [hr'] at hr; simp only [Except.ok.injEq] at hr; subst hr
        simpa [orSelf] using key r' hw htx hns
  | getItem t =>
    simp only [step]
    cases hr : getItem m t with
    | error e => simpa using self
    | ok p =>
      obtain ⟨m', r⟩ := p
      have hw := W.2.2.2.2.2.2.1 t m' r hr
      rcases getItem_spec m t with ⟨r0, _, he⟩ | ⟨_, _, m1, he, _, _, _, hns, htx⟩ | ⟨_, _, he⟩
      · rw [he] at hr; simp only [Except.ok.injEq, Prod.mk.injEq] at hr
        rw [← hr.1]; simpa using self
      · rw [he] at hr; simp only [Except.ok.injEq, Prod.mk.injEq] at hr
        obtain ⟨rfl, _⟩ := hr
        simpa using key m1 hw htx hns
      · rw [he] at hr; cases hr
  | setItem t row =>
    simp only [step]
    cases hr : setItem m t row with
    | error e => simpa [orSelf] using self
    | ok r =>
      have hw := W.2.2.2.2.2.2.2.1 t row r hr
      simp only [setItem] at hr
      split at hr
      · simp only [Except.ok.injEq] at hr; subst hr; simpa [orSelf] using key _ hw rfl rfl
      · cases hr
  | newSequence t row =>
    simp only [step]
    cases hr : newSequence m t row with
    | error e => simpa [orSelf] using self
    | ok r =>
      have hw := W.2.2.2.2.2.2.2.2.1 t row r hr
      simp only [newSequence] at hr
      split at hr
      · cases hr
      · split at hr
        · simp only [Except.ok.injEq] at hr; subst hr; simpa [orSelf] using key _ hw rfl rfl
        · cases hr
  | delItem t =>
    simp only [step]
    cases hr : delItem m t with
    | error e => simpa [orSelf] using self
    | ok r =>
      have hw := W.2.2.2.2.2.2.2.2.2.1 t r hr
      simp only [delItem] at hr
      split at hr
      · simp only [Except.ok.injEq] at hr; subst hr; simpa [orSelf] using key _ hw rfl rfl
      · cases hr
  | clear => exact key _ W.2.2.2.2.2.2.2.2.2.2 rfl rfl

/-- "for all sequences of these operations": along ANY history — whatever mixture of successful, refused and
    half-finished calls — the matrix stays well-formed over the same duplicate-free namespace, so every specification of
    this file applies to every intermediate state -/
theorem history_wfn (ops : List Op) (m : Matrix) (hm : WFN m) (hops : ∀ op ∈ ops, OpOK m.taxa op) :
    WFN (run m ops) ∧ (run m ops).taxa = m.taxa ∧ (run m ops).ns = m.ns := by
  induction ops generalizing m with
  | nil => exact ⟨hm, rfl, rfl⟩
  | cons op rest ih =>
    have h1 := step_wfn m op hm (hops op (by simp))
    have h2 := ih (step m op) h1.1 (fun o ho => by rw [h1.2.1]; exact hops o (by simp [ho]))
    simp only [run, List.foldl_cons] at h2 ⊢
    exact ⟨h2.1, h2.2.1.trans h1.2.1, h2.2.2.trans h1.2.2⟩

end DendroModel.C19

namespace DendroModel.C19.Aux
open DendroModel.C19
example : WFN mA ∧ ∀ op ∈ [Op.extend true mB, .getItem 7, .remove [1, 1], .fillTaxa, .newSubset ['s'] [2, 0], .add mB],
    OpOK mA.taxa op := by
  refine ⟨⟨by unfold WF; decide, by decide⟩, ?_⟩
  intro op hop
  simp only [List.mem_cons, List.not_mem_nil, or_false] at hop
  rcases hop with rfl | rfl | rfl | rfl | rfl | rfl <;> simp only [OpOK] <;> first | trivial | (unfold WF; decide)
example : (run mA [.extend true mB, .getItem 7, .remove [1, 1], .fillTaxa]).rows = [(0, [1, 2, 6]), (1, [])] := by decide
end DendroModel.C19.Aux

/-! ### `concatenate_from_streams` over the shared namespace that grows while streams are read -/
namespace DendroModel.C19.Aux
open DendroModel.C19

/-- the namespace after all streams were read -/
def finalTaxa (taxa : List Taxon) (ps : List Parsed) : List Taxon := ps.foldl (fun t p => growTaxa t p.rows) taxa

theorem readLoopNS_ok {σ : Type} (parse : σ → Option Parsed) (streams : List σ) (ps : List Parsed)
    (h : streams.map parse = ps.map some) (taxa : List Taxon) (acc : List Parsed) (i : Nat) :
    readLoopNS parse taxa acc i streams = .ok (finalTaxa taxa ps, acc ++ ps) := by
  induction streams generalizing ps taxa acc i with
  | nil =>
    cases ps with
    | nil => simp [readLoopNS, finalTaxa]
    | cons a as => simp at h
  | cons s ss ih =>
    cases ps with
    | nil => simp at h
    | cons a as =>
      simp only [List.map_cons, List.cons.injEq] at h
      simp only [readLoopNS, h.1]
      rw [ih as h.2]
      simp [finalTaxa]

end DendroModel.C19.Aux

namespace DendroModel.C19
open DendroModel.C19.Aux

/-- with ONE namespace shared by all streams, `concatenate_from_streams` is `concatenate` of the matrices read, each
    seen over the namespace as it is AFTER the last stream was read -/
theorem fromStreamsNS_eq {σ : Type} (ns : Nat) (parse : σ → Option Parsed) (streams : List σ) (ps : List Parsed)
    (h : streams.map parse = ps.map some) :
    concatFromStreamsNS ns parse streams = match concatenate (ps.map (asMatrix ns (finalTaxa [] ps))) with
      | .ok r => .ok r
      | .error e => .error (.concat e) := by
  simp only [concatFromStreamsNS, readLoopNS_ok parse streams ps h [] [] 0, List.nil_append]
  cases concatenate (ps.map (asMatrix ns (finalTaxa [] ps))) <;> rfl

/-- the consequence the stateless reader cannot show: if ANY stream lacks a taxon that some stream (earlier or later)
    introduced — its row count differs from the size of the final namespace — the whole call is refused with `ValueError`
    ("Number of sequences not equal to the number of taxa"), even though each stream alone is a fine matrix -/
theorem fromStreamsNS_incomplete_refused {σ : Type} (ns : Nat) (parse : σ → Option Parsed) (streams : List σ)
    (ps : List Parsed) (h : streams.map parse = ps.map some) (p : Parsed) (hp : p ∈ ps)
    (hlen : p.rows.length ≠ (finalTaxa [] ps).length) (hne : finalTaxa [] ps ≠ []) :
    concatFromStreamsNS ns parse streams = .error (.concat .valueError) := by
  rw [fromStreamsNS_eq ns parse streams ps h]
  cases ps with
  | nil => cases hp
  | cons p0 rest =>
    have hres : ∀ r, concatenate ((p0 :: rest).map (asMatrix ns (finalTaxa [] (p0 :: rest)))) ≠ .ok r := by
      intro r hr
      have := (concat_ok_iff (asMatrix ns (finalTaxa [] (p0 :: rest)) p0)
        (rest.map (asMatrix ns (finalTaxa [] (p0 :: rest)))) (by simpa [asMatrix] using hne)).mp ⟨r, by simpa using hr⟩
        (asMatrix ns (finalTaxa [] (p0 :: rest)) p) (by
          simp only [List.mem_cons, List.mem_map] at hp ⊢
          rcases hp with hp | hp
          · left; rw [hp]
          · right; exact ⟨p, hp, rfl⟩)
      exact hlen (by simpa [asMatrix] using this.2.1)
    cases hc : concatenate ((p0 :: rest).map (asMatrix ns (finalTaxa [] (p0 :: rest)))) with
    | ok r => exact absurd hc (hres r)
    | error e =>
      have := concat_error_kind (asMatrix ns (finalTaxa [] (p0 :: rest)) p0)
        (rest.map (asMatrix ns (finalTaxa [] (p0 :: rest)))) (by simpa [asMatrix] using hne) e (by simpa using hc)
      simp [this]

end DendroModel.C19

namespace DendroModel.C19.Aux
open DendroModel.C19
def pA : Parsed := { label := none, rows := [(0, [1, 2]), (1, [3, 4])] }
def pC : Parsed := { label := none, rows := [(0, [5]), (2, [6])] }
example : finalTaxa [] [pA, pC] = [0, 1, 2] ∧ pA.rows.length ≠ (finalTaxa [] [pA, pC]).length := by decide
example : concatFromStreamsNS 0 (fun o : Option Parsed => o) [some pA, some pC] = .error (.concat .valueError) :=
  fromStreamsNS_incomplete_refused 0 _ _ [pA, pC] rfl pA (by simp) (by decide) (by decide)
end DendroModel.C19.Aux

/-! ### last round: exact refusal kinds of `concatenate` -/
namespace DendroModel.C19

/-- `concatenate([])`: `char_matrices[0]` raises `IndexError` -/
theorem concat_nil : concatenate [] = .error .indexError := rfl

/-- over a namespace WITHOUT taxa the first matrix decides: with rows it fails the row-count guard (`ValueError`), without
    rows it reaches `cm[0]` (`IndexError`); later matrices are never looked at -/
theorem concat_empty_namespace_error (m0 : Matrix) (rest : List Matrix) (ht : m0.taxa = []) :
    concatenate (m0 :: rest) = .error (if m0.rows = [] then .indexError else .valueError) := by
  simp only [concatenate, ht, concatLoop, concatStep]
  by_cases hr : m0.rows = []
  · simp [hr]
  · have : m0.rows.length ≠ 0 := by
      intro h; exact hr (List.eq_nil_of_length_eq_zero h)
    simp [hr, this]

/-- (e) the outcome of `concatenate`, completely: which inputs succeed, which are refused with `ValueError`, which end in
    `IndexError` — there is no other outcome -/
theorem concat_outcome (ms : List Matrix) :
    (ms = [] ∧ concatenate ms = .error .indexError) ∨
    (∃ m0 rest, ms = m0 :: rest ∧ m0.taxa = [] ∧ m0.rows = [] ∧ concatenate ms = .error .indexError) ∨
    (∃ m0 rest, ms = m0 :: rest ∧ m0.taxa = [] ∧ m0.rows ≠ [] ∧ concatenate ms = .error .valueError) ∨
    (∃ m0 rest, ms = m0 :: rest ∧ m0.taxa ≠ [] ∧ (∃ m ∈ ms, ¬ Concatenable m0.ns m0.taxa m0.rows.length m) ∧
      concatenate ms = .error .valueError) ∨
    (∃ m0 rest, ms = m0 :: rest ∧ m0.taxa ≠ [] ∧ (∀ m ∈ ms, Concatenable m0.ns m0.taxa m0.rows.length m) ∧
      ∃ r, concatenate ms = .ok r) := by
  cases ms with
  | nil => left; exact ⟨rfl, rfl⟩
  | cons m0 rest =>
    right
    by_cases ht : m0.taxa = []
    · have h := concat_empty_namespace_error m0 rest ht
      by_cases hr : m0.rows = []
      · left; exact ⟨m0, rest, rfl, ht, hr, by simpa [hr] using h⟩
      · right; left; exact ⟨m0, rest, rfl, ht, hr, by simpa [hr] using h⟩
    · right; right
      by_cases hall : ∀ m ∈ m0 :: rest, Concatenable m0.ns m0.taxa m0.rows.length m
      · right; exact ⟨m0, rest, rfl, ht, hall, concat_succeeds m0 rest ht hall⟩
      · left
        refine ⟨m0, rest, rfl, ht, ?_, ?_⟩
        · simp only [Classical.not_forall] at hall
          obtain ⟨m, hm, hn⟩ := hall
          exact ⟨m, hm, hn⟩
        · cases hc : concatenate (m0 :: rest) with
          | ok r => exact absurd ((concat_ok_iff m0 rest ht).mp ⟨r, hc⟩) hall
          | error e => rw [concat_error_kind m0 rest ht e hc]

/-- `IndexError` exactly for the empty list and for a first matrix that is empty over an empty namespace -/
theorem concat_indexError_iff (ms : List Matrix) :
    concatenate ms = .error .indexError ↔ ms = [] ∨ ∃ m0 rest, ms = m0 :: rest ∧ m0.taxa = [] ∧ m0.rows = [] := by
  constructor
  · intro h
    rcases concat_outcome ms with ⟨h1, _⟩ | ⟨m0, rest, h1, h2, h3, _⟩ | ⟨_, _, _, _, _, he⟩ | ⟨_, _, _, _, _, he⟩ |
      ⟨_, _, _, _, _, r, he⟩
    · exact Or.inl h1
    · exact Or.inr ⟨m0, rest, h1, h2, h3⟩
    · rw [he] at h; cases h
    · rw [he] at h; cases h
    · rw [he] at h; cases h
  · rintro (h | ⟨m0, rest, h1, h2, h3⟩)
    · subst h; rfl
    · subst h1
      simpa [h3] using concat_empty_namespace_error m0 rest h2

end DendroModel.C19

namespace DendroModel.C19.Aux
open DendroModel.C19
example : concatenate [{ mA with taxa := [], rows := [] }, mB] = .error .indexError := by
  simpa using concat_empty_namespace_error { mA with taxa := [], rows := [] } [mB] rfl
example : concatenate [{ mA with taxa := [] }, mB] = .error .valueError := by
  have := concat_empty_namespace_error { mA with taxa := [] } [mB] rfl
  simpa [mA] using this
end DendroModel.C19.Aux

/-! ### insertion order of the rows (Python dict order) — specified here, deliberately NOT part of the correspondence -/
namespace DendroModel.C19

/-- keys of `ns` that are not yet present are appended, in the order in which they first appear -/
def appendNew (ks ns : List Taxon) : List Taxon :=
  ns.foldl (fun acc k => if acc.contains k then acc else acc ++ [k]) ks

end DendroModel.C19

namespace DendroModel.C19.Aux
open DendroModel.C19

theorem keys_del (t : Taxon) (rs : Rows) : keys (del t rs) = (keys rs).filter (fun k => k != t) := by
  induction rs with
  | nil => simp [del, keys]
  | cons kv rest ih =>
    obtain ⟨k, v⟩ := kv
    simp only [keys, del] at ih ⊢
    by_cases hk : k = t
    · subst hk; simp [ih]
    · simp [hk, ih]

theorem has_eq_contains (t : Taxon) (rs : Rows) : has t rs = (keys rs).contains t := by
  by_cases h : t ∈ keys rs
  · rw [has_of_mem_keys t rs h]; simp [h]
  · have : get? t rs = none := get?_of_not_mem t rs h
    simp [has_eq, this, h]

theorem filter_ne_of_not_mem (t : Taxon) (l : List Taxon) (h : t ∉ l) : l.filter (fun k => k != t) = l := by
  induction l with
  | nil => rfl
  | cons a as ih =>
    simp only [List.mem_cons, not_or] at h
    have : a ≠ t := fun e => h.1 e.symm
    simp [this, ih h.2]

theorem filter_true' (l : List Taxon) : l.filter (fun _ => true) = l := by
  induction l with
  | nil => rfl
  | cons a as ih => simp [ih]

theorem keys_foldl_appendNew {α} (key : α → Taxon) (step : Rows → α → Rows) (l : List α)
    (hstep : ∀ acc a, keys (step acc a) = if has (key a) acc then keys acc else keys acc ++ [key a])
    (s : Rows) : keys (l.foldl step s) = appendNew (keys s) (l.map key) := by
  induction l generalizing s with
  | nil => simp [appendNew]
  | cons a as ih =>
    simp only [List.foldl_cons, List.map_cons, appendNew]
    rw [ih, hstep, has_eq_contains]
    rfl

theorem keys_foldl_const {α} (step : Rows → α → Rows) (l : List α)
    (hstep : ∀ acc a, keys (step acc a) = keys acc) (s : Rows) : keys (l.foldl step s) = keys s := by
  induction l generalizing s with
  | nil => rfl
  | cons a as ih => simp only [List.foldl_cons]; rw [ih, hstep]

theorem keys_foldl_filter (p : Taxon → Bool) (step : Rows → Taxon → Rows) (l : List Taxon)
    (hstep : ∀ acc t, keys (step acc t) = if p t then keys acc else (keys acc).filter (fun k => k != t))
    (s : Rows) : keys (l.foldl step s) = (keys s).filter (fun k => !(l.contains k && !p k)) := by
  induction l generalizing s with
  | nil => simp [filter_true']
  | cons a as ih =>
    simp only [List.foldl_cons]
    rw [ih, hstep]
    by_cases hp : p a = true
    · simp only [hp, if_true]
      apply List.filter_congr
      intro k _
      by_cases hka : k = a
      · subst hka; simp [hp]
      · simp [hka]
    · simp only [hp, Bool.false_eq_true, if_false, List.filter_filter]
      apply List.filter_congr
      intro k _
      by_cases hka : k = a
      · subst hka; simp [hp]
      · simp [hka]

theorem keys_set_has (t : Taxon) (r : Row) (rs : Rows) :
    keys (set t r rs) = if has t rs then keys rs else keys rs ++ [t] := by
  rw [keys_set, has_eq_contains]; simp

end DendroModel.C19.Aux

namespace DendroModel.C19
open DendroModel.C19.Aux

/-- dict semantics of the row store: assigning to an existing key keeps its position, a new key goes last; deleting a
    key keeps the relative order of the others -/
theorem order_set_del (t : Taxon) (r : Row) (rs : Rows) :
    keys (set t r rs) = (if t ∈ keys rs then keys rs else keys rs ++ [t]) ∧
    keys (del t rs) = (keys rs).filter (fun k => k != t) :=
  ⟨keys_set t r rs, keys_del t rs⟩

/-- insertion order after the binary row operations: `add`, `update`, `extend(…, True)`, `extend_matrix` append the taxa
    new to `self` in `other`'s order; `replace` and plain `extend` leave the order as it is -/
theorem order_binary (s o : Rows) :
    keys (addSeqs s o) = appendNew (keys s) (keys o) ∧ keys (updateSeqs s o) = appendNew (keys s) (keys o) ∧
    keys (extendSeqs true s o) = appendNew (keys s) (keys o) ∧ keys (extendMatrix s o) = appendNew (keys s) (keys o) ∧
    keys (replaceSeqs s o) = keys s ∧ keys (extendSeqs false s o) = keys s := by
  refine ⟨?_, ?_, ?_, ?_, ?_, ?_⟩
  · exact keys_foldl_appendNew Prod.fst _ o (fun acc a => by
      by_cases h : has a.1 acc = true <;> simp [h, keys_set_has]) s
  · exact keys_foldl_appendNew Prod.fst _ o (fun acc a => keys_set_has a.1 a.2 acc) s
  · exact keys_foldl_appendNew Prod.fst _ o (fun acc a => by
      by_cases h : has a.1 acc = true <;> simp [h, keys_set_has]) s
  · exact keys_foldl_appendNew Prod.fst _ o (fun acc a => by
      by_cases h : has a.1 acc = true <;> simp [h, keys_set_has]) s
  · exact keys_foldl_const _ o (fun acc a => by
      by_cases h : has a.1 acc = true <;> simp [h, keys_set_has]) s
  · exact keys_foldl_const _ o (fun acc a => by
      by_cases h : has a.1 acc = true <;> simp [h, keys_set_has]) s

/-- insertion order after the unary operations: `fill`, `pack`'s padding and `export` keep it; `fill_taxa` appends the
    namespace taxa that had no row, in namespace order; `discard`/`keep` (and a `remove` that returns) filter it -/
theorem order_unary (taxa : List Taxon) (s : Rows) :
    (∀ f, keys (mapNsRows f taxa s) = keys s) ∧ keys (fillTaxa taxa s) = appendNew (keys s) taxa ∧
    keys (discardSeqs taxa s) = (keys s).filter (fun k => !taxa.contains k) ∧
    keys (keepSeqs taxa s) = (keys s).filter (fun k => taxa.contains k) ∧
    (∀ s', removeSeqs taxa s = (s', none) → keys s' = (keys s).filter (fun k => !taxa.contains k)) := by
  refine ⟨?_, ?_, ?_, ?_, ?_⟩
  · intro f
    exact keys_foldl_const _ taxa (fun acc a => by
      cases hg : get? a acc with
      | none => rfl
      | some r =>
        simp only []
        rw [keys_set_has]
        simp [has_eq, hg]) s
  · have := keys_foldl_appendNew (fun t : Taxon => t) (fun acc t => if has t acc then acc else set t [] acc) taxa
      (fun acc a => by by_cases h : has a acc = true <;> simp [h, keys_set_has]) s
    simpa [fillTaxa] using this
  · have := keys_foldl_filter (fun _ => false) (fun acc t => if has t acc then del t acc else acc) taxa
      (fun acc t => by
        simp only [Bool.false_eq_true, if_false]
        by_cases h : has t acc = true
        · simp [h, keys_del]
        · simp only [h, Bool.false_eq_true, if_false]
          rw [filter_ne_of_not_mem]
          intro hm; exact h (has_of_mem_keys t acc hm)) s
    simpa [discardSeqs] using this
  · have := keys_foldl_filter (fun k => taxa.contains k) (fun acc k => if taxa.contains k then acc else del k acc) (keys s)
      (fun acc t => by by_cases h : t ∈ taxa <;> simp [h, keys_del]) s
    simp only [keepSeqs]
    rw [this]
    apply List.filter_congr
    intro k hk
    by_cases h : k ∈ taxa <;> simp [h, hk]
  · intro s' h
    induction taxa generalizing s with
    | nil => simp [removeSeqs] at h; subst h; simp [filter_true']
    | cons t ts ih =>
      simp only [removeSeqs] at h
      by_cases hh : has t s = true
      · simp only [hh, if_true] at h
        rw [ih _ h, keys_del, List.filter_filter]
        apply List.filter_congr
        intro k _
        by_cases hkt : k = t
        · subst hkt; simp
        · simp [hkt]
      · simp [hh] at h

/-- `sequence_size` / `vector_size` is the length of the FIRST-INSERTED row (0 for an empty matrix) — the one place where
    insertion order reaches a result (`concatenate` uses it as subset width, on rectangular matrices only) -/
theorem vectorSize_first (rs : Rows) :
    vectorSize rs = match keys rs with
      | [] => 0
      | k :: _ => (rowOf k rs).length := by
  cases rs with
  | nil => rfl
  | cons kv rest => obtain ⟨k, v⟩ := kv; simp [vectorSize, keys, rowOf, get?]

end DendroModel.C19

namespace DendroModel.C19.Aux
open DendroModel.C19
example : keys (addSeqs [(2, [1]), (0, [])] [(0, [5]), (1, [6]), (2, [7])]) = [2, 0, 1] := by decide
example : appendNew [2, 0] [0, 1, 2] = [2, 0, 1] := by decide
example : keys (keepSeqs [0, 1] mB.rows) = [1, 0] ∧ removeSeqs [0] mB.rows = ([(1, [5])], none) := by decide
example : vectorSize mB.rows = 1 := by decide
end DendroModel.C19.Aux

/-! ### which rows a concatenation has, in which order; the round trip without the "missing = empty" reading -/
namespace DendroModel.C19.Aux
open DendroModel.C19

theorem mem_appendNew (ks ns : List Taxon) (k : Taxon) : k ∈ appendNew ks ns ↔ k ∈ ks ∨ k ∈ ns := by
  induction ns generalizing ks with
  | nil => simp [appendNew]
  | cons a as ih =>
    simp only [appendNew, List.foldl_cons] at ih ⊢
    rw [ih]
    by_cases ha : ks.contains a = true
    · have : a ∈ ks := by simpa using ha
      simp only [ha, if_true, List.mem_cons]
      constructor
      · rintro (h | h); exact Or.inl h; exact Or.inr (Or.inr h)
      · rintro (h | h | h); exact Or.inl h; exact Or.inl (h ▸ this); exact Or.inr h
    · simp only [ha, Bool.false_eq_true, if_false, List.mem_append, List.mem_cons, List.not_mem_nil, or_false]
      constructor
      · rintro ((h | h) | h); exact Or.inl h; exact Or.inr (Or.inl h); exact Or.inr (Or.inr h)
      · rintro (h | h | h); exact Or.inl (Or.inl h); exact Or.inl (Or.inr h); exact Or.inr h

theorem appendNew_of_subset (ks ns : List Taxon) (h : ∀ k ∈ ns, k ∈ ks) : appendNew ks ns = ks := by
  induction ns with
  | nil => rfl
  | cons a as ih =>
    have ha : ks.contains a = true := by simpa using h a (by simp)
    simp only [appendNew, List.foldl_cons, ha, if_true]
    exact ih (fun k hk => h k (by simp [hk]))

theorem appendNew_nil_nodup (ns : List Taxon) (h : ns.Nodup) : ∀ ks, (∀ k ∈ ns, k ∉ ks) → appendNew ks ns = ks ++ ns := by
  induction ns with
  | nil => intro ks _; simp [appendNew]
  | cons a as ih =>
    intro ks hd
    obtain ⟨ha, has'⟩ := List.nodup_cons.mp h
    have hc : ks.contains a = false := by simpa using hd a (by simp)
    simp only [appendNew, List.foldl_cons, hc, Bool.false_eq_true, if_false]
    have := ih has' (ks ++ [a]) (fun k hk => by
      simp only [List.mem_append, List.mem_singleton, not_or]
      exact ⟨hd k (by simp [hk]), fun e => ha (e ▸ hk)⟩)
    simp only [appendNew] at this
    rw [this]; simp

theorem concatLoop_order (ns : Nat) (taxa : List Taxon) (nseqs : Nat) :
    ∀ (ms : List Matrix) (st st' : CState) (cidx : Nat),
      concatLoop ns taxa nseqs st cidx ms = .ok st' →
      keys st'.acc = ms.foldl (fun ks m => appendNew ks (keys m.rows)) (keys st.acc) := by
  intro ms
  induction ms with
  | nil => intro st st' cidx h; simp only [concatLoop, Except.ok.injEq] at h; subst h; rfl
  | cons cm rest ih =>
    intro st st' cidx h
    simp only [concatLoop] at h
    split at h
    · cases h
    · next st1 hstep =>
      have hacc := (concatStep_ok _ _ _ _ _ _ _ hstep).2.1
      rw [ih st1 st' _ h, hacc, (order_binary st.acc cm.rows).2.2.2.1]
      rfl

theorem mem_fold_appendNew (ms : List Matrix) (ks : List Taxon) (k : Taxon) :
    k ∈ ms.foldl (fun ks m => appendNew ks (keys m.rows)) ks ↔ k ∈ ks ∨ ∃ m ∈ ms, k ∈ keys m.rows := by
  induction ms generalizing ks with
  | nil => simp
  | cons m ms ih =>
    simp only [List.foldl_cons]
    rw [ih, mem_appendNew]
    constructor
    · rintro ((h | h) | ⟨x, hx, hk⟩)
      · exact Or.inl h
      · exact Or.inr ⟨m, by simp, h⟩
      · exact Or.inr ⟨x, by simp [hx], hk⟩
    · rintro (h | ⟨x, hx, hk⟩)
      · exact Or.inl (Or.inl h)
      · simp only [List.mem_cons] at hx
        rcases hx with hx | hx
        · subst hx; exact Or.inl (Or.inr hk)
        · exact Or.inr ⟨x, hx, hk⟩

theorem has_iff_mem_keys (t : Taxon) (rs : Rows) : has t rs = true ↔ t ∈ keys rs := by
  rw [has_eq_contains]; simp

end DendroModel.C19.Aux

namespace DendroModel.C19
open DendroModel.C19.Aux

/-- (a) insertion order of a concatenation: the first matrix's row order, then — per later matrix, in argument order — the
    taxa not seen before, in that matrix's order -/
theorem concat_order (ms : List Matrix) (r : Matrix) (h : concatenate ms = .ok r) :
    keys r.rows = ms.foldl (fun ks m => appendNew ks (keys m.rows)) [] := by
  cases ms with
  | nil => simp [concatenate] at h
  | cons m0 rest =>
    simp only [concatenate] at h
    split at h
    · cases h
    · next st hst =>
      simp only [Except.ok.injEq] at h
      subst h
      simpa [keys] using concatLoop_order _ _ _ _ _ _ _ hst

/-- (a) which rows the result HAS, with no assumption on the inputs: a taxon has a row in the concatenation iff it has
    one in some source matrix -/
theorem concat_has_iff (ms : List Matrix) (r : Matrix) (h : concatenate ms = .ok r) (t : Taxon) :
    has t r.rows = true ↔ ∃ m ∈ ms, has t m.rows = true := by
  rw [has_iff_mem_keys, concat_order ms r h, mem_fold_appendNew]
  simp [has_iff_mem_keys]

/-- for well-formed complete inputs (what `concatenate` accepts) the result keeps exactly the FIRST matrix's row order -/
theorem concat_order_first (m0 : Matrix) (rest : List Matrix) (r : Matrix) (h : concatenate (m0 :: rest) = .ok r)
    (hwf : ∀ m ∈ m0 :: rest, WF m ∧ m.taxa = m0.taxa) (htx : m0.taxa ≠ []) : keys r.rows = keys m0.rows := by
  rw [concat_order _ r h]
  simp only [List.foldl_cons]
  have h0 : appendNew [] (keys m0.rows) = keys m0.rows := by
    have := appendNew_nil_nodup (keys m0.rows) (hwf m0 (by simp)).1.1 [] (by simp)
    simpa using this
  rw [h0]
  have hsub : ∀ m ∈ rest, ∀ k ∈ keys m.rows, k ∈ keys m0.rows := by
    intro m hm k hk
    have hk' : k ∈ m0.taxa := (hwf m (by simp [hm])).2 ▸ (hwf m (by simp [hm])).1.2.1 k hk
    exact (has_iff_mem_keys k m0.rows).mp
      (concat_all_present m0 rest r h htx m0 (by simp) (hwf m0 (by simp)).1.1 (hwf m0 (by simp)).1.2.1 k hk')
  clear h h0
  induction rest with
  | nil => rfl
  | cons m ms ih =>
    simp only [List.foldl_cons]
    rw [appendNew_of_subset _ _ (hsub m (by simp))]
    exact ih (fun x hx => hwf x (by
      simp only [List.mem_cons] at hx ⊢
      rcases hx with hx | hx
      · exact Or.inl hx
      · exact Or.inr (Or.inr hx))) (fun x hx => hsub x (by simp [hx]))

/-- (a)+(b) the round trip stated on the rows themselves: exporting from a concatenation the subset recorded for a
    source matrix yields, for every namespace taxon, a row that EXISTS and equals the row of that source matrix
    (so a zero-width source row comes back as an empty row, not as "no row") -/
theorem concat_export_roundtrip_exact (pre post : List Matrix) (m r : Matrix)
    (h : concatenate (pre ++ m :: post) = .ok r)
    (hnd : ∀ x ∈ pre ++ m :: post, (keys x.rows).Nodup)
    (hin : ∀ x ∈ pre ++ m :: post, ∀ kv ∈ x.rows, kv.1 ∈ r.taxa)
    (htaxa : r.taxa.Nodup)
    (hall : ∀ t ∈ r.taxa, ∀ x ∈ pre ++ m :: post, has t x.rows = true) :
    ∃ name idx e, r.subs[pre.length]? = some (name, idx) ∧ exportSub r name = .ok e ∧
      ∀ t ∈ r.taxa, ∃ row, get? t m.rows = some row ∧ get? t e.rows = some row := by
  obtain ⟨name, idx, e, hsub, hexp, hrow⟩ := concat_export_roundtrip pre post m r h hnd hin htaxa hall
  refine ⟨name, idx, e, hsub, hexp, ?_⟩
  intro t ht
  have hm := hall t ht m (by simp)
  simp only [has_eq, Option.isSome_iff_exists] at hm
  obtain ⟨row, hmrow⟩ := hm
  refine ⟨row, hmrow, ?_⟩
  have hr : has t r.rows = true := (concat_has_iff _ r h t).mpr ⟨m, by simp, by simp [has_eq, hmrow]⟩
  simp only [has_eq, Option.isSome_iff_exists] at hr
  obtain ⟨x, hx⟩ := hr
  have he : ∃ ix, e = exportIdx r ix := by
    simp only [exportSub] at hexp
    split at hexp
    · cases hexp
    · simp only [Except.ok.injEq] at hexp; exact ⟨_, hexp.symm⟩
  obtain ⟨ix, rfl⟩ := he
  have hget := (export_spec r htaxa ix t ht).1
  rw [hx] at hget
  have := hrow t ht
  simp only [rowOf, hget, hmrow, Option.map_some, Option.getD_some] at this
  rw [hget]
  simp [this]

end DendroModel.C19

namespace DendroModel.C19.Aux
open DendroModel.C19
example : keys mAB.rows = keys mA.rows := concat_order_first mA [mB] mAB ex_concat ex_wf_pair (by decide)
example : has 1 mAB.rows = true := (concat_has_iff [mA, mB] mAB ex_concat 1).mpr ⟨mB, by simp, by decide⟩
example : ∃ name idx e, mAB.subs[1]? = some (name, idx) ∧ exportSub mAB name = .ok e ∧
    ∀ t ∈ mAB.taxa, ∃ row, get? t mB.rows = some row ∧ get? t e.rows = some row :=
  concat_export_roundtrip_exact [mA] [] mB mAB ex_concat (by decide) (by decide) (by decide) (by decide)
end DendroModel.C19.Aux

/-! ### the UNREPAIRED free-name loop does not terminate (why the repair, and the fuel-free definition, matter) -/
namespace DendroModel.C19.Aux
open DendroModel.C19

/-- one round of the loop as it stood before the repair: `while cs_label in subsets: label = "%s_%03d" % (new_label, i); i += 1`
    — the candidate is assigned to `label`, so `cs_label` (the variable the condition tests) never changes.
    State = (cs_label, i); `none` = the loop has exited.  (Specification-side only: the driver cannot run a loop that
    does not return; on the implementation this behaviour is what the harness reports as `Timeout-concat`.) -/
def unrepairedRound (subs : List (Label × List Nat)) (st : Label × Nat) : Option (Label × Nat) :=
  if hasSub subs st.1 then some (st.1, st.2 + 1) else none

def rounds (subs : List (Label × List Nat)) : Nat → Label × Nat → Option (Label × Nat)
  | 0, st => some st
  | n + 1, st => match unrepairedRound subs st with
    | none => none
    | some st' => rounds subs n st'

end DendroModel.C19.Aux

namespace DendroModel.C19
open DendroModel.C19.Aux

/-- with a taken label the unrepaired loop is still running after ANY number of rounds (only the counter moves); with the
    same input the repaired search `freeName` returns a free label (`freeName_fresh`) -/
theorem unrepaired_search_never_halts (subs : List (Label × List Nat)) (base : Label) (h : hasSub subs base = true)
    (n i : Nat) : rounds subs n (base, i) = some (base, i + n) ∧ hasSub subs (freeName subs base) = false := by
  refine ⟨?_, freeName_fresh subs base⟩
  induction n generalizing i with
  | zero => rfl
  | succ n ih =>
    simp only [rounds, unrepairedRound, h, if_true]
    rw [ih (i + 1)]
    congr 2
    omega

end DendroModel.C19

namespace DendroModel.C19.Aux
open DendroModel.C19
example : hasSub [(['x'], [0, 1])] ['X'] = true := by decide
end DendroModel.C19.Aux

namespace DendroModel.C19
open DendroModel.C19.Aux

/-- insertion order after element access: `matrix[t]` that creates a row and `matrix[t] = …` / `new_sequence` for a taxon
    without a row put it LAST; assigning to an existing row keeps its place; `del matrix[t]` keeps the others' order -/
theorem order_element (m : Matrix) (t : Taxon) (row : Row) :
    (∀ m' r, getItem m t = .ok (m', r) → keys m'.rows = if has t m.rows then keys m.rows else keys m.rows ++ [t]) ∧
    (∀ m', setItem m t row = .ok m' → keys m'.rows = if has t m.rows then keys m.rows else keys m.rows ++ [t]) ∧
    (∀ m', newSequence m t row = .ok m' → keys m'.rows = keys m.rows ++ [t]) ∧
    (∀ m', delItem m t = .ok m' → keys m'.rows = (keys m.rows).filter (fun k => k != t)) := by
  refine ⟨?_, ?_, ?_, ?_⟩
  · intro m' r h
    simp only [getItem] at h
    split at h
    · next r0 hg =>
      simp only [Except.ok.injEq, Prod.mk.injEq] at h
      rw [← h.1]; simp [has_eq, hg]
    · next hg =>
      split at h
      · simp only [Except.ok.injEq, Prod.mk.injEq] at h
        rw [← h.1]
        simp only [keys_set_has]
      · cases h
  · intro m' h
    simp only [setItem] at h
    split at h
    · simp only [Except.ok.injEq] at h; rw [← h]; simp only [keys_set_has]
    · cases h
  · intro m' h
    simp only [newSequence] at h
    split at h
    · cases h
    · next hh =>
      split at h
      · simp only [Except.ok.injEq] at h; rw [← h]
        simp only [keys_set_has]
        simp [hh]
      · cases h
  · intro m' h
    simp only [delItem] at h
    split at h
    · simp only [Except.ok.injEq] at h; rw [← h]; exact keys_del t m.rows
    · cases h

/-- `concatenate_from_streams` over the shared growing namespace succeeds exactly when, against the namespace as it is
    after the LAST stream, every stream read is complete (as many rows as taxa) and rectangular -/
theorem fromStreamsNS_ok_iff {σ : Type} (ns : Nat) (parse : σ → Option Parsed) (streams : List σ)
    (p0 : Parsed) (rest : List Parsed) (h : streams.map parse = (p0 :: rest).map some)
    (hne : finalTaxa [] (p0 :: rest) ≠ []) :
    (∃ r, concatFromStreamsNS ns parse streams = .ok r) ↔
      ∀ p ∈ p0 :: rest, p.rows.length = (finalTaxa [] (p0 :: rest)).length ∧
        ∀ q ∈ items (finalTaxa [] (p0 :: rest)) p.rows,
          q.2.length = (rowOf ((finalTaxa [] (p0 :: rest)).headD 0) p.rows).length := by
  have hex : (∃ r, concatFromStreamsNS ns parse streams = .ok r) ↔
      ∃ r, concatenate ((p0 :: rest).map (asMatrix ns (finalTaxa [] (p0 :: rest)))) = .ok r := by
    rw [fromStreamsNS_eq ns parse streams (p0 :: rest) h]
    cases concatenate ((p0 :: rest).map (asMatrix ns (finalTaxa [] (p0 :: rest)))) <;> simp
  have key := concat_ok_iff (asMatrix ns (finalTaxa [] (p0 :: rest)) p0)
    (rest.map (asMatrix ns (finalTaxa [] (p0 :: rest)))) (by simpa [asMatrix] using hne)
  rw [hex]
  simp only [List.map_cons] at key ⊢
  rw [key]
  constructor
  · intro hc p hp
    have := hc (asMatrix ns (finalTaxa [] (p0 :: rest)) p) (by
      simp only [List.mem_cons, List.mem_map] at hp ⊢
      rcases hp with hp | hp
      · left; rw [hp]
      · right; exact ⟨p, hp, rfl⟩)
    exact ⟨by simpa [asMatrix] using this.2.1, by simpa [asMatrix] using this.2.2.2⟩
  · intro hc m hm
    simp only [List.mem_cons, List.mem_map] at hm
    have h0 := hc p0 (by simp)
    rcases hm with hm | ⟨p, hp, hm⟩
    · subst hm
      exact ⟨rfl, by simpa [asMatrix] using h0.1, rfl, by simpa [asMatrix] using h0.2⟩
    · subst hm
      have hp' := hc p (by simp [hp])
      exact ⟨rfl, by simpa [asMatrix] using hp'.1, by simp [asMatrix, hp'.1, h0.1], by simpa [asMatrix] using hp'.2⟩

end DendroModel.C19

namespace DendroModel.C19.Aux
open DendroModel.C19
def pB : Parsed := { label := none, rows := [(1, [5]), (0, [6])] }
example : finalTaxa [] [pA, pB] = [0, 1] ∧ finalTaxa [] [pA, pB] ≠ [] := by decide
example : ∃ r, concatFromStreamsNS 0 (fun o : Option Parsed => o) [some pA, some pB] = .ok r :=
  (fromStreamsNS_ok_iff 0 _ _ pA [pB] rfl (by decide)).mpr (by decide)
example : ∃ m', getItem { mA with rows := [(1, [3])] } 0 = .ok (m', []) ∧ keys m'.rows = [1, 0] := ⟨_, rfl, rfl⟩
end DendroModel.C19.Aux

/-! # Reference semantics: aliasing of arguments (`Model/C19Heap.lean`)

The operations once more, on matrix OBJECTS over a heap of sequence OBJECTS, operands named by pool position (so that a matrix
can be its own argument or occur twice).  `Sep w` = no two dict entries hold one sequence object.  Theorems: on a separated
pool every operation does to the value of its matrix what the value-level model says (`hBin_sim`, `hUnary_sim`, `hFill_sim`,
`hElement_sim`, `hCloneWith_sim`) — ALSO with equal operands (`hBin_self`, `hUnaryM_snapshot`) —, leaves every other matrix
object as it was (the `frame` fields: "arguments unchanged"), and creates no sharing (`hStep_sep`, `hRun_sep`). -/
namespace DendroModel.C19.Aux
open DendroModel.C19

def addrs (refs : Refs) : List Nat := refs.map Prod.snd

theorem hget_append (h x : List Row) (a : Nat) (ha : a < h.length) : hget (h ++ x) a = hget h a := by
  simp [hget, List.getElem?_append_left ha]

theorem hget_append_self (h : List Row) (r : Row) : hget (h ++ [r]) h.length = r := by
  simp [hget]

theorem hget_set_ne (h : List Row) (a b : Nat) (r : Row) (hne : a ≠ b) : hget (h.set a r) b = hget h b := by
  simp [hget, List.getElem?_set_ne hne]

theorem hget_set_self (h : List Row) (a : Nat) (r : Row) (ha : a < h.length) : hget (h.set a r) a = r := by
  simp [hget, ha]

theorem get?_deref (h : List Row) (refs : Refs) (t : Taxon) :
    get? t (deref h refs) = (aget? t refs).map (hget h) := by
  induction refs with
  | nil => simp [deref, get?, aget?]
  | cons kv rest ih =>
    obtain ⟨k, a⟩ := kv
    simp only [deref, List.map_cons] at ih ⊢
    by_cases hk : k = t <;> simp [get?, aget?, hk, ih]

theorem keys_deref (h : List Row) (refs : Refs) : keys (deref h refs) = akeys refs := by
  simp [keys, deref, akeys, List.map_map, Function.comp_def]

theorem has_deref (h : List Row) (refs : Refs) (t : Taxon) : has t (deref h refs) = (aget? t refs).isSome := by
  simp [has, get?_deref]

theorem rowOf_deref (h : List Row) (refs : Refs) (t : Taxon) :
    rowOf t (deref h refs) = ((aget? t refs).map (hget h)).getD [] := by
  simp only [rowOf, get?_deref]

theorem deref_adel (h : List Row) (refs : Refs) (t : Taxon) : deref h (adel t refs) = del t (deref h refs) := by
  induction refs with
  | nil => simp [deref, adel, del]
  | cons kv rest ih =>
    obtain ⟨k, a⟩ := kv
    simp only [deref, adel, del, List.map_cons] at ih ⊢
    by_cases hk : k = t <;> simp [hk, ih]

theorem deref_aset (h : List Row) (refs : Refs) (k : Taxon) (a : Nat) :
    deref h (aset k a refs) = set k (hget h a) (deref h refs) := by
  induction refs with
  | nil => simp [deref, aset, set]
  | cons kv rest ih =>
    obtain ⟨k', a'⟩ := kv
    simp only [deref, List.map_cons] at ih ⊢
    by_cases hk : k' = k <;> simp [aset, set, hk, ih]

theorem deref_append (h x : List Row) (refs : Refs) (hb : ∀ a ∈ addrs refs, a < h.length) :
    deref (h ++ x) refs = deref h refs := by
  simp only [deref]
  apply List.map_congr_left
  intro p hp
  have : p.2 < h.length := hb p.2 (by simp only [addrs, List.mem_map]; exact ⟨p, hp, rfl⟩)
  rw [hget_append h x p.2 this]

theorem deref_set_notin (h : List Row) (a : Nat) (r : Row) (refs : Refs) (hn : a ∉ addrs refs) :
    deref (h.set a r) refs = deref h refs := by
  simp only [deref]
  apply List.map_congr_left
  intro p hp
  have : a ≠ p.2 := by
    intro he; apply hn; simp only [addrs, List.mem_map]; exact ⟨p, hp, he.symm⟩
  rw [hget_set_ne h a p.2 r this]

theorem deref_set_at (h : List Row) (a : Nat) (r : Row) (refs : Refs) (k : Taxon) (hk : (k, a) ∈ refs) (ha : a < h.length)
    (huniq : ∀ k', (k', a) ∈ refs → k' = k) (hnd : (akeys refs).Nodup) :
    deref (h.set a r) refs = set k r (deref h refs) := by
  induction refs with
  | nil => simp at hk
  | cons kv rest ih =>
    obtain ⟨k', a'⟩ := kv
    simp only [akeys, List.map_cons, List.nodup_cons] at hnd
    by_cases hkk : k' = k
    · subst hkk
      have ha' : a' = a := by
        simp only [List.mem_cons, Prod.mk.injEq] at hk
        rcases hk with ⟨_, h2⟩ | hk
        · exact h2.symm
        · exfalso; apply hnd.1; simp only [List.mem_map]; exact ⟨(k', a), hk, rfl⟩
      subst ha'
      have hrest : a' ∉ addrs rest := by
        intro hin
        simp only [addrs, List.mem_map] at hin
        obtain ⟨p, hp, hpa⟩ := hin
        have := huniq p.1 (by simp only [List.mem_cons]; right; rw [← hpa]; exact hp)
        apply hnd.1; simp only [List.mem_map]; exact ⟨p, hp, this⟩
      have := deref_set_notin h a' r rest hrest
      simp only [deref] at this
      simp [deref, set, this, hget_set_self h a' r ha]
    · have hk' : (k, a) ∈ rest := by
        simp only [List.mem_cons, Prod.mk.injEq] at hk
        rcases hk with ⟨h1, _⟩ | hk
        · exact absurd h1.symm hkk
        · exact hk
      have hne : a ≠ a' := by
        intro he; subst he
        exact hkk (huniq k' (by simp))
      have ih' := ih hk' (fun k'' hk'' => huniq k'' (by simp [hk''])) hnd.2
      simp only [deref] at ih'
      simp [deref, set, hkk, ih', hget_set_ne h a a' r hne]

end DendroModel.C19.Aux

namespace DendroModel.C19

/-- a world WITHOUT sharing: every dict entry of every matrix holds a sequence object of its own (and dicts have distinct keys,
    addresses are allocated) -/
structure Sep (w : World) : Prop where
  bound : ∀ i, ∀ a ∈ Aux.addrs (refsOf w i), a < w.heap.length
  keysNd : ∀ i, (akeys (refsOf w i)).Nodup
  inj : ∀ i i' k k' a, (k, a) ∈ refsOf w i → (k', a) ∈ refsOf w i' → i = i' ∧ k = k'

/-- everything about the matrix objects except their rows -/
def metas (w : World) : List (Nat × List Taxon × Option Label × List (Label × List Nat)) :=
  w.mats.map (fun m => (m.ns, m.taxa, m.label, m.subs))

/-- what an in-place operation on matrix `i` has to establish: the rows of `i` are `R`, the rows of every other matrix are
    as before, no sharing, nothing but rows touched -/
structure StepOK (i : Nat) (w w' : World) (R : Rows) : Prop where
  rows : rowsOf w' i = R
  frame : ∀ m, m ≠ i → rowsOf w' m = rowsOf w m
  sep : Sep w'
  metas : metas w' = metas w

end DendroModel.C19

namespace DendroModel.C19.Aux
open DendroModel.C19

theorem getElem?_modAt {α : Type} (f : α → α) : ∀ (i : Nat) (l : List α) (j : Nat),
    (modAt i f l)[j]? = if j = i then (l[j]?).map f else l[j]?
  | _, [], j => by simp [modAt]
  | 0, x :: xs, j => by
    cases j <;> simp [modAt]
  | i + 1, x :: xs, j => by
    cases j with
    | zero => simp [modAt]
    | succ j => simp [modAt, getElem?_modAt f i xs j]

theorem length_modAt {α : Type} (f : α → α) : ∀ (i : Nat) (l : List α), (modAt i f l).length = l.length
  | _, [] => by simp [modAt]
  | 0, x :: xs => by simp [modAt]
  | i + 1, x :: xs => by simp [modAt, length_modAt f i xs]

theorem refsOf_setRefs (w : World) (i : Nat) (f : Refs → Refs) (j : Nat) (hi : i < w.mats.length) :
    refsOf (setRefs w i f) j = if j = i then f (refsOf w i) else refsOf w j := by
  simp only [refsOf, setRefs, getElem?_modAt]
  by_cases hj : j = i
  · subst hj
    simp [List.getElem?_eq_getElem hi]
  · simp [hj]

theorem metas_setRefs (w : World) (i : Nat) (f : Refs → Refs) : metas (setRefs w i f) = metas w := by
  simp only [metas, setRefs]
  apply List.ext_getElem?
  intro j
  simp only [List.getElem?_map, getElem?_modAt]
  by_cases hj : j = i
  · subst hj; cases w.mats[j]? <;> simp
  · simp [hj]

theorem metas_heap (w : World) (h : List Row) : metas { w with heap := h } = metas w := rfl

theorem length_of_metas (w w' : World) (h : metas w' = metas w) : w'.mats.length = w.mats.length := by
  have := congrArg List.length h
  simpa [metas] using this

theorem taxaOf_of_metas (w w' : World) (h : metas w' = metas w) (i : Nat) : taxaOf w' i = taxaOf w i := by
  have := congrArg (fun l => l[i]?) h
  simp only [metas, List.getElem?_map] at this
  simp only [taxaOf]
  cases h1 : w'.mats[i]? <;> cases h2 : w.mats[i]? <;> simp_all

theorem mem_of_aget? (k : Taxon) (a : Nat) (refs : Refs) (h : aget? k refs = some a) : (k, a) ∈ refs := by
  induction refs with
  | nil => simp [aget?] at h
  | cons kv rest ih =>
    obtain ⟨k', a'⟩ := kv
    by_cases hk : k' = k
    · simp [aget?, hk] at h; subst hk; subst h; simp
    · simp [aget?, hk] at h; simp [ih h]

theorem mem_aset (k : Taxon) (a : Nat) (refs : Refs) (p : Taxon × Nat) (h : p ∈ aset k a refs) : p = (k, a) ∨ p ∈ refs := by
  induction refs with
  | nil => simp [aset] at h; simp [h]
  | cons kv rest ih =>
    obtain ⟨k', a'⟩ := kv
    by_cases hk : k' = k
    · simp only [aset, hk, if_true, List.mem_cons] at h
      rcases h with h | h
      · left; exact h
      · right; simp [h]
    · simp only [aset, hk, if_false, List.mem_cons] at h
      rcases h with h | h
      · right; simp [h]
      · rcases ih h with h | h
        · left; exact h
        · right; simp [h]

theorem akeys_aset_nodup (k : Taxon) (a : Nat) (refs : Refs) (h : (akeys refs).Nodup) : (akeys (aset k a refs)).Nodup := by
  induction refs with
  | nil => simp [aset, akeys]
  | cons kv rest ih =>
    obtain ⟨k', a'⟩ := kv
    simp only [akeys, List.map_cons, List.nodup_cons] at h
    by_cases hk : k' = k
    · simp only [aset, hk, if_true, akeys, List.map_cons, List.nodup_cons]
      subst hk; exact h
    · simp only [aset, hk, if_false, akeys, List.map_cons, List.nodup_cons]
      refine ⟨?_, ih h.2⟩
      intro hin
      simp only [List.mem_map] at hin
      obtain ⟨p, hp, hp1⟩ := hin
      rcases mem_aset k a rest p hp with hp | hp
      · subst hp; exact hk hp1.symm
      · apply h.1; simp only [List.mem_map]; exact ⟨p, hp, hp1⟩

theorem mem_adel (k : Taxon) (refs : Refs) (p : Taxon × Nat) (h : p ∈ adel k refs) : p ∈ refs := by
  simp only [adel, List.mem_filter] at h; exact h.1

theorem akeys_adel_nodup (k : Taxon) (refs : Refs) (h : (akeys refs).Nodup) : (akeys (adel k refs)).Nodup := by
  simp only [akeys, adel] at h ⊢
  exact (List.filter_sublist.map Prod.fst).nodup h

theorem hHas_eq (w : World) (i : Nat) (k : Taxon) : hHas w i k = has k (rowsOf w i) := by
  simp [hHas, rowsOf, has_deref]

theorem hRow_eq (w : World) (i : Nat) (k : Taxon) : hRow w i k = rowOf k (rowsOf w i) := by
  simp only [hRow, rowsOf, rowOf_deref]

/-- A: a new object under `k` -/
theorem allocBind_ok (w : World) (i : Nat) (k : Taxon) (r : Row) (hs : Sep w) (hi : i < w.mats.length) :
    StepOK i w (allocBind w i k r) (set k r (rowsOf w i)) := by
  have hlen : i < ({ w with heap := w.heap ++ [r] } : World).mats.length := hi
  have hrefs : ∀ m, refsOf (allocBind w i k r) m = if m = i then aset k w.heap.length (refsOf w i) else refsOf w m := by
    intro m
    simp only [allocBind]
    rw [refsOf_setRefs _ i _ m hlen]
    rfl
  have hheap : (allocBind w i k r).heap = w.heap ++ [r] := rfl
  refine ⟨?_, ?_, ?_, ?_⟩
  · simp only [rowsOf, hrefs, hheap, if_true, deref_aset, hget_append_self]
    rw [deref_append _ _ _ (hs.bound i)]
  · intro m hm
    simp only [rowsOf, hrefs, hheap, hm, if_false]
    rw [deref_append _ _ _ (hs.bound m)]
  · refine ⟨?_, ?_, ?_⟩
    · intro m a ha
      rw [hheap, List.length_append]
      rw [hrefs] at ha
      by_cases hm : m = i
      · simp only [hm, if_true, addrs, List.mem_map] at ha
        obtain ⟨p, hp, hpa⟩ := ha
        rcases mem_aset _ _ _ p hp with hp | hp
        · subst hp; simp only at hpa; simp only [List.length_singleton]; omega
        · have := hs.bound i a (by simp only [addrs, List.mem_map]; exact ⟨p, hp, hpa⟩)
          simp only [List.length_singleton]; omega
      · simp only [hm, if_false] at ha
        have := hs.bound m a ha
        simp only [List.length_singleton]; omega
    · intro m
      rw [hrefs]
      by_cases hm : m = i
      · simp only [hm, if_true]; exact akeys_aset_nodup _ _ _ (hs.keysNd i)
      · simp only [hm, if_false]; exact hs.keysNd m
    · intro m m' k1 k2 a h1 h2
      rw [hrefs] at h1 h2
      have old : ∀ m k0, (k0, a) ∈ refsOf w m → a < w.heap.length := by
        intro m k0 hmem
        exact hs.bound m a (by simp only [addrs, List.mem_map]; exact ⟨(k0, a), hmem, rfl⟩)
      by_cases hm : m = i <;> by_cases hm' : m' = i
      · simp only [hm, hm', if_true] at h1 h2
        rcases mem_aset _ _ _ _ h1 with h1 | h1 <;> rcases mem_aset _ _ _ _ h2 with h2 | h2
        · rw [Prod.mk.injEq] at h1 h2; exact ⟨by rw [hm, hm'], by rw [h1.1, h2.1]⟩
        · rw [Prod.mk.injEq] at h1; have := old i k2 h2; omega
        · rw [Prod.mk.injEq] at h2; have := old i k1 h1; omega
        · have := hs.inj i i k1 k2 a h1 h2; exact ⟨by rw [hm, hm'], this.2⟩
      · simp only [hm, hm', if_true, if_false] at h1 h2
        rcases mem_aset _ _ _ _ h1 with h1 | h1
        · rw [Prod.mk.injEq] at h1; have := old m' k2 h2; omega
        · have := hs.inj i m' k1 k2 a h1 h2; exact ⟨by rw [hm]; exact this.1, this.2⟩
      · simp only [hm, hm', if_true, if_false] at h1 h2
        rcases mem_aset _ _ _ _ h2 with h2 | h2
        · rw [Prod.mk.injEq] at h2; have := old m k1 h1; omega
        · have := hs.inj m i k1 k2 a h1 h2; exact ⟨by rw [hm']; exact this.1, this.2⟩
      · simp only [hm, hm', if_false] at h1 h2
        exact hs.inj m m' k1 k2 a h1 h2
  · simp only [allocBind]
    rw [metas_setRefs]
    rfl

/-- B: the object under `k` is changed in place -/
theorem writeSlot_ok (w : World) (i : Nat) (k : Taxon) (r : Row) (hs : Sep w) (hk : hHas w i k = true) :
    StepOK i w (writeSlot w i k r) (set k r (rowsOf w i)) := by
  simp only [hHas, Option.isSome_iff_exists] at hk
  obtain ⟨a, ha⟩ := hk
  have hmem := mem_of_aget? k a _ ha
  have hw : writeSlot w i k r = { w with heap := w.heap.set a r } := by simp [writeSlot, ha]
  have hrefs : ∀ m, refsOf (writeSlot w i k r) m = refsOf w m := by intro m; rw [hw]; rfl
  have hheap : (writeSlot w i k r).heap = w.heap.set a r := by rw [hw]
  have hb : a < w.heap.length := hs.bound i a (by simp only [addrs, List.mem_map]; exact ⟨(k, a), hmem, rfl⟩)
  refine ⟨?_, ?_, ?_, ?_⟩
  · simp only [rowsOf, hrefs, hheap]
    exact deref_set_at _ a r _ k hmem hb (fun k' hk' => (hs.inj i i k' k a hk' hmem).2) (hs.keysNd i)
  · intro m hm
    simp only [rowsOf, hrefs, hheap]
    apply deref_set_notin
    intro hin
    simp only [addrs, List.mem_map] at hin
    obtain ⟨p, hp, hpa⟩ := hin
    have := hs.inj m i p.1 k a (by rw [← hpa]; exact hp) hmem
    exact hm this.1
  · refine ⟨?_, ?_, ?_⟩
    · intro m a' ha'
      rw [hheap, List.length_set]; rw [hrefs] at ha'; exact hs.bound m a' ha'
    · intro m; rw [hrefs]; exact hs.keysNd m
    · intro m m' k1 k2 a' h1 h2; rw [hrefs] at h1 h2; exact hs.inj m m' k1 k2 a' h1 h2
  · rw [hw]; rfl

/-- C: `del map[k]` -/
theorem unbind_ok (w : World) (i : Nat) (k : Taxon) (hs : Sep w) (hi : i < w.mats.length) :
    StepOK i w (unbind w i k) (del k (rowsOf w i)) := by
  have hrefs : ∀ m, refsOf (unbind w i k) m = if m = i then adel k (refsOf w i) else refsOf w m := by
    intro m; simp only [unbind]; exact refsOf_setRefs w i _ m hi
  have hheap : (unbind w i k).heap = w.heap := rfl
  refine ⟨?_, ?_, ?_, ?_⟩
  · simp only [rowsOf, hrefs, hheap, if_true, deref_adel]
  · intro m hm; simp only [rowsOf, hrefs, hheap, hm, if_false]
  · have sub : ∀ m p, p ∈ refsOf (unbind w i k) m → p ∈ refsOf w m := by
      intro m p hp
      rw [hrefs] at hp
      by_cases hm : m = i
      · simp only [hm, if_true] at hp; rw [hm]; exact mem_adel _ _ _ hp
      · simpa only [hm, if_false] using hp
    refine ⟨?_, ?_, ?_⟩
    · intro m a ha
      simp only [addrs, List.mem_map] at ha
      obtain ⟨p, hp, hpa⟩ := ha
      rw [hheap]
      exact hs.bound m a (by simp only [addrs, List.mem_map]; exact ⟨p, sub m p hp, hpa⟩)
    · intro m
      rw [hrefs]
      by_cases hm : m = i
      · simp only [hm, if_true]; exact akeys_adel_nodup _ _ (hs.keysNd i)
      · simp only [hm, if_false]; exact hs.keysNd m
    · intro m m' k1 k2 a h1 h2
      exact hs.inj m m' k1 k2 a (sub _ _ h1) (sub _ _ h2)
  · exact metas_setRefs w i _

theorem stepOK_refl (i : Nat) (w : World) (hs : Sep w) : StepOK i w w (rowsOf w i) :=
  ⟨rfl, fun _ _ => rfl, hs, rfl⟩

end DendroModel.C19.Aux

namespace DendroModel.C19.Aux
open DendroModel.C19

theorem binFn_eq_foldl (op : BinOp) (s o : Rows) : binFn op s o = o.foldl (vBin op) s := by
  cases op <;> rfl

/-- every value-level step touches the row of the visited taxon only -/
theorem vBin_local (op : BinOp) (acc : Rows) (k : Taxon) (r : Row) (u : Taxon) (hu : u ≠ k) :
    get? u (vBin op acc (k, r)) = get? u acc := by
  cases op <;> simp only [vBin] <;> (repeat' split) <;> first | rfl | exact get?_set_ne k u _ acc hu

theorem map_keys_rowOf (o : Rows) (hnd : (keys o).Nodup) : (keys o).map (fun k => (k, rowOf k o)) = o := by
  induction o with
  | nil => rfl
  | cons kv rest ih =>
    obtain ⟨k, v⟩ := kv
    simp only [keys, List.map_cons, List.nodup_cons] at hnd
    have e : List.map (fun k' => (k', rowOf k' ((k, v) :: rest))) (keys rest) = List.map (fun k' => (k', rowOf k' rest)) (keys rest) := by
      apply List.map_congr_left
      intro k' hk'
      have hne : k ≠ k' := fun he => hnd.1 (he ▸ hk')
      simp [rowOf, get?, hne]
    have hd : rowOf k ((k, v) :: rest) = v := by simp [rowOf, get?]
    show (k, rowOf k ((k, v) :: rest)) :: List.map (fun k' => (k', rowOf k' ((k, v) :: rest))) (keys rest) = (k, v) :: rest
    rw [e, hd, ih hnd.2]

/-- one round on objects does what the value-level round does with the row the other matrix has NOW -/
theorem hBinStep_ok (op : BinOp) (i j : Nat) (w : World) (k : Taxon) (hs : Sep w) (hi : i < w.mats.length) :
    StepOK i w (hBinStep op i j w k) (vBin op (rowsOf w i) (k, rowOf k (rowsOf w j))) := by
  have hp : hHas w i k = has k (rowsOf w i) := hHas_eq w i k
  cases hpres : has k (rowsOf w i) <;> cases op <;>
    simp only [hBinStep, vBin, hp, hpres, hRow_eq, Bool.false_eq_true, if_false, if_true, Bool.not_false, Bool.not_true] <;>
    first
      | exact stepOK_refl i w hs
      | exact allocBind_ok w i k _ hs hi
      | exact writeSlot_ok w i k _ hs (by rw [hp]; exact hpres)

/-- the loop over the keys: live reading of the other matrix = reading a snapshot, also when the other matrix is the
    matrix itself (every taxon is visited once, and a round changes the row of the visited taxon only) -/
theorem fold_sim (i j : Nat) (hstep : World → Taxon → World) (vstep : Rows → Taxon × Row → Rows)
    (hloc : ∀ acc k r u, u ≠ k → get? u (vstep acc (k, r)) = get? u acc)
    (hsim : ∀ w k, Sep w → i < w.mats.length → StepOK i w (hstep w k) (vstep (rowsOf w i) (k, rowOf k (rowsOf w j)))) :
    ∀ (ks : List Taxon), ks.Nodup → ∀ (w : World), Sep w → i < w.mats.length →
      StepOK i w (ks.foldl hstep w) ((ks.map (fun k => (k, rowOf k (rowsOf w j)))).foldl vstep (rowsOf w i))
  | [], _, w, hs, _ => stepOK_refl i w hs
  | k :: rest, hnd, w, hs, hi => by
    simp only [List.nodup_cons] at hnd
    have h1 := hsim w k hs hi
    have hi1 : i < (hstep w k).mats.length := by rw [length_of_metas _ _ h1.metas]; exact hi
    have h2 := fold_sim i j hstep vstep hloc hsim rest hnd.2 (hstep w k) h1.sep hi1
    have hsame : rest.map (fun k' => (k', rowOf k' (rowsOf (hstep w k) j))) = rest.map (fun k' => (k', rowOf k' (rowsOf w j))) := by
      apply List.map_congr_left
      intro k' hk'
      have hne : k' ≠ k := fun he => hnd.1 (he ▸ hk')
      by_cases hj : j = i
      · subst hj
        simp only [rowOf, h1.rows, hloc _ k _ k' hne]
      · rw [h1.frame j hj]
    refine ⟨?_, ?_, h2.sep, ?_⟩
    · simp only [List.foldl_cons, List.map_cons]
      rw [h2.rows, h1.rows, hsame]
    · intro m hm
      simp only [List.foldl_cons]
      rw [h2.frame m hm, h1.frame m hm]
    · simp only [List.foldl_cons]
      rw [h2.metas, h1.metas]

theorem hBinLoop_ok (op : BinOp) (i j : Nat) (w : World) (hs : Sep w) (hi : i < w.mats.length) :
    StepOK i w (hBinLoop op i j w) (binFn op (rowsOf w i) (rowsOf w j)) := by
  have hk : akeys (refsOf w j) = keys (rowsOf w j) := by simp [rowsOf, keys_deref]
  have hnd : (keys (rowsOf w j)).Nodup := by rw [← hk]; exact hs.keysNd j
  have := fold_sim i j (hBinStep op i j) (vBin op) (vBin_local op) (fun w k hs hi => hBinStep_ok op i j w k hs hi)
    (keys (rowsOf w j)) hnd w hs hi
  rw [map_keys_rowOf _ hnd, ← binFn_eq_foldl] at this
  simpa only [hBinLoop, hk] using this

end DendroModel.C19.Aux

namespace DendroModel.C19

/-- **Aliasing, the six row operations.**  On a pool without shared sequence objects, `self.op(other)` — `other` ANY matrix
    object of the pool, ALSO `self` ITSELF (`i = j`: `m.extend_matrix(m)`, `m.update_sequences(m)`, `m.add_sequences(m)` …) —
    leaves the rows of `self` equal to the value-level result computed from the two matrices as they were before the call,
    the rows of every other matrix object (in particular of the argument, when it is another object) exactly as they were,
    creates no shared object, and touches nothing but rows. -/
theorem hBin_sim (op : BinOp) (w w' : World) (i j : Nat) (hs : Sep w) (h : hBin op w i j = .ok w') :
    StepOK i w w' (binFn op (rowsOf w i) (rowsOf w j)) := by
  simp only [hBin] at h
  split at h
  · next mi mj hmi hmj =>
    split at h
    · cases h
    · cases h
      have hi : i < w.mats.length := by
        rcases Nat.lt_or_ge i w.mats.length with hlt | hge
        · exact hlt
        · rw [List.getElem?_eq_none hge] at hmi; cases hmi
      exact Aux.hBinLoop_ok op i j w hs hi
  · cases h

/-- the same call is refused without any effect when the two matrices are over different namespaces, and a call that is not
    refused is the value-level `rowOp` on the views -/
theorem hBin_guard (op : BinOp) (w : World) (i j : Nat) (mi mj : HMat) (hi : w.mats[i]? = some mi) (hj : w.mats[j]? = some mj) :
    (mj.ns ≠ mi.ns → hBin op w i j = .error .valueError ∧ rowOp (binFn op) (viewM w.heap mi) (viewM w.heap mj) = .error .valueError) ∧
    (mj.ns = mi.ns → ∃ w', hBin op w i j = .ok w' ∧
      rowOp (binFn op) (viewM w.heap mi) (viewM w.heap mj) = .ok { viewM w.heap mi with rows := binFn op (rowsOf w i) (rowsOf w j) }) := by
  constructor
  · intro hne
    simp [hBin, hi, hj, hne, rowOp, viewM]
  · intro heq
    refine ⟨hBinLoop op i j w, by simp [hBin, hi, hj, heq], ?_⟩
    simp [rowOp, viewM, heq, rowsOf, refsOf, hi, hj]

/-- the matrix as its own argument: the result is that of the operation applied to two copies of the value -/
theorem hBin_self (op : BinOp) (w w' : World) (i : Nat) (hs : Sep w) (h : hBin op w i i = .ok w') :
    rowsOf w' i = binFn op (rowsOf w i) (rowsOf w i) ∧ (∀ m, m ≠ i → rowsOf w' m = rowsOf w m) ∧ Sep w' :=
  let r := hBin_sim op w w' i i hs h
  ⟨r.rows, r.frame, r.sep⟩

end DendroModel.C19

namespace DendroModel.C19.Aux
open DendroModel.C19

/-- a loop whose rounds do not look at another matrix -/
theorem fold_simple {α : Type} (i : Nat) (hstep : World → α → World) (vstep : Rows → α → Rows)
    (hsim : ∀ w a, Sep w → i < w.mats.length → StepOK i w (hstep w a) (vstep (rowsOf w i) a)) :
    ∀ (l : List α) (w : World), Sep w → i < w.mats.length → StepOK i w (l.foldl hstep w) (l.foldl vstep (rowsOf w i))
  | [], w, hs, _ => stepOK_refl i w hs
  | a :: rest, w, hs, hi => by
    have h1 := hsim w a hs hi
    have hi1 : i < (hstep w a).mats.length := by rw [length_of_metas _ _ h1.metas]; exact hi
    have h2 := fold_simple i hstep vstep hsim rest (hstep w a) h1.sep hi1
    refine ⟨?_, ?_, h2.sep, ?_⟩
    · simp only [List.foldl_cons]; rw [h2.rows, h1.rows]
    · intro m hm; simp only [List.foldl_cons]; rw [h2.frame m hm, h1.frame m hm]
    · simp only [List.foldl_cons]; rw [h2.metas, h1.metas]

theorem hRemove_ok (i : Nat) : ∀ (taxa : List Taxon) (w : World), Sep w → i < w.mats.length →
    StepOK i w (hRemove i taxa w).1 (removeSeqs taxa (rowsOf w i)).1 ∧ (hRemove i taxa w).2 = (removeSeqs taxa (rowsOf w i)).2
  | [], w, hs, _ => ⟨stepOK_refl i w hs, rfl⟩
  | t :: ts, w, hs, hi => by
    simp only [hRemove, removeSeqs, hHas_eq]
    cases hp : has t (rowsOf w i)
    · simp only [Bool.false_eq_true, if_false]
      exact ⟨stepOK_refl i w hs, by first | trivial | rfl⟩
    · simp only [if_true]
      have h1 := unbind_ok w i t hs hi
      have hi1 : i < (unbind w i t).mats.length := by rw [length_of_metas _ _ h1.metas]; exact hi
      have h2 := hRemove_ok i ts (unbind w i t) h1.sep hi1
      rw [h1.rows] at h2
      refine ⟨⟨h2.1.rows, ?_, h2.1.sep, ?_⟩, h2.2⟩
      · intro m hm; rw [h2.1.frame m hm, h1.frame m hm]
      · rw [h2.1.metas, h1.metas]

theorem hDiscard_ok (i : Nat) (taxa : List Taxon) (w : World) (hs : Sep w) (hi : i < w.mats.length) :
    StepOK i w (hDiscard i taxa w) (discardSeqs taxa (rowsOf w i)) := by
  apply fold_simple i _ (fun acc t => if has t acc then del t acc else acc) _ taxa w hs hi
  intro w t hs hi
  simp only [hHas_eq]
  cases has t (rowsOf w i)
  · simpa using stepOK_refl i w hs
  · simpa using unbind_ok w i t hs hi

theorem hKeep_ok (i : Nat) (taxa : List Taxon) (w : World) (hs : Sep w) (hi : i < w.mats.length) :
    StepOK i w (hKeep i taxa w) (keepSeqs taxa (rowsOf w i)) := by
  have hk : akeys (refsOf w i) = keys (rowsOf w i) := by simp [rowsOf, keys_deref]
  simp only [hKeep, keepSeqs, hk]
  apply fold_simple i _ (fun acc k => if taxa.contains k then acc else del k acc) _ _ w hs hi
  intro w t hs hi
  cases taxa.contains t
  · simpa using unbind_ok w i t hs hi
  · simpa using stepOK_refl i w hs

theorem aget?_adel_ne (t u : Taxon) (refs : Refs) (h : u ≠ t) : aget? u (adel t refs) = aget? u refs := by
  induction refs with
  | nil => simp [adel, aget?]
  | cons kv rest ih =>
    obtain ⟨k, a⟩ := kv
    simp only [adel] at ih
    by_cases hk : k = t
    · subst hk
      have : ¬ k = u := fun he => h he.symm
      simp [adel, aget?, this, ih]
    · by_cases hu : k = u
      · subst hu; simp [adel, aget?, hk]
      · simp [adel, aget?, hk, hu, ih]

/-- deleting `t` from matrix `i` does not change whether ANOTHER taxon is a key of matrix `j` (also for `j = i`) -/
theorem hHas_unbind_ne (w : World) (i j : Nat) (t u : Taxon) (hi : i < w.mats.length) (h : u ≠ t) :
    hHas (unbind w i t) j u = hHas w j u := by
  simp only [hHas, unbind, refsOf_setRefs w i _ j hi]
  by_cases hj : j = i
  · simp only [hj, if_true, aget?_adel_ne t u _ h]
  · simp only [hj, if_false]

theorem hRemoveM_eq (i j : Nat) (hij : True) : ∀ (ts : List Taxon) (w : World), ts.Nodup → i < w.mats.length →
    hRemoveM i j ts w = hRemove i (ts.filter (hHas w j)) w
  | [], w, _, _ => rfl
  | t :: ts, w, hnd, hi => by
    simp only [List.nodup_cons] at hnd
    simp only [hRemoveM, List.filter_cons]
    cases hj : hHas w j t
    · simp only [Bool.false_eq_true, if_false]
      exact hRemoveM_eq i j hij ts w hnd.2 hi
    · simp only [if_true, hRemove]
      cases hiT : hHas w i t
      · simp
      · simp only [if_true]
        have hlen : i < (unbind w i t).mats.length := by simp only [unbind, setRefs, length_modAt]; exact hi
        rw [hRemoveM_eq i j hij ts (unbind w i t) hnd.2 hlen]
        congr 1
        apply List.filter_congr
        intro u hu
        exact hHas_unbind_ne w i j t u hi (fun he => hnd.1 (he ▸ hu))

theorem hDiscardM_eq (i j : Nat) : ∀ (ts : List Taxon) (w : World), ts.Nodup → i < w.mats.length →
    hDiscardM i j ts w = hDiscard i (ts.filter (hHas w j)) w
  | [], w, _, _ => rfl
  | t :: ts, w, hnd, hi => by
    simp only [List.nodup_cons] at hnd
    simp only [hDiscardM, hDiscard, List.foldl_cons, List.filter_cons]
    cases hj : hHas w j t
    · simp only [Bool.false_eq_true, if_false]
      exact hDiscardM_eq i j ts w hnd.2 hi
    · simp only [if_true, List.foldl_cons]
      cases hiT : hHas w i t
      · simp only [Bool.false_eq_true, if_false]
        exact hDiscardM_eq i j ts w hnd.2 hi
      · simp only [if_true]
        have hlen : i < (unbind w i t).mats.length := by simp only [unbind, setRefs, length_modAt]; exact hi
        have := hDiscardM_eq i j ts (unbind w i t) hnd.2 hlen
        simp only [hDiscardM, hDiscard] at this
        rw [this]
        congr 1
        apply List.filter_congr
        intro u hu
        exact hHas_unbind_ne w i j t u hi (fun he => hnd.1 (he ▸ hu))

theorem hMapNs_ok (f : Row → Row) (i : Nat) (taxa : List Taxon) (w : World) (hs : Sep w) (hi : i < w.mats.length) :
    StepOK i w (hMapNs f i taxa w) (mapNsRows f taxa (rowsOf w i)) := by
  simp only [hMapNs, mapNsRows]
  apply fold_simple i _ (fun acc t => match get? t acc with
    | some r => set t (f r) acc
    | none => acc) _ taxa w hs hi
  intro w t hs hi
  have h1 : hHas w i t = (get? t (rowsOf w i)).isSome := by rw [hHas_eq]; rfl
  have h2 : hRow w i t = (get? t (rowsOf w i)).getD [] := by rw [hRow_eq]; rfl
  cases hg : get? t (rowsOf w i) with
  | none => simp only [h1, hg, Option.isSome_none, Bool.false_eq_true, if_false]; exact stepOK_refl i w hs
  | some r =>
    simp only [h1, h2, hg, Option.isSome_some, if_true, Option.getD_some]
    exact writeSlot_ok w i t _ hs (by rw [h1, hg]; rfl)

theorem hFillTaxa_ok (i : Nat) (w : World) (hs : Sep w) (hi : i < w.mats.length) :
    StepOK i w (hFillTaxa i w) (fillTaxa (taxaOf w i) (rowsOf w i)) := by
  simp only [hFillTaxa, fillTaxa]
  apply fold_simple i _ (fun acc t => if has t acc then acc else set t [] acc) _ _ w hs hi
  intro w t hs hi
  simp only [hHas_eq]
  cases has t (rowsOf w i)
  · simpa using allocBind_ok w i t [] hs hi
  · simpa using stepOK_refl i w hs

end DendroModel.C19.Aux

namespace DendroModel.C19

/-- **remove / discard / keep on objects** = the value-level operations on the view; other matrices untouched; no sharing created -/
theorem hUnary_sim (i : Nat) (taxa : List Taxon) (w : World) (hs : Sep w) (hi : i < w.mats.length) :
    (StepOK i w (hRemove i taxa w).1 (removeSeqs taxa (rowsOf w i)).1 ∧ (hRemove i taxa w).2 = (removeSeqs taxa (rowsOf w i)).2) ∧
    StepOK i w (hDiscard i taxa w) (discardSeqs taxa (rowsOf w i)) ∧
    StepOK i w (hKeep i taxa w) (keepSeqs taxa (rowsOf w i)) :=
  ⟨Aux.hRemove_ok i taxa w hs hi, Aux.hDiscard_ok i taxa w hs hi, Aux.hKeep_ok i taxa w hs hi⟩

/-- **the taxa argument is a matrix** (`m.remove_sequences(o)`, `m.discard_sequences(o)`, `m.keep_sequences(o)`, ALSO `o = m`):
    the generator `o.__iter__` that is consumed WHILE rows are deleted yields exactly what it would have yielded before the call
    (`iterKeys`: the taxa of the namespace that have a row in `o`), because a deletion changes the membership of the deleted
    taxon only and the namespace lists every taxon once.  No separation hypothesis: nothing is read from the heap. -/
theorem hUnaryM_snapshot (i j : Nat) (w : World) (hnd : (taxaOf w j).Nodup) (hi : i < w.mats.length) :
    hRemoveM i j (taxaOf w j) w = hRemove i (iterKeys w j) w ∧
    hDiscardM i j (taxaOf w j) w = hDiscard i (iterKeys w j) w ∧
    hKeepM i j w = hKeep i (iterKeys w j) w :=
  ⟨Aux.hRemoveM_eq i j trivial _ w hnd hi, Aux.hDiscardM_eq i j _ w hnd hi, rfl⟩

/-- **fill / fill_taxa / pack on objects** (the padding loop changes the sequence objects in place) = the value-level operations -/
theorem hFill_sim (v : Cell) (size : Option Nat) (app : Bool) (i : Nat) (w : World) (hs : Sep w) (hi : i < w.mats.length) :
    StepOK i w (hFill v size app i w) (fillRows v size app (taxaOf w i) (rowsOf w i)) ∧
    StepOK i w (hFillTaxa i w) (fillTaxa (taxaOf w i) (rowsOf w i)) ∧
    StepOK i w (hPack v size app i w) (packRows v size app (taxaOf w i) (rowsOf w i)) := by
  refine ⟨Aux.hMapNs_ok _ i _ w hs hi, Aux.hFillTaxa_ok i w hs hi, ?_⟩
  have h1 := Aux.hFillTaxa_ok i w hs hi
  have hi1 : i < (hFillTaxa i w).mats.length := by rw [Aux.length_of_metas _ _ h1.metas]; exact hi
  have h2 := Aux.hMapNs_ok (padLoop v (fillSize size (taxaOf (hFillTaxa i w) i) (rowsOf (hFillTaxa i w) i)) app) i
    (taxaOf (hFillTaxa i w) i) (hFillTaxa i w) h1.sep hi1
  rw [Aux.taxaOf_of_metas _ _ h1.metas, h1.rows] at h2
  have e : hPack v size app i w = hMapNs (padLoop v (fillSize size (taxaOf w i) (fillTaxa (taxaOf w i) (rowsOf w i))) app) i
      (taxaOf w i) (hFillTaxa i w) := by
    simp only [hPack, hFill]
    rw [Aux.taxaOf_of_metas _ _ h1.metas, h1.rows]
  rw [e]
  exact ⟨h2.rows, fun m hm => by rw [h2.frame m hm, h1.frame m hm], h2.sep, by rw [h2.metas, h1.metas]⟩

end DendroModel.C19

namespace DendroModel.C19.Aux
open DendroModel.C19

/-- separation speaks about the dicts and the SIZE of the heap only -/
theorem sep_of_refs (w w' : World) (hr : ∀ m, refsOf w' m = refsOf w m) (hl : w.heap.length ≤ w'.heap.length) (hs : Sep w) :
    Sep w' := by
  refine ⟨?_, ?_, ?_⟩
  · intro m a ha; rw [hr] at ha; exact Nat.lt_of_lt_of_le (hs.bound m a ha) hl
  · intro m; rw [hr]; exact hs.keysNd m
  · intro m m' k k' a h1 h2; rw [hr] at h1 h2; exact hs.inj m m' k k' a h1 h2

theorem hClear_ok (w : World) (i : Nat) (hs : Sep w) (hi : i < w.mats.length) : StepOK i w (hClear w i) [] := by
  have hrefs : ∀ m, refsOf (hClear w i) m = if m = i then [] else refsOf w m := by
    intro m; simp only [hClear]; exact refsOf_setRefs w i _ m hi
  refine ⟨?_, ?_, ⟨?_, ?_, ?_⟩, metas_setRefs w i _⟩
  · simp [rowsOf, hrefs, deref]
  · intro m hm; simp only [rowsOf, hrefs, hm, if_false]; rfl
  · intro m a ha
    rw [hrefs] at ha
    by_cases hm : m = i
    · simp [hm, addrs] at ha
    · simp only [hm, if_false] at ha; exact hs.bound m a ha
  · intro m; rw [hrefs]
    by_cases hm : m = i
    · simp [hm, akeys]
    · simp only [hm, if_false]; exact hs.keysNd m
  · intro m m' k k' a h1 h2
    rw [hrefs] at h1 h2
    by_cases hm : m = i
    · simp [hm] at h1
    · by_cases hm' : m' = i
      · simp [hm'] at h2
      · simp only [hm, hm', if_false] at h1 h2; exact hs.inj m m' k k' a h1 h2

theorem hHas_eq_get? (w : World) (i : Nat) (t : Taxon) : (aget? t (refsOf w i)).isSome = (get? t (rowsOf w i)).isSome := by
  simp [rowsOf, get?_deref]

end DendroModel.C19.Aux

namespace DendroModel.C19

/-- **element access on objects** (`m[t]`, `m[t] = values`, `new_sequence`, `del m[t]`, `clear`): outcome (also the exception)
    and rows are those of the value-level operation on any matrix value with these rows and this namespace; a successful call
    is a `StepOK` (other matrices untouched, no sharing) -/
theorem hElement_sim (w : World) (i : Nat) (t : Taxon) (row : Row) (M : Matrix) (hs : Sep w) (hi : i < w.mats.length)
    (hrows : M.rows = rowsOf w i) (htaxa : M.taxa = taxaOf w i) :
    (match hGetItem w i t, getItem M t with
      | .ok (w', r), .ok (M', r') => r = r' ∧ StepOK i w w' M'.rows
      | .error e, .error e' => e = e'
      | _, _ => False) ∧
    (match hSetItem w i t row, setItem M t row with
      | .ok w', .ok M' => StepOK i w w' M'.rows
      | .error e, .error e' => e = e'
      | _, _ => False) ∧
    (match hNewSeq w i t row, newSequence M t row with
      | .ok w', .ok M' => StepOK i w w' M'.rows
      | .error e, .error e' => e = e'
      | _, _ => False) ∧
    (match hDelItem w i t, delItem M t with
      | .ok w', .ok M' => StepOK i w w' M'.rows
      | .error e, .error e' => e = e'
      | _, _ => False) ∧
    StepOK i w (hClear w i) (clearRows M).rows := by
  refine ⟨?_, ?_, ?_, ?_, Aux.hClear_ok w i hs hi⟩
  · simp only [hGetItem, getItem, hrows, htaxa]
    have hg := Aux.get?_deref w.heap (refsOf w i) t
    cases ha : aget? t (refsOf w i) with
    | some a =>
      have : get? t (rowsOf w i) = some (hget w.heap a) := by simp [rowsOf, hg, ha]
      simp only [this]
      exact ⟨trivial, by rw [hrows]; exact Aux.stepOK_refl i w hs⟩
    | none =>
      have : get? t (rowsOf w i) = none := by simp [rowsOf, hg, ha]
      simp only [this]
      cases (taxaOf w i).contains t
      · simp
      · simp only [if_true]
        exact ⟨trivial, Aux.allocBind_ok w i t [] hs hi⟩
  · simp only [hSetItem, setItem, hrows, htaxa]
    cases (taxaOf w i).contains t
    · simp
    · simp only [if_true]; exact Aux.allocBind_ok w i t row hs hi
  · simp only [hNewSeq, newSequence, hrows, htaxa, Aux.hHas_eq]
    cases has t (rowsOf w i)
    · simp only [Bool.false_eq_true, if_false]
      cases (taxaOf w i).contains t
      · simp
      · simp only [if_true]; exact Aux.allocBind_ok w i t row hs hi
    · simp
  · simp only [hDelItem, delItem, hrows, Aux.hHas_eq]
    cases has t (rowsOf w i)
    · simp
    · simp only [if_true]; exact Aux.unbind_ok w i t hs hi

end DendroModel.C19

namespace DendroModel.C19.Aux
open DendroModel.C19

/-- the dict of a deep copy when no object is shared: the same keys, addresses `base, base+1, …` -/
def freshRefs (base : Nat) : Refs → Refs
  | [] => []
  | (t, _) :: rest => (t, base) :: freshRefs (base + 1) rest

theorem cloneLoop_distinct (f : Row → Row) (h0 : List Row) : ∀ (refs : Refs) (memo : List (Nat × Nat)) (heap : List Row) (acc : Refs),
    (addrs refs).Nodup → (∀ a ∈ addrs refs, memo.lookup a = none) →
    cloneLoop f h0 refs memo heap acc = (acc ++ freshRefs heap.length refs, heap ++ refs.map (fun p => f (hget h0 p.2)))
  | [], _, _, _, _, _ => by simp [cloneLoop, freshRefs]
  | (t, a) :: rest, memo, heap, acc, hnd, hmemo => by
    simp only [addrs, List.map_cons, List.nodup_cons] at hnd
    have hl : memo.lookup a = none := hmemo a (by simp [addrs])
    simp only [cloneLoop, hl]
    rw [cloneLoop_distinct f h0 rest _ _ _ hnd.2]
    · simp [freshRefs, List.append_assoc]
    · intro a' ha'
      have hne : a' ≠ a := fun he => hnd.1 (he ▸ ha')
      simp only [List.lookup_cons]
      have : (a' == a) = false := by simp [hne]
      rw [this]
      exact hmemo a' (by simp only [addrs, List.map_cons, List.mem_cons]; right; exact ha')

theorem akeys_freshRefs : ∀ (base : Nat) (refs : Refs), akeys (freshRefs base refs) = akeys refs
  | _, [] => rfl
  | b, (t, a) :: rest => by
    have := akeys_freshRefs (b + 1) rest
    simp only [akeys] at this
    simp [freshRefs, akeys, this]

theorem mem_freshRefs : ∀ (base : Nat) (refs : Refs) (k : Taxon) (a : Nat), (k, a) ∈ freshRefs base refs →
    base ≤ a ∧ a < base + refs.length
  | _, [], _, _, h => by simp [freshRefs] at h
  | b, (t, a0) :: rest, k, a, h => by
    simp only [freshRefs, List.mem_cons, Prod.mk.injEq] at h
    rcases h with h | h
    · simp only [List.length_cons]; omega
    · have := mem_freshRefs (b + 1) rest k a h
      simp only [List.length_cons]; omega

theorem freshRefs_inj : ∀ (base : Nat) (refs : Refs) (k k' : Taxon) (a : Nat), (k, a) ∈ freshRefs base refs →
    (k', a) ∈ freshRefs base refs → k = k'
  | _, [], _, _, _, h, _ => by simp [freshRefs] at h
  | b, (t, a0) :: rest, k, k', a, h1, h2 => by
    simp only [freshRefs, List.mem_cons, Prod.mk.injEq] at h1 h2
    rcases h1 with h1 | h1 <;> rcases h2 with h2 | h2
    · rw [h1.1, h2.1]
    · have := mem_freshRefs (b + 1) rest k' a h2; omega
    · have := mem_freshRefs (b + 1) rest k a h1; omega
    · exact freshRefs_inj (b + 1) rest k k' a h1 h2

theorem hget_append_cons (pre : List Row) (x : Row) (xs : List Row) : hget (pre ++ x :: xs) pre.length = x := by
  simp [hget]

theorem deref_freshRefs (g : Taxon × Nat → Row) : ∀ (refs : Refs) (pre : List Row),
    deref (pre ++ refs.map g) (freshRefs pre.length refs) = refs.map (fun p => (p.1, g p))
  | [], _ => by simp [deref, freshRefs]
  | (t, a) :: rest, pre => by
    have ih := deref_freshRefs g rest (pre ++ [g (t, a)])
    simp only [List.length_append, List.length_singleton, List.append_assoc, List.singleton_append] at ih
    simp only [freshRefs, List.map_cons, deref] at ih ⊢
    rw [ih, hget_append_cons]

theorem refsOf_push (w : World) (m0 : HMat) (h : List Row) (k : Nat) :
    refsOf { heap := h, mats := w.mats ++ [m0] } k =
      if k < w.mats.length then refsOf w k else if k = w.mats.length then m0.refs else [] := by
  simp only [refsOf]
  by_cases hk : k < w.mats.length
  · simp [hk, List.getElem?_append_left hk]
  · by_cases hk' : k = w.mats.length
    · subst hk'; simp
    · have : w.mats.length + 1 ≤ k := by omega
      simp [hk, hk', List.getElem?_eq_none (l := w.mats ++ [m0]) (by simpa using this)]

theorem addrs_nodup : ∀ (refs : Refs), (akeys refs).Nodup → (∀ k k' a, (k, a) ∈ refs → (k', a) ∈ refs → k = k') →
    (addrs refs).Nodup
  | [], _, _ => by simp [addrs]
  | (k, a) :: rest, hk, hinj => by
    simp only [akeys, List.map_cons, List.nodup_cons] at hk
    simp only [addrs, List.map_cons, List.nodup_cons]
    refine ⟨?_, addrs_nodup rest hk.2 (fun k1 k2 a' h1 h2 => hinj k1 k2 a' (by simp [h1]) (by simp [h2]))⟩
    intro hin
    simp only [List.mem_map] at hin
    obtain ⟨p, hp, hpa⟩ := hin
    have := hinj k p.1 a (by simp) (by simp only [List.mem_cons]; right; rw [← hpa]; exact hp)
    apply hk.1
    simp only [List.mem_map]
    exact ⟨p, hp, this.symm⟩

end DendroModel.C19.Aux

namespace DendroModel.C19

/-- what an operation that makes a NEW matrix object has to establish: it is appended to the pool with rows `R`, every matrix
    that was there has the rows it had, no sharing (in particular none between the new matrix and its sources) -/
structure FreshOK (w w' : World) (R : Rows) : Prop where
  len : w'.mats.length = w.mats.length + 1
  rows : rowsOf w' w.mats.length = R
  frame : ∀ m, m < w.mats.length → rowsOf w' m = rowsOf w m
  sep : Sep w'
  metas : (metas w').take w.mats.length = metas w

/-- **copy construction and column export on objects**: on a pool without shared objects the deep copy has one new object
    per row (`f` applied to each: the identity for `cls(m)`, the column filter for `export_character_indices`), the source and
    every other matrix keep their rows, and the result shares nothing with anything -/
theorem hCloneWith_sim (f : Row → Row) (keepSubs : Bool) (w w' : World) (i : Nat) (hs : Sep w)
    (h : hCloneWith f keepSubs w i = .ok w') :
    FreshOK w w' ((rowsOf w i).map (fun p => (p.1, f p.2))) := by
  simp only [hCloneWith] at h
  split at h
  · cases h
  · next m hm =>
    have hrefs : refsOf w i = m.refs := by simp [refsOf, hm]
    have hnd : (Aux.addrs m.refs).Nodup := by
      rw [← hrefs]
      exact Aux.addrs_nodup _ (hs.keysNd i) (fun k k' a h1 h2 => (hs.inj i i k k' a h1 h2).2)
    have hcl := Aux.cloneLoop_distinct f w.heap m.refs [] w.heap [] hnd (by intro a _; rfl)
    simp only [hcl, List.nil_append] at h
    cases h
    have hpush := Aux.refsOf_push w { m with refs := Aux.freshRefs w.heap.length m.refs, subs := if keepSubs then m.subs else [] }
      (w.heap ++ List.map (fun p => f (hget w.heap p.2)) m.refs)
    refine ⟨by simp, ?_, ?_, ⟨?_, ?_, ?_⟩, ?_⟩
    · simp only [rowsOf, hpush, Nat.lt_irrefl, if_false, if_true]
      rw [Aux.deref_freshRefs (fun p => f (hget w.heap p.2)) m.refs w.heap, hrefs]
      simp [deref, List.map_map, Function.comp_def]
    · intro k hk
      simp only [rowsOf, hpush, hk, if_true]
      exact Aux.deref_append _ _ _ (hs.bound k)
    · intro k a ha
      rw [hpush] at ha
      simp only [List.length_append, List.length_map]
      by_cases hk : k < w.mats.length
      · simp only [hk, if_true] at ha; have := hs.bound k a ha; omega
      · by_cases hk' : k = w.mats.length
        · subst hk'
          simp only [Nat.lt_irrefl, if_false, if_true, Aux.addrs, List.mem_map] at ha
          obtain ⟨p, hp, hpa⟩ := ha
          have := Aux.mem_freshRefs _ _ p.1 p.2 hp
          omega
        · simp [hk, hk', Aux.addrs] at ha
    · intro k
      rw [hpush]
      by_cases hk : k < w.mats.length
      · simp only [hk, if_true]; exact hs.keysNd k
      · by_cases hk' : k = w.mats.length
        · subst hk'
          simp only [Nat.lt_irrefl, if_false, if_true, Aux.akeys_freshRefs]; rw [← hrefs]; exact hs.keysNd i
        · simp [hk, hk', akeys]
    · intro k k' t t' a h1 h2
      rw [hpush] at h1 h2
      have old : ∀ k0 t0, (t0, a) ∈ refsOf w k0 → a < w.heap.length := fun k0 t0 hmem =>
        hs.bound k0 a (by simp only [Aux.addrs, List.mem_map]; exact ⟨(t0, a), hmem, rfl⟩)
      by_cases hk : k < w.mats.length <;> by_cases hk2 : k' < w.mats.length
      · simp only [hk, hk2, if_true] at h1 h2; exact hs.inj k k' t t' a h1 h2
      · simp only [hk, hk2, if_true, if_false] at h1 h2
        by_cases hk' : k' = w.mats.length
        · subst hk'
          simp only [if_true] at h2
          have := Aux.mem_freshRefs _ _ t' a h2; have := old k t h1; omega
        · simp [hk'] at h2
      · simp only [hk, hk2, if_true, if_false] at h1 h2
        by_cases hk' : k = w.mats.length
        · subst hk'
          simp only [if_true] at h1
          have := Aux.mem_freshRefs _ _ t a h1; have := old k' t' h2; omega
        · simp [hk'] at h1
      · simp only [hk, hk2, if_false] at h1 h2
        by_cases hk' : k = w.mats.length <;> by_cases hk2' : k' = w.mats.length
        · subst hk'; subst hk2'
          simp only [if_true] at h1 h2
          exact ⟨rfl, Aux.freshRefs_inj _ _ t t' a h1 h2⟩
        · simp [hk2'] at h2
        · simp [hk'] at h1
        · simp [hk'] at h1
    · simp [metas]

end DendroModel.C19

namespace DendroModel.C19

/-- the calls into the library proper: everything but the two by which the USER makes two dict entries hold one object
    (`m[t] = <sequence object>`, `copy.copy(m)`) -/
def HCall.library : HCall → Prop
  | .setSeq _ _ _ _ => False
  | .copy _ => False
  | _ => True

end DendroModel.C19

namespace DendroModel.C19.Aux
open DendroModel.C19

theorem refsOf_modAt_meta (w : World) (i : Nat) (f : HMat → HMat) (hf : ∀ m, (f m).refs = m.refs) (k : Nat) :
    refsOf { w with mats := modAt i f w.mats } k = refsOf w k := by
  simp only [refsOf, getElem?_modAt]
  by_cases hk : k = i
  · subst hk; cases w.mats[k]? <;> simp [hf]
  · simp [hk]

theorem length_unbind (w : World) (i : Nat) (t : Taxon) : (unbind w i t).mats.length = w.mats.length := by
  simp only [unbind, setRefs, length_modAt]

theorem hRemoveM_sep (i j : Nat) : ∀ (ts : List Taxon) (w : World), Sep w → i < w.mats.length → Sep (hRemoveM i j ts w).1
  | [], _, hs, _ => hs
  | t :: ts, w, hs, hi => by
    simp only [hRemoveM]
    cases hHas w j t
    · simp only [Bool.false_eq_true, if_false]; exact hRemoveM_sep i j ts w hs hi
    · simp only [if_true]
      cases hHas w i t
      · simpa using hs
      · simp only [if_true]
        exact hRemoveM_sep i j ts _ (unbind_ok w i t hs hi).sep (by rw [length_unbind]; exact hi)

theorem hDiscardM_sep (i j : Nat) : ∀ (ts : List Taxon) (w : World), Sep w → i < w.mats.length → Sep (hDiscardM i j ts w)
  | [], _, hs, _ => hs
  | t :: ts, w, hs, hi => by
    simp only [hDiscardM, List.foldl_cons]
    cases hHas w j t
    · simp only [Bool.false_eq_true, if_false]; exact hDiscardM_sep i j ts w hs hi
    · simp only [if_true]
      cases hHas w i t
      · simp only [Bool.false_eq_true, if_false]; exact hDiscardM_sep i j ts w hs hi
      · simp only [if_true]
        exact hDiscardM_sep i j ts _ (unbind_ok w i t hs hi).sep (by rw [length_unbind]; exact hi)

theorem sep_push_empty (w : World) (m0 : HMat) (h0 : m0.refs = []) (hs : Sep w) :
    Sep { w with mats := w.mats ++ [m0] } := by
  have hpush := refsOf_push w m0 w.heap
  have hr : ∀ k, refsOf { w with mats := w.mats ++ [m0] } k = refsOf w k := by
    intro k
    rw [show ({ w with mats := w.mats ++ [m0] } : World) = { heap := w.heap, mats := w.mats ++ [m0] } from rfl, hpush]
    by_cases hk : k < w.mats.length
    · simp [hk]
    · have : refsOf w k = [] := by simp [refsOf, List.getElem?_eq_none (Nat.le_of_not_lt hk)]
      by_cases hk' : k = w.mats.length
      · subst hk'; simp [h0, this]
      · simp [hk, hk', this]
  exact sep_of_refs w _ hr (Nat.le_refl _) hs

theorem hConcatLoop_sep (ns : Nat) (taxa : List Taxon) (nseqs n : Nat) :
    ∀ (args : List Nat) (st st' : World × List (Label × List Nat) × Nat) (cidx : Nat), Sep st.1 → n < st.1.mats.length →
      hConcatLoop ns taxa nseqs n st cidx args = .ok st' → Sep st'.1 ∧ st'.1.mats.length = st.1.mats.length
  | [], st, st', _, hs, _, h => by simp only [hConcatLoop] at h; cases h; exact ⟨hs, rfl⟩
  | j :: rest, st, st', cidx, hs, hn, h => by
    simp only [hConcatLoop] at h
    split at h
    · cases h
    · next st1 h1 =>
      simp only [hConcatStep] at h1
      split at h1
      · cases h1
      · split at h1
        · cases h1
        · cases h1
          have ok := hBinLoop_ok .extendMatrix n j st.1 hs hn
          have hl := length_of_metas _ _ ok.metas
          have := hConcatLoop_sep ns taxa nseqs n rest _ st' (cidx + 1) ok.sep (by rw [hl]; exact hn) h
          exact ⟨this.1, by rw [this.2, hl]⟩

end DendroModel.C19.Aux

namespace DendroModel.C19

/-- **No operation of the library creates sharing.**  If no two dict entries of the pool hold one sequence object, then after
    any call other than `m[t] = <sequence object>` and `copy.copy(m)` — whatever its outcome, whichever matrices it names,
    the same one twice included — still no two do. -/
theorem hStep_sep (w : World) (c : HCall) (hs : Sep w) (hlib : c.library) (hv : ∀ i ∈ c.positions, i < w.mats.length) :
    Sep (hStep w c).1 := by
  cases c with
  | bin op i j =>
    simp only [hStep]
    cases h : hBin op w i j with
    | error e => exact hs
    | ok w' => exact (hBin_sim op w w' i j hs h).sep
  | remove i taxa => exact (Aux.hRemove_ok i taxa w hs (hv i (by simp [HCall.positions]))).1.sep
  | discard i taxa => exact (Aux.hDiscard_ok i taxa w hs (hv i (by simp [HCall.positions]))).sep
  | keep i taxa => exact (Aux.hKeep_ok i taxa w hs (hv i (by simp [HCall.positions]))).sep
  | removeM i j => exact Aux.hRemoveM_sep i j _ w hs (hv i (by simp [HCall.positions]))
  | discardM i j => exact Aux.hDiscardM_sep i j _ w hs (hv i (by simp [HCall.positions]))
  | keepM i j => exact (Aux.hKeep_ok i _ w hs (hv i (by simp [HCall.positions]))).sep
  | fill i v size app => exact (hFill_sim v size app i w hs (hv i (by simp [HCall.positions]))).1.sep
  | fillTaxa i => exact (hFill_sim 0 none true i w hs (hv i (by simp [HCall.positions]))).2.1.sep
  | pack i v size app => exact (hFill_sim v size app i w hs (hv i (by simp [HCall.positions]))).2.2.sep
  | getItem i t =>
    have hi := hv i (by simp [HCall.positions])
    simp only [hStep, hGetItem]
    cases aget? t (refsOf w i) with
    | some a => exact hs
    | none =>
      cases (taxaOf w i).contains t
      · exact hs
      · exact (Aux.allocBind_ok w i t [] hs hi).sep
  | setItem i t row =>
    have hi := hv i (by simp [HCall.positions])
    simp only [hStep, hSetItem]
    cases (taxaOf w i).contains t
    · exact hs
    · exact (Aux.allocBind_ok w i t row hs hi).sep
  | newSeq i t row =>
    have hi := hv i (by simp [HCall.positions])
    simp only [hStep, hNewSeq]
    cases hHas w i t
    · cases (taxaOf w i).contains t
      · exact hs
      · exact (Aux.allocBind_ok w i t row hs hi).sep
    · exact hs
  | delItem i t =>
    have hi := hv i (by simp [HCall.positions])
    simp only [hStep, hDelItem]
    cases hHas w i t
    · exact hs
    · exact (Aux.unbind_ok w i t hs hi).sep
  | clear i => exact (Aux.hClear_ok w i hs (hv i (by simp [HCall.positions]))).sep
  | newSubset i lab idx =>
    simp only [hStep, hNewSubset]
    cases hm : w.mats[i]? with
    | none => exact hs
    | some m =>
      simp only
      cases hasSub m.subs lab
      · exact Aux.sep_of_refs w _ (Aux.refsOf_modAt_meta w i _ (fun _ => rfl)) (Nat.le_refl _) hs
      · exact hs
  | clone i =>
    simp only [hStep]
    cases h : hClone w i with
    | error e => exact hs
    | ok w' => exact (hCloneWith_sim _ _ w w' i hs h).sep
  | exportIdx i idx =>
    simp only [hStep]
    cases h : hExportIdx w i idx with
    | error e => exact hs
    | ok w' => exact (hCloneWith_sim _ _ w w' i hs h).sep
  | exportSub i lab =>
    simp only [hStep]
    cases h : hExportSub w i lab with
    | error e => exact hs
    | ok w' =>
      simp only [hExportSub] at h
      split at h
      · cases h
      · split at h
        · cases h
        · exact (hCloneWith_sim _ _ w w' i hs h).sep
  | concat args =>
    simp only [hStep]
    cases h : hConcat w args with
    | error e => exact hs
    | ok w' =>
      simp only [hConcat] at h
      split at h
      · cases h
      · split at h
        · cases h
        · next j0 _ m0 hm0 =>
          split at h
          · cases h
          · next w1 subs pos hl =>
            cases h
            have hs0 := Aux.sep_push_empty w { ns := m0.ns, taxa := m0.taxa, label := none, refs := [], subs := [] } rfl hs
            have key := fun hn => Aux.hConcatLoop_sep _ _ _ _ _ _ _ 0 hs0 hn hl
            have := key (by simp)
            exact Aux.sep_of_refs w1 _ (Aux.refsOf_modAt_meta w1 _ _ (fun _ => rfl)) (Nat.le_refl _) this.1
  | setSeq i t j u => exact absurd hlib (by simp [HCall.library])
  | copy i => exact absurd hlib (by simp [HCall.library])

end DendroModel.C19

namespace DendroModel.C19

/-- every call of a history names matrices the pool has at that moment -/
def validRun : World → List HCall → Prop
  | _, [] => True
  | w, c :: cs => (∀ i ∈ c.positions, i < w.mats.length) ∧ validRun (hStep w c).1 cs

/-- **Histories.**  Starting from a pool without shared sequence objects, after ANY sequence of library calls (any operands,
    repeated and self-referential ones included, any outcomes) the pool is again without shared objects — so each call of the
    history is covered by `hBin_sim` / `hUnary_sim` / `hFill_sim` / `hElement_sim` / `hCloneWith_sim`: it acts on the value of its
    matrix exactly as the value-level model says and on no other matrix at all. -/
theorem hRun_sep : ∀ (cs : List HCall) (w : World), Sep w → (∀ c ∈ cs, c.library) → validRun w cs → Sep (hRun w cs)
  | [], _, hs, _, _ => hs
  | c :: cs, w, hs, hlib, hv => by
    simp only [hRun, List.foldl_cons]
    exact hRun_sep cs _ (hStep_sep w c hs (hlib c (by simp)) hv.1) (fun c' hc' => hlib c' (by simp [hc'])) hv.2

end DendroModel.C19

namespace DendroModel.C19.Aux
open DendroModel.C19

/-- non-vacuity: a separated world, and calls on it with equal operands -/
def wEx : World :=
  { heap := [[1, 2], [3]], mats := [{ ns := 0, taxa := [0, 1], label := none, refs := [(0, 0), (1, 1)], subs := [] }] }

theorem wEx_refs (i : Nat) : refsOf wEx i = if i = 0 then [(0, 0), (1, 1)] else [] := by
  cases i <;> simp [refsOf, wEx]

theorem ex_sep : Sep wEx := by
  refine ⟨?_, ?_, ?_⟩
  · intro i a ha
    rw [wEx_refs] at ha
    by_cases hi : i = 0
    · simp only [hi, if_true, addrs, List.map_cons, List.map_nil, List.mem_cons, List.not_mem_nil, or_false] at ha
      rcases ha with h | h <;> subst h <;> decide
    · simp [hi, addrs] at ha
  · intro i
    rw [wEx_refs]
    by_cases hi : i = 0 <;> simp [hi, akeys]
  · intro i i' k k' a h1 h2
    rw [wEx_refs] at h1 h2
    by_cases hi : i = 0
    · by_cases hi' : i' = 0
      · simp only [hi, hi', if_true, List.mem_cons, Prod.mk.injEq, List.not_mem_nil, or_false] at h1 h2
        refine ⟨by rw [hi, hi'], ?_⟩
        rcases h1 with ⟨h1a, h1b⟩ | ⟨h1a, h1b⟩ <;> rcases h2 with ⟨h2a, h2b⟩ | ⟨h2a, h2b⟩ <;> simp_all
      · simp [hi'] at h2
    · simp [hi] at h1

example : ∃ w', hBin .extendMatrix wEx 0 0 = .ok w' ∧ rowsOf w' 0 = [(0, [1, 2, 1, 2]), (1, [3, 3])] ∧ Sep w' :=
  ⟨_, rfl, rfl, (hBin_sim .extendMatrix wEx _ 0 0 ex_sep rfl).sep⟩

example : ∃ w', hExportIdx wEx 0 [1] = .ok w' ∧ rowsOf w' 1 = [(0, [2]), (1, [])] ∧ rowsOf w' 0 = rowsOf wEx 0 :=
  ⟨_, rfl, rfl, rfl⟩

example : Sep (hRun wEx [.bin .update 0 0, .removeM 0 0, .fillTaxa 0, .clone 0, .concat [0, 1, 0]]) :=
  hRun_sep _ wEx ex_sep (by intro c hc; simp at hc; rcases hc with h | h | h | h | h <;> subst h <;> trivial)
    (by simp only [validRun]; decide)

end DendroModel.C19.Aux

/-! ## `concatenate` on objects -/

namespace DendroModel.C19

/-- the values of the matrices a call names (in the order it names them) -/
def argViews (w : World) (args : List Nat) : List Matrix := args.filterMap (fun j => (views w)[j]?)

end DendroModel.C19

namespace DendroModel.C19.Aux
open DendroModel.C19

theorem concatStep_acc (ns : Nat) (taxa : List Taxon) (nseqs : Nat) (acc : Rows) (subs : List (Label × List Nat)) (pos cidx : Nat)
    (cm : Matrix) :
    concatStep ns taxa nseqs ⟨acc, subs, pos⟩ cidx cm =
      (match concatStep ns taxa nseqs ⟨[], subs, pos⟩ cidx cm with
        | .error e => .error e
        | .ok st' => .ok { st' with acc := extendMatrix acc cm.rows }) := by
  simp only [concatStep]
  split; · rfl
  split; · rfl
  split; · rfl
  split; · rfl
  split; · rfl
  split; · rfl
  rfl

theorem views_getElem? (w : World) (j : Nat) : (views w)[j]? = (w.mats[j]?).map (viewM w.heap) := by
  simp [views]

theorem view_congr (w w' : World) (j : Nat) (hm : metas w' = metas w) (hr : rowsOf w' j = rowsOf w j) :
    (views w')[j]? = (views w)[j]? := by
  have hj := congrArg (fun l => l[j]?) hm
  simp only [metas, List.getElem?_map] at hj
  simp only [views_getElem?]
  simp only [rowsOf, refsOf] at hr
  cases h1 : w'.mats[j]? with
  | none => cases h2 : w.mats[j]? with
    | none => rfl
    | some m => simp [h1, h2] at hj
  | some m' => cases h2 : w.mats[j]? with
    | none => simp [h1, h2] at hj
    | some m =>
      simp only [h1, h2, Option.map_some, Option.some.injEq, Prod.mk.injEq] at hj
      simp only [h1, h2] at hr
      simp only [Option.map_some, viewM, hr, hj.1, hj.2.1, hj.2.2.1, hj.2.2.2]

theorem argViews_congr (w w' : World) (args : List Nat) (hm : metas w' = metas w) (hr : ∀ j ∈ args, rowsOf w' j = rowsOf w j) :
    argViews w' args = argViews w args := by
  induction args with
  | nil => rfl
  | cons j rest ih =>
    simp only [argViews, List.filterMap_cons] at ih ⊢
    rw [view_congr w w' j hm (hr j (by simp))]
    rw [ih (fun j' hj' => hr j' (by simp [hj']))]

theorem hConcatLoop_sim (ns : Nat) (taxa : List Taxon) (nseqs n : Nat) :
    ∀ (args : List Nat) (st st' : World × List (Label × List Nat) × Nat) (cidx : Nat), Sep st.1 → n < st.1.mats.length →
      (∀ j ∈ args, j ≠ n) → hConcatLoop ns taxa nseqs n st cidx args = .ok st' →
      ∃ cst, concatLoop ns taxa nseqs ⟨rowsOf st.1 n, st.2.1, st.2.2⟩ cidx (argViews st.1 args) = .ok cst ∧
        rowsOf st'.1 n = cst.acc ∧ st'.2.1 = cst.subs ∧ st'.2.2 = cst.pos ∧
        (∀ m, m ≠ n → rowsOf st'.1 m = rowsOf st.1 m) ∧ Sep st'.1 ∧ metas st'.1 = metas st.1
  | [], st, st', _, hs, _, _, h => by
    simp only [hConcatLoop] at h; cases h
    exact ⟨_, rfl, rfl, rfl, rfl, fun _ _ => rfl, hs, rfl⟩
  | j :: rest, st, st', cidx, hs, hn, hne, h => by
    simp only [hConcatLoop] at h
    split at h
    · cases h
    · next st1 h1 =>
      simp only [hConcatStep] at h1
      split at h1
      · cases h1
      · next mj hmj =>
        split at h1
        · cases h1
        · next cst1 hc1 =>
          cases h1
          have ok := hBinLoop_ok .extendMatrix n j st.1 hs hn
          have hl := length_of_metas _ _ ok.metas
          have hjn : j ≠ n := hne j (by simp)
          obtain ⟨cst, hloop, hrows, hsubs, hpos, hframe, hsep, hmet⟩ :=
            hConcatLoop_sim ns taxa nseqs n rest _ st' (cidx + 1) ok.sep (by rw [hl]; exact hn)
              (fun j' hj' => hne j' (by simp [hj'])) h
          have hview : (views st.1)[j]? = some (viewM st.1.heap mj) := by simp [views_getElem?, hmj]
          have hvrows : (viewM st.1.heap mj).rows = rowsOf st.1 j := by simp [viewM, rowsOf, refsOf, hmj]
          have hargs : argViews (hBinLoop .extendMatrix n j st.1) rest = argViews st.1 rest :=
            argViews_congr _ _ rest ok.metas (fun j' hj' => ok.frame j' (hne j' (by simp [hj'])))
          refine ⟨cst, ?_, hrows, hsubs, hpos, ?_, hsep, by rw [hmet, ok.metas]⟩
          · simp only [argViews, List.filterMap_cons, hview]
            simp only [concatLoop]
            rw [concatStep_acc, hc1]
            simp only
            simp only [argViews] at hargs hloop
            rw [hargs, ok.rows, binFn] at hloop
            rw [hvrows]
            exact hloop
          · intro m hm
            rw [hframe m hm, ok.frame m hm]

end DendroModel.C19.Aux

namespace DendroModel.C19.Aux
open DendroModel.C19

theorem rowsOf_push_lt (w : World) (m0 : HMat) (k : Nat) (hk : k < w.mats.length) :
    rowsOf { w with mats := w.mats ++ [m0] } k = rowsOf w k := by
  have := refsOf_push w m0 w.heap k
  simp only [hk, if_true] at this
  simp only [rowsOf]
  rw [show ({ w with mats := w.mats ++ [m0] } : World) = { heap := w.heap, mats := w.mats ++ [m0] } from rfl, this]

theorem views_push_lt (w : World) (m0 : HMat) (k : Nat) (hk : k < w.mats.length) :
    (views { w with mats := w.mats ++ [m0] })[k]? = (views w)[k]? := by
  simp [views, List.getElem?_append_left, hk]

theorem argViews_push (w : World) (m0 : HMat) (args : List Nat) (hv : ∀ j ∈ args, j < w.mats.length) :
    argViews { w with mats := w.mats ++ [m0] } args = argViews w args := by
  induction args with
  | nil => rfl
  | cons j rest ih =>
    simp only [argViews, List.filterMap_cons] at ih ⊢
    rw [views_push_lt w m0 j (hv j (by simp)), ih (fun j' hj' => hv j' (by simp [hj']))]

end DendroModel.C19.Aux

namespace DendroModel.C19

/-- **`concatenate` on objects** = `concatenate` on the values of the matrices it names — in the order it names them, the same
    object named several times included (`concatenate([m, m])`): on a pool without shared objects a successful call appends
    ONE new matrix whose value is the value-level result, leaves every matrix of the pool (all arguments) as it was, and the
    new matrix shares no sequence object with anything. -/
theorem hConcat_sim (w w' : World) (args : List Nat) (hs : Sep w) (hv : ∀ j ∈ args, j < w.mats.length)
    (h : hConcat w args = .ok w') :
    ∃ r, concatenate (argViews w args) = .ok r ∧ FreshOK w w' r.rows ∧ (views w')[w.mats.length]? = some r := by
  simp only [hConcat] at h
  split at h
  · cases h
  · next j0 tl =>
    split at h
    · cases h
    · next m0 hm0 =>
      split at h
      · cases h
      · next w1 subs pos hl =>
        cases h
        have hs0 := Aux.sep_push_empty w { ns := m0.ns, taxa := m0.taxa, label := none, refs := [], subs := [] } rfl hs
        have hne : ∀ j ∈ j0 :: tl, j ≠ w.mats.length := fun j hj => Nat.ne_of_lt (hv j hj)
        obtain ⟨cst, hloop, hrows, hsubs, hpos, hframe, hsep, hmet⟩ :=
          Aux.hConcatLoop_sim m0.ns m0.taxa m0.refs.length w.mats.length (j0 :: tl) _ _ 0 hs0 (by simp) hne hl
        have hargs := Aux.argViews_push w { ns := m0.ns, taxa := m0.taxa, label := none, refs := [], subs := [] } (j0 :: tl) hv
        have hr0 : rowsOf ({ w with mats := w.mats ++ [{ ns := m0.ns, taxa := m0.taxa, label := none, refs := [], subs := [] }] } : World)
            w.mats.length = [] := by
          simp [rowsOf, refsOf, deref]
        simp only at hloop hrows hsubs hpos hframe hsep hmet
        rw [hargs, hr0] at hloop
        have hview0 : (views w)[j0]? = some (viewM w.heap m0) := by simp [Aux.views_getElem?, hm0]
        have hav : argViews w (j0 :: tl) = viewM w.heap m0 :: argViews w tl := by
          simp [argViews, List.filterMap_cons, hview0]
        have hfin : ∀ k, rowsOf ({ w1 with mats := modAt w.mats.length (fun m => { m with subs := subs }) w1.mats } : World) k = rowsOf w1 k := by
          intro k
          have := Aux.refsOf_modAt_meta w1 w.mats.length (fun m => { m with subs := subs }) (fun _ => rfl) k
          simp only [rowsOf]
          exact congrArg (deref w1.heap) this
        have hlen1 : w1.mats.length = w.mats.length + 1 := by
          have := Aux.length_of_metas _ _ hmet
          simpa using this
        refine ⟨{ ns := m0.ns, taxa := m0.taxa, label := none, rows := cst.acc, subs := cst.subs }, ?_, ⟨?_, ?_, ?_, ?_, ?_⟩, ?_⟩
        · rw [hav]
          rw [hav] at hloop
          simp only [concatenate, viewM]
          have hn : (deref w.heap m0.refs).length = m0.refs.length := by simp [deref]
          rw [hn]
          simp only [viewM] at hloop
          rw [hloop]
        · simp [Aux.length_modAt, hlen1]
        · rw [hfin, hrows]
        · intro m hm
          rw [hfin, hframe m (Nat.ne_of_lt hm), Aux.rowsOf_push_lt w _ m hm]
        · exact Aux.sep_of_refs w1 _ (Aux.refsOf_modAt_meta w1 _ _ (fun _ => rfl)) (Nat.le_refl _) hsep
        · have hm1 : metas w1 = metas w ++ [(m0.ns, m0.taxa, none, [])] := by
            rw [hmet]; simp [metas]
          simp only [metas] at hm1 ⊢
          apply List.ext_getElem?
          intro k
          have hk1 := congrArg (fun l => l[k]?) hm1
          simp only [List.getElem?_map, List.getElem?_take, Aux.getElem?_modAt] at hk1 ⊢
          by_cases hk : k < w.mats.length
          · have hkn : k ≠ w.mats.length := Nat.ne_of_lt hk
            simp only [hk, hkn, if_true, if_false]
            rw [hk1, List.getElem?_append_left (by simpa using hk)]
            simp
          · simp only [hk, if_false]
            rw [List.getElem?_eq_none (Nat.le_of_not_lt hk)]
            rfl
        · have hm1 : metas w1 = metas w ++ [(m0.ns, m0.taxa, none, [])] := by
            rw [hmet]; simp [metas]
          have hk1 := congrArg (fun l => l[w.mats.length]?) hm1
          simp only [metas, List.getElem?_map] at hk1
          rw [List.getElem?_append_right (by simp)] at hk1
          simp only [List.length_map, Nat.sub_self, List.getElem?_cons_zero] at hk1
          simp only [Aux.views_getElem?, Aux.getElem?_modAt, if_true]
          cases hw1 : w1.mats[w.mats.length]? with
          | none => simp [hw1] at hk1
          | some mn =>
            simp only [hw1, Option.map_some, Option.some.injEq, Prod.mk.injEq] at hk1
            have hrn : rowsOf w1 w.mats.length = deref w1.heap mn.refs := by simp [rowsOf, refsOf, hw1]
            simp only [Option.map_some, viewM, Option.some.injEq]
            rw [← hrn, hrows, hsubs, hk1.1, hk1.2.1, hk1.2.2.1]

end DendroModel.C19

/-! ## the pool a driver history starts from -/

namespace DendroModel.C19.Aux
open DendroModel.C19

theorem sep_push_fresh (w : World) (m' : HMat) (xs : List Row) (hs : Sep w) (hk : (akeys m'.refs).Nodup)
    (hb : ∀ k a, (k, a) ∈ m'.refs → w.heap.length ≤ a ∧ a < w.heap.length + xs.length)
    (hi : ∀ k k' a, (k, a) ∈ m'.refs → (k', a) ∈ m'.refs → k = k') :
    Sep { heap := w.heap ++ xs, mats := w.mats ++ [m'] } := by
  have hpush := refsOf_push w m' (w.heap ++ xs)
  refine ⟨?_, ?_, ?_⟩
  · intro k a ha
    rw [hpush] at ha
    simp only [List.length_append]
    by_cases hk1 : k < w.mats.length
    · simp only [hk1, if_true] at ha; have := hs.bound k a ha; omega
    · by_cases hk' : k = w.mats.length
      · subst hk'
        simp only [Nat.lt_irrefl, if_false, if_true, addrs, List.mem_map] at ha
        obtain ⟨p, hp, hpa⟩ := ha
        have := hb p.1 p.2 hp
        omega
      · simp [hk1, hk', addrs] at ha
  · intro k
    rw [hpush]
    by_cases hk1 : k < w.mats.length
    · simp only [hk1, if_true]; exact hs.keysNd k
    · by_cases hk' : k = w.mats.length
      · subst hk'; simp only [Nat.lt_irrefl, if_false, if_true]; exact hk
      · simp [hk1, hk', akeys]
  · intro k k' t t' a h1 h2
    rw [hpush] at h1 h2
    have old : ∀ k0 t0, (t0, a) ∈ refsOf w k0 → a < w.heap.length := fun k0 t0 hmem =>
      hs.bound k0 a (by simp only [addrs, List.mem_map]; exact ⟨(t0, a), hmem, rfl⟩)
    by_cases hk1 : k < w.mats.length <;> by_cases hk2 : k' < w.mats.length
    · simp only [hk1, hk2, if_true] at h1 h2; exact hs.inj k k' t t' a h1 h2
    · simp only [hk1, hk2, if_true, if_false] at h1 h2
      by_cases hk' : k' = w.mats.length
      · subst hk'
        simp only [if_true] at h2
        have := hb t' a h2; have := old k t h1; omega
      · simp [hk'] at h2
    · simp only [hk1, hk2, if_true, if_false] at h1 h2
      by_cases hk' : k = w.mats.length
      · subst hk'
        simp only [if_true] at h1
        have := hb t a h1; have := old k' t' h2; omega
      · simp [hk'] at h1
    · simp only [hk1, hk2, if_false] at h1 h2
      by_cases hk' : k = w.mats.length <;> by_cases hk2' : k' = w.mats.length
      · subst hk'; subst hk2'
        simp only [if_true] at h1 h2
        exact ⟨rfl, hi t t' a h1 h2⟩
      · simp [hk2'] at h2
      · simp [hk'] at h1
      · simp [hk'] at h1

theorem mem_enumRefs : ∀ (base : Nat) (rows : Rows) (k : Taxon) (a : Nat), (k, a) ∈ enumRefs base rows →
    base ≤ a ∧ a < base + rows.length
  | _, [], _, _, h => by simp [enumRefs] at h
  | b, (t, r) :: rest, k, a, h => by
    simp only [enumRefs, List.mem_cons, Prod.mk.injEq] at h
    rcases h with h | h
    · simp only [List.length_cons]; omega
    · have := mem_enumRefs (b + 1) rest k a h
      simp only [List.length_cons]; omega

theorem enumRefs_inj : ∀ (base : Nat) (rows : Rows) (k k' : Taxon) (a : Nat), (k, a) ∈ enumRefs base rows →
    (k', a) ∈ enumRefs base rows → k = k'
  | _, [], _, _, _, h, _ => by simp [enumRefs] at h
  | b, (t, r) :: rest, k, k', a, h1, h2 => by
    simp only [enumRefs, List.mem_cons, Prod.mk.injEq] at h1 h2
    rcases h1 with h1 | h1 <;> rcases h2 with h2 | h2
    · rw [h1.1, h2.1]
    · have := mem_enumRefs (b + 1) rest k' a h2; omega
    · have := mem_enumRefs (b + 1) rest k a h1; omega
    · exact enumRefs_inj (b + 1) rest k k' a h1 h2

theorem akeys_enumRefs : ∀ (base : Nat) (rows : Rows), akeys (enumRefs base rows) = keys rows
  | _, [] => rfl
  | b, (t, r) :: rest => by
    have := akeys_enumRefs (b + 1) rest
    simp only [akeys, keys] at this
    simp [enumRefs, akeys, keys, this]

theorem deref_enumRefs : ∀ (rows : Rows) (pre post : List Row),
    deref (pre ++ rows.map Prod.snd ++ post) (enumRefs pre.length rows) = rows
  | [], _, _ => by simp [deref, enumRefs]
  | (t, r) :: rest, pre, post => by
    have ih := deref_enumRefs rest (pre ++ [r]) post
    simp only [List.length_append, List.length_singleton, List.append_assoc, List.singleton_append] at ih
    simp only [enumRefs, List.map_cons, deref, List.append_assoc, List.cons_append] at ih ⊢
    rw [ih, hget_append_cons]

end DendroModel.C19.Aux

namespace DendroModel.C19

/-- the pool a `world` history of the driver starts from: every row of every matrix is a sequence object of its own, hence
    no sharing — the histories the driver runs are within the scope of `hRun_sep` and of the simulation theorems -/
theorem initWorld_sep (ms : List Matrix) (h : ∀ m ∈ ms, (keys m.rows).Nodup) : Sep (initWorld ms) := by
  have key : ∀ (ms : List Matrix) (st : List Row × List HMat), Sep ⟨st.1, st.2⟩ → (∀ m ∈ ms, (keys m.rows).Nodup) →
      Sep ⟨(ms.foldl initMat st).1, (ms.foldl initMat st).2⟩ := by
    intro ms
    induction ms with
    | nil => intro st hs _; exact hs
    | cons m rest ih =>
      intro st hs hnd
      simp only [List.foldl_cons]
      apply ih _ _ (fun m' hm' => hnd m' (by simp [hm']))
      simp only [initMat]
      have := Aux.sep_push_fresh ⟨st.1, st.2⟩ { ns := m.ns, taxa := m.taxa, label := m.label, refs := enumRefs st.1.length m.rows, subs := m.subs }
        (m.rows.map Prod.snd) hs (by rw [Aux.akeys_enumRefs]; exact hnd m (by simp))
        (fun k a hka => by have := Aux.mem_enumRefs _ _ k a hka; simpa using this)
        (fun k k' a h1 h2 => Aux.enumRefs_inj _ _ k k' a h1 h2)
      exact this
  have h0 : Sep ⟨[], []⟩ := by
    refine ⟨?_, ?_, ?_⟩
    · intro i a ha; simp [refsOf, Aux.addrs] at ha
    · intro i; simp [refsOf, akeys]
    · intro i i' k k' a h1; simp [refsOf] at h1
  exact key ms ([], []) h0 h

end DendroModel.C19

/-! ## wave 2: shared objects, size observables after histories, the initial pool, the row object (`Model/C19Seq.lean`) -/

namespace DendroModel.C19.Aux
open DendroModel.C19

theorem hget_set (h : List Row) (a b : Nat) (r : Row) (ha : a < h.length) :
    hget (h.set a r) b = if b = a then r else hget h b := by
  by_cases hb : b = a
  · subst hb; simp [hget_set_self h b r ha]
  · simp [hb, hget_set_ne h a b r (fun e => hb e.symm)]

end DendroModel.C19.Aux

namespace DendroModel.C19

/-- **Shared objects: an in-place change shows under every name of the object and nowhere else.**  No separation hypothesis:
    whatever the sharing partition of the pool, after the sequence object stored under `k` in matrix `i` (address `a`) has been
    changed in place (`seq.extend`, `v.append`, `del vec[i]` — `writeSlot`), the row seen through ANY dict entry `(m, t)` of ANY
    matrix is the new content if that entry holds the same object, and exactly what it was otherwise; no dict changes. -/
theorem writeSlot_sharing (w : World) (i : Nat) (k : Taxon) (r : Row) (a : Nat) (hk : aget? k (refsOf w i) = some a)
    (ha : a < w.heap.length) (m : Nat) (t : Taxon) :
    refsOf (writeSlot w i k r) m = refsOf w m ∧
    hRow (writeSlot w i k r) m t = (if aget? t (refsOf w m) = some a then r else hRow w m t) := by
  have hw : writeSlot w i k r = { w with heap := w.heap.set a r } := by simp [writeSlot, hk]
  rw [hw]
  refine ⟨rfl, ?_⟩
  have hr : refsOf ({ w with heap := w.heap.set a r } : World) m = refsOf w m := rfl
  simp only [hRow, hr]
  cases hg : aget? t (refsOf w m) with
  | none => simp
  | some b =>
    simp only [Option.map_some, Option.getD_some, Option.some.injEq, Aux.hget_set _ a b r ha]

/-- the padding loop and the in-place extension on a pool WITH sharing: one round of `extend_matrix` / `extend_sequences` on a
    taxon that has a row lengthens the object once — under every name it has — and touches no other object -/
theorem hBinStep_extend_sharing (i j : Nat) (w : World) (k : Taxon) (a : Nat) (hk : aget? k (refsOf w i) = some a)
    (ha : a < w.heap.length) (m : Nat) (t : Taxon) :
    hRow (hBinStep .extendMatrix i j w k) m t =
      (if aget? t (refsOf w m) = some a then hRow w i k ++ hRow w j k else hRow w m t) := by
  have hp : hHas w i k = true := by simp [hHas, hk]
  simp only [hBinStep, hp, if_true]
  exact (writeSlot_sharing w i k _ a hk ha m t).2

/-- **size observables after any history.**  Whatever sequence of operations (row algebra, fill, pack, element access, …)
    has been applied, `max_sequence_size` of the resulting matrix is the from-scratch maximum over ALL its rows (it bounds every
    row and is attained unless it is 0), and a `fill()` without a size then makes all rows exactly that long -/
theorem history_maxSeqSize (ops : List Op) (m : Matrix) (hm : WFN m) (hops : ∀ op ∈ ops, OpOK m.taxa op) :
    (∀ t r, get? t (run m ops).rows = some r → r.length ≤ maxSeqSize (run m ops)) ∧
    (maxSeqSize (run m ops) = 0 ∨ ∃ t r, get? t (run m ops).rows = some r ∧ r.length = maxSeqSize (run m ops)) ∧
    (∀ v app t r, get? t (step (run m ops) (.fill v none app)).rows = some r → r.length = maxSeqSize (run m ops)) := by
  have hw := (history_wfn ops m hm hops).1
  have hspec := maxSeqSize_spec (run m ops)
  refine ⟨?_, ?_, ?_⟩
  · intro t r hg
    exact hspec.1 t (hw.1.2.1 t (Aux.mem_keys_of_get? t _ r hg)) r hg
  · rcases hspec.2 with h | ⟨t, _, r, hg, hl⟩
    · exact Or.inl h
    · exact Or.inr ⟨t, r, hg, hl⟩
  · intro v app t r hg
    simp only [step] at hg
    exact fill_all_equal v none app _ hw.2 _ hw.1.2.1 (Nat.le_refl _) t r hg

end DendroModel.C19

namespace DendroModel.C19.Aux
open DendroModel.C19

/-- non-vacuity: a pool in which two entries hold one object; extending through one name shows under the other -/
def wShared : World :=
  { heap := [[1, 2], [3]], mats := [{ ns := 0, taxa := [0, 1, 2], label := none, refs := [(0, 0), (1, 1), (2, 0)], subs := [] }] }

example : hRow (writeSlot wShared 0 0 [9]) 0 2 = [9] ∧ hRow (writeSlot wShared 0 0 [9]) 0 1 = [3] := by
  have h := fun t => writeSlot_sharing wShared 0 0 [9] 0 rfl (by decide) 0 t
  exact ⟨(h 2).2, (h 1).2⟩

example : maxSeqSize (run mA [.extendMatrix mB, .delItem 1, .setItem 1 [4]]) = 3 := by decide

end DendroModel.C19.Aux


namespace DendroModel.C19

/-- **the pool a driver history starts from denotes the matrices it was given**: `views (initWorld ms) = ms` -/
theorem initWorld_views (ms : List Matrix) : views (initWorld ms) = ms := by
  have key : ∀ (ms : List Matrix) (st : List Row × List HMat),
      (∀ m' ∈ st.2, ∀ a ∈ Aux.addrs m'.refs, a < st.1.length) →
      views ⟨(ms.foldl initMat st).1, (ms.foldl initMat st).2⟩ = views ⟨st.1, st.2⟩ ++ ms := by
    intro ms
    induction ms with
    | nil => intro st _; simp
    | cons m rest ih =>
      intro st hb
      simp only [List.foldl_cons]
      have hb' : ∀ m' ∈ (initMat st m).2, ∀ a ∈ Aux.addrs m'.refs, a < (initMat st m).1.length := by
        intro m' hm' a ha
        simp only [initMat, List.mem_append, List.mem_singleton, List.length_append, List.length_map] at hm' ⊢
        rcases hm' with hm' | hm'
        · have := hb m' hm' a ha; omega
        · subst hm'
          simp only [Aux.addrs, List.mem_map] at ha
          obtain ⟨p, hp, hpa⟩ := ha
          have := Aux.mem_enumRefs _ _ p.1 p.2 hp
          omega
      rw [ih (initMat st m) hb']
      have hstep : views ⟨(initMat st m).1, (initMat st m).2⟩ = views ⟨st.1, st.2⟩ ++ [m] := by
        simp only [views, initMat, List.map_append, List.map_cons, List.map_nil]
        congr 1
        · apply List.map_congr_left
          intro m' hm'
          simp only [viewM]
          rw [Aux.deref_append _ _ _ (hb m' hm')]
        · have := Aux.deref_enumRefs m.rows st.1 []
          simp only [List.append_nil] at this
          simp only [viewM, this]
      rw [hstep, List.append_assoc]
      rfl
  have := key ms ([], []) (by intro m' hm'; simp at hm')
  simpa [initWorld, views] using this

end DendroModel.C19

namespace DendroModel.C19.Aux
open DendroModel.C19
example : views (initWorld [mA, mB]) = [mA, mB] := initWorld_views _
end DendroModel.C19.Aux


namespace DendroModel.C19

/-- values, character types and annotations of a row object are in step -/
def Aligned (s : Seq3) : Prop := s.types.length = s.vals.length ∧ s.annots.length = s.vals.length

/-- the two calls that cannot keep the three lists in step (on a sequence of `n` values): `extend` with a list of types or
    annotations of another length than the values, and a slice assignment of another number of values than the slice holds -/
def SeqOp.breaks (n : Nat) : SeqOp → Prop
  | .extend vs ts as => (∃ tl, ts = some tl ∧ tl.length ≠ vs.length) ∨ (∃ al, as = some al ∧ al.length ≠ vs.length)
  | .setSlice lo hi vs => vs.length ≠ (pySlice n lo hi).2 - (pySlice n lo hi).1
  | _ => False

/-- calls that keep the lists in step whatever the length -/
def SeqOp.safe : SeqOp → Prop
  | .extend vs ts as => (∀ tl, ts = some tl → tl.length = vs.length) ∧ (∀ al, as = some al → al.length = vs.length)
  | .setSlice _ _ _ => False
  | _ => True

end DendroModel.C19

namespace DendroModel.C19.Aux
open DendroModel.C19

theorem pyIdx_lt (n : Nat) (i : Int) (k : Nat) (h : pyIdx n i = some k) : k < n := by
  simp only [pyIdx] at h
  split at h
  · split at h
    · cases h; assumption
    · cases h
  · split at h
    · cases h; omega
    · cases h

theorem pyClamp_le (n : Nat) (i : Int) : pyClamp n i ≤ n := by
  simp only [pyClamp]; split <;> omega

theorem pySlice_le (n : Nat) (lo hi : Option Int) : (pySlice n lo hi).1 ≤ (pySlice n lo hi).2 ∧ (pySlice n lo hi).2 ≤ n := by
  have h1 : ∀ i, pyClamp n i ≤ n := pyClamp_le n
  cases lo with
  | none => cases hi with
    | none => simp only [pySlice]; omega
    | some j => have := h1 j; simp only [pySlice]; omega
  | some i => cases hi with
    | none => have := h1 i; simp only [pySlice]; omega
    | some j => have := h1 i; have := h1 j; simp only [pySlice]; omega

theorem length_eraseIdx_lt (l : List Nat) (k : Nat) (h : k < l.length) : (l.eraseIdx k).length = l.length - 1 := by
  simp [List.length_eraseIdx, h]

end DendroModel.C19.Aux

namespace DendroModel.C19

/-- Python's index rule, spelled out: `l[i]` addresses position `i` for `0 ≤ i < n`, position `n + i` for `-n ≤ i < 0`,
    and is an IndexError otherwise -/
theorem pyIdx_spec (n : Nat) (i : Int) (k : Nat) :
    pyIdx n i = some k ↔ ((0 ≤ i ∧ i = k ∧ k < n) ∨ (i < 0 ∧ (k : Int) = n + i ∧ 0 ≤ (n : Int) + i)) := by
  simp only [pyIdx]
  constructor
  · intro h
    split at h
    · split at h
      · cases h; left; omega
      · cases h
    · split at h
      · cases h; right; omega
      · cases h
  · rintro (⟨h0, h1, h2⟩ | ⟨h0, h1, h2⟩)
    · have : i.toNat = k := by omega
      simp [h0, this, h2]
    · have hn : ¬ (0 ≤ i) := by omega
      have h3 : (-i).toNat ≤ n := by omega
      simp only [hn, if_false, h3, if_true, Option.some.injEq]
      omega

/-- (d, on the row object) what each call does to the VALUES — exactly the list operation it names — whatever happens to
    the other two lists and whether or not it raises afterwards -/
theorem seqStep_vals (s : Seq3) :
    (∀ v t a, (seqStep s (.append v t a)).1.vals = s.vals ++ [v]) ∧
    (∀ vs ts as, (seqStep s (.extend vs ts as)).1.vals = s.vals ++ vs) ∧
    (∀ i k, pyIdx s.vals.length i = some k → (seqStep s (.delItem i)).1.vals = s.vals.eraseIdx k) ∧
    (∀ i, pyIdx s.vals.length i = none → seqStep s (.delItem i) = (s, some .indexError)) ∧
    (∀ lo hi, (seqStep s (.delSlice lo hi)).1.vals = delRange s.vals (pySlice s.vals.length lo hi).1 (pySlice s.vals.length lo hi).2) ∧
    (∀ i v k, pyIdx s.vals.length i = some k → seqStep s (.setItem i v) = ({ s with vals := s.vals.set k v }, none)) ∧
    (∀ i v, pyIdx s.vals.length i = none → seqStep s (.setItem i v) = (s, some .indexError)) ∧
    (∀ lo hi vs, seqStep s (.setSlice lo hi vs) =
      ({ s with vals := setRange s.vals (pySlice s.vals.length lo hi).1 (pySlice s.vals.length lo hi).2 vs }, none)) ∧
    (∀ i v t a, (seqStep s (.insert i v t a)).1.vals = insertAt s.vals (pyClamp s.vals.length i) v ∧ (seqStep s (.insert i v t a)).2 = none) := by
  refine ⟨fun _ _ _ => rfl, ?_, ?_, ?_, fun _ _ => rfl, ?_, ?_, fun _ _ _ => rfl, fun _ _ _ _ => ⟨rfl, rfl⟩⟩
  · intro vs ts as
    cases ts <;> cases as <;> simp only [seqStep] <;> (repeat' split) <;> rfl
  · intro i k h
    simp only [seqStep, h]
    (repeat' split) <;> rfl
  · intro i h; simp only [seqStep, h]
  · intro i v k h; simp only [seqStep, h]
  · intro i v h; simp only [seqStep, h]

/-- **alignment is kept, or the call is one of the two that break it.**  On a row object whose three lists are in step,
    every call that is not `extend` with a wrong-length list / an unequal slice assignment leaves them in step — also when it
    raises `IndexError` — -/
theorem seqStep_aligned (s : Seq3) (op : SeqOp) (h : Aligned s) (hb : ¬ op.breaks s.vals.length) : Aligned (seqStep s op).1 := by
  obtain ⟨ht, ha⟩ := h
  cases op with
  | append v t a => simp [seqStep, Aligned, ht, ha]
  | extend vs ts as =>
    simp only [SeqOp.breaks, not_or, not_exists, not_and, Decidable.not_not] at hb
    cases ts with
    | none =>
      cases as with
      | none => simp [seqStep, Aligned, ht, ha]
      | some al => have := hb.2 al rfl; simp [seqStep, Aligned, ht, ha, this]
    | some tl =>
      have h1 := hb.1 tl rfl
      cases as with
      | none => simp [seqStep, Aligned, ht, ha, h1]
      | some al => have := hb.2 al rfl; simp [seqStep, Aligned, ht, ha, h1, this]
  | delItem i =>
    simp only [seqStep, ht, ha]
    cases hk : pyIdx s.vals.length i with
    | none => exact ⟨ht, ha⟩
    | some k =>
      have hlt := Aux.pyIdx_lt _ _ _ hk
      have e1 := Aux.length_eraseIdx_lt s.vals k hlt
      have e2 := Aux.length_eraseIdx_lt s.types k (by omega)
      have e3 := Aux.length_eraseIdx_lt s.annots k (by omega)
      simp only [Aligned]
      omega
  | delSlice lo hi =>
    simp [seqStep, ht, ha, Aligned, delRange]
  | setItem i v =>
    simp only [seqStep]
    cases pyIdx s.vals.length i with
    | none => exact ⟨ht, ha⟩
    | some k => simp [Aligned, ht, ha]
  | setSlice lo hi vs =>
    simp only [SeqOp.breaks, Decidable.not_not] at hb
    have hle := Aux.pySlice_le s.vals.length lo hi
    simp only [seqStep, Aligned, setRange, List.length_append, List.length_take, List.length_drop, ht, ha]
    omega
  | insert i v t a =>
    simp [seqStep, ht, ha, Aligned, insertAt]
  | setAt i v t a =>
    simp only [seqStep, padNone, List.length_append, List.length_replicate, ht, ha, List.length_set]
    cases pyIdx (s.vals.length + (i + 1 - (s.vals.length : Int)).toNat) i with
    | none => simp [Aligned, ht, ha]
    | some k => simp [Aligned, ht, ha]

/-- … and conversely the two kinds of call do break it: `extend` (of at least one value) raises `AssertionError` AFTER having
    extended the values, a slice assignment changes the values only -/
theorem seqStep_breaks (s : Seq3) (op : SeqOp) (h : Aligned s) (hb : op.breaks s.vals.length)
    (hne : ∀ vs ts as, op = .extend vs ts as → vs ≠ []) : ¬ Aligned (seqStep s op).1 := by
  obtain ⟨ht, ha⟩ := h
  cases op with
  | extend vs ts as =>
    have hpos : 0 < vs.length := by
      cases vs with
      | nil => exact absurd rfl (hne [] ts as rfl)
      | cons _ _ => simp
    simp only [SeqOp.breaks] at hb
    intro hal
    cases ts with
    | none =>
      rcases hb with ⟨tl, h1, _⟩ | ⟨al, h1, h2⟩
      · cases h1
      · cases h1
        simp only [seqStep, h2, ne_eq, not_false_eq_true, if_true, Aligned, List.length_append, List.length_replicate] at hal
        omega
    | some tl =>
      by_cases h1 : tl.length = vs.length
      · rcases hb with ⟨tl', h3, h4⟩ | ⟨al, h3, h4⟩
        · cases h3; exact h4 h1
        · cases h3
          simp only [seqStep, h1, ne_eq, not_true, if_false, h4, not_false_eq_true, if_true, Aligned, List.length_append] at hal
          omega
      · simp only [seqStep, h1, ne_eq, not_false_eq_true, if_true, Aligned, List.length_append] at hal
        omega
  | setSlice lo hi vs =>
    simp only [SeqOp.breaks] at hb
    have hle := Aux.pySlice_le s.vals.length lo hi
    intro hal
    simp only [seqStep, Aligned, setRange, List.length_append, List.length_take, List.length_drop] at hal
    omega
  | append _ _ _ => exact absurd hb (by simp [SeqOp.breaks])
  | delItem _ => exact absurd hb (by simp [SeqOp.breaks])
  | delSlice _ _ => exact absurd hb (by simp [SeqOp.breaks])
  | setItem _ _ => exact absurd hb (by simp [SeqOp.breaks])
  | insert _ _ _ _ => exact absurd hb (by simp [SeqOp.breaks])
  | setAt _ _ _ _ => exact absurd hb (by simp [SeqOp.breaks])

/-- the exact refusals on an aligned row object: `AssertionError` iff `extend` got a list of another length; an `IndexError`
    leaves the object exactly as it was -/
theorem seqStep_refusal (s : Seq3) (op : SeqOp) (h : Aligned s) :
    ((seqStep s op).2 = some .assertionError ↔ ∃ vs ts as, op = .extend vs ts as ∧ op.breaks s.vals.length) ∧
    ((seqStep s op).2 = some .indexError → (seqStep s op).1 = s) := by
  obtain ⟨ht, ha⟩ := h
  cases op with
  | append v t a => simp [seqStep]
  | extend vs ts as =>
    constructor
    · simp only [SeqOp.breaks]
      cases ts <;> cases as <;> simp only [seqStep] <;> (repeat' split) <;> simp_all
    · cases ts <;> cases as <;> simp only [seqStep] <;> (repeat' split) <;> simp
  | delItem i =>
    simp only [seqStep, ht, ha]
    cases pyIdx s.vals.length i <;> simp
  | delSlice lo hi => simp [seqStep]
  | setItem i v =>
    simp only [seqStep]
    cases pyIdx s.vals.length i <;> simp
  | setSlice lo hi vs => simp [seqStep]
  | insert i v t a => simp [seqStep]
  | setAt i v t a =>
    simp only [seqStep, padNone, List.length_append, List.length_replicate, ht, ha, List.length_set]
    cases hk : pyIdx (s.vals.length + (i + 1 - (s.vals.length : Int)).toNat) i with
    | some k => simp
    | none =>
      have hneg : (i + 1 - (s.vals.length : Int)).toNat = 0 := by
        simp only [pyIdx] at hk
        split at hk
        · split at hk
          · cases hk
          · omega
        · omega
      simp [hneg]

/-- **histories of edits on a row object**: any sequence of calls that are not of the two breaking kinds keeps values, types
    and annotations in step -/
theorem seqRun_aligned (ops : List SeqOp) (s : Seq3) (h : Aligned s) (hops : ∀ op ∈ ops, op.safe) : Aligned (seqRun s ops) := by
  induction ops generalizing s with
  | nil => exact h
  | cons op rest ih =>
    simp only [seqRun, List.foldl_cons]
    apply ih _ _ (fun o ho => hops o (by simp [ho]))
    apply seqStep_aligned s op h
    have hs := hops op (by simp)
    cases op <;> simp only [SeqOp.breaks, SeqOp.safe, not_false_eq_true] at hs ⊢
    · rintro (⟨tl, h1, h2⟩ | ⟨al, h1, h2⟩)
      · exact h2 (hs.1 tl h1)
      · exact h2 (hs.2 al h1)

end DendroModel.C19

namespace DendroModel.C19.Aux
open DendroModel.C19
def sEx : Seq3 := { vals := [1, 2, 3], types := [0, 1, 0], annots := [0, 0, 2] }
example : Aligned sEx := ⟨rfl, rfl⟩
example : seqStep sEx (.delItem (-1)) = ({ vals := [1, 2], types := [0, 1], annots := [0, 0] }, none) := by decide
example : (seqStep sEx (.extend [7] (some []) none)).2 = some .assertionError ∧ (seqStep sEx (.extend [7] (some []) none)).1.vals = [1, 2, 3, 7] := by decide
example : Aligned (seqRun sEx [.insert (-9) 5 1 1, .delSlice (some 1) none, .setAt 4 8 0 0, .extend [1, 1] none (some [2, 2])]) :=
  seqRun_aligned _ _ ⟨rfl, rfl⟩ (by intro op hop; simp at hop; rcases hop with h | h | h | h <;> subst h <;> simp [SeqOp.safe])
end DendroModel.C19.Aux

/-! # Tie A: the kernels regenerated from the source (`Gen/C19Kernels.lean`, `harness/gen/c19kernels.py`) -/

namespace DendroModel.C19
open DendroModel

/-- **bridge (tie A)**: the default subset label and the candidate names of the model are the formats read off the source -/
theorem gen_labels (base : Label) (cidx i : Nat) :
    locus cidx = C19Kernels.locusPrefix ++ pad3 cidx ∧ C19Kernels.locusWidth = 3 ∧
    cand base i = base ++ C19Kernels.candSep ++ pad3 i ∧ C19Kernels.candWidth = 3 := by
  refine ⟨?_, by decide, ?_, by decide⟩
  · have : "locus".toList = C19Kernels.locusPrefix := by decide
    simp only [locus, this]
  · have : C19Kernels.candSep = ['_'] := by decide
    simp [cand, this]

/-- **bridge**: the name search of the model is the loop of the source: it tries the label itself first, then the candidates
    from `firstSuffix` on in steps of `suffixStep`, and the name it re-tests is the one it has just built -/
theorem gen_search (subs : List (Label × List Nat)) (base : Label) (i : Nat) :
    C19Kernels.searchStartsAtLabel = true ∧ C19Kernels.searchRebindsTestedName = true ∧
    freeName subs base = (if hasSub subs base then freeFrom subs base C19Kernels.firstSuffix else base) ∧
    freeFrom subs base i = (if hasSub subs (cand base i) then freeFrom subs base (i + C19Kernels.suffixStep) else cand base i) := by
  refine ⟨by decide, by decide, rfl, ?_⟩
  rw [freeFrom]
  simp only [C19Kernels.suffixStep]
  split <;> simp_all

/-- **bridge**: a round of the model's `concatenate` refuses what the three guards of the source refuse, and a row of another
    length than the first; the recorded span and the next position are those of the source -/
theorem gen_concat_round (ns : Nat) (taxa : List Taxon) (nseqs : Nat) (st : CState) (cidx : Nat) (cm : Matrix) :
    (C19Kernels.guardRefuses (decide (cm.ns = ns)) cm.rows.length taxa.length nseqs = true →
      concatStep ns taxa nseqs st cidx cm = .error .valueError) ∧
    (∀ st', concatStep ns taxa nseqs st cidx cm = .ok st' →
      C19Kernels.guardRefuses (decide (cm.ns = ns)) cm.rows.length taxa.length nseqs = false ∧
      (∀ t0 ∈ taxa.head?, ∀ p ∈ items taxa cm.rows, C19Kernels.rowRefuses p.2.length (rowOf t0 cm.rows).length = false) ∧
      st'.pos = C19Kernels.nextPos st.pos (vectorSize cm.rows) ∧
      (∃ name, st'.subs = st.subs ++ [(name, C19Kernels.spanOf st.pos (vectorSize cm.rows))])) := by
  have hspan : ∀ p w, C19Kernels.spanOf p w = List.range' p w := by
    intro p w; simp [C19Kernels.spanOf]
  constructor
  · intro h
    simp only [C19Kernels.guardRefuses, Bool.or_eq_true, Bool.not_eq_true', decide_eq_false_iff_not, bne_iff_ne, ne_eq] at h
    simp only [concatStep]
    split; · rfl
    split; · rfl
    split; · rfl
    rename_i a b c
    exfalso
    rcases h with (h | h) | h
    · exact a h
    · exact b h
    · exact c h
  · intro st' h
    simp only [concatStep] at h
    split at h; · cases h
    split at h; · cases h
    split at h; · cases h
    rename_i h1 h2 h3
    split at h; · cases h
    rename_i t0 tl
    split at h; · cases h
    rename_i hrect
    split at h; · cases h
    cases h
    refine ⟨?_, ?_, rfl, ⟨_, by rw [hspan]⟩⟩
    · simp only [C19Kernels.guardRefuses, Bool.or_eq_false_iff, Bool.not_eq_false', decide_eq_true_eq, bne_eq_false_iff_eq]
      exact ⟨⟨Decidable.of_not_not h1, Decidable.of_not_not h2⟩, Decidable.of_not_not h3⟩
    · intro t0' ht0' p hp
      simp only [List.head?_cons, Option.mem_def, Option.some.injEq] at ht0'
      subst ht0'
      simp only [List.any_eq_true, not_exists, not_and, Bool.not_eq_true, bne_eq_false_iff_eq] at hrect
      simp only [C19Kernels.rowRefuses, bne_eq_false_iff_eq]
      exact hrect p hp

/-- **bridge**: the padding loop of the model is the `while` of the source (test, append / insert position) -/
theorem gen_pad (value : Cell) (size : Nat) (append : Bool) (v : Row) :
    C19Kernels.fillDefaultIsMax = true ∧
    padLoop value size append v =
      (if C19Kernels.padContinue v.length size then
        padLoop value size append (if append then v ++ [value] else v.insertIdx C19Kernels.prependIndex value)
       else v) := by
  refine ⟨by decide, ?_⟩
  rw [padLoop]
  simp [C19Kernels.padContinue, C19Kernels.prependIndex]

/-- **bridge**: the column filter of the model visits the cells as the source does (from `len - 1` down to `0`) and deletes
    the cells whose index is absent from the set -/
theorem gen_export (keep : Nat → Bool) (n : Nat) (v : Row) :
    C19Kernels.exportStartOffset = 1 ∧ C19Kernels.exportStop = -1 ∧ C19Kernels.exportStep = -1 ∧
    C19Kernels.exportDeletesAbsent = true ∧
    delLoop keep (n + 1) v = delLoop keep n (if keep (n + 1 - C19Kernels.exportStartOffset) then v else v.eraseIdx (n + 1 - C19Kernels.exportStartOffset)) := by
  refine ⟨by decide, by decide, by decide, by decide, ?_⟩
  simp only [delLoop, C19Kernels.exportStartOffset, Nat.add_sub_cancel]

end DendroModel.C19
