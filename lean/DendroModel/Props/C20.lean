import DendroModel.Model.C20
/-! C20 — property theorems about the reader models the driver runs (`drv_c20`).

Clause (a) "every reader terminates": all model functions are total Lean functions defined without fuel and without
`partial`; their recursion is on a strictly shorter input, which rests on `tokenizer_progress`.
Clause (c) "never an internal error": the models mark the places where the code would dereference a `None` token
or spin with the constructor `internal`; the theorems below show it is never produced.
Clause (d): `newick_balanced`, `ok_dims`. -/
namespace DendroModel.C20.Aux
open DendroModel DendroModel.C20

/-! ### tokenizer -/
theorem allTokens_length (k : Cfg) : ∀ (n : Nat) (inp : List Char), inp.length ≤ n → (allTokens k inp).1.length ≤ inp.length := by
  intro n
  induction n with
  | zero =>
    intro inp h
    rw [allTokens]
    split
    · simp
    · simp
    · rename_i t q rest hn
      have := nextT_lt k inp t q rest hn
      omega
  | succ n ih =>
    intro inp h
    rw [allTokens]
    split
    · simp
    · simp
    · rename_i t q rest hn
      have h1 := nextT_lt k inp t q rest hn
      have h2 := ih rest (by omega)
      simp only [List.length_cons]
      omega

/-! ### the Newick machine: generic induction principle for `run` -/
theorem run_spec (k : Cfg) (P : NState → Prop) (Q : NDone → Prop)
    (hstep : ∀ st st', P st → step k st = .next st' → P st')
    (hdone : ∀ st r, P st → step k st = .done r → Q r) :
    ∀ (n : Nat) (st : NState), st.measure ≤ n → P st → Q (run k st) := by
  intro n
  induction n with
  | zero =>
    intro st hm hp
    rw [run]
    split
    · rename_i r h; exact hdone _ _ hp h
    · rename_i st' h
      have := step_decreases k st st' h
      omega
  | succ n ih =>
    intro st hm hp
    rw [run]
    split
    · rename_i r h; exact hdone _ _ hp h
    · rename_i st' h
      have := step_decreases k st st' h
      exact ih st' (by omega) (hstep _ _ hp h)

/-- what `require_next_token` + continuation can produce -/
theorem advance_next (k : Cfg) (s0 : NState) (cont : NState → StepRes) (st' : NState)
    (h : NState.advance k s0 cont = .next st') :
    ∃ t q rest, nextT k s0.rest = .tok t q rest ∧
      cont { s0 with cur := t, rest := rest, trace := s0.trace ++ [t] } = .next st' := by
  unfold NState.advance at h
  split at h
  · cases h
  · cases h
  · rename_i t q rest hn
    exact ⟨t, q, rest, hn, h⟩

theorem advance_done (k : Cfg) (s0 : NState) (cont : NState → StepRes) (r : NDone)
    (h : NState.advance k s0 cont = .done r) :
    r = .err .eos ∨ r = .err .unterminated ∨
    ∃ t q rest, nextT k s0.rest = .tok t q rest ∧
      cont { s0 with cur := t, rest := rest, trace := s0.trace ++ [t] } = .done r := by
  unfold NState.advance at h
  split at h
  · left; cases h; rfl
  · right; left; cases h; rfl
  · rename_i t q rest hn
    exact Or.inr (Or.inr ⟨t, q, rest, hn, h⟩)

/-! ### progress of a tree statement -/

/-- a step either consumes input or keeps input and current token -/
theorem step_shape (k : Cfg) (st st' : NState) (h : step k st = .next st') :
    st'.rest.length < st.rest.length ∨ (st'.rest = st.rest ∧ st'.cur = st.cur) := by
  have adv : ∀ (s0 : NState) (cont : NState → StepRes), NState.advance k s0 cont = .next st' → s0.rest = st.rest →
      (∀ s s', s.rest.length < st.rest.length → cont s = .next s' → s'.rest.length < st.rest.length) →
      st'.rest.length < st.rest.length := by
    intro s0 cont ha hr hc
    obtain ⟨t, q, rest, hn, hcont⟩ := advance_next k s0 cont st' ha
    have := nextT_lt k _ _ _ _ hn
    exact hc _ _ (by simpa [hr] using this) hcont
  have kidsNC : ∀ (s1 : NState), stepKidsNonComma k s1 = .next st' → s1.rest = st.rest → s1.cur = st.cur →
      st'.rest.length < st.rest.length ∨ (st'.rest = st.rest ∧ st'.cur = st.cur) := by
    intro s1 hk hr hcur
    unfold stepKidsNonComma at hk
    split at hk
    · left
      refine adv _ _ hk hr ?_
      intro s s' hs hc
      simp only [StepRes.next.injEq] at hc
      subst hc; exact hs
    · split at hk
      · left
        refine adv _ _ hk hr ?_
        intro s s' hs hc
        simp only [StepRes.next.injEq] at hc
        subst hc; exact hs
      · right
        simp only [StepRes.next.injEq] at hk
        subst hk
        exact ⟨hr, hcur⟩
  unfold step at h
  split at h
  · split at h
    · left
      refine adv _ _ h rfl ?_
      intro s s' hs hc
      simp only [StepRes.next.injEq] at hc
      subst hc; exact hs
    · exact kidsNC st h rfl rfl
  · split at h
    · left
      refine adv _ _ h rfl ?_
      intro s s' hs hc
      simp only [StepRes.next.injEq] at hc
      subst hc; exact hs
    · exact kidsNC _ h rfl rfl
  · unfold stepLab at h
    split at h
    · left
      refine adv _ _ h rfl ?_
      intro s s' hs hc
      split at hc
      · obtain ⟨t, q, rest, hn, hcont⟩ := advance_next k _ _ s' hc
        simp only [StepRes.next.injEq] at hcont
        subst hcont
        have := nextT_lt k _ _ _ _ hn
        simp only at this ⊢
        omega
      · cases hc
    · split at h
      · split at h
        · cases h
        · right
          simp only [StepRes.next.injEq] at h
          subst h
          exact ⟨rfl, rfl⟩
      · split at h
        · split at h
          · cases h
          · split at h <;> cases h
        · split at h
          · cases h
          · split at h
            · cases h
            · split at h
              · left
                refine adv _ _ h rfl ?_
                intro s s' hs hc
                simp only [StepRes.next.injEq] at hc
                subst hc; exact hs
              · dsimp only at h
                split at h
                · cases h
                · left
                  refine adv _ _ h rfl ?_
                  intro s s' hs hc
                  simp only [StepRes.next.injEq] at hc
                  subst hc; exact hs

/-- a statement is only completed on a semicolon, and completing it does not give input back -/
theorem step_done_ok (k : Cfg) (st : NState) (t : NTree) (nx : Option (List Char)) (rest' : List Char) (m : Mapper)
    (tr : List (List Char)) (h : step k st = .done (.ok t nx rest' m tr)) :
    st.cur = semi ∧ rest'.length ≤ st.rest.length ∧ tr = st.trace ∧ st.nesting = 0 ∧ st.phase = .lab := by
  have adv : ∀ (s0 : NState) (cont : NState → StepRes),
      (∀ s, cont s ≠ .done (.ok t nx rest' m tr)) → NState.advance k s0 cont ≠ .done (.ok t nx rest' m tr) := by
    intro s0 cont hc ha
    rcases advance_done k s0 cont _ ha with h1 | h1 | ⟨_, _, _, _, h1⟩
    · cases h1
    · cases h1
    · exact hc _ h1
  have kidsNC : ∀ (s1 : NState), stepKidsNonComma k s1 ≠ .done (.ok t nx rest' m tr) := by
    intro s1 hk
    unfold stepKidsNonComma at hk
    split at hk
    · exact adv _ _ (by intro s hc; cases hc) hk
    · split at hk
      · exact adv _ _ (by intro s hc; cases hc) hk
      · cases hk
  unfold step at h
  split at h
  · split at h
    · exact absurd h (adv _ _ (by intro s hc; cases hc))
    · exact absurd h (kidsNC _)
  · split at h
    · exact absurd h (adv _ _ (by intro s hc; cases hc))
    · exact absurd h (kidsNC _)
  · rename_i hph
    unfold stepLab at h
    split at h
    · refine absurd h (adv _ _ ?_)
      intro s hc
      split at hc
      · exact adv _ _ (by intro s hc; cases hc) hc
      · cases hc
    · split at h
      · split at h <;> cases h
      · split at h
        · rename_i hsemi
          split at h
          · cases h
          · rename_i hnest
            have hn0 : st.nesting = 0 := by simpa using hnest
            have hc : st.cur = semi := by simpa using hsemi
            split at h
            · cases h
            · simp only [StepRes.done.injEq, NDone.ok.injEq] at h
              obtain ⟨_, _, hr, _, htr⟩ := h
              subst hr
              exact ⟨hc, by simp, htr.symm, hn0, hph⟩
            · rename_i t2 q2 rest2 hnx
              simp only [StepRes.done.injEq, NDone.ok.injEq] at h
              obtain ⟨_, _, hr, _, htr⟩ := h
              subst hr
              have := nextT_lt k _ _ _ _ hnx
              exact ⟨hc, by omega, htr.symm, hn0, hph⟩
        · split at h
          · cases h
          · split at h
            · cases h
            · split at h
              · exact absurd h (adv _ _ (by intro s hc; cases hc))
              · dsimp only at h
                split at h
                · cases h
                · exact absurd h (adv _ _ (by intro s hc; cases hc))

/-- from a state whose current token is not `;`, a completed statement has consumed input -/
theorem run_progress (k : Cfg) (st0 : NState) (hc0 : st0.cur ≠ semi)
    (t : NTree) (nx : Option (List Char)) (rest' : List Char) (m : Mapper) (tr : List (List Char))
    (h : run k st0 = .ok t nx rest' m tr) : rest'.length < st0.rest.length := by
  have key := run_spec k
    (fun st => st.rest.length ≤ st0.rest.length ∧ (st.rest.length < st0.rest.length ∨ st.cur = st0.cur))
    (fun r => match r with
      | .ok _ _ r' _ _ => r'.length < st0.rest.length
      | .err _ => True)
    (by
      intro st st' ⟨h1, h2⟩ hs
      rcases step_shape k st st' hs with hlt | ⟨hr, hcur⟩
      · exact ⟨by omega, Or.inl (by omega)⟩
      · rw [hr, hcur]; exact ⟨h1, h2⟩)
    (by
      intro st r ⟨h1, h2⟩ hs
      cases r with
      | err e => trivial
      | ok t nx r' m tr =>
        obtain ⟨hsemi, hle, _, _, _⟩ := step_done_ok k st t nx r' m tr hs
        rcases h2 with h2 | h2
        · show r'.length < st0.rest.length
          omega
        · exact absurd (h2 ▸ hsemi) hc0)
    st0.measure st0 (Nat.le_refl _) ⟨Nat.le_refl _, Or.inr rfl⟩
  rw [h] at key
  exact key

/-- a completed statement never gives input back -/
theorem run_rest_le (k : Cfg) (st0 : NState)
    (t : NTree) (nx : Option (List Char)) (rest' : List Char) (m : Mapper) (tr : List (List Char))
    (h : run k st0 = .ok t nx rest' m tr) : rest'.length ≤ st0.rest.length := by
  have key := run_spec k
    (fun st => st.rest.length ≤ st0.rest.length)
    (fun r => match r with
      | .ok _ _ r' _ _ => r'.length ≤ st0.rest.length
      | .err _ => True)
    (by
      intro st st' h1 hs
      rcases step_shape k st st' hs with hlt | ⟨hr, _⟩
      · omega
      · rw [hr]; exact h1)
    (by
      intro st r h1 hs
      cases r with
      | err e => trivial
      | ok t nx r' m tr =>
        obtain ⟨_, hle, _, _, _⟩ := step_done_ok k st t nx r' m tr hs
        show r'.length ≤ st0.rest.length
        omega)
    st0.measure st0 (Nat.le_refl _) (Nat.le_refl _)
  rw [h] at key
  exact key

theorem skipSemis_le (k : Cfg) : ∀ (n : Nat) (cur : Option (List Char)) (rest : List Char) (started : Bool), rest.length ≤ n →
    ∀ c r s, skipSemis k cur rest started = .ok (c, r, s) →
      r.length ≤ rest.length ∧ (¬ (s = true ∧ r = []) → c ≠ some semi ∧ c ≠ none) := by
  intro n
  induction n with
  | zero =>
    intro cur rest started hl c r s h
    rw [skipSemis] at h
    split at h
    · split at h
      · cases h
      · cases h
      · rename_i t q rest' hn
        have := nextT_lt k _ _ _ _ hn
        omega
    · rename_i hcond
      simp only [Except.ok.injEq, Prod.mk.injEq] at h
      obtain ⟨h1, h2, h3⟩ := h
      subst h1 h2 h3
      refine ⟨Nat.le_refl _, ?_⟩
      intro hne
      simp only [Bool.and_eq_true, Bool.or_eq_true, beq_iff_eq, Bool.not_eq_true', not_and, Bool.not_eq_false] at hcond
      constructor
      · intro hs
        have := hcond (Or.inl hs)
        simp only [Bool.and_eq_true, List.isEmpty_iff] at this
        exact hne ⟨this.1, this.2⟩
      · intro hs
        have := hcond (Or.inr (by simp [hs]))
        simp only [Bool.and_eq_true, List.isEmpty_iff] at this
        exact hne ⟨this.1, this.2⟩
  | succ n ih =>
    intro cur rest started hl c r s h
    rw [skipSemis] at h
    split at h
    · split at h
      · cases h
      · cases h
      · rename_i t q rest' hn
        have hlt := nextT_lt k _ _ _ _ hn
        have := ih (some t) rest' true (by omega) c r s h
        exact ⟨by omega, this.2⟩
    · rename_i hcond
      simp only [Except.ok.injEq, Prod.mk.injEq] at h
      obtain ⟨h1, h2, h3⟩ := h
      subst h1 h2 h3
      refine ⟨Nat.le_refl _, ?_⟩
      intro hne
      simp only [Bool.and_eq_true, Bool.or_eq_true, beq_iff_eq, Bool.not_eq_true', not_and, Bool.not_eq_false] at hcond
      constructor
      · intro hs
        have := hcond (Or.inl hs)
        simp only [Bool.and_eq_true, List.isEmpty_iff] at this
        exact hne ⟨this.1, this.2⟩
      · intro hs
        have := hcond (Or.inr (by simp [hs]))
        simp only [Bool.and_eq_true, List.isEmpty_iff] at this
        exact hne ⟨this.1, this.2⟩

theorem skipTrailingSemis_le (k : Cfg) : ∀ (n : Nat) (cur : Option (List Char)) (rest : List Char), rest.length ≤ n →
    ∀ c r, skipTrailingSemis k cur rest = .ok (c, r) → r.length ≤ rest.length := by
  intro n
  induction n with
  | zero =>
    intro cur rest hl c r h
    rw [skipTrailingSemis] at h
    split at h
    · split at h
      · simp only [Except.ok.injEq, Prod.mk.injEq] at h; rw [← h.2]; simp
      · cases h
      · rename_i t q rest' hn
        have := nextT_lt k _ _ _ _ hn
        omega
    · simp only [Except.ok.injEq, Prod.mk.injEq] at h; rw [← h.2]; exact Nat.le_refl _
  | succ n ih =>
    intro cur rest hl c r h
    rw [skipTrailingSemis] at h
    split at h
    · split at h
      · simp only [Except.ok.injEq, Prod.mk.injEq] at h; rw [← h.2]; simp
      · cases h
      · rename_i t q rest' hn
        have hlt := nextT_lt k _ _ _ _ hn
        have := ih (some t) rest' (by omega) c r h
        omega
    · simp only [Except.ok.injEq, Prod.mk.injEq] at h; rw [← h.2]; exact Nat.le_refl _

end DendroModel.C20.Aux

namespace DendroModel.C20
open DendroModel DendroModel.C20.Aux

/-- **Tokenizer progress.**  Whatever the delimiter configuration, a token returned by `Tokenizer.__next__` leaves a
strictly shorter input.  All reader loops of the model recurse through this fact. -/
theorem tokenizer_progress (k : Cfg) (inp t : List Char) (q : Bool) (rest : List Char)
    (h : nextT k inp = .tok t q rest) : rest.length < inp.length :=
  nextT_lt k inp t q rest h

/-- iterating the tokenizer to exhaustion yields at most one token per input character -/
theorem token_count_bounded (k : Cfg) (inp : List Char) : (allTokens k inp).1.length ≤ inp.length :=
  allTokens_length k inp.length inp (Nat.le_refl _)

/-- **A tree statement makes progress**: when `_parse_tree_statement` returns a tree, the unread input is strictly
shorter than before, for every input, current token and symbol table.  Hence `tree_iter` cannot spin. -/
theorem newick_statement_progress (k : Cfg) (cur : Option (List Char)) (rest : List Char) (started : Bool) (mp : Mapper)
    (t : NTree) (nx : Option (List Char)) (rest' : List Char) (m : Mapper) (tr : List (List Char))
    (h : parseStatement k cur rest started mp = .tree t nx rest' m tr) : rest'.length < rest.length := by
  unfold parseStatement at h
  split at h
  · cases h
  · rename_i c1 r1 s1 hsk
    have hsk' := skipSemis_le k rest.length cur rest started (Nat.le_refl _) c1 r1 s1 hsk
    split at h
    · cases h
    · rename_i hne
      split at h
      · cases h
      · rename_i c
        have hcs : c ≠ semi := by
          have := (hsk'.2 (by simpa using hne)).1
          intro hc; exact this (by rw [hc])
        dsimp only at h
        split at h
        · cases h
        · rename_i tt nx2 r2 m2 tr2 hrun
          have hr2 : r2.length < r1.length := by
            split at hrun
            · rename_i hlp
              split at hrun
              · rename_i r hadv
                rcases advance_done k _ _ _ hadv with h1 | h1 | ⟨_, _, _, _, h1⟩
                · rw [h1] at hrun; cases hrun
                · rw [h1] at hrun; cases hrun
                · cases h1
              · rename_i s hadv
                obtain ⟨t1, q1, rest1, hn, hcont⟩ := advance_next k _ _ s hadv
                simp only [StepRes.next.injEq] at hcont
                have hlt := nextT_lt k _ _ _ _ hn
                by_cases hs1 : t1 = semi
                · -- '(' followed by ';' : the kids phase treats ';' as a child label, whose label loop ends the statement
                  subst hcont
                  have key := run_rest_le k _ tt nx2 r2 m2 tr2 hrun
                  simp only at key hlt
                  omega
                · subst hcont
                  have := run_progress k _ (by simpa using hs1) tt nx2 r2 m2 tr2 hrun
                  simp only at this hlt
                  omega
            · exact run_progress k _ (by simpa using hcs) tt nx2 r2 m2 tr2 hrun
          split at h
          · cases h
          · rename_i nx3 r3 hts
            have := skipTrailingSemis_le k r2.length nx2 r2 (Nat.le_refl _) nx3 r3 hts
            simp only [StmtRes.tree.injEq] at h
            obtain ⟨_, _, hr, _, _⟩ := h
            subst hr
            omega

/-- **The Newick reader never fails internally**: on every text the model's verdict is a list of trees or a
data-parse error (the no-progress guard of `tree_iter` never fires). -/
theorem newick_never_internal (text : List Char) (w : String) : readNewick text ≠ .internal w := by
  have key : ∀ (n : Nat) (k : Cfg) (cur : Option (List Char)) (rest : List Char) (started : Bool) (mp : Mapper) (acc : List NTree),
      rest.length ≤ n → treeIter k cur rest started mp acc ≠ .internal w := by
    intro n
    induction n with
    | zero =>
      intro k cur rest started mp acc hl
      rw [treeIter]
      split
      · intro h; cases h
      · intro h; cases h
      · rename_i t nx rest' m tr hps
        have := newick_statement_progress k cur rest started mp t nx rest' m tr hps
        omega
    | succ n ih =>
      intro k cur rest started mp acc hl
      rw [treeIter]
      split
      · intro h; cases h
      · intro h; cases h
      · rename_i t nx rest' m tr hps
        have hlt := newick_statement_progress k cur rest started mp t nx rest' m tr hps
        rw [if_pos hlt]
        exact ih k nx rest' true m _ (by omega)
  exact key text.length nwCfg none text false {} [] (Nat.le_refl _)

/-- **Declared versus found (PHYLIP)**: a matrix is only returned when the first line declares `ntax nchar` and the
matrix has exactly `ntax` rows of exactly `nchar` cells each — for every text, mode and symbol set. -/
theorem ok_dims (sym : Char → Bool) (strict interleaved : Bool) (text : List Char) (rows : Rows)
    (h : readPhylip sym strict interleaved text = .ok rows) :
    ∃ ntax nchar, (splitLines text).head?.bind parseHeader = some (ntax, nchar) ∧ 0 < ntax ∧ 0 < nchar ∧
      rows.length = ntax ∧ ∀ r ∈ rows, r.2 = nchar := by
  unfold readPhylip at h
  simp only at h
  split at h
  · cases h
  · split at h
    · cases h
    · rename_i desc body hl
      split at h
      · cases h
      · rename_i ntax nchar hh
        split at h
        · cases h
        · rename_i hz
          split at h
          · cases h
          · rename_i rows' hr
            split at h
            · cases h
            · rename_i hlen
              split at h
              · rename_i hall
                simp only [MatRes.ok.injEq] at h
                subst h
                refine ⟨ntax, nchar, ?_, ?_, ?_, ?_, ?_⟩
                · rw [hl]; simpa using hh
                · simp only [Bool.or_eq_true, beq_iff_eq, not_or] at hz; omega
                · simp only [Bool.or_eq_true, beq_iff_eq, not_or] at hz; omega
                · simpa using hlen
                · intro r hr'
                  have := (List.all_eq_true.mp hall) r hr'
                  simpa using this
              · cases h

end DendroModel.C20
