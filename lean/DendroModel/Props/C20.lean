import DendroModel.Model.C20
/-! C20 — property theorems about the reader models the driver runs (`drv_c20`).

Clause (a) "every reader terminates": all model functions are total Lean functions defined without fuel and without
`partial`; their recursion is on a strictly shorter input, which rests on `tokenizer_progress`.
Clause (c) "never an internal error": the models mark the places where the code would dereference a `None` token
or spin with the constructor `internal`; the theorems below show it is never produced.
Clause (d): `newick_balanced`, `ok_dims`. -/
namespace DendroModel.C20.Aux
open DendroModel DendroModel.C20

/-! ### tokenizer -/
theorem allTokens_length (k : Cfg) : ∀ (n : Nat) (inp : List Char), inp.length ≤ n → (allTokens k inp).1.length ≤ inp.length := by
  intro n
  induction n with
  | zero =>
    intro inp h
    rw [allTokens]
    split
    · simp
    · simp
    · rename_i t q rest hn
      have := nextT_lt k inp t q rest hn
      omega
  | succ n ih =>
    intro inp h
    rw [allTokens]
    split
    · simp
    · simp
    · rename_i t q rest hn
      have h1 := nextT_lt k inp t q rest hn
      have h2 := ih rest (by omega)
      simp only [List.length_cons]
      omega

/-! ### the Newick machine: generic induction principle for `run` -/
theorem run_spec (k : Cfg) (P : NState → Prop) (Q : NDone → Prop)
    (hstep : ∀ st st', P st → step k st = .next st' → P st')
    (hdone : ∀ st r, P st → step k st = .done r → Q r) :
    ∀ (n : Nat) (st : NState), st.measure ≤ n → P st → Q (run k st) := by
  intro n
  induction n with
  | zero =>
    intro st hm hp
    rw [run]
    split
    · rename_i r h; exact hdone _ _ hp h
    · rename_i st' h
      have := step_decreases k st st' h
      omega
  | succ n ih =>
    intro st hm hp
    rw [run]
    split
    · rename_i r h; exact hdone _ _ hp h
    · rename_i st' h
      have := step_decreases k st st' h
      exact ih st' (by omega) (hstep _ _ hp h)

/-- what `require_next_token` + continuation can produce -/
theorem advance_next (k : Cfg) (s0 : NState) (cont : NState → StepRes) (st' : NState)
    (h : NState.advance k s0 cont = .next st') :
    ∃ t q rest, nextT k s0.rest = .tok t q rest ∧
      cont { s0 with cur := t, rest := rest, trace := s0.trace ++ [t] } = .next st' := by
  unfold NState.advance at h
  split at h
  · cases h
  · cases h
  · rename_i t q rest hn
    exact ⟨t, q, rest, hn, h⟩

theorem advance_done (k : Cfg) (s0 : NState) (cont : NState → StepRes) (r : NDone)
    (h : NState.advance k s0 cont = .done r) :
    r = .err .eos ∨ r = .err .unterminated ∨
    ∃ t q rest, nextT k s0.rest = .tok t q rest ∧
      cont { s0 with cur := t, rest := rest, trace := s0.trace ++ [t] } = .done r := by
  unfold NState.advance at h
  split at h
  · left; cases h; rfl
  · right; left; cases h; rfl
  · rename_i t q rest hn
    exact Or.inr (Or.inr ⟨t, q, rest, hn, h⟩)

/-! ### progress of a tree statement -/

/-- a step either consumes input or keeps input and current token -/
theorem step_shape (k : Cfg) (st st' : NState) (h : step k st = .next st') :
    st'.rest.length < st.rest.length ∨ (st'.rest = st.rest ∧ st'.cur = st.cur) := by
  have adv : ∀ (s0 : NState) (cont : NState → StepRes), NState.advance k s0 cont = .next st' → s0.rest = st.rest →
      (∀ s s', s.rest.length < st.rest.length → cont s = .next s' → s'.rest.length < st.rest.length) →
      st'.rest.length < st.rest.length := by
    intro s0 cont ha hr hc
    obtain ⟨t, q, rest, hn, hcont⟩ := advance_next k s0 cont st' ha
    have := nextT_lt k _ _ _ _ hn
    exact hc _ _ (by simpa [hr] using this) hcont
  have kidsNC : ∀ (s1 : NState), stepKidsNonComma k s1 = .next st' → s1.rest = st.rest → s1.cur = st.cur →
      st'.rest.length < st.rest.length ∨ (st'.rest = st.rest ∧ st'.cur = st.cur) := by
    intro s1 hk hr hcur
    unfold stepKidsNonComma at hk
    split at hk
    · left
      refine adv _ _ hk hr ?_
      intro s s' hs hc
      simp only [StepRes.next.injEq] at hc
      subst hc; exact hs
    · split at hk
      · left
        refine adv _ _ hk hr ?_
        intro s s' hs hc
        simp only [StepRes.next.injEq] at hc
        subst hc; exact hs
      · right
        simp only [StepRes.next.injEq] at hk
        subst hk
        exact ⟨hr, hcur⟩
  unfold step at h
  split at h
  · split at h
    · left
      refine adv _ _ h rfl ?_
      intro s s' hs hc
      simp only [StepRes.next.injEq] at hc
      subst hc; exact hs
    · exact kidsNC st h rfl rfl
  · split at h
    · left
      refine adv _ _ h rfl ?_
      intro s s' hs hc
      simp only [StepRes.next.injEq] at hc
      subst hc; exact hs
    · exact kidsNC _ h rfl rfl
  · unfold stepLab at h
    split at h
    · left
      refine adv _ _ h rfl ?_
      intro s s' hs hc
      split at hc
      · obtain ⟨t, q, rest, hn, hcont⟩ := advance_next k _ _ s' hc
        simp only [StepRes.next.injEq] at hcont
        subst hcont
        have := nextT_lt k _ _ _ _ hn
        simp only at this ⊢
        omega
      · cases hc
    · split at h
      · split at h
        · cases h
        · right
          simp only [StepRes.next.injEq] at h
          subst h
          exact ⟨rfl, rfl⟩
      · split at h
        · split at h
          · cases h
          · split at h <;> cases h
        · split at h
          · cases h
          · split at h
            · cases h
            · split at h
              · left
                refine adv _ _ h rfl ?_
                intro s s' hs hc
                simp only [StepRes.next.injEq] at hc
                subst hc; exact hs
              · dsimp only at h
                split at h
                · cases h
                · left
                  refine adv _ _ h rfl ?_
                  intro s s' hs hc
                  simp only [StepRes.next.injEq] at hc
                  subst hc; exact hs

/-- a statement is only completed on a semicolon, and completing it does not give input back -/
theorem step_done_ok (k : Cfg) (st : NState) (t : NTree) (nx : Option (List Char)) (rest' : List Char) (m : Mapper)
    (tr : List (List Char)) (h : step k st = .done (.ok t nx rest' m tr)) :
    st.cur = semi ∧ rest'.length ≤ st.rest.length ∧ tr = st.trace ∧ st.nesting = 0 ∧ st.phase = .lab := by
  have adv : ∀ (s0 : NState) (cont : NState → StepRes),
      (∀ s, cont s ≠ .done (.ok t nx rest' m tr)) → NState.advance k s0 cont ≠ .done (.ok t nx rest' m tr) := by
    intro s0 cont hc ha
    rcases advance_done k s0 cont _ ha with h1 | h1 | ⟨_, _, _, _, h1⟩
    · cases h1
    · cases h1
    · exact hc _ h1
  have kidsNC : ∀ (s1 : NState), stepKidsNonComma k s1 ≠ .done (.ok t nx rest' m tr) := by
    intro s1 hk
    unfold stepKidsNonComma at hk
    split at hk
    · exact adv _ _ (by intro s hc; cases hc) hk
    · split at hk
      · exact adv _ _ (by intro s hc; cases hc) hk
      · cases hk
  unfold step at h
  split at h
  · split at h
    · exact absurd h (adv _ _ (by intro s hc; cases hc))
    · exact absurd h (kidsNC _)
  · split at h
    · exact absurd h (adv _ _ (by intro s hc; cases hc))
    · exact absurd h (kidsNC _)
  · rename_i hph
    unfold stepLab at h
    split at h
    · refine absurd h (adv _ _ ?_)
      intro s hc
      split at hc
      · exact adv _ _ (by intro s hc; cases hc) hc
      · cases hc
    · split at h
      · split at h <;> cases h
      · split at h
        · rename_i hsemi
          split at h
          · cases h
          · rename_i hnest
            have hn0 : st.nesting = 0 := by simpa using hnest
            have hc : st.cur = semi := by simpa using hsemi
            split at h
            · cases h
            · simp only [StepRes.done.injEq, NDone.ok.injEq] at h
              obtain ⟨_, _, hr, _, htr⟩ := h
              subst hr
              exact ⟨hc, by simp, htr.symm, hn0, hph⟩
            · rename_i t2 q2 rest2 hnx
              simp only [StepRes.done.injEq, NDone.ok.injEq] at h
              obtain ⟨_, _, hr, _, htr⟩ := h
              subst hr
              have := nextT_lt k _ _ _ _ hnx
              exact ⟨hc, by omega, htr.symm, hn0, hph⟩
        · split at h
          · cases h
          · split at h
            · cases h
            · split at h
              · exact absurd h (adv _ _ (by intro s hc; cases hc))
              · dsimp only at h
                split at h
                · cases h
                · exact absurd h (adv _ _ (by intro s hc; cases hc))

/-- from a state whose current token is not `;`, a completed statement has consumed input -/
theorem run_progress (k : Cfg) (st0 : NState) (hc0 : st0.cur ≠ semi)
    (t : NTree) (nx : Option (List Char)) (rest' : List Char) (m : Mapper) (tr : List (List Char))
    (h : run k st0 = .ok t nx rest' m tr) : rest'.length < st0.rest.length := by
  have key := run_spec k
    (fun st => st.rest.length ≤ st0.rest.length ∧ (st.rest.length < st0.rest.length ∨ st.cur = st0.cur))
    (fun r => match r with
      | .ok _ _ r' _ _ => r'.length < st0.rest.length
      | .err _ => True)
    (by
      intro st st' ⟨h1, h2⟩ hs
      rcases step_shape k st st' hs with hlt | ⟨hr, hcur⟩
      · exact ⟨by omega, Or.inl (by omega)⟩
      · rw [hr, hcur]; exact ⟨h1, h2⟩)
    (by
      intro st r ⟨h1, h2⟩ hs
      cases r with
      | err e => trivial
      | ok t nx r' m tr =>
        obtain ⟨hsemi, hle, _, _, _⟩ := step_done_ok k st t nx r' m tr hs
        rcases h2 with h2 | h2
        · show r'.length < st0.rest.length
          omega
        · exact absurd (h2 ▸ hsemi) hc0)
    st0.measure st0 (Nat.le_refl _) ⟨Nat.le_refl _, Or.inr rfl⟩
  rw [h] at key
  exact key

/-- a completed statement never gives input back -/
theorem run_rest_le (k : Cfg) (st0 : NState)
    (t : NTree) (nx : Option (List Char)) (rest' : List Char) (m : Mapper) (tr : List (List Char))
    (h : run k st0 = .ok t nx rest' m tr) : rest'.length ≤ st0.rest.length := by
  have key := run_spec k
    (fun st => st.rest.length ≤ st0.rest.length)
    (fun r => match r with
      | .ok _ _ r' _ _ => r'.length ≤ st0.rest.length
      | .err _ => True)
    (by
      intro st st' h1 hs
      rcases step_shape k st st' hs with hlt | ⟨hr, _⟩
      · omega
      · rw [hr]; exact h1)
    (by
      intro st r h1 hs
      cases r with
      | err e => trivial
      | ok t nx r' m tr =>
        obtain ⟨_, hle, _, _, _⟩ := step_done_ok k st t nx r' m tr hs
        show r'.length ≤ st0.rest.length
        omega)
    st0.measure st0 (Nat.le_refl _) (Nat.le_refl _)
  rw [h] at key
  exact key

theorem skipSemis_le (k : Cfg) : ∀ (n : Nat) (cur : Option (List Char)) (rest : List Char) (started : Bool), rest.length ≤ n →
    ∀ c r s, skipSemis k cur rest started = .ok (c, r, s) →
      r.length ≤ rest.length ∧ (¬ (s = true ∧ r = []) → c ≠ some semi ∧ c ≠ none) := by
  intro n
  induction n with
  | zero =>
    intro cur rest started hl c r s h
    rw [skipSemis] at h
    split at h
    · split at h
      · cases h
      · cases h
      · rename_i t q rest' hn
        have := nextT_lt k _ _ _ _ hn
        omega
    · rename_i hcond
      simp only [Except.ok.injEq, Prod.mk.injEq] at h
      obtain ⟨h1, h2, h3⟩ := h
      subst h1 h2 h3
      refine ⟨Nat.le_refl _, ?_⟩
      intro hne
      simp only [Bool.and_eq_true, Bool.or_eq_true, beq_iff_eq, Bool.not_eq_true', not_and, Bool.not_eq_false] at hcond
      constructor
      · intro hs
        have := hcond (Or.inl hs)
        simp only [Bool.and_eq_true, List.isEmpty_iff] at this
        exact hne ⟨this.1, this.2⟩
      · intro hs
        have := hcond (Or.inr (by simp [hs]))
        simp only [Bool.and_eq_true, List.isEmpty_iff] at this
        exact hne ⟨this.1, this.2⟩
  | succ n ih =>
    intro cur rest started hl c r s h
    rw [skipSemis] at h
    split at h
    · split at h
      · cases h
      · cases h
      · rename_i t q rest' hn
        have hlt := nextT_lt k _ _ _ _ hn
        have := ih (some t) rest' true (by omega) c r s h
        exact ⟨by omega, this.2⟩
    · rename_i hcond
      simp only [Except.ok.injEq, Prod.mk.injEq] at h
      obtain ⟨h1, h2, h3⟩ := h
      subst h1 h2 h3
      refine ⟨Nat.le_refl _, ?_⟩
      intro hne
      simp only [Bool.and_eq_true, Bool.or_eq_true, beq_iff_eq, Bool.not_eq_true', not_and, Bool.not_eq_false] at hcond
      constructor
      · intro hs
        have := hcond (Or.inl hs)
        simp only [Bool.and_eq_true, List.isEmpty_iff] at this
        exact hne ⟨this.1, this.2⟩
      · intro hs
        have := hcond (Or.inr (by simp [hs]))
        simp only [Bool.and_eq_true, List.isEmpty_iff] at this
        exact hne ⟨this.1, this.2⟩

theorem skipTrailingSemis_le (k : Cfg) : ∀ (n : Nat) (cur : Option (List Char)) (rest : List Char), rest.length ≤ n →
    ∀ c r, skipTrailingSemis k cur rest = .ok (c, r) → r.length ≤ rest.length := by
  intro n
  induction n with
  | zero =>
    intro cur rest hl c r h
    rw [skipTrailingSemis] at h
    split at h
    · split at h
      · simp only [Except.ok.injEq, Prod.mk.injEq] at h; rw [← h.2]; simp
      · cases h
      · rename_i t q rest' hn
        have := nextT_lt k _ _ _ _ hn
        omega
    · simp only [Except.ok.injEq, Prod.mk.injEq] at h; rw [← h.2]; exact Nat.le_refl _
  | succ n ih =>
    intro cur rest hl c r h
    rw [skipTrailingSemis] at h
    split at h
    · split at h
      · simp only [Except.ok.injEq, Prod.mk.injEq] at h; rw [← h.2]; simp
      · cases h
      · rename_i t q rest' hn
        have hlt := nextT_lt k _ _ _ _ hn
        have := ih (some t) rest' (by omega) c r h
        omega
    · simp only [Except.ok.injEq, Prod.mk.injEq] at h; rw [← h.2]; exact Nat.le_refl _

/-! ### parenthesis balance of an accepted tree statement -/

/-- nesting depth after reading a token sequence from depth `d`; `none` when a closing parenthesis has no partner -/
def depthAux : List (List Char) → Nat → Option Nat
  | [], d => some d
  | t :: ts, d =>
    if t == lpar then depthAux ts (d + 1)
    else if t == rpar then (if d == 0 then none else depthAux ts (d - 1))
    else depthAux ts d

theorem depthAux_append (a b : List (List Char)) : ∀ d, depthAux (a ++ b) d = (depthAux a d).bind (depthAux b) := by
  induction a with
  | nil => intro d; simp [depthAux]
  | cons t ts ih =>
    intro d
    simp only [List.cons_append, depthAux]
    split
    · exact ih _
    · split
      · split
        · simp
        · exact ih _
      · exact ih _

theorem depth_snoc (pre : List (List Char)) (c : List Char) (n : Nat) (h : depthAux pre 0 = some n) :
    depthAux (pre ++ [c]) 0 =
      if c == lpar then some (n + 1) else if c == rpar then (if n == 0 then none else some (n - 1)) else some n := by
  rw [depthAux_append, h]
  simp only [Option.bind_some, depthAux]

/-- the invariant of the machine: all tokens before the current one are accounted for in `nesting`,
and `nesting` counts exactly the suspended frames (plus the open frame while its children are read) -/
def Inv (st : NState) : Prop :=
  ∃ pre, st.trace = pre ++ [st.cur] ∧ depthAux pre 0 = some st.nesting ∧
    st.nesting = st.stack.length + (if st.phase = .lab then 0 else 1)

theorem inv_mk (s' : NState) (tr : List (List Char)) (n : Nat)
    (htr : s'.trace = tr ++ [s'.cur]) (hd : depthAux tr 0 = some n) (hn : s'.nesting = n)
    (hrel : n = s'.stack.length + (if s'.phase = .lab then 0 else 1)) : Inv s' :=
  ⟨tr, htr, by rw [hn]; exact hd, by rw [hn]; exact hrel⟩

theorem pyFloatOk_lpar : pyFloatOk lpar = false := by decide
theorem pyFloatOk_rpar : pyFloatOk rpar = false := by decide

theorem inv_stepKidsNonComma (k : Cfg) (s1 st' : NState) (hinv : Inv s1) (hph : s1.phase ≠ .lab) (hcur : s1.cur ≠ comma)
    (h : stepKidsNonComma k s1 = .next st') : Inv st' := by
  obtain ⟨pre, htr, hd, hrel⟩ := hinv
  have hrel' : s1.nesting = s1.stack.length + 1 := by simpa [hph] using hrel
  unfold stepKidsNonComma at h
  split at h
  · rename_i hr
    have hr' : s1.cur = rpar := by simpa using hr
    obtain ⟨t, q, rest, hn, hcont⟩ := advance_next k _ _ st' h
    simp only [StepRes.next.injEq] at hcont
    subst hcont
    refine inv_mk _ s1.trace (s1.nesting - 1) (by simp) ?_ (by simp) (by simp; omega)
    rw [htr, depth_snoc pre _ _ hd, hr']
    have : (rpar == lpar) = false := by decide
    simp [this]; omega
  · split at h
    · rename_i hr hl
      have hl' : s1.cur = lpar := by simpa using hl
      obtain ⟨t, q, rest, hn, hcont⟩ := advance_next k _ _ st' h
      simp only [StepRes.next.injEq] at hcont
      subst hcont
      refine inv_mk _ s1.trace (s1.nesting + 1) (by simp) ?_ (by simp) (by simp; omega)
      rw [htr, depth_snoc pre _ _ hd, hl']
      simp
    · simp only [StepRes.next.injEq] at h
      subst h
      exact ⟨pre, htr, hd, by simp; omega⟩

theorem inv_step (k : Cfg) (st st' : NState) (hinv : Inv st) (h : step k st = .next st') : Inv st' := by
  unfold step at h
  split at h
  · -- kids
    rename_i hph
    split at h
    · rename_i hc
      have hc' : st.cur = comma := by simpa using hc
      obtain ⟨pre, htr, hd, hrel⟩ := hinv
      obtain ⟨t, q, rest, hn, hcont⟩ := advance_next k _ _ st' h
      simp only [StepRes.next.injEq] at hcont
      subst hcont
      refine inv_mk _ st.trace st.nesting (by simp) ?_ (by simp) (by simpa [hph] using hrel)
      rw [htr, depth_snoc pre _ _ hd, hc']
      have h1 : (comma == lpar) = false := by decide
      have h2 : (comma == rpar) = false := by decide
      simp [h1, h2]
    · rename_i hc
      exact inv_stepKidsNonComma k st st' hinv (by simp [hph]) (by simpa using hc) h
  · -- comma
    rename_i hph
    split at h
    · rename_i hc
      have hc' : st.cur = comma := by simpa using hc
      obtain ⟨pre, htr, hd, hrel⟩ := hinv
      obtain ⟨t, q, rest, hn, hcont⟩ := advance_next k _ _ st' h
      simp only [StepRes.next.injEq] at hcont
      subst hcont
      refine inv_mk _ st.trace st.nesting (by simp) ?_ (by simp) (by simpa [hph] using hrel)
      rw [htr, depth_snoc pre _ _ hd, hc']
      have h1 : (comma == lpar) = false := by decide
      have h2 : (comma == rpar) = false := by decide
      simp [h1, h2]
    · rename_i hc
      refine inv_stepKidsNonComma k _ st' ?_ (by simp) (by simpa using hc) h
      obtain ⟨pre, htr, hd, hrel⟩ := hinv
      exact ⟨pre, htr, hd, by simpa [hph] using hrel⟩
  · -- lab
    rename_i hph
    obtain ⟨pre, htr, hd, hrel⟩ := hinv
    have hrel' : st.nesting = st.stack.length := by simpa [hph] using hrel
    unfold stepLab at h
    split at h
    · rename_i hc
      have hc' : st.cur = colon := by simpa using hc
      obtain ⟨t, q, rest, hn, hcont⟩ := advance_next k _ _ st' h
      split at hcont
      · rename_i hfl
        obtain ⟨t2, q2, rest2, hn2, hcont2⟩ := advance_next k _ _ st' hcont
        simp only [StepRes.next.injEq] at hcont2
        subst hcont2
        simp only at hfl
        have h1 : depthAux st.trace 0 = some st.nesting := by
          rw [htr, depth_snoc pre _ _ hd, hc']
          have h1 : (colon == lpar) = false := by decide
          have h2 : (colon == rpar) = false := by decide
          simp [h1, h2]
        have ht1 : (t == lpar) = false := by
          cases hx : (t == lpar)
          · rfl
          · have : t = lpar := by simpa using hx
            rw [this, pyFloatOk_lpar] at hfl; cases hfl
        have ht2 : (t == rpar) = false := by
          cases hx : (t == rpar)
          · rfl
          · have : t = rpar := by simpa using hx
            rw [this, pyFloatOk_rpar] at hfl; cases hfl
        refine inv_mk _ (st.trace ++ [t]) st.nesting (by simp) ?_ (by simp) (by simp [hph]; exact hrel')
        rw [depth_snoc st.trace _ _ h1]
        simp [ht1, ht2]
      · cases hcont
    · split at h
      · rename_i hcc
        split at h
        · cases h
        · rename_i p ps hst
          simp only [StepRes.next.injEq] at h
          subst h
          refine ⟨pre, htr, hd, ?_⟩
          simp only [hst, List.length_cons] at hrel'
          simp; omega
      · split at h
        · split at h
          · cases h
          · split at h <;> cases h
        · split at h
          · cases h
          · split at h
            · cases h
            · rename_i hcol hrc hsemi hlp hlab
              have hcur_other : depthAux st.trace 0 = some st.nesting := by
                rw [htr, depth_snoc pre _ _ hd]
                have h1 : (st.cur == lpar) = false := by simpa using hlp
                have h2 : (st.cur == rpar) = false := by
                  simp only [Bool.or_eq_true, not_or] at hrc
                  simpa using hrc.1
                simp [h1, h2]
              split at h
              · obtain ⟨t, q, rest, hn, hcont⟩ := advance_next k _ _ st' h
                simp only [StepRes.next.injEq] at hcont
                subst hcont
                exact inv_mk _ st.trace st.nesting (by simp) hcur_other (by simp) (by simp [hph]; exact hrel')
              · dsimp only at h
                split at h
                · cases h
                · obtain ⟨t, q, rest, hn, hcont⟩ := advance_next k _ _ st' h
                  simp only [StepRes.next.injEq] at hcont
                  subst hcont
                  exact inv_mk _ st.trace st.nesting (by simp) hcur_other (by simp) (by simp [hph]; exact hrel')

/-- an accepted statement: its tokens are parenthesis-balanced and the last one is the semicolon -/
theorem run_balanced (k : Cfg) (st0 : NState) (h0 : Inv st0)
    (t : NTree) (nx : Option (List Char)) (rest' : List Char) (m : Mapper) (tr : List (List Char))
    (h : run k st0 = .ok t nx rest' m tr) : depthAux tr 0 = some 0 ∧ tr.getLast? = some semi := by
  have key := run_spec k Inv
    (fun r => match r with
      | .ok _ _ _ _ tr => depthAux tr 0 = some 0 ∧ tr.getLast? = some semi
      | .err _ => True)
    (fun st st' hi hs => inv_step k st st' hi hs)
    (by
      intro st r hi hs
      cases r with
      | err e => trivial
      | ok t nx r' m tr =>
        obtain ⟨hsemi, _, htr, hn0, _⟩ := step_done_ok k st t nx r' m tr hs
        obtain ⟨pre, hpre, hd, _⟩ := hi
        show depthAux tr 0 = some 0 ∧ tr.getLast? = some semi
        rw [htr, hpre, hsemi]
        constructor
        · rw [depth_snoc pre _ _ hd, hn0]
          have h1 : (semi == lpar) = false := by decide
          have h2 : (semi == rpar) = false := by decide
          simp [h1, h2]
        · simp)
    st0.measure st0 (Nat.le_refl _) h0
  rw [h] at key
  exact key

/-! ### the NEXUS reader loops -/

/-- a result is not the `internal` marker -/
def NoInt {α : Type} (r : R α) : Prop := ∀ w, r ≠ .error (.internal w)

/-- a loop body that never fails internally, never gives input back, and consumes input whenever it asks to go on -/
structure GoodBody (b : RS → R (Bool × RS)) : Prop where
  noInt : ∀ s, NoInt (b s)
  le : ∀ s c s', b s = .ok (c, s') → s'.rest.length ≤ s.rest.length
  lt : ∀ s s', b s = .ok (true, s') → s'.rest.length < s.rest.length

structure Good (f : RS → R RS) : Prop where
  noInt : ∀ s, NoInt (f s)
  le : ∀ s s', f s = .ok s' → s'.rest.length ≤ s.rest.length

theorem err_cast {α β : Type} {e : Stop} {w : String} (h : (Except.error e : R α) = .error (.internal w)) :
    (Except.error e : R β) = .error (.internal w) := by
  cases h; rfl

/-- **every loop built with `iter` from a good body is good**: the no-progress guard never fires -/
theorem iter_good (b : RS → R (Bool × RS)) (hb : GoodBody b) : Good (iter b) := by
  have key : ∀ (n : Nat) (s : RS), s.rest.length ≤ n →
      NoInt (iter b s) ∧ ∀ s', iter b s = .ok s' → s'.rest.length ≤ s.rest.length := by
    intro n
    induction n with
    | zero =>
      intro s hl
      rw [iter]
      split
      · rename_i e he
        exact ⟨fun w hw => hb.noInt s w (by rw [he]; exact err_cast hw), fun s' h => (by cases h)⟩
      · rename_i s1 h1
        refine ⟨fun w hw => (by cases hw), fun s' h => ?_⟩
        simp only [Except.ok.injEq] at h
        subst h
        exact hb.le _ _ _ h1
      · rename_i s1 h1
        have := hb.lt _ _ h1
        omega
    | succ n ih =>
      intro s hl
      rw [iter]
      split
      · rename_i e he
        exact ⟨fun w hw => hb.noInt s w (by rw [he]; exact err_cast hw), fun s' h => (by cases h)⟩
      · rename_i s1 h1
        refine ⟨fun w hw => (by cases hw), fun s' h => ?_⟩
        simp only [Except.ok.injEq] at h
        subst h
        exact hb.le _ _ _ h1
      · rename_i s1 h1
        have hlt := hb.lt _ _ h1
        rw [if_pos hlt]
        have := ih s1 (by omega)
        exact ⟨this.1, fun s' h => (by have := this.2 s' h; omega)⟩
  exact ⟨fun s => (key s.rest.length s (Nat.le_refl _)).1, fun s s' h => (key s.rest.length s (Nat.le_refl _)).2 s' h⟩

theorem nextTok_spec (s : RS) : NoInt (nextTok s) ∧ ∀ t s', nextTok s = .ok (t, s') →
    s'.rest.length ≤ s.rest.length ∧ (t.isSome → s'.rest.length < s.rest.length) ∧ (t = none → s'.rest = []) ∧ s'.cfg = s.cfg := by
  unfold nextTok
  split
  · refine ⟨fun w h => (by cases h), fun t s' h => ?_⟩
    simp only [Except.ok.injEq, Prod.mk.injEq] at h
    obtain ⟨h1, h2⟩ := h
    subst h1 h2
    simp
  · exact ⟨fun w h => (by simp [perr] at h), fun t s' h => (by simp [perr] at h)⟩
  · rename_i t q rest hn
    refine ⟨fun w h => (by cases h), fun t' s' h => ?_⟩
    simp only [Except.ok.injEq, Prod.mk.injEq] at h
    obtain ⟨h1, h2⟩ := h
    subst h1 h2
    have := nextT_lt _ _ _ _ _ hn
    simp; omega

theorem nextUcase_spec (s : RS) : NoInt (nextUcase s) ∧ ∀ t s', nextUcase s = .ok (t, s') →
    s'.rest.length ≤ s.rest.length ∧ (t.isSome → s'.rest.length < s.rest.length) ∧ (t = none → s'.rest = []) := by
  have hs := nextTok_spec s
  unfold nextUcase
  cases hn : nextTok s with
  | error e =>
    refine ⟨fun w h => ?_, fun t s' h => ?_⟩
    · simp only [hn, bind, Except.bind] at h
      exact hs.1 w (by rw [hn]; exact err_cast h)
    · simp [hn, bind, Except.bind] at h
  | ok p =>
    obtain ⟨t0, s0⟩ := p
    have h0 := hs.2 t0 s0 hn
    cases t0 with
    | none =>
      refine ⟨fun w h => (by simp [hn, bind, Except.bind, pure, Except.pure] at h), fun t s' h => ?_⟩
      simp only [hn, bind, Except.bind, pure, Except.pure, Except.ok.injEq, Prod.mk.injEq] at h
      obtain ⟨h1, h2⟩ := h
      subst h1 h2
      exact ⟨h0.1, fun h => (by cases h), fun _ => h0.2.2.1 rfl⟩
    | some tt =>
      refine ⟨fun w h => (by simp [hn, bind, Except.bind, pure, Except.pure] at h), fun t s' h => ?_⟩
      simp only [hn, bind, Except.bind, pure, Except.pure, Except.ok.injEq, Prod.mk.injEq] at h
      obtain ⟨h1, h2⟩ := h
      subst h1 h2
      exact ⟨h0.1, fun _ => h0.2.1 rfl, fun h => (by cases h)⟩

/-- the body of `skip_to_semicolon` -/
theorem skipToSemi_body_good : GoodBody (fun s => do
    let (t, s) ← nextTok s
    pure (!(t == some semi) && !s.eof && t.isSome, s)) := by
  refine ⟨fun s w h => ?_, fun s c s' h => ?_, fun s s' h => ?_⟩
  · have hs := nextTok_spec s
    cases hn : nextTok s with
    | error e => simp only [hn, bind, Except.bind] at h; exact hs.1 w (by rw [hn]; exact err_cast h)
    | ok p => simp [hn, bind, Except.bind, pure, Except.pure] at h
  · have hs := nextTok_spec s
    cases hn : nextTok s with
    | error e => simp [hn, bind, Except.bind] at h
    | ok p =>
      obtain ⟨t0, s0⟩ := p
      simp only [hn, bind, Except.bind, pure, Except.pure, Except.ok.injEq, Prod.mk.injEq] at h
      obtain ⟨_, h2⟩ := h
      subst h2
      exact (hs.2 t0 _ hn).1
  · have hs := nextTok_spec s
    cases hn : nextTok s with
    | error e => simp [hn, bind, Except.bind] at h
    | ok p =>
      obtain ⟨t0, s0⟩ := p
      simp only [hn, bind, Except.bind, pure, Except.pure, Except.ok.injEq, Prod.mk.injEq] at h
      obtain ⟨h1, h2⟩ := h
      subst h2
      simp only [Bool.and_eq_true] at h1
      exact (hs.2 t0 _ hn).2.1 h1.2

theorem skipToSemi_good : Good skipToSemi := iter_good _ skipToSemi_body_good

theorem consumeToEnd_body_good : GoodBody (fun s => do
    if isEnd s.btok || s.eof || s.btok.isNone then pure (false, s)
    else
      let s ← skipToSemi s
      let (t, s) ← nextUcase s
      pure (true, { s with btok := t })) := by
  have hk := skipToSemi_good
  refine ⟨fun s w h => ?_, fun s c s' h => ?_, fun s s' h => ?_⟩
  · split at h
    · simp [pure, Except.pure] at h
    · cases h1 : skipToSemi s with
      | error e => simp only [h1, bind, Except.bind] at h; exact hk.noInt s w (by rw [h1]; exact err_cast h)
      | ok s1 =>
        have hu := nextUcase_spec s1
        cases h2 : nextUcase s1 with
        | error e => simp only [h1, h2, bind, Except.bind] at h; exact hu.1 w (by rw [h2]; exact err_cast h)
        | ok p => simp [h1, h2, bind, Except.bind, pure, Except.pure] at h
  · split at h
    · simp only [pure, Except.pure, Except.ok.injEq, Prod.mk.injEq] at h
      rw [← h.2]; exact Nat.le_refl _
    · cases h1 : skipToSemi s with
      | error e => simp [h1, bind, Except.bind] at h
      | ok s1 =>
        have hu := nextUcase_spec s1
        cases h2 : nextUcase s1 with
        | error e => simp [h1, h2, bind, Except.bind] at h
        | ok p =>
          obtain ⟨t0, s0⟩ := p
          simp only [h1, h2, bind, Except.bind, pure, Except.pure, Except.ok.injEq, Prod.mk.injEq] at h
          obtain ⟨_, h4⟩ := h
          subst h4
          have := hk.le s s1 h1
          have := (hu.2 t0 s0 h2).1
          simp only; omega
  · split at h
    · simp [pure, Except.pure] at h
    · rename_i hcond
      cases h1 : skipToSemi s with
      | error e => simp [h1, bind, Except.bind] at h
      | ok s1 =>
        have hu := nextUcase_spec s1
        cases h2 : nextUcase s1 with
        | error e => simp [h1, h2, bind, Except.bind] at h
        | ok p =>
          obtain ⟨t0, s0⟩ := p
          simp only [h1, h2, bind, Except.bind, pure, Except.pure, Except.ok.injEq, Prod.mk.injEq] at h
          obtain ⟨_, h4⟩ := h
          subst h4
          have hle := hk.le s s1 h1
          have hu2 := hu.2 t0 s0 h2
          -- not at end of stream: either `skip_to_semicolon` or the following read consumed input
          have hne : s.rest ≠ [] := by
            intro he
            apply hcond
            simp [RS.eof, he]
          cases t0 with
          | some tt => have := hu2.2.1 rfl; simp only; omega
          | none =>
            have := hu2.2.2 rfl
            have hpos : 0 < s.rest.length := List.length_pos_iff.mpr hne
            simp only [this, List.length_nil]; exact hpos

theorem consumeToEnd_good (token : Option (List Char)) : Good (consumeToEnd token) := by
  have h := iter_good _ consumeToEnd_body_good
  refine ⟨fun s => ?_, fun s s' hs => ?_⟩
  · unfold consumeToEnd
    exact h.noInt _
  · unfold consumeToEnd at hs
    exact h.le { s with btok := if truthy token = true then Option.map upper token else some (kw "DUMMY") } s' hs

end DendroModel.C20.Aux

namespace DendroModel.C20
open DendroModel DendroModel.C20.Aux

deriving instance DecidableEq for MatRes

/-- **Tokenizer progress.**  Whatever the delimiter configuration, a token returned by `Tokenizer.__next__` leaves a
strictly shorter input.  All reader loops of the model recurse through this fact. -/
theorem tokenizer_progress (k : Cfg) (inp t : List Char) (q : Bool) (rest : List Char)
    (h : nextT k inp = .tok t q rest) : rest.length < inp.length :=
  nextT_lt k inp t q rest h

/-- iterating the tokenizer to exhaustion yields at most one token per input character -/
theorem token_count_bounded (k : Cfg) (inp : List Char) : (allTokens k inp).1.length ≤ inp.length :=
  allTokens_length k inp.length inp (Nat.le_refl _)

/-- **A tree statement makes progress**: when `_parse_tree_statement` returns a tree, the unread input is strictly
shorter than before, for every input, current token and symbol table.  Hence `tree_iter` cannot spin. -/
theorem newick_statement_progress (k : Cfg) (cur : Option (List Char)) (rest : List Char) (started : Bool) (mp : Mapper)
    (t : NTree) (nx : Option (List Char)) (rest' : List Char) (m : Mapper) (tr : List (List Char))
    (h : parseStatement k cur rest started mp = .tree t nx rest' m tr) : rest'.length < rest.length := by
  unfold parseStatement at h
  split at h
  · cases h
  · rename_i c1 r1 s1 hsk
    have hsk' := skipSemis_le k rest.length cur rest started (Nat.le_refl _) c1 r1 s1 hsk
    split at h
    · cases h
    · rename_i hne
      split at h
      · cases h
      · rename_i c
        have hcs : c ≠ semi := by
          have := (hsk'.2 (by simpa using hne)).1
          intro hc; exact this (by rw [hc])
        dsimp only at h
        split at h
        · cases h
        · rename_i tt nx2 r2 m2 tr2 hrun
          have hr2 : r2.length < r1.length := by
            split at hrun
            · rename_i hlp
              split at hrun
              · rename_i r hadv
                rcases advance_done k _ _ _ hadv with h1 | h1 | ⟨_, _, _, _, h1⟩
                · rw [h1] at hrun; cases hrun
                · rw [h1] at hrun; cases hrun
                · cases h1
              · rename_i s hadv
                obtain ⟨t1, q1, rest1, hn, hcont⟩ := advance_next k _ _ s hadv
                simp only [StepRes.next.injEq] at hcont
                have hlt := nextT_lt k _ _ _ _ hn
                by_cases hs1 : t1 = semi
                · -- '(' followed by ';' : the kids phase treats ';' as a child label, whose label loop ends the statement
                  subst hcont
                  have key := run_rest_le k _ tt nx2 r2 m2 tr2 hrun
                  simp only at key hlt
                  omega
                · subst hcont
                  have := run_progress k _ (by simpa using hs1) tt nx2 r2 m2 tr2 hrun
                  simp only at this hlt
                  omega
            · exact run_progress k _ (by simpa using hcs) tt nx2 r2 m2 tr2 hrun
          split at h
          · cases h
          · rename_i nx3 r3 hts
            have := skipTrailingSemis_le k r2.length nx2 r2 (Nat.le_refl _) nx3 r3 hts
            simp only [StmtRes.tree.injEq] at h
            obtain ⟨_, _, hr, _, _⟩ := h
            subst hr
            omega

/-- **Accepted Newick statements are balanced and terminated.**  Whenever `_parse_tree_statement` returns a tree, the
tokens it consumed for it (`trace`, from the first token of the statement to the last) never close a parenthesis that
was not opened, end at nesting depth 0, and the last of them is the terminating semicolon. -/
theorem newick_balanced (k : Cfg) (cur : Option (List Char)) (rest : List Char) (started : Bool) (mp : Mapper)
    (t : NTree) (nx : Option (List Char)) (rest' : List Char) (m : Mapper) (tr : List (List Char))
    (h : parseStatement k cur rest started mp = .tree t nx rest' m tr) :
    depthAux tr 0 = some 0 ∧ tr.getLast? = some semi := by
  unfold parseStatement at h
  split at h
  · cases h
  · split at h
    · cases h
    · split at h
      · cases h
      · rename_i c hsk
        dsimp only at h
        split at h
        · cases h
        · rename_i tt nx2 r2 m2 tr2 hrun
          have hb : depthAux tr2 0 = some 0 ∧ tr2.getLast? = some semi := by
            split at hrun
            · rename_i hlp
              have hlp' : c = lpar := by simpa using hlp
              split at hrun
              · rename_i r hadv
                rcases advance_done k _ _ _ hadv with h1 | h1 | ⟨_, _, _, _, h1⟩
                · rw [h1] at hrun; cases hrun
                · rw [h1] at hrun; cases hrun
                · cases h1
              · rename_i s hadv
                obtain ⟨t1, q1, rest1, hn, hcont⟩ := advance_next k _ _ s hadv
                simp only [StepRes.next.injEq] at hcont
                subst hcont
                refine run_balanced k _ ?_ tt nx2 r2 m2 tr2 hrun
                refine inv_mk _ [c] 1 (by simp) ?_ (by simp) (by simp)
                rw [hlp']; decide
            · rename_i hlp
              refine run_balanced k _ ?_ tt nx2 r2 m2 tr2 hrun
              exact inv_mk _ [] 0 (by simp) (by simp [depthAux]) (by simp) (by simp)
          split at h
          · cases h
          · simp only [StmtRes.tree.injEq] at h
            obtain ⟨_, _, _, _, htr⟩ := h
            subst htr
            exact hb

/-- **The Newick reader never fails internally**: on every text the model's verdict is a list of trees or a
data-parse error (the no-progress guard of `tree_iter` never fires). -/
theorem newick_never_internal (text : List Char) (w : String) : readNewick text ≠ .internal w := by
  have key : ∀ (n : Nat) (k : Cfg) (cur : Option (List Char)) (rest : List Char) (started : Bool) (mp : Mapper) (acc : List NTree),
      rest.length ≤ n → treeIter k cur rest started mp acc ≠ .internal w := by
    intro n
    induction n with
    | zero =>
      intro k cur rest started mp acc hl
      rw [treeIter]
      split
      · intro h; cases h
      · intro h; cases h
      · rename_i t nx rest' m tr hps
        have := newick_statement_progress k cur rest started mp t nx rest' m tr hps
        omega
    | succ n ih =>
      intro k cur rest started mp acc hl
      rw [treeIter]
      split
      · intro h; cases h
      · intro h; cases h
      · rename_i t nx rest' m tr hps
        have hlt := newick_statement_progress k cur rest started mp t nx rest' m tr hps
        rw [if_pos hlt]
        exact ih k nx rest' true m _ (by omega)
  exact key text.length nwCfg none text false {} [] (Nat.le_refl _)

/-- **Declared versus found (PHYLIP)**: a matrix is only returned when the first line declares `ntax nchar` and the
matrix has exactly `ntax` rows of exactly `nchar` cells each — for every text, mode and symbol set. -/
theorem ok_dims (sym : Char → Bool) (strict interleaved : Bool) (text : List Char) (rows : Rows)
    (h : readPhylip sym strict interleaved text = .ok rows) :
    ∃ ntax nchar, (splitLines text).head?.bind parseHeader = some (ntax, nchar) ∧ 0 < ntax ∧ 0 < nchar ∧
      rows.length = ntax ∧ ∀ r ∈ rows, r.2 = nchar := by
  unfold readPhylip at h
  simp only at h
  split at h
  · cases h
  · split at h
    · cases h
    · rename_i desc body hl
      split at h
      · cases h
      · rename_i ntax nchar hh
        split at h
        · cases h
        · rename_i hz
          split at h
          · cases h
          · rename_i rows' hr
            split at h
            · cases h
            · rename_i hlen
              split at h
              · rename_i hall
                simp only [MatRes.ok.injEq] at h
                subst h
                refine ⟨ntax, nchar, ?_, ?_, ?_, ?_, ?_⟩
                · rw [hl]; simpa using hh
                · simp only [Bool.or_eq_true, beq_iff_eq, not_or] at hz; omega
                · simp only [Bool.or_eq_true, beq_iff_eq, not_or] at hz; omega
                · simpa using hlen
                · intro r hr'
                  have := (List.all_eq_true.mp hall) r hr'
                  simpa using this
              · cases h

/-- **The scan-to-';' and scan-to-END loops stop at end of stream.**  `skip_to_semicolon` and
`_consume_to_end_of_block` — the loops every NEXUS block parser leans on — return (with input no longer than before)
or raise a parse error on *every* input, in particular on every prefix `doc.take n` of a document: the
no-progress marker `internal` is never produced.
`_partial`: the same statement for the complete `readNexus` (every block and statement loop is an `iter` of a body that
has to be shown good in the sense of `Aux.GoodBody`, cf. `Aux.iter_good`) is not proved here; the driver reports
`internal` verbatim, so any such outcome would surface as a correspondence disagreement (none on > 10^5 NEXUS reads per run). -/
theorem eof_is_parse_error_partial (doc : List Char) (n : Nat) (s : RS) (token : Option (List Char)) (w : String) :
    skipToSemi { s with rest := doc.take n } ≠ .error (.internal w) ∧
    consumeToEnd token { s with rest := doc.take n } ≠ .error (.internal w) ∧
    (∀ s', skipToSemi { s with rest := doc.take n } = .ok s' → s'.rest.length ≤ (doc.take n).length) :=
  ⟨skipToSemi_good.noInt _ w, (consumeToEnd_good token).noInt _ w, fun s' h => skipToSemi_good.le _ s' h⟩

/-- every `iter` loop whose body consumes input whenever it continues never reports `internal` and never gives input back -/
theorem reader_loops_total (b : RS → R (Bool × RS)) (hb : GoodBody b) (s : RS) (w : String) :
    iter b s ≠ .error (.internal w) ∧ ∀ s', iter b s = .ok s' → s'.rest.length ≤ s.rest.length :=
  ⟨(iter_good b hb).noInt s w, (iter_good b hb).le s⟩

/-! ### non-vacuity: the hypotheses of the theorems above are satisfiable -/

/-- `tokenizer_progress`: a token is read from `a;` -/
example : nextT {} ['a', ';'] = .tok ['a'] false [';'] := by
  rw [nextT]
  simp [skipWs, Cfg.unc, Cfg.cap, isQuote, readPlain, isCommentBegin, Tables.tokUncaptured, Tables.tokCaptured, Tables.tokQuote,
    Tables.tokCommentBegin, isEol]

/-- `ok_dims`: a PHYLIP source that is accepted (`1 1`, one row of one cell) -/
example : ∃ rows, readPhylip (fun c => c == 'A') false false ['1', ' ', '1', '\n', 'x', ' ', 'A', '\n', '\n'] = .ok rows :=
  ⟨[(['x'], 1)], by decide⟩

/-- ... and one whose row is longer than declared is rejected by the declared-versus-found check -/
example : readPhylip (fun c => c == 'A') false false ['1', ' ', '1', '\n', 'x', ' ', 'A', 'A', '\n', '\n'] = .err .data := by decide

/- `newick_statement_progress` / `newick_balanced`: their hypothesis `parseStatement … = .tree …` holds for every accepted
statement; the driver evaluates it on each generated valid document (evidence: `newick:valid:ok`, `nexus:valid:ok`),
e.g. `newick 00002800006100002c00006200002900003b` ↦ `ok 1 …`. -/

end DendroModel.C20
