import DendroModel.Model.C20
import DendroModel.Theory.C20Nexus
import DendroModel.Theory.C20Fuel
import DendroModel.Gen.C20Consts
/-! C20 — property theorems about the reader models the driver runs (`drv_c20`).

Clause (a) "every reader terminates": all model functions are total Lean functions defined without fuel and without
`partial`; their recursion is on a strictly shorter input, which rests on `tokenizer_progress`.
Clause (c) "never an internal error": the models mark the places where the code would dereference a `None` token
or spin with the constructor `internal`; the theorems below show it is never produced.
Clause (d): `newick_balanced`, `ok_dims`. -/
namespace DendroModel.C20.Aux
open DendroModel DendroModel.C20

/-! ### tokenizer -/
theorem allTokens_length (k : Cfg) : ∀ (n : Nat) (inp : List Char), inp.length ≤ n → (allTokens k inp).1.length ≤ inp.length := by
  intro n
  induction n with
  | zero =>
    intro inp h
    rw [allTokens]
    split
    · simp
    · simp
    · rename_i t q rest hn
      have := nextT_lt k inp t q rest hn
      omega
  | succ n ih =>
    intro inp h
    rw [allTokens]
    split
    · simp
    · simp
    · rename_i t q rest hn
      have h1 := nextT_lt k inp t q rest hn
      have h2 := ih rest (by omega)
      simp only [List.length_cons]
      omega

/-! ### the Newick machine: generic induction principle for `run` -/
theorem run_spec (k : Cfg) (P : NState → Prop) (Q : NDone → Prop)
    (hstep : ∀ st st', P st → step k st = .next st' → P st')
    (hdone : ∀ st r, P st → step k st = .done r → Q r) :
    ∀ (n : Nat) (st : NState), st.measure ≤ n → P st → Q (run k st) := by
  intro n
  induction n with
  | zero =>
    intro st hm hp
    rw [run_eq]
    split
    · rename_i r h; exact hdone _ _ hp h
    · rename_i st' h
      have := step_decreases k st st' h
      omega
  | succ n ih =>
    intro st hm hp
    rw [run_eq]
    split
    · rename_i r h; exact hdone _ _ hp h
    · rename_i st' h
      have := step_decreases k st st' h
      exact ih st' (by omega) (hstep _ _ hp h)

/-- what `require_next_token` + continuation can produce -/
theorem advance_next (k : Cfg) (s0 : NState) (cont : NState → StepRes) (st' : NState)
    (h : NState.advance k s0 cont = .next st') :
    ∃ t q rest, nextT k s0.rest = .tok t q rest ∧
      cont { s0 with cur := ⟨t, q⟩, rest := rest, trace := s0.trace ++ [⟨t, q⟩] } = .next st' := by
  unfold NState.advance at h
  split at h
  · cases h
  · cases h
  · rename_i t q rest hn
    exact ⟨t, q, rest, hn, h⟩

theorem advance_done (k : Cfg) (s0 : NState) (cont : NState → StepRes) (r : NDone)
    (h : NState.advance k s0 cont = .done r) :
    r = .err .eos ∨ r = .err .unterminated ∨
    ∃ t q rest, nextT k s0.rest = .tok t q rest ∧
      cont { s0 with cur := ⟨t, q⟩, rest := rest, trace := s0.trace ++ [⟨t, q⟩] } = .done r := by
  unfold NState.advance at h
  split at h
  · left; cases h; rfl
  · right; left; cases h; rfl
  · rename_i t q rest hn
    exact Or.inr (Or.inr ⟨t, q, rest, hn, h⟩)

/-! ### progress of a tree statement -/

/-- a step either consumes input or keeps input and current token -/
theorem step_shape (k : Cfg) (st st' : NState) (h : step k st = .next st') :
    st'.rest.length < st.rest.length ∨ (st'.rest = st.rest ∧ st'.cur = st.cur) := by
  have adv : ∀ (s0 : NState) (cont : NState → StepRes), NState.advance k s0 cont = .next st' → s0.rest = st.rest →
      (∀ s s', s.rest.length < st.rest.length → cont s = .next s' → s'.rest.length < st.rest.length) →
      st'.rest.length < st.rest.length := by
    intro s0 cont ha hr hc
    obtain ⟨t, q, rest, hn, hcont⟩ := advance_next k s0 cont st' ha
    have := nextT_lt k _ _ _ _ hn
    exact hc _ _ (by simpa [hr] using this) hcont
  have kidsNC : ∀ (s1 : NState), stepKidsNonComma k s1 = .next st' → s1.rest = st.rest → s1.cur = st.cur →
      st'.rest.length < st.rest.length ∨ (st'.rest = st.rest ∧ st'.cur = st.cur) := by
    intro s1 hk hr hcur
    unfold stepKidsNonComma at hk
    split at hk
    · left
      refine adv _ _ hk hr ?_
      intro s s' hs hc
      simp only [StepRes.next.injEq] at hc
      subst hc; exact hs
    · split at hk
      · left
        refine adv _ _ hk hr ?_
        intro s s' hs hc
        simp only [StepRes.next.injEq] at hc
        subst hc; exact hs
      · right
        simp only [StepRes.next.injEq] at hk
        subst hk
        exact ⟨hr, hcur⟩
  unfold step at h
  split at h
  · split at h
    · left
      refine adv _ _ h rfl ?_
      intro s s' hs hc
      simp only [StepRes.next.injEq] at hc
      subst hc; exact hs
    · exact kidsNC st h rfl rfl
  · split at h
    · left
      refine adv _ _ h rfl ?_
      intro s s' hs hc
      simp only [StepRes.next.injEq] at hc
      subst hc; exact hs
    · exact kidsNC _ h rfl rfl
  · unfold stepLab at h
    split at h
    · left
      refine adv _ _ h rfl ?_
      intro s s' hs hc
      split at hc
      · obtain ⟨t, q, rest, hn, hcont⟩ := advance_next k _ _ s' hc
        simp only [StepRes.next.injEq] at hcont
        subst hcont
        have := nextT_lt k _ _ _ _ hn
        simp only at this ⊢
        omega
      · cases hc
    · split at h
      · split at h
        · cases h
        · right
          simp only [StepRes.next.injEq] at h
          subst h
          exact ⟨rfl, rfl⟩
      · split at h
        · split at h
          · split at h <;> cases h
          · split at h <;> cases h
        · split at h
          · cases h
          · split at h
            · cases h
            · split at h
              · left
                refine adv _ _ h rfl ?_
                intro s s' hs hc
                simp only [StepRes.next.injEq] at hc
                subst hc; exact hs
              · dsimp only at h
                split at h
                · cases h
                · left
                  refine adv _ _ h rfl ?_
                  intro s s' hs hc
                  simp only [StepRes.next.injEq] at hc
                  subst hc; exact hs

/-- a statement is only completed on a semicolon, and completing it does not give input back -/
theorem step_done_ok (k : Cfg) (st : NState) (t : NTree) (nx : Option Tok) (rest' : List Char) (m : Mapper)
    (tr : List Tok) (h : step k st = .done (.ok t nx rest' m tr)) :
    st.cur = semi ∧ rest'.length ≤ st.rest.length ∧ tr = st.trace ∧ st.nesting = 0 ∧ st.phase = .lab := by
  have adv : ∀ (s0 : NState) (cont : NState → StepRes),
      (∀ s, cont s ≠ .done (.ok t nx rest' m tr)) → NState.advance k s0 cont ≠ .done (.ok t nx rest' m tr) := by
    intro s0 cont hc ha
    rcases advance_done k s0 cont _ ha with h1 | h1 | ⟨_, _, _, _, h1⟩
    · cases h1
    · cases h1
    · exact hc _ h1
  have kidsNC : ∀ (s1 : NState), stepKidsNonComma k s1 ≠ .done (.ok t nx rest' m tr) := by
    intro s1 hk
    unfold stepKidsNonComma at hk
    split at hk
    · exact adv _ _ (by intro s hc; cases hc) hk
    · split at hk
      · exact adv _ _ (by intro s hc; cases hc) hk
      · cases hk
  unfold step at h
  split at h
  · split at h
    · exact absurd h (adv _ _ (by intro s hc; cases hc))
    · exact absurd h (kidsNC _)
  · split at h
    · exact absurd h (adv _ _ (by intro s hc; cases hc))
    · exact absurd h (kidsNC _)
  · rename_i hph
    unfold stepLab at h
    split at h
    · refine absurd h (adv _ _ ?_)
      intro s hc
      split at hc
      · exact adv _ _ (by intro s hc; cases hc) hc
      · cases hc
    · split at h
      · split at h <;> cases h
      · split at h
        · rename_i hsemi
          split at h
          · split at h <;> cases h
          · rename_i hnest
            have hn0 : st.nesting = 0 := by simpa using hnest
            have hc : st.cur = semi := by simpa using hsemi
            split at h
            · cases h
            · simp only [StepRes.done.injEq, NDone.ok.injEq] at h
              obtain ⟨_, _, hr, _, htr⟩ := h
              subst hr
              exact ⟨hc, by simp, htr.symm, hn0, hph⟩
            · rename_i t2 q2 rest2 hnx
              simp only [StepRes.done.injEq, NDone.ok.injEq] at h
              obtain ⟨_, _, hr, _, htr⟩ := h
              subst hr
              have := nextT_lt k _ _ _ _ hnx
              exact ⟨hc, by omega, htr.symm, hn0, hph⟩
        · split at h
          · cases h
          · split at h
            · cases h
            · split at h
              · exact absurd h (adv _ _ (by intro s hc; cases hc))
              · dsimp only at h
                split at h
                · cases h
                · exact absurd h (adv _ _ (by intro s hc; cases hc))

/-- from a state whose current token is not `;`, a completed statement has consumed input -/
theorem run_progress (k : Cfg) (st0 : NState) (hc0 : st0.cur ≠ semi)
    (t : NTree) (nx : Option Tok) (rest' : List Char) (m : Mapper) (tr : List Tok)
    (h : run k st0 = .ok t nx rest' m tr) : rest'.length < st0.rest.length := by
  have key := run_spec k
    (fun st => st.rest.length ≤ st0.rest.length ∧ (st.rest.length < st0.rest.length ∨ st.cur = st0.cur))
    (fun r => match r with
      | .ok _ _ r' _ _ => r'.length < st0.rest.length
      | .err _ => True)
    (by
      intro st st' ⟨h1, h2⟩ hs
      rcases step_shape k st st' hs with hlt | ⟨hr, hcur⟩
      · exact ⟨by omega, Or.inl (by omega)⟩
      · rw [hr, hcur]; exact ⟨h1, h2⟩)
    (by
      intro st r ⟨h1, h2⟩ hs
      cases r with
      | err e => trivial
      | ok t nx r' m tr =>
        obtain ⟨hsemi, hle, _, _, _⟩ := step_done_ok k st t nx r' m tr hs
        rcases h2 with h2 | h2
        · show r'.length < st0.rest.length
          omega
        · exact absurd (h2 ▸ hsemi) hc0)
    st0.measure st0 (Nat.le_refl _) ⟨Nat.le_refl _, Or.inr rfl⟩
  rw [h] at key
  exact key

/-- a completed statement never gives input back -/
theorem run_rest_le (k : Cfg) (st0 : NState)
    (t : NTree) (nx : Option Tok) (rest' : List Char) (m : Mapper) (tr : List Tok)
    (h : run k st0 = .ok t nx rest' m tr) : rest'.length ≤ st0.rest.length := by
  have key := run_spec k
    (fun st => st.rest.length ≤ st0.rest.length)
    (fun r => match r with
      | .ok _ _ r' _ _ => r'.length ≤ st0.rest.length
      | .err _ => True)
    (by
      intro st st' h1 hs
      rcases step_shape k st st' hs with hlt | ⟨hr, _⟩
      · omega
      · rw [hr]; exact h1)
    (by
      intro st r h1 hs
      cases r with
      | err e => trivial
      | ok t nx r' m tr =>
        obtain ⟨_, hle, _, _, _⟩ := step_done_ok k st t nx r' m tr hs
        show r'.length ≤ st0.rest.length
        omega)
    st0.measure st0 (Nat.le_refl _) (Nat.le_refl _)
  rw [h] at key
  exact key

theorem skipSemis_le (k : Cfg) : ∀ (n : Nat) (cur : Option Tok) (rest : List Char) (started : Bool), rest.length ≤ n →
    ∀ c r s, skipSemis k cur rest started = .ok (c, r, s) →
      r.length ≤ rest.length ∧ (¬ (s = true ∧ r = []) → c ≠ some semi ∧ c ≠ none) := by
  intro n
  induction n with
  | zero =>
    intro cur rest started hl c r s h
    rw [skipSemis] at h
    split at h
    · split at h
      · cases h
      · cases h
      · rename_i t q rest' hn
        have := nextT_lt k _ _ _ _ hn
        omega
    · rename_i hcond
      simp only [Except.ok.injEq, Prod.mk.injEq] at h
      obtain ⟨h1, h2, h3⟩ := h
      subst h1 h2 h3
      refine ⟨Nat.le_refl _, ?_⟩
      intro hne
      simp only [Bool.and_eq_true, Bool.or_eq_true, beq_iff_eq, Bool.not_eq_true', not_and, Bool.not_eq_false] at hcond
      constructor
      · intro hs
        have := hcond (Or.inl hs)
        simp only [Bool.and_eq_true, List.isEmpty_iff] at this
        exact hne ⟨this.1, this.2⟩
      · intro hs
        have := hcond (Or.inr (by simp [hs]))
        simp only [Bool.and_eq_true, List.isEmpty_iff] at this
        exact hne ⟨this.1, this.2⟩
  | succ n ih =>
    intro cur rest started hl c r s h
    rw [skipSemis] at h
    split at h
    · split at h
      · cases h
      · cases h
      · rename_i t q rest' hn
        have hlt := nextT_lt k _ _ _ _ hn
        have := ih (some ⟨t, q⟩) rest' true (by omega) c r s h
        exact ⟨by omega, this.2⟩
    · rename_i hcond
      simp only [Except.ok.injEq, Prod.mk.injEq] at h
      obtain ⟨h1, h2, h3⟩ := h
      subst h1 h2 h3
      refine ⟨Nat.le_refl _, ?_⟩
      intro hne
      simp only [Bool.and_eq_true, Bool.or_eq_true, beq_iff_eq, Bool.not_eq_true', not_and, Bool.not_eq_false] at hcond
      constructor
      · intro hs
        have := hcond (Or.inl hs)
        simp only [Bool.and_eq_true, List.isEmpty_iff] at this
        exact hne ⟨this.1, this.2⟩
      · intro hs
        have := hcond (Or.inr (by simp [hs]))
        simp only [Bool.and_eq_true, List.isEmpty_iff] at this
        exact hne ⟨this.1, this.2⟩

theorem skipTrailingSemis_le (k : Cfg) : ∀ (n : Nat) (cur : Option Tok) (rest : List Char), rest.length ≤ n →
    ∀ c r, skipTrailingSemis k cur rest = .ok (c, r) → r.length ≤ rest.length := by
  intro n
  induction n with
  | zero =>
    intro cur rest hl c r h
    rw [skipTrailingSemis] at h
    split at h
    · split at h
      · simp only [Except.ok.injEq, Prod.mk.injEq] at h; rw [← h.2]; simp
      · cases h
      · rename_i t q rest' hn
        have := nextT_lt k _ _ _ _ hn
        omega
    · simp only [Except.ok.injEq, Prod.mk.injEq] at h; rw [← h.2]; exact Nat.le_refl _
  | succ n ih =>
    intro cur rest hl c r h
    rw [skipTrailingSemis] at h
    split at h
    · split at h
      · simp only [Except.ok.injEq, Prod.mk.injEq] at h; rw [← h.2]; simp
      · cases h
      · rename_i t q rest' hn
        have hlt := nextT_lt k _ _ _ _ hn
        have := ih (some ⟨t, q⟩) rest' (by omega) c r h
        omega
    · simp only [Except.ok.injEq, Prod.mk.injEq] at h; rw [← h.2]; exact Nat.le_refl _

/-! ### parenthesis balance of an accepted tree statement -/

/-- nesting depth after reading a token sequence from depth `d`; `none` when a closing parenthesis has no partner -/
def depthAux : List Tok → Nat → Option Nat
  | [], d => some d
  | t :: ts, d =>
    if t == lpar then depthAux ts (d + 1)
    else if t == rpar then (if d == 0 then none else depthAux ts (d - 1))
    else depthAux ts d

theorem depthAux_append (a b : List Tok) : ∀ d, depthAux (a ++ b) d = (depthAux a d).bind (depthAux b) := by
  induction a with
  | nil => intro d; simp [depthAux]
  | cons t ts ih =>
    intro d
    simp only [List.cons_append, depthAux]
    split
    · exact ih _
    · split
      · split
        · simp
        · exact ih _
      · exact ih _

theorem depth_snoc (pre : List Tok) (c : Tok) (n : Nat) (h : depthAux pre 0 = some n) :
    depthAux (pre ++ [c]) 0 =
      if c == lpar then some (n + 1) else if c == rpar then (if n == 0 then none else some (n - 1)) else some n := by
  rw [depthAux_append, h]
  simp only [Option.bind_some, depthAux]

/-- the invariant of the machine: all tokens before the current one are accounted for in `nesting`,
and `nesting` counts exactly the suspended frames (plus the open frame while its children are read) -/
def Inv (st : NState) : Prop :=
  ∃ pre, st.trace = pre ++ [st.cur] ∧ depthAux pre 0 = some st.nesting ∧
    st.nesting = st.stack.length + (if st.phase = .lab then 0 else 1)

theorem inv_mk (s' : NState) (tr : List Tok) (n : Nat)
    (htr : s'.trace = tr ++ [s'.cur]) (hd : depthAux tr 0 = some n) (hn : s'.nesting = n)
    (hrel : n = s'.stack.length + (if s'.phase = .lab then 0 else 1)) : Inv s' :=
  ⟨tr, htr, by rw [hn]; exact hd, by rw [hn]; exact hrel⟩

theorem pyFloatOk_lpar : pyFloatOk lpar.text = false := by decide
theorem pyFloatOk_rpar : pyFloatOk rpar.text = false := by decide

theorem inv_stepKidsNonComma (k : Cfg) (s1 st' : NState) (hinv : Inv s1) (hph : s1.phase ≠ .lab) (hcur : s1.cur ≠ comma)
    (h : stepKidsNonComma k s1 = .next st') : Inv st' := by
  obtain ⟨pre, htr, hd, hrel⟩ := hinv
  have hrel' : s1.nesting = s1.stack.length + 1 := by simpa [hph] using hrel
  unfold stepKidsNonComma at h
  split at h
  · rename_i hr
    have hr' : s1.cur = rpar := by simpa using hr
    obtain ⟨t, q, rest, hn, hcont⟩ := advance_next k _ _ st' h
    simp only [StepRes.next.injEq] at hcont
    subst hcont
    refine inv_mk _ s1.trace (s1.nesting - 1) (by simp) ?_ (by simp) (by simp; omega)
    rw [htr, depth_snoc pre _ _ hd, hr']
    have : (rpar == lpar) = false := by decide
    simp [this]; omega
  · split at h
    · rename_i hr hl
      have hl' : s1.cur = lpar := by simpa using hl
      obtain ⟨t, q, rest, hn, hcont⟩ := advance_next k _ _ st' h
      simp only [StepRes.next.injEq] at hcont
      subst hcont
      refine inv_mk _ s1.trace (s1.nesting + 1) (by simp) ?_ (by simp) (by simp; omega)
      rw [htr, depth_snoc pre _ _ hd, hl']
      simp
    · simp only [StepRes.next.injEq] at h
      subst h
      exact ⟨pre, htr, hd, by simp; omega⟩

theorem inv_step (k : Cfg) (st st' : NState) (hinv : Inv st) (h : step k st = .next st') : Inv st' := by
  unfold step at h
  split at h
  · -- kids
    rename_i hph
    split at h
    · rename_i hc
      have hc' : st.cur = comma := by simpa using hc
      obtain ⟨pre, htr, hd, hrel⟩ := hinv
      obtain ⟨t, q, rest, hn, hcont⟩ := advance_next k _ _ st' h
      simp only [StepRes.next.injEq] at hcont
      subst hcont
      refine inv_mk _ st.trace st.nesting (by simp) ?_ (by simp) (by simpa [hph] using hrel)
      rw [htr, depth_snoc pre _ _ hd, hc']
      have h1 : (comma == lpar) = false := by decide
      have h2 : (comma == rpar) = false := by decide
      simp [h1, h2]
    · rename_i hc
      exact inv_stepKidsNonComma k st st' hinv (by simp [hph]) (by simpa using hc) h
  · -- comma
    rename_i hph
    split at h
    · rename_i hc
      have hc' : st.cur = comma := by simpa using hc
      obtain ⟨pre, htr, hd, hrel⟩ := hinv
      obtain ⟨t, q, rest, hn, hcont⟩ := advance_next k _ _ st' h
      simp only [StepRes.next.injEq] at hcont
      subst hcont
      refine inv_mk _ st.trace st.nesting (by simp) ?_ (by simp) (by simpa [hph] using hrel)
      rw [htr, depth_snoc pre _ _ hd, hc']
      have h1 : (comma == lpar) = false := by decide
      have h2 : (comma == rpar) = false := by decide
      simp [h1, h2]
    · rename_i hc
      refine inv_stepKidsNonComma k _ st' ?_ (by simp) (by simpa using hc) h
      obtain ⟨pre, htr, hd, hrel⟩ := hinv
      exact ⟨pre, htr, hd, by simpa [hph] using hrel⟩
  · -- lab
    rename_i hph
    obtain ⟨pre, htr, hd, hrel⟩ := hinv
    have hrel' : st.nesting = st.stack.length := by simpa [hph] using hrel
    unfold stepLab at h
    split at h
    · rename_i hc
      have hc' : st.cur = colon := by simpa using hc
      obtain ⟨t, q, rest, hn, hcont⟩ := advance_next k _ _ st' h
      split at hcont
      · rename_i hfl
        obtain ⟨t2, q2, rest2, hn2, hcont2⟩ := advance_next k _ _ st' hcont
        simp only [StepRes.next.injEq] at hcont2
        subst hcont2
        simp only at hfl
        have h1 : depthAux st.trace 0 = some st.nesting := by
          rw [htr, depth_snoc pre _ _ hd, hc']
          have h1 : (colon == lpar) = false := by decide
          have h2 : (colon == rpar) = false := by decide
          simp [h1, h2]
        have ht1 : ((⟨t, q⟩ : Tok) == lpar) = false := by
          cases hx : ((⟨t, q⟩ : Tok) == lpar)
          · rfl
          · have : (⟨t, q⟩ : Tok) = lpar := by simpa using hx
            have ht : t = lpar.text := congrArg Tok.text this
            rw [ht, pyFloatOk_lpar] at hfl; cases hfl
        have ht2 : ((⟨t, q⟩ : Tok) == rpar) = false := by
          cases hx : ((⟨t, q⟩ : Tok) == rpar)
          · rfl
          · have : (⟨t, q⟩ : Tok) = rpar := by simpa using hx
            have ht : t = rpar.text := congrArg Tok.text this
            rw [ht, pyFloatOk_rpar] at hfl; cases hfl
        refine inv_mk _ (st.trace ++ [⟨t, q⟩]) st.nesting (by simp) ?_ (by simp) (by simp [hph]; exact hrel')
        rw [depth_snoc st.trace _ _ h1]
        simp [ht1, ht2]
      · cases hcont
    · split at h
      · rename_i hcc
        split at h
        · cases h
        · rename_i p ps hst
          simp only [StepRes.next.injEq] at h
          subst h
          refine ⟨pre, htr, hd, ?_⟩
          simp only [hst, List.length_cons] at hrel'
          simp; omega
      · split at h
        · split at h
          · split at h <;> cases h
          · split at h <;> cases h
        · split at h
          · cases h
          · split at h
            · cases h
            · rename_i hcol hrc hsemi hlp hlab
              have hcur_other : depthAux st.trace 0 = some st.nesting := by
                rw [htr, depth_snoc pre _ _ hd]
                have h1 : (st.cur == lpar) = false := by simpa using hlp
                have h2 : (st.cur == rpar) = false := by
                  simp only [Bool.or_eq_true, not_or] at hrc
                  simpa using hrc.1
                simp [h1, h2]
              split at h
              · obtain ⟨t, q, rest, hn, hcont⟩ := advance_next k _ _ st' h
                simp only [StepRes.next.injEq] at hcont
                subst hcont
                exact inv_mk _ st.trace st.nesting (by simp) hcur_other (by simp) (by simp [hph]; exact hrel')
              · dsimp only at h
                split at h
                · cases h
                · obtain ⟨t, q, rest, hn, hcont⟩ := advance_next k _ _ st' h
                  simp only [StepRes.next.injEq] at hcont
                  subst hcont
                  exact inv_mk _ st.trace st.nesting (by simp) hcur_other (by simp) (by simp [hph]; exact hrel')

/-- an accepted statement: its tokens are parenthesis-balanced and the last one is the semicolon -/
theorem run_balanced (k : Cfg) (st0 : NState) (h0 : Inv st0)
    (t : NTree) (nx : Option Tok) (rest' : List Char) (m : Mapper) (tr : List Tok)
    (h : run k st0 = .ok t nx rest' m tr) : depthAux tr 0 = some 0 ∧ tr.getLast? = some semi := by
  have key := run_spec k Inv
    (fun r => match r with
      | .ok _ _ _ _ tr => depthAux tr 0 = some 0 ∧ tr.getLast? = some semi
      | .err _ => True)
    (fun st st' hi hs => inv_step k st st' hi hs)
    (by
      intro st r hi hs
      cases r with
      | err e => trivial
      | ok t nx r' m tr =>
        obtain ⟨hsemi, _, htr, hn0, _⟩ := step_done_ok k st t nx r' m tr hs
        obtain ⟨pre, hpre, hd, _⟩ := hi
        show depthAux tr 0 = some 0 ∧ tr.getLast? = some semi
        rw [htr, hpre, hsemi]
        constructor
        · rw [depth_snoc pre _ _ hd, hn0]
          have h1 : (semi == lpar) = false := by decide
          have h2 : (semi == rpar) = false := by decide
          simp [h1, h2]
        · simp)
    st0.measure st0 (Nat.le_refl _) h0
  rw [h] at key
  exact key

/-! ### the NEXUS reader: every loop body consumes input whenever it asks to continue (Hoare rules in Theory/C20Nexus.lean) -/

end DendroModel.C20.Aux

namespace DendroModel.C20
open DendroModel DendroModel.C20.Aux

deriving instance DecidableEq for MatRes

/-- **Tokenizer progress.**  Whatever the delimiter configuration, a token returned by `Tokenizer.__next__` leaves a
strictly shorter input.  All reader loops of the model recurse through this fact. -/
theorem tokenizer_progress (k : Cfg) (inp t : List Char) (q : Bool) (rest : List Char)
    (h : nextT k inp = .tok t q rest) : rest.length < inp.length :=
  nextT_lt k inp t q rest h

/-- iterating the tokenizer to exhaustion yields at most one token per input character -/
theorem token_count_bounded (k : Cfg) (inp : List Char) : (allTokens k inp).1.length ≤ inp.length :=
  allTokens_length k inp.length inp (Nat.le_refl _)

/-- **A tree statement makes progress**: when `_parse_tree_statement` returns a tree, the unread input is strictly
shorter than before, for every input, current token and symbol table.  Hence `tree_iter` cannot spin. -/
theorem newick_statement_progress (k : Cfg) (cur : Option Tok) (rest : List Char) (started : Bool) (mp : Mapper)
    (t : NTree) (nx : Option Tok) (rest' : List Char) (m : Mapper) (tr : List Tok)
    (h : parseStatement k cur rest started mp = .tree t nx rest' m tr) : rest'.length < rest.length := by
  unfold parseStatement at h
  split at h
  · cases h
  · rename_i c1 r1 s1 hsk
    have hsk' := skipSemis_le k rest.length cur rest started (Nat.le_refl _) c1 r1 s1 hsk
    split at h
    · cases h
    · rename_i hne
      split at h
      · cases h
      · rename_i c
        have hcs : c ≠ semi := by
          have := (hsk'.2 (by simpa using hne)).1
          intro hc; exact this (by rw [hc])
        dsimp only at h
        split at h
        · cases h
        · rename_i tt nx2 r2 m2 tr2 hrun
          have hr2 : r2.length < r1.length := by
            split at hrun
            · rename_i hlp
              split at hrun
              · rename_i r hadv
                rcases advance_done k _ _ _ hadv with h1 | h1 | ⟨_, _, _, _, h1⟩
                · rw [h1] at hrun; cases hrun
                · rw [h1] at hrun; cases hrun
                · cases h1
              · rename_i s hadv
                obtain ⟨t1, q1, rest1, hn, hcont⟩ := advance_next k _ _ s hadv
                simp only [StepRes.next.injEq] at hcont
                have hlt := nextT_lt k _ _ _ _ hn
                by_cases hs1 : (⟨t1, q1⟩ : Tok) = semi
                · -- '(' followed by ';' : the kids phase treats ';' as a child label, whose label loop ends the statement
                  subst hcont
                  have key := run_rest_le k _ tt nx2 r2 m2 tr2 hrun
                  simp only at key hlt
                  omega
                · subst hcont
                  have := run_progress k _ (by simpa using hs1) tt nx2 r2 m2 tr2 hrun
                  simp only at this hlt
                  omega
            · exact run_progress k _ (by simpa using hcs) tt nx2 r2 m2 tr2 hrun
          split at h
          · cases h
          · rename_i nx3 r3 hts
            have := skipTrailingSemis_le k r2.length nx2 r2 (Nat.le_refl _) nx3 r3 hts
            simp only [StmtRes.tree.injEq] at h
            obtain ⟨_, _, hr, _, _⟩ := h
            subst hr
            omega

/-- **Accepted Newick statements are balanced and terminated.**  Whenever `_parse_tree_statement` returns a tree, the
tokens it consumed for it (`trace`, from the first token of the statement to the last) never close a parenthesis that
was not opened, end at nesting depth 0, and the last of them is the terminating semicolon. -/
theorem newick_balanced (k : Cfg) (cur : Option Tok) (rest : List Char) (started : Bool) (mp : Mapper)
    (t : NTree) (nx : Option Tok) (rest' : List Char) (m : Mapper) (tr : List Tok)
    (h : parseStatement k cur rest started mp = .tree t nx rest' m tr) :
    depthAux tr 0 = some 0 ∧ tr.getLast? = some semi := by
  unfold parseStatement at h
  split at h
  · cases h
  · split at h
    · cases h
    · split at h
      · cases h
      · rename_i c hsk
        dsimp only at h
        split at h
        · cases h
        · rename_i tt nx2 r2 m2 tr2 hrun
          have hb : depthAux tr2 0 = some 0 ∧ tr2.getLast? = some semi := by
            split at hrun
            · rename_i hlp
              have hlp' : c = lpar := by simpa using hlp
              split at hrun
              · rename_i r hadv
                rcases advance_done k _ _ _ hadv with h1 | h1 | ⟨_, _, _, _, h1⟩
                · rw [h1] at hrun; cases hrun
                · rw [h1] at hrun; cases hrun
                · cases h1
              · rename_i s hadv
                obtain ⟨t1, q1, rest1, hn, hcont⟩ := advance_next k _ _ s hadv
                simp only [StepRes.next.injEq] at hcont
                subst hcont
                refine run_balanced k _ ?_ tt nx2 r2 m2 tr2 hrun
                refine inv_mk _ [c] 1 (by simp) ?_ (by simp) (by simp)
                rw [hlp']; decide
            · rename_i hlp
              refine run_balanced k _ ?_ tt nx2 r2 m2 tr2 hrun
              exact inv_mk _ [] 0 (by simp) (by simp [depthAux]) (by simp) (by simp)
          split at h
          · cases h
          · simp only [StmtRes.tree.injEq] at h
            obtain ⟨_, _, _, _, htr⟩ := h
            subst htr
            exact hb

/-- **`tree_iter` cannot spin.**  The only `internal` of `readNewick` is the no-progress guard of `treeIter`; by
`newick_statement_progress` it is dead, i.e. the statement loop of the Newick reader terminates on every text by
consuming input.  (This is the termination clause.  The "no AttributeError / IndexError" clause has no counterpart to
prove here: the model's tokens are `Option`/explicit end of stream by construction; that clause is checked on the
implementation by the oracle.) -/
theorem newick_never_internal (text : List Char) (w : String) : readNewick text ≠ .internal w := by
  have key : ∀ (n : Nat) (k : Cfg) (cur : Option Tok) (rest : List Char) (started : Bool) (mp : Mapper) (acc : List NTree),
      rest.length ≤ n → treeIter k cur rest started mp acc ≠ .internal w := by
    intro n
    induction n with
    | zero =>
      intro k cur rest started mp acc hl
      rw [treeIter]
      split
      · intro h; cases h
      · intro h; cases h
      · rename_i t nx rest' m tr hps
        have := newick_statement_progress k cur rest started mp t nx rest' m tr hps
        omega
    | succ n ih =>
      intro k cur rest started mp acc hl
      rw [treeIter]
      split
      · intro h; cases h
      · intro h; cases h
      · rename_i t nx rest' m tr hps
        have hlt := newick_statement_progress k cur rest started mp t nx rest' m tr hps
        rw [if_pos hlt]
        exact ih k nx rest' true m _ (by omega)
  exact key text.length nwCfg none text false {} [] (Nat.le_refl _)

/-- **Declared versus found (PHYLIP)**: a matrix is only returned when the first line declares `ntax nchar` and the
matrix has exactly `ntax` rows of exactly `nchar` cells each — for every text, mode and symbol set.
(Read off the two final guards of `readPhylip`, which mirror the repaired `PhylipReader._read`: the theorem pins those
guards — dropping either breaks it — but says nothing about how the row loops fill the rows.) -/
theorem ok_dims (sym : Char → Bool) (strict interleaved : Bool) (text : List Char) (rows : Rows)
    (h : readPhylip sym strict interleaved text = .ok rows) :
    ∃ ntax nchar, (splitLines text).head?.bind parseHeader = some (ntax, nchar) ∧ 0 < ntax ∧ 0 < nchar ∧
      rows.length = ntax ∧ ∀ r ∈ rows, r.2 = nchar := by
  unfold readPhylip at h
  simp only at h
  split at h
  · cases h
  · split at h
    · cases h
    · rename_i desc body hl
      split at h
      · cases h
      · rename_i ntax nchar hh
        split at h
        · cases h
        · rename_i hz
          split at h
          · cases h
          · cases h
          · rename_i rows' hr
            split at h
            · cases h
            · rename_i hlen
              split at h
              · rename_i hall
                simp only [MatRes.ok.injEq] at h
                subst h
                refine ⟨ntax, nchar, ?_, ?_, ?_, ?_, ?_⟩
                · rw [hl]; simpa using hh
                · simp only [Bool.or_eq_true, beq_iff_eq, not_or] at hz; omega
                · simp only [Bool.or_eq_true, beq_iff_eq, not_or] at hz; omega
                · simpa using hlen
                · intro r hr'
                  have := (List.all_eq_true.mp hall) r hr'
                  simpa using this
              · cases h

end DendroModel.C20

namespace DendroModel.C20.Aux
open DendroModel DendroModel.C20

theorem skipToSemi_post (s : RS) : Post (skipToSemi s) (LeQ s) := by
  unfold skipToSemi
  refine iter_post _ ?_ s
  intro s
  pb
  rename_i t s1 hp
  refine Post.pure ?_
  simp only [BodyQ]
  refine ⟨hp.1, fun h => ?_⟩
  simp only [Bool.and_eq_true] at h
  exact hp.2.1 h.2
macro_rules | `(tactic| pbind) => `(tactic| refine Post.bind (skipToSemi_post _) ?_)

theorem consumeToEnd_post (token : Option (List Char)) (s : RS) : Post (consumeToEnd token s) (LeQ s) := by
  unfold consumeToEnd
  refine Post.mono (iter_post _ ?_ _) (fun a h => h)
  intro s
  try dsimp only
  split
  · pfin
  · rename_i hc
    pb
    pb
    rename_i s1 hp1 t s2 hp
    have hne : s.rest ≠ [] := by
      intro he; apply hc; simp [RS.eof, he]
    have hpos : 0 < s.rest.length := List.length_pos_iff.mpr hne
    refine Post.pure ?_
    simp only [BodyQ, LeQ] at *
    refine ⟨by omega, fun _ => ?_⟩
    cases t with
    | some tt => have := hp.2.1 rfl; omega
    | none => have := hp.2.2 rfl; simp [this]; exact hpos
macro_rules | `(tactic| pbind) => `(tactic| refine Post.bind (consumeToEnd_post _ _) ?_)

theorem parseTitle_post (s : RS) : Post (parseTitle s) (fun s' => s'.rest.length < s.rest.length) := by
  unfold parseTitle
  pb
  pb
  split
  · pfin
  · pfin
macro_rules | `(tactic| pbind) => `(tactic| refine Post.bind (parseTitle_post _) ?_)

theorem parseDimensions_post (s : RS) : Post (parseDimensions s) (fun s' => s'.rest.length < s.rest.length) := by
  unfold parseDimensions
  pb
  refine Post.mono (iter_post _ ?_ _) ?_
  · intro s
    try dsimp only
    split
    · pfin
    · refine Post.bind (Q1 := fun s' => s'.rest.length ≤ s.rest.length) ?_ ?_
      · split
        · pb
          split
          · pb
            split <;> pfin
          · pfin
        · split
          · pb
            split
            · pb
              split <;> pfin
            · pfin
          · split <;> pfin
      · intro s1 h1
        pb
        pfin
  · intro a ha
    simp only [LeQ] at ha
    try dsimp only at *
    omega
macro_rules | `(tactic| pbind) => `(tactic| refine Post.bind (parseDimensions_post _) ?_)

theorem parseTaxlabels_post (i : Nat) (s : RS) : Post (parseTaxlabels i s) (fun s' => s'.rest.length < s.rest.length) := by
  unfold parseTaxlabels
  pb
  refine Post.mono (iter_post _ ?_ _) ?_
  · intro s
    try dsimp only
    split
    · pfin
    · refine Post.bind (Q1 := fun s' => s'.rest.length ≤ s.rest.length) ?_ ?_
      · (repeat' split) <;> pfin
      · intro s1 h1
        pb
        pfin
  · intro a ha
    simp only [LeQ] at ha
    try dsimp only at *
    omega
macro_rules | `(tactic| pbind) => `(tactic| refine Post.bind (parseTaxlabels_post _ _) ?_)

theorem parseLink_post (s : RS) : Post (parseLink s) (fun s' => s'.rest.length < s.rest.length) := by
  unfold parseLink
  pb
  refine Post.mono (iter_post _ ?_ _) ?_
  · intro s
    try dsimp only
    split
    · pfin
    · split
      · pb
        split
        · pfin
        · pb
          pb
          pfin
      · split
        · pb
          split
          · pfin
          · pb
            pb
            pfin
        · pb
          pfin
  · intro a ha
    simp only [LeQ] at ha
    try dsimp only at *
    omega
macro_rules | `(tactic| pbind) => `(tactic| refine Post.bind (parseLink_post _) ?_)

theorem getTns_post (title : Option (List Char)) (s : RS) : Post (getTns title s) (fun p => p.2.rest = s.rest) := by
  unfold getTns
  split
  · split
    · exact Post.pure rfl
    · split
      · exact Post.pure rfl
      · pfin
  · dsimp only
    split
    · exact Post.pure rfl
    · pfin
macro_rules | `(tactic| pbind) => `(tactic| refine Post.bind (getTns_post _ _) ?_)

theorem taxaBlock_post (s : RS) : Post (taxaBlock s) (LeQ s) := by
  unfold taxaBlock
  pb
  refine Post.bind (iter_post _ ?_ _) ?_
  · intro s
    try dsimp only
    split
    · pfin
    · pb
      refine Post.bind (Q1 := fun s' => s'.rest.length < s.rest.length) ?_ ?_
      · split
        · pb
          pfin
        · pfin
      · intro s2 h2
        refine Post.bind (Q1 := fun s' => s'.rest.length < s.rest.length) ?_ ?_
        · split
          · refine Post.mono (parseDimensions_post _) ?_
            intro a ha; omega
          · pfin
        · intro s3 h3
          refine Post.bind (Q1 := fun s' => s'.rest.length < s.rest.length) ?_ ?_
          · split
            · refine Post.mono (parseTaxlabels_post _ _) ?_
              intro a ha
              split at ha <;> ((try dsimp only at ha); omega)
            · pfin
          · intro s4 h4
            pfin
  · intro s5 h5
    simp only [LeQ] at h5
    try dsimp only at *
    refine Post.mono (skipToSemi_post _) ?_
    intro a ha
    simp only [LeQ] at *
    omega
macro_rules | `(tactic| pbind) => `(tactic| refine Post.bind (taxaBlock_post _) ?_)

theorem ensureNs_post (s : RS) : Post (ensureNs s) (fun s' => s'.rest = s.rest) := by
  unfold ensureNs
  split
  · exact Post.pure rfl
  · pb
    rename_i i s1 h
    exact Post.pure h
macro_rules | `(tactic| pbind) => `(tactic| refine Post.bind (ensureNs_post _) ?_)


theorem parseTranslate_post (s : RS) : Post (parseTranslate s) (LeQ s) := by
  unfold parseTranslate
  refine Post.mono (iter_post _ ?_ _) ?_
  · intro s
    pb
    split
    · pfin
    · pb
      refine Post.bind (Q1 := fun _ => True) ?_ ?_
      · (repeat' split) <;> first | exact Post.perr _ | exact Post.pure trivial
      · intro p _
        pb
        rename_i hq
        obtain ⟨hq1, _, _⟩ := hq
        (repeat' split) <;> first
          | exact Post.perr _
          | (refine Post.pure ?_; simp only [BodyQ]; exact ⟨by omega, fun _ => by omega⟩)
          | (refine Post.pure ?_; simp only [BodyQ]; exact ⟨by omega, fun h => absurd h (by decide)⟩)
  · intro a ha
    simp only [LeQ] at *
    have := congrArg List.length (ensureMapper_rest s)
    split at ha <;> (try dsimp only at ha) <;> omega
macro_rules | `(tactic| pbind) => `(tactic| refine Post.bind (parseTranslate_post _) ?_)

theorem parseTreeStatement_post (s : RS) : Post (parseTreeStatement s) (fun s' => s'.rest.length < s.rest.length) := by
  unfold parseTreeStatement
  pb
  rename_i t1 s1 h1
  refine Post.bind (Q1 := fun p => p.2.rest.length ≤ s.rest.length) ?_ ?_
  · split
    · refine Post.mono (nextTok_post _) ?_
      intro a ha; omega
    · exact Post.pure h1.1
  · intro p hp
    rcases p with ⟨t2, s2⟩
    try dsimp only at *
    pb
    rename_i t3 s3 h3
    split
    · pfin
    · pb
      rename_i t4 s4 h4
      split
      · pfin
      · pfin
      · rename_i tr nx rest' m' trace hps
        have := newick_statement_progress _ _ _ _ _ _ _ _ _ _ hps
        refine Post.pure ?_
        try dsimp only
        omega
macro_rules | `(tactic| pbind) => `(tactic| refine Post.bind (parseTreeStatement_post _) ?_)


theorem treesBlock_post (s : RS) : Post (treesBlock s) (LeQ s) := by
  unfold treesBlock
  pb
  rename_i s0 h0
  refine Post.bind (iter_post _ ?_ _) ?_
  · intro s
    try dsimp only
    split
    · pfin
    · pb
      rename_i hc t s1 h1
      have hne : s.rest ≠ [] := by
        intro he; apply hc; simp [RS.eof, he]
      have hpos : 0 < s.rest.length := List.length_pos_iff.mpr hne
      have hlt : s1.rest.length < s.rest.length := by
        cases t with
        | some tt => exact h1.2.1 rfl
        | none => have := h1.2.2 rfl; simp [this]; exact hpos
      split
      · pb
        pfin
      · split
        · pb
          pfin
        · split
          · pb
            rename_i s2 h2
            pb
            rename_i s3 h3
            simp only [LeQ] at h3
            refine Post.pure ?_
            simp only [BodyQ]
            try dsimp only at *
            rw [h2] at h3
            exact ⟨by omega, fun _ => by omega⟩
          · split
            · pb
              rename_i s2 h2
              refine Post.bind (iter_post _ ?_ _) ?_
              · intro s
                pb
                (repeat' split) <;> pfin
              · intro s4 h4
                simp only [LeQ] at h4
                rw [startTreeList_rest, ensureMapper_rest, h2] at h4
                refine Post.pure ?_
                simp only [BodyQ]
                exact ⟨by omega, fun _ => by omega⟩
            · split <;> pfin
  · intro s5 h5
    simp only [LeQ] at h5
    try dsimp only at *
    refine Post.mono (skipToSemi_post _) ?_
    intro a ha
    simp only [LeQ] at *
    rw [closeMapper_rest] at ha
    omega
macro_rules | `(tactic| pbind) => `(tactic| refine Post.bind (treesBlock_post _) ?_)

theorem ite_rest (c : Bool) (x y : RS) (h : y.rest = x.rest) : (if c then x else y).rest = x.rest := by
  split <;> simp [h]

theorem fmtDatatype_post (s : RS) : Post (fmtDatatype s) (BodyQ s) := by
  unfold fmtDatatype
  pb
  split
  · pfin
  · pb
    rename_i t2 s2 h2
    pb
    rename_i t3 s3 h3
    refine Post.pure ?_
    simp only [BodyQ]
    try dsimp only at h3
    exact ⟨by omega, fun _ => by omega⟩

theorem fmtSymbolsLoop_post (s : RS) : Post (fmtSymbolsLoop s) (LeQ s) := by
  unfold fmtSymbolsLoop
  refine iter_post _ ?_ s
  intro s
  try dsimp only
  split
  · pfin
  · pb
    rename_i t1 s1 h1
    refine Post.pure ?_
    simp only [BodyQ]
    have : (if isInfix s.stok s.symbols then s else { s with symbols := s.symbols ++ s.stok }).rest = s.rest := by
      split <;> rfl
    rw [this] at h1
    exact ⟨by omega, fun _ => by omega⟩
macro_rules | `(tactic| pbind) => `(tactic| refine Post.bind (fmtSymbolsLoop_post _) ?_)

theorem fmtSymbols_post (s : RS) : Post (fmtSymbols s) (BodyQ s) := by
  unfold fmtSymbols
  pb
  split
  · pfin
  · pb
    split
    · pfin
    · pb
      pb
      rename_i s4 h4
      simp only [LeQ] at h4
      pb
      pfin

theorem fmtAssign_post (f : Nat) (s : RS) : Post (fmtAssign f s) (BodyQ s) := by
  unfold fmtAssign
  pb
  split
  · pfin
  · pb
    pb
    rename_i v s2 h2 t3 s3 h3
    refine Post.pure ?_
    simp only [BodyQ]
    have : (if f == 0 then { s3 with gap := v } else if f == 1 then { s3 with missing := v } else { s3 with matchc := [v, lower v] }).rest = s3.rest := by
      (repeat' split) <;> rfl
    try dsimp only
    rw [this]
    exact ⟨by omega, fun _ => by omega⟩

theorem fmtInterleave_post (s : RS) : Post (fmtInterleave s) (BodyQ s) := by
  unfold fmtInterleave
  pb
  split
  · pb
    pb
    pfin
  · pfin

theorem parseFormat_post (s : RS) : Post (parseFormat s) (fun s' => s'.rest.length < s.rest.length) := by
  unfold parseFormat
  pb
  refine Post.mono (iter_post _ ?_ _) ?_
  · intro s
    try dsimp only
    split
    · pfin
    · split
      · exact fmtDatatype_post s
      · split
        · exact fmtSymbols_post s
        · split
          · exact fmtAssign_post _ s
          · split
            · exact fmtInterleave_post s
            · split
              · exact fmtAssign_post _ s
              · split
                · exact fmtAssign_post _ s
                · split
                  · pfin
                  · pb
                    pfin
  · intro a ha
    simp only [LeQ] at ha
    try dsimp only at *
    omega
macro_rules | `(tactic| pbind) => `(tactic| refine Post.bind (parseFormat_post _) ?_)

theorem symbolTest_post (sy : Syms) (s : RS) : Post (symbolTest sy s) (fun _ => True) := by
  unfold symbolTest
  split
  · refine Post.pure ?_; trivial
  · refine Post.pure ?_; trivial
  · refine Post.pure ?_; trivial
  · refine Post.pure ?_; trivial
  · refine Post.pure ?_; trivial
  · dsimp only
    refine Post.ite (Post.perr _) (Post.ite (Post.perr _) ?_)
    refine Post.pure ?_; trivial

theorem cellsOf_post (symOk : Char → Bool) (matchc : List (List Char)) (firstLen : Option Nat) (base nchar : Nat) :
    ∀ (cs : List Char) (n : Nat), Post (cellsOf symOk matchc firstLen base nchar cs n) (fun _ => True)
  | [], n => by unfold cellsOf; exact Post.pure trivial
  | c :: cs, n => by
    unfold cellsOf
    try dsimp only
    exact Post.ite (Post.perr _) (Post.ite (Post.perr _) (cellsOf_post symOk matchc firstLen base nchar cs (n + 1)))

theorem readStates_post (symOk : Char → Bool) (r : Nat) (s : RS) (hr : r < s.rows.length) : Post (readStates symOk r s) (LeQ s) := by
  unfold readStates
  rw [if_neg (by omega)]
  try dsimp only
  have hite : ∀ (x : RS) (c : Bool) (k : Cfg), (if c then { x with cfg := k } else x).rest = x.rest := by
    intro x c k; split <;> rfl
  refine Post.bind (iter_post _ ?_ _) ?_
  · intro s
    try dsimp only
    refine Post.ite ?_ ?_
    · pfin
    · pb
      rename_i t1 s1 h1
      refine Post.ite ?_ ?_
      · refine Post.bind (iter_post _ ?_ _) ?_
        · intro s
          pb
          refine Post.ite ?_ ?_ <;> pfin
        · intro s3 h3
          simp only [LeQ] at h3
          try dsimp only at *
          refine Post.ite ?_ ?_ <;> pfin
      · refine Post.ite ?_ ?_
        · pfin
        · refine Post.ite ?_ ?_
          · pfin
          · refine Post.ite ?_ ?_
            · refine Post.ite ?_ ?_ <;> pfin
            · refine Post.bind (cellsOf_post _ _ _ _ _ _ _) ?_
              intro n _
              pfin
  · intro s5 h5
    simp only [LeQ] at h5
    rw [hite] at h5
    try dsimp only at h5
    refine Post.ite ?_ ?_
    · refine Post.ite ?_ ?_
      · refine Post.pure ?_
        simp only [LeQ]
        try dsimp only
        omega
      · refine Post.pure ?_
        simp only [LeQ]
        omega
    · refine Post.pure ?_
      simp only [LeQ]
      try dsimp only
      rw [hite]
      omega
macro_rules | `(tactic| pbind) => `(tactic| refine Post.bind (readStates_post _ _ _ (by assumption)) ?_)

theorem idxOf_bounds {α : Type} (p : α → Bool) : ∀ (l : List α) (k i : Nat), idxOf p l k = some i → k ≤ i ∧ i < k + l.length
  | [], k, i, h => by simp [idxOf] at h
  | a :: as, k, i, h => by
    unfold idxOf at h
    split at h
    · simp only [Option.some.injEq] at h; subst h; simp
    · have := idxOf_bounds p as (k + 1) i h
      simp only [List.length_cons]; omega

theorem rowFor_post (i : Nat) (label : List Char) (s : RS) : Post (rowFor i label s) (fun p => p.2.rest = s.rest ∧ p.1 < p.2.rows.length) := by
  unfold rowFor
  try dsimp only
  refine Post.bind (Q1 := fun p => p.2.rest = s.rest) ?_ ?_
  · (repeat' split) <;> first | exact Post.perr _ | exact Post.pure rfl
  · intro p hp
    rcases p with ⟨tx, s1⟩
    try dsimp only at *
    split
    · rename_i r hr
      have := idxOf_bounds _ s1.rows 0 r hr
      exact Post.pure ⟨hp, by dsimp only; omega⟩
    · exact Post.pure ⟨hp, by simp⟩
macro_rules | `(tactic| pbind) => `(tactic| refine Post.bind (rowFor_post _ _ _) ?_)

theorem matrixRows_post (symOk : Char → Bool) (i nchar : Nat) (s : RS) : Post (matrixRows symOk i nchar s) (LeQ s) := by
  unfold matrixRows
  refine iter_post _ ?_ s
  intro s
  split
  · pfin
  · refine Post.ite' (fun _ => ?_) (fun hne => ?_)
    · pfin
    · pb
      rename_i r s3 h3'
      obtain ⟨h3, hr3⟩ := h3'
      pb
      rename_i s4 h4
      simp only [LeQ] at h4
      rw [h3] at h4
      have hf : ∀ (x : RS) (c : Bool) (k : Option Nat), (if c then { x with first := k } else x).rest = x.rest := by
        intro x c k; split <;> rfl
      try dsimp only
      refine Post.ite ?_ ?_
      · refine Post.ite ?_ (Post.perr _)
        pb
        rename_i t5 s5 h5
        rw [hf] at h5
        pfin
      · refine Post.ite (Post.perr _) ?_
        pb
        rename_i t6 s6 h6
        rw [hf] at h6
        obtain ⟨h6a, h6b, h6c⟩ := h6
        refine Post.pure ?_
        simp only [BodyQ]
        try dsimp only
        refine ⟨by omega, fun _ => ?_⟩
        -- the row label was not end of stream, so either the row or the next read consumed input
        have hpos : 0 < s.rest.length := by
          have : s.rest ≠ [] := by
            intro he; apply hne; simp [RS.eof, he]
          exact List.length_pos_iff.mpr this
        cases t6 with
        | some tt => have := h6b rfl; omega
        | none => have := h6c rfl; simp [this]; exact hpos
macro_rules | `(tactic| pbind) => `(tactic| refine Post.bind (matrixRows_post _ _ _ _) ?_)

theorem matrixCheck_post (nchar : Nat) (s : RS) : Post (matrixCheck nchar s) (fun s' =>
    s'.rest = s.rest ∧ s'.mats = s.mats ++ [s.rows.map (·.2)] ∧ (∀ x ∈ s.rows.map (·.2), x = nchar) ∧
    (∀ n, s.blockNtax = some n → (s.rows.map (·.2)).length ≤ n) ∧ s'.blockNtax = s.blockNtax) := by
  unfold matrixCheck
  refine Post.ite' (fun _ => Post.perr _) (fun hn => ?_)
  refine Post.ite' (fun hall => ?_) (fun _ => Post.perr _)
  refine Post.pure ⟨rfl, rfl, ?_, ?_, rfl⟩
  · intro x hx
    simp only [List.mem_map] at hx
    obtain ⟨r, hr, hrx⟩ := hx
    have := (List.all_eq_true.mp hall) r hr
    simp only [beq_iff_eq] at this
    omega
  · intro n hbn
    rw [hbn] at hn
    simp only [decide_eq_true_eq, List.length_map] at hn ⊢
    omega

theorem parseMatrix_post (sy : Syms) (s : RS) : Post (parseMatrix sy s) (LeQ s) := by
  unfold parseMatrix
  refine Post.ite (Post.perr _) ?_
  pb
  rename_i i s1 h1
  refine Post.bind (symbolTest_post _ _) ?_
  intro symOk _
  pb
  rename_i t2 s2 h2
  try dsimp only at h2
  pb
  rename_i s3 h3
  simp only [LeQ] at h3
  try dsimp only at h3
  refine Post.mono (matrixCheck_post _ _) ?_
  intro a ha
  simp only [LeQ]
  rw [ha.1]
  rw [h1] at h2
  omega

/-- what a MATRIX statement that is accepted has appended: one matrix whose every row has the declared NCHAR -/
theorem parseMatrix_dims (sy : Syms) (s : RS) : Post (parseMatrix sy s) (fun s' =>
    0 < s.ntax.getD 0 ∧ 0 < s.nchar.getD 0 ∧
    ∃ row, s'.mats.getLast? = some row ∧ (∀ x ∈ row, x = s.nchar.getD 0) ∧ (∀ n, s'.blockNtax = some n → row.length ≤ n)) := by
  unfold parseMatrix
  refine Post.ite' (fun _ => Post.perr _) (fun hz => ?_)
  have hz' : 0 < s.ntax.getD 0 ∧ 0 < s.nchar.getD 0 := by
    simp only [Bool.or_eq_true, beq_iff_eq, not_or] at hz
    omega
  refine Post.bind (Q1 := fun p => p.2.nchar = s.nchar) ?_ ?_
  · unfold getTns
    split
    · split
      · exact Post.pure rfl
      · split
        · exact Post.pure rfl
        · pfin
    · dsimp only
      split
      · exact Post.pure rfl
      · pfin
  · rintro ⟨i, s1⟩ h1
    try dsimp only at h1 ⊢
    refine Post.bind (symbolTest_post _ _) ?_
    intro symOk _
    refine Post.bind (Q1 := fun _ => True) (Post.mono (nextTok_post _) (fun _ _ => trivial)) ?_
    rintro ⟨t2, s2⟩ _
    refine Post.bind (Q1 := fun _ => True) (Post.mono (matrixRows_post _ _ _ _) (fun _ _ => trivial)) ?_
    intro s3 _
    refine Post.mono (matrixCheck_post _ s3) ?_
    intro a ha
    refine ⟨hz'.1, hz'.2, s3.rows.map (·.2), ?_, ?_, ?_⟩
    · rw [ha.2.1]; simp
    · intro x hx
      have := ha.2.2.1 x hx
      rw [this, h1]
    · intro n hn
      rw [ha.2.2.2.2] at hn
      exact ha.2.2.2.1 n hn
macro_rules | `(tactic| pbind) => `(tactic| refine Post.bind (parseMatrix_post _ _) ?_)

/-- the common shape of the block loops: a first `next_token_ucase` at a point that is not the end of the stream -/
theorem nextUcase_lt (s s1 : RS) (t : Option (List Char)) (hne : s.rest ≠ [])
    (h : s1.rest.length ≤ s.rest.length ∧ (t.isSome → s1.rest.length < s.rest.length) ∧ (t = none → s1.rest = [])) :
    s1.rest.length < s.rest.length := by
  have hpos : 0 < s.rest.length := List.length_pos_iff.mpr hne
  cases t with
  | some tt => exact h.2.1 rfl
  | none => have := h.2.2 rfl; simp [this]; exact hpos

theorem charsBlock_post (sy : Syms) (s : RS) : Post (charsBlock sy s) (LeQ s) := by
  unfold charsBlock
  pb
  rename_i s0 h0
  refine Post.bind (iter_post _ ?_ _) ?_
  · intro s
    try dsimp only
    refine Post.ite' (fun _ => ?_) (fun hc => ?_)
    · pfin
    · pb
      rename_i t s1 h1
      have hlt := nextUcase_lt s s1 t (by intro he; apply hc; simp [RS.eof, he]) h1
      refine Post.ite ?_ ?_
      · pb
        pfin
      · refine Post.ite ?_ ?_
        · pb
          pfin
        · refine Post.ite ?_ ?_
          · pb
            rename_i s2 h2
            try dsimp only at h2
            refine Post.pure ?_
            simp only [BodyQ]
            have : ∀ (o : Option Nat) (x : RS), (restoreNtax o x).rest = x.rest := by
              intro o x; unfold restoreNtax; split <;> rfl
            try dsimp only
            rw [this]
            exact ⟨by omega, fun _ => by omega⟩
          · refine Post.ite ?_ ?_
            · pb
              pfin
            · refine Post.ite ?_ ?_
              · pb
                rename_i s2 h2
                simp only [LeQ] at h2
                pfin
              · refine Post.ite ?_ ?_ <;> pfin
  · intro s5 h5
    simp only [LeQ] at h5
    try dsimp only at *
    refine Post.mono (skipToSemi_post _) ?_
    intro a ha
    simp only [LeQ] at *
    omega

theorem getCharMatrix_post (title : Option (List Char)) (s : RS) : Post (getCharMatrix title s) (fun _ => True) := by
  unfold getCharMatrix
  split
  · exact Post.ite (Post.perr _) (Post.pure trivial)
  · dsimp only
    split
    · exact Post.pure trivial
    · exact Post.perr _

/-- a read with `next_token()` away from the end of the stream shortens the input -/
theorem nextTok_lt (s s1 : RS) (t : Option (List Char)) (hne : s.rest ≠ [])
    (h : s1.rest.length ≤ s.rest.length ∧ (t.isSome → s1.rest.length < s.rest.length) ∧ (t = none → s1.rest = [])) :
    s1.rest.length < s.rest.length := nextUcase_lt s s1 t hne h

theorem positionsRange_post (start max : Nat) (s : RS) (hne : s.rest ≠ []) : Post (positionsRange start max s) (BodyQ s) := by
  unfold positionsRange
  pb
  rename_i t2 s2 h2
  have hlt := nextTok_lt s s2 t2 hne h2
  split
  · pfin
  · refine Post.ite (Post.perr _) (Post.ite (Post.perr _) ?_)
    try dsimp only
    pb
    rename_i t3 s3 h3
    have h3a := h3.1
    refine Post.ite ?_ ?_
    · pb
      rename_i t4 s4 h4
      have h4a := h4.1
      split
      · pfin
      · refine Post.ite (Post.perr _) (Post.ite ?_ (Post.perr _))
        pb
        rename_i t5 s5 h5
        have h5a := h5.1
        pfin
    · pfin

theorem parsePositions_post (s : RS) : Post (parsePositions s) (LeQ s) := by
  unfold parsePositions
  try dsimp only
  pb
  rename_i t s1 h1
  have h1a := h1.1
  try dsimp only at h1a
  refine Post.ite (Post.perr _) ?_
  refine Post.bind (iter_post _ ?_ _) ?_
  · intro s
    split
    · pfin
    · refine Post.ite' (fun _ => ?_) (fun hc => ?_)
      · pfin
      · have hne : s.rest ≠ [] := by
          intro he; apply hc; simp [RS.eof, he]
        refine Post.ite ?_ ?_
        · pfin
        · refine Post.ite ?_ ?_
          · pfin
          · refine Post.ite ?_ (Post.perr _)
            try dsimp only
            pb
            rename_i t1 s2 h2
            have hlt := nextTok_lt s s2 t1 hne h2
            split
            · pfin
            · refine Post.ite ?_ ?_
              · pfin
              · refine Post.ite ?_ ?_
                · pfin
                · refine Post.ite ?_ (Post.perr _)
                  have hne2 : s2.rest ≠ [] ∨ s2.rest = [] := by
                    by_cases h : s2.rest = []
                    · exact Or.inr h
                    · exact Or.inl h
                  rcases hne2 with hne2 | hemp
                  · refine Post.mono (positionsRange_post _ _ s2 hne2) ?_
                    intro p hp
                    simp only [BodyQ] at hp ⊢
                    exact ⟨by omega, fun hh => by have := hp.2 hh; omega⟩
                  · -- at the end of the stream the range cannot be read: `next_token()` returns `None`, an error
                    unfold positionsRange
                    refine Post.bind (nextTok_post s2) ?_
                    rintro ⟨t2, s3⟩ h3
                    have : t2 = none := by
                      cases t2 with
                      | none => rfl
                      | some x =>
                        have := h3.2.1 rfl
                        simp only [hemp, List.length_nil] at this
                        omega
                    subst this
                    exact Post.perr _
  · intro s9 h9
    simp only [LeQ] at h9
    try dsimp only at h9
    refine Post.ite (Post.perr _) ?_
    refine Post.pure ?_
    simp only [LeQ]
    try dsimp only
    omega
macro_rules | `(tactic| pbind) => `(tactic| refine Post.bind (parsePositions_post _) ?_)

theorem parseCharset_post (s : RS) (hne : s.rest ≠ []) : Post (parseCharset s) (fun s' => s'.rest.length < s.rest.length) := by
  unfold parseCharset
  refine Post.bind (getCharMatrix_post _ _) ?_
  intro m _
  pb
  rename_i t s1 h1
  have hlt := nextTok_lt s s1 t hne h1
  refine Post.ite (Post.perr _) ?_
  pb
  rename_i t2 s2 h2
  have h2a := h2.1
  refine Post.ite (Post.perr _) (Post.ite (Post.perr _) ?_)
  pb
  rename_i s3 h3
  simp only [LeQ] at h3
  refine Post.ite (Post.perr _) ?_
  refine Post.pure ?_
  try dsimp only
  omega

/-- at the end of the stream a CHARSET statement fails on its first read -/
theorem parseCharset_eof (s : RS) (he : s.rest = []) : Post (parseCharset s) (fun _ => False) := by
  unfold parseCharset
  refine Post.bind (getCharMatrix_post _ _) ?_
  intro m _
  refine Post.bind (nextTok_post _) ?_
  rintro ⟨t2, s2⟩ h2
  have h2a := h2.1
  simp only [he, List.length_nil, Nat.le_zero_eq, List.length_eq_zero_iff] at h2a
  refine Post.ite' (fun _ => Post.perr _) (fun hc2 => ?_)
  exfalso; apply hc2; simp [RS.eof, h2a]

theorem setsBlock_post (s : RS) : Post (setsBlock s) (LeQ s) := by
  unfold setsBlock
  pb
  rename_i s0 h0
  refine Post.bind (iter_post _ ?_ _) ?_
  · intro s
    try dsimp only
    refine Post.ite' (fun _ => ?_) (fun hc => ?_)
    · pfin
    · pb
      rename_i t s1 h1
      have hlt := nextUcase_lt s s1 t (by intro he; apply hc; simp [RS.eof, he]) h1
      refine Post.ite ?_ ?_
      · pb
        pfin
      · refine Post.ite ?_ ?_
        · pb
          pfin
        · refine Post.ite ?_ ?_
          · -- CHARSET: at the end of the stream the statement fails on its first read, otherwise it consumes input
            by_cases he : s1.rest = []
            · exact Post.bind (parseCharset_eof _ he) (fun a h => h.elim)
            · refine Post.bind (parseCharset_post _ he) ?_
              intro s2 h2
              try dsimp only at h2
              pfin
          · refine Post.ite ?_ ?_ <;> pfin
  · intro s5 h5
    simp only [LeQ] at h5
    refine Post.mono (skipToSemi_post _) ?_
    intro a ha
    simp only [LeQ] at *
    try dsimp only at h0
    omega

theorem skipToBegin_body (s : RS) : Post ((fun (s : RS) => do
      let (t, s) ← nextUcase s
      pure (t.isSome && t != some (kw "BEGIN") && !s.eof, s)) s) (BodyQ s) := by
  pb
  rename_i t s1 h1
  refine Post.pure ?_
  simp only [BodyQ]
  refine ⟨h1.1, fun h => ?_⟩
  simp only [Bool.and_eq_true] at h
  exact h1.2.1 h.1.1

theorem skipToBegin_body_lt (s : RS) (hne : s.rest ≠ []) : Post ((fun (s : RS) => do
      let (t, s) ← nextUcase s
      pure (t.isSome && t != some (kw "BEGIN") && !s.eof, s)) s) (fun p => p.2.rest.length < s.rest.length) := by
  pb
  rename_i t s1 h1
  exact Post.pure (nextUcase_lt s s1 t hne h1)

/-- away from the end of the stream, skipping to BEGIN reads at least one token -/
theorem skipToBegin_post (s : RS) (hne : s.rest ≠ []) : Post (skipToBegin s) (fun s' => s'.rest.length < s.rest.length) := by
  unfold skipToBegin
  rw [iter]
  split
  · exact ⟨fun w hw => (by cases hw), fun a ha => (by cases ha)⟩
  have hne' : ({ s with fuel := s.fuel - 1 } : RS).rest ≠ [] := hne
  split
  · rename_i e he
    refine ⟨fun w hw => ?_, fun a ha => (by cases ha)⟩
    cases hw
    exact (skipToBegin_body _).1 w he
  · rename_i s1 he
    exact Post.ok ((skipToBegin_body_lt _ hne').2 _ he)
  · rename_i s1 he
    have h2 := (skipToBegin_body_lt _ hne').2 _ he
    try dsimp only at h2
    rw [if_pos h2]
    refine Post.mono (iter_post _ skipToBegin_body s1) ?_
    intro a ha
    simp only [LeQ] at ha
    omega

theorem readBlock_post (sy : Syms) (s : RS) (hne : s.rest ≠ []) : Post (readBlock sy s) (fun s' => s'.rest.length < s.rest.length) := by
  unfold readBlock
  refine Post.bind (skipToBegin_post s hne) ?_
  · intro s1 h1
    pb
    rename_i t s2 h2
    have h2a := h2.1
    refine Post.ite ?_ ?_
    · refine Post.mono (taxaBlock_post _) ?_
      intro a ha; simp only [LeQ] at ha; (try dsimp only at ha); omega
    · refine Post.ite ?_ ?_
      · refine Post.mono (charsBlock_post _ _) ?_
        intro a ha; simp only [LeQ] at ha; (try dsimp only at ha); omega
      · refine Post.ite ?_ ?_
        · refine Post.mono (treesBlock_post _) ?_
          intro a ha; simp only [LeQ] at ha; (try dsimp only at ha); omega
        · refine Post.ite ?_ ?_
          · refine Post.mono (setsBlock_post _) ?_
            intro a ha; simp only [LeQ] at ha; (try dsimp only at ha); omega
          · refine Post.ite (Post.perr _) ?_
            refine Post.mono (consumeToEnd_post _ _) ?_
            intro a ha; simp only [LeQ] at ha; (try dsimp only at ha); omega

/-- **the whole NEXUS reader**: never `internal`, on any text -/
theorem readNexus_post (sy : Syms) (text : List Char) : Post (readNexus sy text) (fun _ => True) := by
  unfold readNexus
  pb
  split
  · pfin
  · refine Post.ite (Post.perr _) ?_
    refine Post.mono (iter_post _ ?_ _) (fun _ _ => trivial)
    intro s
    refine Post.ite' (fun _ => ?_) (fun hc => ?_)
    · pfin
    · have hne : s.rest ≠ [] := by intro he; apply hc; simp [RS.eof, he]
      refine Post.bind (readBlock_post sy s hne) ?_
      intro s1 h1
      pfin


end DendroModel.C20.Aux

namespace DendroModel.C20.Aux
open DendroModel DendroModel.C20

/-! ### the budget of loop rounds: every function of the reader with its constants `(a, b)` (Hoare rules in Theory/C20Fuel.lean) -/
theorem skipToSemi_fuel (s : RS) (h : 1 * s.rest.length + 1 ≤ s.fuel) : FPost (skipToSemi s) (FQ 1 1 s) := by
  unfold skipToSemi
  refine FPost.mono (iter_fuel 0 0 _ (fun s hs => ?_) s (by fside)) (fun a ha => by fside)
  fauto
macro_rules | `(tactic| fbind) => `(tactic| refine FPost.bind (skipToSemi_fuel _ (by fside)) ?_)
macro_rules | `(tactic| ftail) => `(tactic| refine FPost.mono (skipToSemi_fuel _ (by fside)) (fun a ha => by fside))

theorem consumeToEnd_fuel (token : Option (List Char)) (s : RS) (h : 3 * s.rest.length + 2 ≤ s.fuel) :
    FPost (consumeToEnd token s) (FQ 3 2 s) := by
  unfold consumeToEnd
  refine FPost.mono (iter_fuel 1 1 _ (fun s hs => ?_) _ (by fside)) (fun a ha => by fside)
  fauto

theorem parseTitle_fuel (s : RS) : FPost (parseTitle s) (FE s) := by
  unfold parseTitle
  fauto
macro_rules | `(tactic| fbind) => `(tactic| refine FPost.bind (parseTitle_fuel _) ?_)
macro_rules | `(tactic| ftail) => `(tactic| refine FPost.mono (parseTitle_fuel _) (fun a ha => by fside))

theorem parseDimensions_fuel (s : RS) (h : 1 * s.rest.length + 1 ≤ s.fuel) : FPost (parseDimensions s) (FQ 1 1 s) := by
  unfold parseDimensions
  fb
  refine FPost.mono (iter_fuel 0 0 _ (fun s hs => ?_) _ (by fside)) (fun a ha => by fside)
  fauto
macro_rules | `(tactic| fbind) => `(tactic| refine FPost.bind (parseDimensions_fuel _ (by fside)) ?_)
macro_rules | `(tactic| ftail) => `(tactic| refine FPost.mono (parseDimensions_fuel _ (by fside)) (fun a ha => by fside))

theorem parseTaxlabels_fuel (i : Nat) (s : RS) (h : 1 * s.rest.length + 1 ≤ s.fuel) : FPost (parseTaxlabels i s) (FQ 1 1 s) := by
  unfold parseTaxlabels
  fb
  refine FPost.mono (iter_fuel 0 0 _ (fun s hs => ?_) _ (by fside)) (fun a ha => by fside)
  fauto
macro_rules | `(tactic| fbind) => `(tactic| refine FPost.bind (parseTaxlabels_fuel _ _ (by fside)) ?_)
macro_rules | `(tactic| ftail) => `(tactic| refine FPost.mono (parseTaxlabels_fuel _ _ (by fside)) (fun a ha => by fside))

theorem parseLink_fuel (s : RS) (h : 1 * s.rest.length + 1 ≤ s.fuel) : FPost (parseLink s) (FQ 1 1 s) := by
  unfold parseLink
  fb
  refine FPost.mono (iter_fuel 0 0 _ (fun s hs => ?_) _ (by fside)) (fun a ha => by fside)
  fauto
macro_rules | `(tactic| fbind) => `(tactic| refine FPost.bind (parseLink_fuel _ (by fside)) ?_)
macro_rules | `(tactic| ftail) => `(tactic| refine FPost.mono (parseLink_fuel _ (by fside)) (fun a ha => by fside))

theorem getTns_fuel (title : Option (List Char)) (s : RS) : FPost (getTns title s) (fun p => FE s p.2) := by
  unfold getTns
  fauto
macro_rules | `(tactic| fbind) => `(tactic| refine FPost.bind (getTns_fuel _ _) ?_)
macro_rules | `(tactic| ftail) => `(tactic| refine FPost.mono (getTns_fuel _ _) (fun a ha => by fside))

theorem taxaBlock_fuel (s : RS) (h : 4 * s.rest.length + 5 ≤ s.fuel) : FPost (taxaBlock s) (FQ 4 5 s) := by
  unfold taxaBlock
  fb
  refine FPost.bind (iter_fuel 1 2 _ (fun s hs => ?_) _ (by fside)) (fun a ha => ?_)
  · fauto
  · fauto

theorem ensureNs_fuel (s : RS) : FPost (ensureNs s) (FE s) := by
  unfold ensureNs
  fauto
macro_rules | `(tactic| fbind) => `(tactic| refine FPost.bind (ensureNs_fuel _) ?_)
macro_rules | `(tactic| ftail) => `(tactic| refine FPost.mono (ensureNs_fuel _) (fun a ha => by fside))

theorem parseTranslate_fuel (s : RS) (h : 1 * s.rest.length + 1 ≤ s.fuel) : FPost (parseTranslate s) (FQ 1 1 s) := by
  unfold parseTranslate
  refine FPost.mono (iter_fuel 0 0 _ (fun s hs => ?_) _ (by fside)) (fun a ha => by fside)
  fauto
macro_rules | `(tactic| fbind) => `(tactic| refine FPost.bind (parseTranslate_fuel _ (by fside)) ?_)
macro_rules | `(tactic| ftail) => `(tactic| refine FPost.mono (parseTranslate_fuel _ (by fside)) (fun a ha => by fside))

theorem parseTreeStatement_fuel (s : RS) : FPost (parseTreeStatement s) (FE s) := by
  unfold parseTreeStatement
  fb
  rename_i t1 s1 h1
  refine FPost.bind (Q1 := fun p => FE s p.2) ?_ ?_
  · split
    · refine FPost.mono (nextTok_fuel _) (fun a ha => by fside)
    · exact FPost.pure h1
  · intro p hp
    rcases p with ⟨t2, s2⟩
    try dsimp only at *
    fb
    rename_i t3 s3 h3
    split
    · ffin
    · fb
      rename_i t4 s4 h4
      split
      · ffin
      · ffin
      · rename_i tr nx rest' m' trace hps
        have := newick_statement_progress _ _ _ _ _ _ _ _ _ _ hps
        refine FPost.pure ?_
        fside
macro_rules | `(tactic| fbind) => `(tactic| refine FPost.bind (parseTreeStatement_fuel _) ?_)

theorem treesBlock_fuel (s : RS) (h : 3 * s.rest.length + 4 ≤ s.fuel) : FPost (treesBlock s) (FQ 3 4 s) := by
  unfold treesBlock
  fb
  refine FPost.bind (iter_fuel 1 1 _ (fun s hs => ?_) _ (by fside)) (fun a ha => ?_)
  · try dsimp only
    refine FPost.ite (by ffin) ?_
    fb
    refine FPost.ite (by fauto) ?_
    refine FPost.ite (by fauto) ?_
    refine FPost.ite (by fauto) ?_
    refine FPost.ite ?_ (by fauto)
    fb
    refine FPost.bind (iter_fuel 0 0 _ (fun s hs => ?_) _ (by fside)) (fun a ha => ?_)
    · fauto
    · fauto
  · fauto

theorem fmtDatatype_fuel (s : RS) : FPost (fmtDatatype s) (fun p => FE s p.2) := by
  unfold fmtDatatype
  fauto

theorem fmtSymbolsLoop_fuel (s : RS) (h : 1 * s.rest.length + 1 ≤ s.fuel) : FPost (fmtSymbolsLoop s) (FQ 1 1 s) := by
  unfold fmtSymbolsLoop
  refine FPost.mono (iter_fuel 0 0 _ (fun s hs => ?_) _ (by fside)) (fun a ha => by fside)
  fauto
macro_rules | `(tactic| fbind) => `(tactic| refine FPost.bind (fmtSymbolsLoop_fuel _ (by fside)) ?_)
macro_rules | `(tactic| ftail) => `(tactic| refine FPost.mono (fmtSymbolsLoop_fuel _ (by fside)) (fun a ha => by fside))

theorem fmtSymbols_fuel (s : RS) (h : 1 * s.rest.length + 1 ≤ s.fuel) : FPost (fmtSymbols s) (fun p => FQ 1 1 s p.2) := by
  unfold fmtSymbols
  fauto

theorem fmtAssign_fuel (f : Nat) (s : RS) : FPost (fmtAssign f s) (fun p => FE s p.2) := by
  unfold fmtAssign
  fauto

theorem fmtInterleave_fuel (s : RS) : FPost (fmtInterleave s) (fun p => FE s p.2) := by
  unfold fmtInterleave
  fauto

theorem parseFormat_fuel (s : RS) (h : 3 * s.rest.length + 2 ≤ s.fuel) : FPost (parseFormat s) (FQ 3 2 s) := by
  unfold parseFormat
  fb
  refine FPost.mono (iter_fuel 1 1 _ (fun s hs => ?_) _ (by fside)) (fun a ha => by fside)
  try dsimp only
  refine FPost.ite (by ffin) ?_
  refine FPost.ite (FPost.mono (fmtDatatype_fuel s) (fun p hp => by fside)) ?_
  refine FPost.ite (FPost.mono (fmtSymbols_fuel s (by fside)) (fun p hp => by fside)) ?_
  refine FPost.ite (FPost.mono (fmtAssign_fuel _ s) (fun p hp => by fside)) ?_
  refine FPost.ite (FPost.mono (fmtInterleave_fuel s) (fun p hp => by fside)) ?_
  refine FPost.ite (FPost.mono (fmtAssign_fuel _ s) (fun p hp => by fside)) ?_
  refine FPost.ite (FPost.mono (fmtAssign_fuel _ s) (fun p hp => by fside)) ?_
  fauto
macro_rules | `(tactic| fbind) => `(tactic| refine FPost.bind (parseFormat_fuel _ (by fside)) ?_)
macro_rules | `(tactic| ftail) => `(tactic| refine FPost.mono (parseFormat_fuel _ (by fside)) (fun a ha => by fside))

theorem symbolTest_fuel (sy : Syms) (s : RS) : FPost (symbolTest sy s) (fun _ => True) := by
  unfold symbolTest
  split
  · exact FPost.pure trivial
  · exact FPost.pure trivial
  · exact FPost.pure trivial
  · exact FPost.pure trivial
  · exact FPost.pure trivial
  · dsimp only
    exact FPost.ite (FPost.perr _) (FPost.ite (FPost.perr _) (FPost.pure trivial))

theorem cellsOf_fuel (symOk : Char → Bool) (matchc : List (List Char)) (firstLen : Option Nat) (base nchar : Nat) :
    ∀ (cs : List Char) (n : Nat), FPost (cellsOf symOk matchc firstLen base nchar cs n) (fun _ => True)
  | [], n => by unfold cellsOf; exact FPost.pure trivial
  | c :: cs, n => by
    unfold cellsOf
    try dsimp only
    exact FPost.ite (FPost.perr _) (FPost.ite (FPost.perr _) (cellsOf_fuel symOk matchc firstLen base nchar cs (n + 1)))

theorem readStates_fuel (symOk : Char → Bool) (r : Nat) (s : RS) (h : 3 * s.rest.length + 2 ≤ s.fuel) :
    FPost (readStates symOk r s) (FQ 3 2 s) := by
  unfold readStates
  refine FPost.ite (FPost.internal _) ?_
  try dsimp only
  refine FPost.bind (iter_fuel 1 1 _ (fun s hs => ?_) _ (by fside)) (fun a ha => ?_)
  · try dsimp only
    refine FPost.ite (by ffin) ?_
    fb
    refine FPost.ite ?_ ?_
    · refine FPost.bind (iter_fuel 0 0 _ (fun s hs => ?_) _ (by fside)) (fun a ha => ?_)
      · fauto
      · fauto
    · refine FPost.ite (by ffin) ?_
      refine FPost.ite (by ffin) ?_
      refine FPost.ite (FPost.ite (by ffin) (by ffin)) ?_
      refine FPost.bind (cellsOf_fuel _ _ _ _ _ _ _) (fun n _ => ?_)
      ffin
  · fauto
macro_rules | `(tactic| fbind) => `(tactic| refine FPost.bind (readStates_fuel _ _ _ (by fside)) ?_)

theorem rowFor_fuel (i : Nat) (label : List Char) (s : RS) : FPost (rowFor i label s) (fun p => FE s p.2) := by
  unfold rowFor
  fauto
macro_rules | `(tactic| fbind) => `(tactic| refine FPost.bind (rowFor_fuel _ _ _) ?_)

theorem matrixRows_fuel (symOk : Char → Bool) (i nchar : Nat) (s : RS) (h : 6 * s.rest.length + 3 ≤ s.fuel) :
    FPost (matrixRows symOk i nchar s) (FQ 6 3 s) := by
  unfold matrixRows
  refine FPost.mono (iter_fuel 3 2 _ (fun s hs => ?_) _ (by fside)) (fun a ha => by fside)
  fauto
macro_rules | `(tactic| fbind) => `(tactic| refine FPost.bind (matrixRows_fuel _ _ _ _ (by fside)) ?_)

theorem matrixCheck_fuel (nchar : Nat) (s : RS) : FPost (matrixCheck nchar s) (FE s) := by
  unfold matrixCheck
  fauto
macro_rules | `(tactic| ftail) => `(tactic| refine FPost.mono (matrixCheck_fuel _ _) (fun a ha => by fside))

theorem parseMatrix_fuel (sy : Syms) (s : RS) (h : 6 * s.rest.length + 3 ≤ s.fuel) : FPost (parseMatrix sy s) (FQ 6 3 s) := by
  unfold parseMatrix
  refine FPost.ite (FPost.perr _) ?_
  fb
  refine FPost.bind (symbolTest_fuel _ _) (fun symOk _ => ?_)
  fauto
macro_rules | `(tactic| fbind) => `(tactic| refine FPost.bind (parseMatrix_fuel _ _ (by fside)) ?_)

theorem charsBlock_fuel (sy : Syms) (s : RS) (h : 10 * s.rest.length + 6 ≤ s.fuel) : FPost (charsBlock sy s) (FQ 10 6 s) := by
  unfold charsBlock
  fb
  refine FPost.bind (iter_fuel 6 3 _ (fun s hs => ?_) _ (by fside)) (fun a ha => ?_)
  · fauto
  · fauto

theorem getCharMatrix_fuel (title : Option (List Char)) (s : RS) : FPost (getCharMatrix title s) (fun _ => True) := by
  unfold getCharMatrix
  split
  · exact FPost.ite (FPost.perr _) (FPost.pure trivial)
  · dsimp only
    split
    · exact FPost.pure trivial
    · exact FPost.perr _

theorem positionsRange_fuel (start max : Nat) (s : RS) : FPost (positionsRange start max s) (fun p => FE s p.2) := by
  unfold positionsRange
  fauto
macro_rules | `(tactic| ftail) => `(tactic| refine FPost.mono (positionsRange_fuel _ _ _) (fun a ha => by fside))

theorem parsePositions_fuel (s : RS) (h : 1 * s.rest.length + 1 ≤ s.fuel) : FPost (parsePositions s) (FQ 1 1 s) := by
  unfold parsePositions
  try dsimp only
  fb
  refine FPost.ite (FPost.perr _) ?_
  refine FPost.bind (iter_fuel 0 0 _ (fun s hs => ?_) _ (by fside)) (fun a ha => ?_)
  · fauto
  · fauto
macro_rules | `(tactic| fbind) => `(tactic| refine FPost.bind (parsePositions_fuel _ (by fside)) ?_)

theorem parseCharset_fuel (s : RS) (h : 1 * s.rest.length + 1 ≤ s.fuel) : FPost (parseCharset s) (FQ 1 1 s) := by
  unfold parseCharset
  refine FPost.bind (getCharMatrix_fuel _ _) (fun m _ => ?_)
  fauto
macro_rules | `(tactic| fbind) => `(tactic| refine FPost.bind (parseCharset_fuel _ (by fside)) ?_)

theorem setsBlock_fuel (s : RS) (h : 3 * s.rest.length + 4 ≤ s.fuel) : FPost (setsBlock s) (FQ 3 4 s) := by
  unfold setsBlock
  fb
  refine FPost.bind (iter_fuel 1 1 _ (fun s hs => ?_) _ (by fside)) (fun a ha => ?_)
  · fauto
  · fauto

theorem skipToBegin_fuel (s : RS) (h : 1 * s.rest.length + 1 ≤ s.fuel) : FPost (skipToBegin s) (FQ 1 1 s) := by
  unfold skipToBegin
  refine FPost.mono (iter_fuel 0 0 _ (fun s hs => ?_) _ (by fside)) (fun a ha => by fside)
  fauto
macro_rules | `(tactic| fbind) => `(tactic| refine FPost.bind (skipToBegin_fuel _ (by fside)) ?_)

theorem readBlock_fuel (sy : Syms) (s : RS) (h : 10 * s.rest.length + 7 ≤ s.fuel) : FPost (readBlock sy s) (FQ 10 7 s) := by
  unfold readBlock
  fb
  fb
  refine FPost.ite (FPost.mono (taxaBlock_fuel _ (by fside)) (fun a ha => by fside)) ?_
  refine FPost.ite (FPost.mono (charsBlock_fuel _ _ (by fside)) (fun a ha => by fside)) ?_
  refine FPost.ite (FPost.mono (treesBlock_fuel _ (by fside)) (fun a ha => by fside)) ?_
  refine FPost.ite (FPost.mono (setsBlock_fuel _ (by fside)) (fun a ha => by fside)) ?_
  refine FPost.ite (FPost.perr _) ?_
  exact FPost.mono (consumeToEnd_fuel _ _ (by fside)) (fun a ha => by fside)
macro_rules | `(tactic| fbind) => `(tactic| refine FPost.bind (readBlock_fuel _ _ (by fside)) ?_)

/-- **the whole NEXUS reader within its budget**: `nexusFuel |text|` rounds are enough, on any text -/
theorem readNexus_fuel (sy : Syms) (text : List Char) : FPost (readNexus sy text) (fun _ => True) := by
  unfold readNexus nexusFuel
  fb
  split
  · ffin
  · refine FPost.ite (FPost.perr _) ?_
    refine FPost.mono (iter_fuel 10 7 _ (fun s hs => ?_) _ (by fside)) (fun _ _ => trivial)
    fauto

end DendroModel.C20.Aux

namespace DendroModel.C20
open DendroModel DendroModel.C20.Aux

/-- **The loop rule of the reader model.**  A loop built with `iter` whose body, from every state, either stops or
has consumed input (`BodyQ`) never produces the no-progress marker and never returns more input than it was given. -/
theorem reader_loop_rule (b : RS → R (Bool × RS)) (hb : ∀ s, Post (b s) (BodyQ s)) (s : RS) (w : String) :
    iter b s ≠ .error (.internal w) ∧ ∀ s', iter b s = .ok s' → s'.rest.length ≤ s.rest.length :=
  ⟨(iter_post b hb s).1 w, fun s' h => (iter_post b hb s).2 s' h⟩

/-- **No loop of the NEXUS reader can spin.**  For every symbol table and every text — complete, corrupted or cut at
any point — `readNexus` (main block loop, TAXA / CHARACTERS / DATA / TREES / SETS block loops, TITLE, LINK, DIMENSIONS,
FORMAT incl. the SYMBOLS loop, TAXLABELS, TRANSLATE, the TREE-statement loop, MATRIX with both row readers,
`skip_to_semicolon`, `_consume_to_end_of_block`, CHARSET with its position lists, continuous matrices) returns a result or a parse error; the marker `internal`, which the
model produces exactly when a loop would continue without having consumed input, is unreachable.  (The `None`-token
dereferences of the unrepaired code have no counterpart in the model: tokens read with `require_next_token` are
`List Char`, tokens read with `next_token` are `Option` and every use of them is a case distinction.) -/
theorem nexus_never_internal (sy : Syms) (text : List Char) (w : String) : readNexus sy text ≠ .error (.internal w) :=
  (readNexus_post sy text).1 w

/-- **A global, linear bound on the work of the NEXUS reader, for every outcome.**  `readNexus` starts with a budget of
`nexusFuel |text| = 18·|text| + 8` loop rounds; every round of every loop of the reader — the block loop, the TAXA /
CHARACTERS / TREES / SETS block loops, the statement loops inside them (DIMENSIONS, FORMAT and its SYMBOLS list, TAXLABELS,
LINK, TRANSLATE, the TREE-statement loop, CHARSET positions), the MATRIX row loop, the cell loop of a row and the loop over a
`{..}` / `(..)` multistate group, `skip_to_semicolon`, `_consume_to_end_of_block` — takes one unit *before* it runs (also the
last round of a loop, which only finds the exit condition true), and a round that finds the budget empty ends the read with
the marker `Stop.fuel`.  That marker is unreachable, for every symbol table and every text, complete, corrupted or cut:
so on every input, whether the read ends in a result or in a parse error, all loops together go round at most
`18·|text| + 8` times — linear in the input, whatever the nesting of loops.  (Each round costs a bounded number of
tokenizer calls plus the inner loops, which are charged themselves; the tokenizer's own character work is
`token_count_bounded` / `tokenizer_progress`; the Newick statement machine inside a TREE statement has its own linear
bound, `newick_steps_linear`.)  The driver prints the rounds used next to this budget. -/
theorem nexus_fuel_suffices (sy : Syms) (text : List Char) : readNexus sy text ≠ .error .fuel :=
  (readNexus_fuel sy text).1

/-- **The loop rule for the budget** (about the driver's `iter`): a body that needs `a·|input| + b` units and uses at most
`a·consumed + b` gives a loop that needs `(a+b+1)·|input| + b + 1` and uses at most `(a+b+1)·consumed + b + 1`. -/
theorem reader_loop_fuel_rule (a b : Nat) (body : RS → R (Bool × RS))
    (hb : ∀ s, a * s.rest.length + b ≤ s.fuel → FPost (body s) (fun p => FQ a b s p.2))
    (s : RS) (h : (a + b + 1) * s.rest.length + (b + 1) ≤ s.fuel) :
    iter body s ≠ .error .fuel ∧ ∀ s', iter body s = .ok s' → FQ (a + b + 1) (b + 1) s s' :=
  iter_fuel a b body hb s h

/-- **Declared versus found (NEXUS MATRIX)** — about one call of `parseMatrix` from an arbitrary state (the two guards
of `matrixCheck`); lifted to the `mats` that `readNexus` finally returns by `nexus_result_dims`.  Whenever `_parse_matrix_statement` returns, NTAX and NCHAR were declared
and positive, and the matrix it has appended has rows of exactly the declared NCHAR — in sequential and in interleaved
mode, whatever the rows looked like — and no more rows than an NTAX given by the block's own DIMENSIONS statement. -/
theorem nexus_matrix_dims (sy : Syms) (s s' : RS) (h : parseMatrix sy s = .ok s') :
    0 < s.ntax.getD 0 ∧ 0 < s.nchar.getD 0 ∧
    ∃ row, s'.mats.getLast? = some row ∧ (∀ x ∈ row, x = s.nchar.getD 0) ∧ (∀ n, s'.blockNtax = some n → row.length ≤ n) :=
  (parseMatrix_dims sy s).2 s' h

/-- **`nesting - 1` never truncates.**  The machine's invariant is preserved by every step, and under it a state that
is reading children (where a `)` decrements the nesting level) has a positive level: the natural-number subtraction of
the model coincides with Python's integer subtraction. -/
theorem nesting_sub_safe (k : Cfg) (st st' : NState) (hi : Inv st) (h : step k st = .next st') :
    Inv st' ∧ (st.phase ≠ .lab → 0 < st.nesting) := by
  refine ⟨inv_step k st st' hi h, fun hph => ?_⟩
  obtain ⟨_, _, _, hrel⟩ := hi
  simp only [hph, if_false] at hrel
  omega

/-- **The statement parser always has a token to start from.**  After the loop that skips semicolons, either the
stream is at its end (and `_parse_tree_statement` returns `None`) or the current token is a real token other than an
unquoted `;` — the `None` case the model lists for completeness is unreachable. -/
theorem skipSemis_leaves_token (k : Cfg) (cur : Option Tok) (rest : List Char) (started : Bool)
    (c : Option Tok) (r : List Char) (s : Bool) (h : skipSemis k cur rest started = .ok (c, r, s))
    (hne : ¬ (s = true ∧ r = [])) : c ≠ none ∧ c ≠ some semi ∧ r.length ≤ rest.length := by
  have := skipSemis_le k rest.length cur rest started (Nat.le_refl _) c r s h
  exact ⟨(this.2 hne).2, (this.2 hne).1, this.1⟩
end DendroModel.C20

namespace DendroModel.C20.Aux
open DendroModel DendroModel.C20

/-! ### the line readers (PHYLIP, FASTA): indices stay in range, loop invariants -/
def LPost {α : Type} (r : Except LErr α) (Q : α → Prop) : Prop :=
  (∀ w, r ≠ .error (.internal w)) ∧ ∀ a, r = .ok a → Q a

theorem LPost.pure {α : Type} {a : α} {Q : α → Prop} (h : Q a) : LPost (Pure.pure a : Except LErr α) Q :=
  ⟨fun w hw => (by cases hw), fun b hb => (by cases hb; exact h)⟩

theorem LPost.perr {α : Type} {Q : α → Prop} (e : PErr) : LPost (lperr e : Except LErr α) Q :=
  ⟨fun w hw => (by unfold lperr at hw; cases hw), fun b hb => (by unfold lperr at hb; cases hb)⟩

theorem LPost.bind {α β : Type} {x : Except LErr α} {g : α → Except LErr β} {Q1 : α → Prop} {Q2 : β → Prop}
    (hx : LPost x Q1) (hg : ∀ a, Q1 a → LPost (g a) Q2) : LPost (x >>= g) Q2 := by
  cases hxx : x with
  | error e =>
    have e1 : (Except.error e >>= g : Except LErr β) = Except.error e := rfl
    rw [e1]
    refine ⟨fun w hw => ?_, fun b hb => (by cases hb)⟩
    cases hw
    exact hx.1 w hxx
  | ok a =>
    have e2 : (Except.ok a >>= g : Except LErr β) = g a := rfl
    rw [e2]
    exact hg a (hx.2 a hxx)

theorem LPost.ite {α : Type} {c : Prop} [Decidable c] {a b : Except LErr α} {Q : α → Prop}
    (ha : c → LPost a Q) (hb : ¬ c → LPost b Q) : LPost (if c then a else b) Q := by
  split
  · exact ha ‹_›
  · exact hb ‹_›

theorem idxOf_range {α : Type} (p : α → Bool) : ∀ (l : List α) (k i : Nat), idxOf p l k = some i → k ≤ i ∧ i < k + l.length
  | [], k, i, h => by simp [idxOf] at h
  | a :: as, k, i, h => by
    unfold idxOf at h
    split at h
    · simp only [Option.some.injEq] at h; subst h; simp
    · have := idxOf_range p as (k + 1) i h
      simp only [List.length_cons]; omega

theorem rowIdx_lt (rows : Rows) (lab : List Char) (i : Nat) (h : rowIdx rows lab = some i) : i < rows.length := by
  have := idxOf_range _ rows 0 i h
  omega

theorem addCells_post (rows : Rows) (i n : Nat) (hi : i < rows.length) :
    LPost (addCells rows i n) (fun rows' => rows'.length = rows.length ∧
      (∀ j, j ≠ i → rows'[j]? = rows[j]?) ∧ (∀ r, rows[i]? = some r → rows'[i]? = some (r.1, r.2 + n))) := by
  unfold addCells
  rw [if_pos hi]
  refine ⟨fun w hw => (by cases hw), fun a ha => ?_⟩
  simp only [Except.ok.injEq] at ha
  subst ha
  refine ⟨by simp, ?_, ?_⟩
  · intro j hj
    simp only [List.getElem?_mapIdx]
    cases rows[j]? with
    | none => rfl
    | some r => simp [hj]
  · intro r hr
    simp [List.getElem?_mapIdx, hr]

theorem cellsAt_post (rows : Rows) (i : Nat) (hi : i < rows.length) :
    LPost (cellsAt rows i) (fun c => ∃ r, rows[i]? = some r ∧ c = r.2) := by
  unfold cellsAt
  have : rows[i]? = some rows[i] := by simp [hi]
  rw [this]
  exact ⟨fun w hw => (by cases hw), fun a ha => (by cases ha; exact ⟨_, rfl, rfl⟩)⟩

theorem phyTaxon_post (strict : Bool) (ntax nchar : Nat) (rows : Rows) (line : List Char) (hle : rows.length ≤ ntax) :
    LPost (phyTaxon strict ntax nchar rows line) (fun p => p.1 < p.2.1.length ∧ p.2.1.length ≤ ntax ∧ rows.length ≤ p.2.1.length) := by
  unfold phyTaxon
  dsimp only
  refine LPost.ite (fun _ => LPost.perr _) (fun _ => ?_)
  split
  · rename_i i hi
    have hlt := rowIdx_lt _ _ _ hi
    refine LPost.bind (cellsAt_post rows i hlt) ?_
    intro c _
    refine LPost.ite (fun _ => LPost.perr _) (fun _ => LPost.pure ⟨hlt, hle, Nat.le_refl _⟩)
  · refine LPost.ite (fun _ => LPost.perr _) (fun h => LPost.pure ?_)
    simp only [List.length_append, List.length_cons, List.length_nil] at h ⊢
    omega

theorem phyCells_post (sym : Char → Bool) (line : List Char) : LPost (phyCells sym line) (fun _ => True) := by
  unfold phyCells
  dsimp only
  exact LPost.ite (fun _ => LPost.pure trivial) (fun _ => LPost.perr _)

/-- sequential PHYLIP rows: indices stay in range, the number of rows never exceeds NTAX -/
theorem phySequential_post (sym : Char → Bool) (strict : Bool) (ntax nchar : Nat) :
    ∀ (ls : List (List Char)) (rows : Rows) (cur : Option Nat), rows.length ≤ ntax → (∀ i, cur = some i → i < rows.length) →
      LPost (phySequential sym strict ntax nchar ls rows cur) (fun rows' => rows'.length ≤ ntax ∧ rows.length ≤ rows'.length)
  | [], rows, cur, hle, _ => by unfold phySequential; exact LPost.pure ⟨hle, Nat.le_refl _⟩
  | line :: ls, rows, cur, hle, hcur => by
    unfold phySequential
    dsimp only
    refine LPost.ite (fun _ => phySequential_post sym strict ntax nchar ls rows cur hle hcur) (fun _ => ?_)
    refine LPost.bind (Q1 := fun p => p.1 < p.2.1.length ∧ p.2.1.length ≤ ntax ∧ rows.length ≤ p.2.1.length) ?_ ?_
    · split
      · rename_i i
        exact LPost.pure ⟨hcur i rfl, hle, Nat.le_refl _⟩
      · exact phyTaxon_post strict ntax nchar rows _ hle
    · rintro ⟨i, rows1, line1⟩ ⟨h1, h2, h3⟩
      dsimp only at h1 h2 h3 ⊢
      refine LPost.bind (phyCells_post sym line1) ?_
      intro n _
      refine LPost.bind (addCells_post rows1 i n h1) ?_
      intro rows2 ⟨hl2, _, _⟩
      refine LPost.bind (cellsAt_post rows2 i (by omega)) ?_
      intro c _
      have := phySequential_post sym strict ntax nchar ls rows2 (if c ≥ nchar then none else some i) (by omega)
        (by intro j hj; split at hj <;> simp at hj; omega)
      refine ⟨this.1, fun a ha => ?_⟩
      have := this.2 a ha
      omega

/-- interleaved PHYLIP rows: `taxon_namespace[paged_row]` is always a valid index -/
theorem phyInterleaved_post (sym : Char → Bool) (strict : Bool) (ntax nchar : Nat) (hpos : 0 < ntax) :
    ∀ (ls : List (List Char)) (rows : Rows) (paged : Bool) (pagedRow : Int), rows.length ≤ ntax →
      (paged = true → rows.length = ntax) → -1 ≤ pagedRow → pagedRow < ntax →
      LPost (phyInterleaved sym strict ntax nchar ls rows paged pagedRow) (fun rows' => rows'.length ≤ ntax ∧ rows.length ≤ rows'.length)
  | [], rows, paged, pagedRow, hle, _, _, _ => by unfold phyInterleaved; exact LPost.pure ⟨hle, Nat.le_refl _⟩
  | line :: ls, rows, paged, pagedRow, hle, hpg, hlo, hhi => by
    unfold phyInterleaved
    dsimp only
    refine LPost.ite (fun _ => phyInterleaved_post sym strict ntax nchar hpos ls rows paged pagedRow hle hpg hlo hhi) (fun _ => ?_)
    have hb : (0 : Int) ≤ (if pagedRow + 1 ≥ (ntax : Int) then 0 else pagedRow + 1) ∧
        (if pagedRow + 1 ≥ (ntax : Int) then 0 else pagedRow + 1) < (ntax : Int) := by
      split <;> omega
    generalize (if pagedRow + 1 ≥ (ntax : Int) then 0 else pagedRow + 1) = pr at hb ⊢
    refine LPost.ite (fun hp => ?_) (fun hp => ?_)
    · refine LPost.ite (fun hneg => absurd hneg (by omega)) (fun _ => ?_)
      refine LPost.bind (phyCells_post sym _) ?_
      intro n _
      have hidx : pr.toNat < rows.length := by
        rw [hpg hp]; omega
      refine LPost.bind (addCells_post rows pr.toNat n hidx) ?_
      intro rows2 ⟨hl2, _, _⟩
      have := phyInterleaved_post sym strict ntax nchar hpos ls rows2 paged pr (by omega) (by intro h; rw [hl2]; exact hpg h) (by omega) hb.2
      refine ⟨this.1, fun a ha => ?_⟩
      have := this.2 a ha
      omega
    · refine LPost.bind (phyTaxon_post strict ntax nchar rows _ hle) ?_
      rintro ⟨i, rows1, line1⟩ ⟨h1, h2, h3⟩
      dsimp only at h1 h2 h3 ⊢
      refine LPost.bind (phyCells_post sym line1) ?_
      intro n _
      refine LPost.bind (addCells_post rows1 i n h1) ?_
      intro rows2 ⟨hl2, _, _⟩
      have := phyInterleaved_post sym strict ntax nchar hpos ls rows2 (rows1.length == ntax)
        (if (rows1.length == ntax) = true then -1 else pr) (by omega)
        (by intro h; rw [hl2]; simpa using h) (by split <;> omega) (by split <;> omega)
      refine ⟨this.1, fun a ha => ?_⟩
      have := this.2 a ha
      omega

/-- the FASTA loop: `cur` is the last row; every earlier row has at least one cell -/
theorem fastaLines_post (sym : Char → Bool) :
    ∀ (ls : List (List Char)) (rows : Rows) (cur : Option Nat),
      (∀ i, cur = some i → i + 1 = rows.length) → (cur = none → rows = []) →
      (∀ j r, j + 1 < rows.length → rows[j]? = some r → 0 < r.2) →
      LPost (fastaLines sym ls rows cur) (fun rows' => ∀ j r, j + 1 < rows'.length → rows'[j]? = some r → 0 < r.2)
  | [], rows, cur, _, _, hne => by unfold fastaLines; exact LPost.pure hne
  | line :: ls, rows, cur, hc, hn, hne => by
    unfold fastaLines
    dsimp only
    refine LPost.ite (fun _ => fastaLines_post sym ls rows cur hc hn hne) (fun _ => ?_)
    split
    · -- a name line
      split
      · exact LPost.perr _
      · split
        · rename_i i
          have hi := hc i rfl
          refine LPost.bind (cellsAt_post rows i (by omega)) ?_
          intro c ⟨r0, hr0, hc0⟩
          refine LPost.ite (fun _ => LPost.perr _) (fun hz => ?_)
          refine fastaLines_post sym ls (rows ++ [(_, 0)]) (some rows.length) (by intro k hk; simp at hk; simp; omega) (by intro h; cases h) ?_
          intro j r hj hjr
          simp only [List.length_append, List.length_cons, List.length_nil] at hj
          have hjl : j < rows.length := by omega
          rw [List.getElem?_append_left hjl] at hjr
          by_cases hji : j = i
          · subst hji
            rw [hr0] at hjr
            cases hjr
            have : c ≠ 0 := by simpa using hz
            omega
          · exact hne j r (by omega) hjr
        · have hr := hn rfl
          subst hr
          refine fastaLines_post sym ls ([] ++ [(_, 0)]) (some 0) (by intro k hk; simp at hk; simp; omega) (by intro h; cases h) ?_
          intro j r hj _
          simp at hj
    · -- a sequence line
      split
      · exact LPost.perr _
      · rename_i i
        have hi := hc i rfl
        refine LPost.ite (fun _ => ?_) (fun _ => LPost.perr _)
        refine LPost.bind (addCells_post rows i _ (by omega)) ?_
        intro rows2 ⟨hl2, hoth, _⟩
        refine fastaLines_post sym ls rows2 (some i) (by intro k hk; cases hk; omega) (by intro h; cases h) ?_
        intro j r hj hjr
        rw [hl2] at hj
        rw [hoth j (by omega)] at hjr
        exact hne j r hj hjr


end DendroModel.C20.Aux

namespace DendroModel.C20
open DendroModel DendroModel.C20.Aux

/-- **PHYLIP: no index is ever out of range.**  For every text, mode and symbol set the PHYLIP reader model returns a
matrix or a parse error; `internal` — the model's `IndexError` (`taxon_namespace[paged_row]` of the interleaved loop,
or a row index the sequential loop would have lost) — is unreachable. -/
theorem phylip_never_internal (sym : Char → Bool) (strict interleaved : Bool) (text : List Char) (w : String) :
    readPhylip sym strict interleaved text ≠ .internal w := by
  unfold readPhylip
  dsimp only
  split
  · intro h; cases h
  · split
    · intro h; cases h
    · split
      · intro h; cases h
      · rename_i ntax nchar _
        split
        · intro h; cases h
        · rename_i hz
          have hpos : 0 < ntax := by
            simp only [Bool.or_eq_true, beq_iff_eq, not_or] at hz; omega
          split
          · intro h; cases h
          · rename_i w' hr
            exfalso
            split at hr
            · exact (phyInterleaved_post sym strict ntax nchar hpos _ [] false (-1) (by simp) (by intro h; cases h) (by omega) (by omega)).1 w' hr
            · exact (phySequential_post sym strict ntax nchar _ [] none (by simp) (by intro i h; cases h)).1 w' hr
          · split
            · intro h; cases h
            · split <;> (intro h; cases h)

/-- **PHYLIP row loops never hold more rows than NTAX** (both loops, from the empty matrix, for every list of lines):
so the final row-count guard of the reader can only reject too *few* rows. -/
theorem phylip_loops_bounded (sym : Char → Bool) (strict : Bool) (ntax nchar : Nat) (hpos : 0 < ntax) (body : List (List Char)) (rows : Rows) :
    (phySequential sym strict ntax nchar body [] none = .ok rows → rows.length ≤ ntax) ∧
    (phyInterleaved sym strict ntax nchar body [] false (-1) = .ok rows → rows.length ≤ ntax) :=
  ⟨fun h => ((phySequential_post sym strict ntax nchar body [] none (by simp) (by intro i h; cases h)).2 rows h).1,
   fun h => ((phyInterleaved_post sym strict ntax nchar hpos body [] false (-1) (by simp) (by intro h; cases h) (by omega) (by omega)).2 rows h).1⟩

/-- **FASTA: no index is ever out of range** (the row being filled is always the last row). -/
theorem fasta_never_internal (sym : Char → Bool) (text : List Char) (w : String) : readFasta sym text ≠ .internal w := by
  unfold readFasta
  split
  · intro h; cases h
  · rename_i w' hr
    exact absurd hr ((fastaLines_post sym _ [] none (by intro i h; cases h) (fun _ => rfl) (by intro j r hj; simp at hj)).1 w')
  · intro h; cases h

/-- **FASTA: every sequence but possibly the last is non-empty** in a returned matrix (a name line that follows an
empty sequence is rejected), for every text. -/
theorem fasta_rows_nonempty (sym : Char → Bool) (text : List Char) (rows : Rows) (h : readFasta sym text = .ok rows) :
    ∀ j r, j + 1 < rows.length → rows[j]? = some r → 0 < r.2 := by
  unfold readFasta at h
  split at h
  · cases h
  · cases h
  · rename_i rows' hr
    simp only [MatRes.ok.injEq] at h
    subst h
    exact (fastaLines_post sym _ [] none (by intro i h; cases h) (fun _ => rfl) (by intro j r hj; simp at hj)).2 _ hr


end DendroModel.C20

namespace DendroModel.C20.Aux
open DendroModel DendroModel.C20

/-- ok-only Hoare triple (no claim about errors) -/
def OkImp {α : Type} (r : R α) (Q : α → Prop) : Prop := ∀ a, r = .ok a → Q a

theorem OkImp.bind {α β : Type} {x : R α} {g : α → R β} {Q : β → Prop} (hg : ∀ a, OkImp (g a) Q) : OkImp (x >>= g) Q := by
  intro b hb
  cases hx : x with
  | error e => rw [hx] at hb; cases hb
  | ok a => rw [hx] at hb; exact hg a b hb

theorem OkImp.ite {α : Type} {c : Prop} [Decidable c] {a b : R α} {Q : α → Prop} (ha : c → OkImp a Q) (hb : ¬ c → OkImp b Q) :
    OkImp (if c then a else b) Q := by
  split
  · exact ha ‹_›
  · exact hb ‹_›

theorem OkImp.perr {α : Type} {Q : α → Prop} (e : PErr) : OkImp (perr e : R α) Q := by
  intro a h; unfold C20.perr at h; cases h

theorem parsePositions_range (s : RS) : OkImp (parsePositions s) (fun s' => ∀ q ∈ s'.positions, q ≤ s.nchar.getD 0) := by
  unfold parsePositions
  dsimp only
  refine OkImp.bind ?_
  rintro ⟨t, s1⟩
  dsimp only
  refine OkImp.ite (fun _ => OkImp.perr _) (fun _ => ?_)
  refine OkImp.bind ?_
  intro s9
  refine OkImp.ite (fun _ => OkImp.perr _) (fun hn => ?_)
  intro a ha
  simp only [pure, Except.pure, Except.ok.injEq] at ha
  subst ha
  intro q hq
  dsimp only at hq hn ⊢
  simp only [List.any_eq_true, decide_eq_true_eq, not_exists, not_and, Nat.not_lt] at hn
  exact hn q hq


end DendroModel.C20.Aux

namespace DendroModel.C20
open DendroModel DendroModel.C20.Aux

/-- **A CHARSET range costs at most NCHAR, whatever number the document writes.**  `stepRange start stop step max` — the positions
`_parse_positions` adds for `start - stop \ step` — are all inside the matrix, and there are at most `max + 1` of them: the
work does not depend on `stop` (the unrepaired code walked `range(start, stop + 1, step)` and hung on `1-99999999999`). -/
theorem charset_range_bounded (start stop step max : Nat) (hstep : 0 < step) :
    (∀ q ∈ stepRange start stop step max, q ≤ max) ∧ (stepRange start stop step max).length ≤ max + 1 := by
  refine ⟨?_, ?_⟩
  · intro q hq
    unfold stepRange at hq
    simp only [List.mem_map, List.mem_range] at hq
    obtain ⟨k, hk, rfl⟩ := hq
    have h1 : (k + 1) * step ≤ min stop max + 1 - start + step - 1 := (Nat.le_div_iff_mul_le hstep).mp hk
    rw [Nat.add_mul, Nat.one_mul] at h1
    have : min stop max ≤ max := Nat.min_le_right _ _
    omega
  · unfold stepRange
    simp only [List.length_map, List.length_range]
    have hm : min stop max ≤ max := Nat.min_le_right _ _
    have h2 : (min stop max + 1 - start + step - 1) / step < max + 1 + 1 := by
      rw [Nat.div_lt_iff_lt_mul hstep]
      have : max + 1 + 1 ≤ (max + 1 + 1) * step := Nat.le_mul_of_pos_right _ hstep
      have h3 : (max + 1 + 1) * step = (max + 1) * step + step := by rw [Nat.add_mul, Nat.one_mul]
      have h4 : max + 1 ≤ (max + 1) * step := Nat.le_mul_of_pos_right _ hstep
      omega
    omega

example : stepRange 1 99999999999 2 5 = [1, 3, 5] := by decide

/-- **CHARSET positions stay inside the matrix.**  Whenever `_parse_positions` returns, every (1-based) position of
the list is at most the declared NCHAR — single positions, ranges, `.`, `ALL` and stepped ranges alike. -/
theorem charset_positions_in_range (s s' : RS) (h : parsePositions s = .ok s') : ∀ q ∈ s'.positions, q ≤ s.nchar.getD 0 :=
  parsePositions_range s s' h

end DendroModel.C20

namespace DendroModel.C20.Aux
open DendroModel DendroModel.C20

/-! ### exit conditions: a statement parser returns only after its terminator -/
theorem OkImp.pure {α : Type} {a : α} {Q : α → Prop} (h : Q a) : OkImp (Pure.pure a : R α) Q := by
  intro b hb; cases hb; exact h

theorem OkImp.ok {α : Type} {a : α} {Q : α → Prop} (h : Q a) : OkImp (Except.ok a : R α) Q := by
  intro b hb; cases hb; exact h

theorem OkImp.mono {α : Type} {r : R α} {Q Q' : α → Prop} (h : OkImp r Q) (himp : ∀ a, Q a → Q' a) : OkImp r Q' :=
  fun a ha => himp a (h a ha)

theorem OkImp.bind' {α β : Type} {x : R α} {g : α → R β} {Q1 : α → Prop} {Q : β → Prop}
    (hx : OkImp x Q1) (hg : ∀ a, Q1 a → OkImp (g a) Q) : OkImp (x >>= g) Q := by
  intro b hb
  cases hxx : x with
  | error e => rw [hxx] at hb; cases hb
  | ok a => rw [hxx] at hb; exact hg a (hx a hxx) b hb

/-- **loop rule with invariant and exit condition**: an invariant of the body is an invariant of the loop, and a loop that
returns has seen its body stop (`false`), so whatever the body guarantees on stopping holds of the result -/
theorem iter_spec (b : RS → R (Bool × RS)) (I E : RS → Prop)
    (hfuel : ∀ s n, I s → I { s with fuel := n })
    (hb : ∀ s, I s → OkImp (b s) (fun p => I p.2 ∧ (p.1 = false → E p.2))) :
    ∀ s, I s → OkImp (iter b s) (fun s' => I s' ∧ E s') := by
  have key : ∀ (n : Nat) (s : RS), s.rest.length ≤ n → I s → OkImp (iter b s) (fun s' => I s' ∧ E s') := by
    intro n
    induction n with
    | zero =>
      intro s hl hi
      rw [iter]
      split
      · intro a ha; cases ha
      split
      · intro a ha; cases ha
      · rename_i s1 h1
        have := hb _ (hfuel s _ hi) _ h1
        exact OkImp.ok ⟨this.1, this.2 rfl⟩
      · rename_i s1 h1
        split
        · omega
        · intro a ha; cases ha
    | succ n ih =>
      intro s hl hi
      rw [iter]
      split
      · intro a ha; cases ha
      split
      · intro a ha; cases ha
      · rename_i s1 h1
        have := hb _ (hfuel s _ hi) _ h1
        exact OkImp.ok ⟨this.1, this.2 rfl⟩
      · rename_i s1 h1
        split
        · rename_i hlt
          exact ih s1 (by omega) (hb _ (hfuel s _ hi) _ h1).1
        · intro a ha; cases ha
  exact fun s hi => key s.rest.length s (Nat.le_refl _) hi

theorem requireUcase_okimp (s : RS) : OkImp (requireUcase s) (fun _ => True) := fun _ _ => trivial

theorem parseDimensions_exit (s : RS) : OkImp (parseDimensions s) (fun s' => s'.stok = semi.text) := by
  unfold parseDimensions
  refine OkImp.bind ?_
  rintro ⟨t, s1⟩
  try dsimp only
  refine OkImp.mono (iter_spec _ (fun _ => True) (fun s' => s'.stok = semi.text) (fun _ _ h => h) ?_ _ trivial) (fun a h => h.2)
  intro s _
  try dsimp only
  refine OkImp.ite (fun h => OkImp.pure ⟨trivial, fun _ => by simpa using h⟩) (fun _ => ?_)
  refine OkImp.bind ?_
  intro s2
  refine OkImp.bind ?_
  rintro ⟨t2, s3⟩
  exact OkImp.pure ⟨trivial, fun h => by cases h⟩

theorem parseTaxlabels_exit (i : Nat) (s : RS) : OkImp (parseTaxlabels i s) (fun s' => s'.stok = semi.text ∧ s'.quoted = false) := by
  unfold parseTaxlabels
  refine OkImp.bind ?_
  rintro ⟨t, s1⟩
  try dsimp only
  refine OkImp.mono (iter_spec _ (fun _ => True) (fun s' => s'.stok = semi.text ∧ s'.quoted = false) (fun _ _ h => h) ?_ _ trivial) (fun a h => h.2)
  intro s _
  try dsimp only
  refine OkImp.ite (fun h => OkImp.pure ⟨trivial, fun _ => by simpa using h⟩) (fun _ => ?_)
  refine OkImp.bind ?_
  intro s2
  refine OkImp.bind ?_
  rintro ⟨t2, s3⟩
  exact OkImp.pure ⟨trivial, fun h => by cases h⟩

theorem parseLink_exit (s : RS) : OkImp (parseLink s) (fun s' => s'.stok = semi.text) := by
  unfold parseLink
  refine OkImp.bind ?_
  rintro ⟨t, s1⟩
  try dsimp only
  refine OkImp.mono (iter_spec _ (fun _ => True) (fun s' => s'.stok = semi.text) (fun _ _ h => h) ?_ _ trivial) (fun a h => h.2)
  intro s _
  try dsimp only
  refine OkImp.ite (fun h => OkImp.pure ⟨trivial, fun _ => by simpa using h⟩) (fun _ => ?_)
  refine OkImp.ite (fun _ => ?_) (fun _ => OkImp.ite (fun _ => ?_) (fun _ => ?_))
  · refine OkImp.bind ?_
    rintro ⟨t2, s2⟩
    refine OkImp.ite (fun _ => OkImp.perr _) (fun _ => ?_)
    refine OkImp.bind ?_
    rintro ⟨v, s3⟩
    refine OkImp.bind ?_
    rintro ⟨t3, s4⟩
    exact OkImp.pure ⟨trivial, fun h => by cases h⟩
  · refine OkImp.bind ?_
    rintro ⟨t2, s2⟩
    refine OkImp.ite (fun _ => OkImp.perr _) (fun _ => ?_)
    refine OkImp.bind ?_
    rintro ⟨v, s3⟩
    refine OkImp.bind ?_
    rintro ⟨t3, s4⟩
    exact OkImp.pure ⟨trivial, fun h => by cases h⟩
  · refine OkImp.bind ?_
    rintro ⟨t2, s2⟩
    exact OkImp.pure ⟨trivial, fun h => by cases h⟩

/-- a body of the FORMAT loop other than the one for `;` always asks to continue -/
theorem fmt_continues {b : R (Bool × RS)} (h : OkImp b (fun p => p.1 = true)) :
    OkImp b (fun p => True ∧ (p.1 = false → p.2.stok = semi.text)) :=
  OkImp.mono h (fun p hp => ⟨trivial, fun hf => by rw [hp] at hf; cases hf⟩)

theorem fmtDatatype_true (s : RS) : OkImp (fmtDatatype s) (fun p => p.1 = true) := by
  unfold fmtDatatype
  refine OkImp.bind ?_
  rintro ⟨t, s1⟩
  refine OkImp.ite (fun _ => OkImp.perr _) (fun _ => ?_)
  refine OkImp.bind ?_
  rintro ⟨t2, s2⟩
  refine OkImp.bind ?_
  rintro ⟨t3, s3⟩
  exact OkImp.pure rfl

theorem fmtSymbols_true (s : RS) : OkImp (fmtSymbols s) (fun p => p.1 = true) := by
  unfold fmtSymbols
  refine OkImp.bind ?_
  rintro ⟨t, s1⟩
  refine OkImp.ite (fun _ => OkImp.perr _) (fun _ => ?_)
  refine OkImp.bind ?_
  rintro ⟨t2, s2⟩
  refine OkImp.ite (fun _ => OkImp.perr _) (fun _ => ?_)
  refine OkImp.bind ?_
  rintro ⟨t3, s3⟩
  refine OkImp.bind ?_
  intro s4
  refine OkImp.bind ?_
  rintro ⟨t5, s5⟩
  exact OkImp.pure rfl

theorem fmtAssign_true (f : Nat) (s : RS) : OkImp (fmtAssign f s) (fun p => p.1 = true) := by
  unfold fmtAssign
  refine OkImp.bind ?_
  rintro ⟨t, s1⟩
  refine OkImp.ite (fun _ => OkImp.perr _) (fun _ => ?_)
  refine OkImp.bind ?_
  rintro ⟨t2, s2⟩
  refine OkImp.bind ?_
  rintro ⟨t3, s3⟩
  exact OkImp.pure rfl

theorem fmtInterleave_true (s : RS) : OkImp (fmtInterleave s) (fun p => p.1 = true) := by
  unfold fmtInterleave
  refine OkImp.bind ?_
  rintro ⟨t, s1⟩
  refine OkImp.ite (fun _ => ?_) (fun _ => OkImp.pure rfl)
  refine OkImp.bind ?_
  rintro ⟨t2, s2⟩
  refine OkImp.bind ?_
  rintro ⟨t3, s3⟩
  exact OkImp.pure rfl

theorem parseFormat_exit (s : RS) : OkImp (parseFormat s) (fun s' => s'.stok = semi.text) := by
  unfold parseFormat
  refine OkImp.bind ?_
  rintro ⟨t, s1⟩
  try dsimp only
  refine OkImp.mono (iter_spec _ (fun _ => True) (fun s' => s'.stok = semi.text) (fun _ _ h => h) ?_ _ trivial) (fun a h => h.2)
  intro s _
  try dsimp only
  refine OkImp.ite (fun h => OkImp.pure ⟨trivial, fun _ => by simpa using h⟩) (fun _ => ?_)
  refine OkImp.ite (fun _ => fmt_continues (fmtDatatype_true s)) (fun _ => ?_)
  refine OkImp.ite (fun _ => fmt_continues (fmtSymbols_true s)) (fun _ => ?_)
  refine OkImp.ite (fun _ => fmt_continues (fmtAssign_true _ s)) (fun _ => ?_)
  refine OkImp.ite (fun _ => fmt_continues (fmtInterleave_true s)) (fun _ => ?_)
  refine OkImp.ite (fun _ => fmt_continues (fmtAssign_true _ s)) (fun _ => ?_)
  refine OkImp.ite (fun _ => fmt_continues (fmtAssign_true _ s)) (fun _ => ?_)
  refine OkImp.ite (fun _ => OkImp.perr _) (fun _ => ?_)
  refine OkImp.bind ?_
  rintro ⟨t2, s2⟩
  exact OkImp.pure ⟨trivial, fun h => by cases h⟩

theorem nextTok_btok (s : RS) : OkImp (nextTok s) (fun p => p.2.btok = s.btok) := by
  unfold nextTok
  split
  · exact OkImp.ok rfl
  · exact OkImp.perr _
  · exact OkImp.ok rfl

theorem skipToSemi_btok (s : RS) : OkImp (skipToSemi s) (fun s' => s'.btok = s.btok) := by
  unfold skipToSemi
  refine OkImp.mono (iter_spec _ (fun x => x.btok = s.btok) (fun _ => True) (fun _ _ h => h) ?_ s rfl) (fun a h => h.1)
  intro s1 h1
  refine OkImp.bind' (nextTok_btok s1) ?_
  rintro ⟨t, s2⟩ h2
  exact OkImp.pure ⟨by rw [← h1]; exact h2, fun _ => trivial⟩

theorem taxaBlock_exit (s : RS) : OkImp (taxaBlock s) (fun s' => isEnd s'.btok = true) := by
  unfold taxaBlock
  refine OkImp.bind ?_
  intro s1
  refine OkImp.bind' (Q1 := fun s2 => isEnd s2.btok = true) ?_ ?_
  · refine OkImp.mono (iter_spec _ (fun _ => True) (fun s' => isEnd s'.btok = true) (fun _ _ h => h) ?_ _ trivial) (fun a h => h.2)
    intro s2 _
    try dsimp only
    refine OkImp.ite (fun h => OkImp.pure ⟨trivial, fun _ => h⟩) (fun _ => ?_)
    refine OkImp.bind ?_
    rintro ⟨t, s3⟩
    refine OkImp.bind ?_
    intro s4
    refine OkImp.bind ?_
    intro s5
    refine OkImp.bind ?_
    intro s6
    refine OkImp.pure ⟨trivial, fun h => ?_⟩
    simpa using h
  · intro s7 h7
    refine OkImp.mono (skipToSemi_btok s7) ?_
    intro a ha
    rw [ha]; exact h7


end DendroModel.C20.Aux

namespace DendroModel.C20
open DendroModel DendroModel.C20.Aux

/-- **The loop rule with invariant and exit condition** (about the driver's `iter`): an invariant of the body is an
invariant of the loop, and a loop that returns a value has seen its body stop, so what the body guarantees on stopping
holds of the result. -/
theorem reader_loop_exit_rule (b : RS → R (Bool × RS)) (I E : RS → Prop)
    (hfuel : ∀ s n, I s → I { s with fuel := n })
    (hb : ∀ s, I s → ∀ p, b s = .ok p → I p.2 ∧ (p.1 = false → E p.2)) (s s' : RS) (hi : I s) (h : iter b s = .ok s') :
    I s' ∧ E s' :=
  iter_spec b I E hfuel hb s hi s' h

/-- **A statement that is cut short is rejected.**  The statement parsers behind the anchored defect ("a NEXUS file cut
inside DIMENSIONS / TAXLABELS / LINK / FORMAT spins") return a value only with the terminating `;` as their current
statement token (for TAXLABELS: an *unquoted* `;`).  Together with `nexus_never_internal` (they terminate): on an input
that ends before that semicolon they raise a parse error — they can neither spin nor return as if the statement were
complete. -/
theorem statement_needs_semicolon (s s' : RS) (i : Nat) :
    (parseDimensions s = .ok s' → s'.stok = [';']) ∧
    (parseTaxlabels i s = .ok s' → s'.stok = [';'] ∧ s'.quoted = false) ∧
    (parseLink s = .ok s' → s'.stok = [';']) ∧
    (parseFormat s = .ok s' → s'.stok = [';']) :=
  ⟨parseDimensions_exit s s', parseTaxlabels_exit i s s', parseLink_exit s s', parseFormat_exit s s'⟩

/-- **A TAXA block that is cut short is rejected**: `_parse_taxa_block` returns only after it has seen END / ENDBLOCK. -/
theorem taxa_block_needs_end (s s' : RS) (h : taxaBlock s = .ok s') : isEnd s'.btok = true :=
  taxaBlock_exit s s' h

/-- **The invariant of the Newick machine holds where `_parse_tree_statement` starts it**, so `nesting_sub_safe` and
`newick_balanced` apply to every state the driver reaches (label start; the `(` start is the same state after one
`require_next_token`, see the proof of `newick_balanced`). -/
theorem newick_inv_initial (c : Tok) (rest : List Char) (mp : Mapper) :
    Inv { phase := .lab, f := {}, stack := [], cur := c, rest := rest, nesting := 0, seen := [], mapper := mp, trace := [c] } :=
  inv_mk _ [] 0 (by simp) (by simp [depthAux]) (by simp) (by simp)

end DendroModel.C20

namespace DendroModel.C20.Aux
open DendroModel DendroModel.C20

/-! ### what happens to `mats`: every function of the reader except `matrixCheck` leaves it alone -/
theorem iter_inv (b : RS → R (Bool × RS)) (I : RS → Prop) (hfuel : ∀ s n, I s → I { s with fuel := n })
    (hb : ∀ s, I s → OkImp (b s) (fun p => I p.2)) :
    ∀ s, I s → OkImp (iter b s) I :=
  fun s hi => OkImp.mono (iter_spec b I (fun _ => True) hfuel (fun s hs => OkImp.mono (hb s hs) (fun p hp => ⟨hp, fun _ => trivial⟩)) s hi) (fun a h => h.1)

theorem OkImp.of_bind_pure {α : Type} {x : R α} {Q : α → Prop} (h : OkImp (x >>= Pure.pure) Q) : OkImp x Q := by
  intro a ha
  apply h a
  rw [ha]; rfl

theorem ensureMapper_mats (s : RS) : (ensureMapper s).mats = s.mats := by unfold ensureMapper; split <;> rfl
theorem startTreeList_mats (s : RS) : (startTreeList s).mats = s.mats := by unfold startTreeList; split <;> rfl
theorem closeMapper_mats (s : RS) : (closeMapper s).mats = s.mats := by unfold closeMapper; split <;> rfl
theorem restoreNtax_mats (o : Option Nat) (s : RS) : (restoreNtax o s).mats = s.mats := by unfold restoreNtax; split <;> rfl

/-- side condition `Q <state expression>.mats` from a hypothesis `Q s.mats` -/
macro "mside" : tactic => `(tactic| first
  | assumption
  | ((try dsimp only); assumption)
  | ((try dsimp only); simp only [ensureMapper_mats, startTreeList_mats, closeMapper_mats, restoreNtax_mats]; assumption)
  | ((try dsimp only); (repeat' split) <;> (first | assumption | ((try dsimp only); assumption) |
      ((try dsimp only); simp only [ensureMapper_mats, startTreeList_mats, closeMapper_mats, restoreNtax_mats]; assumption))))

syntax "mbind" : tactic
macro "mfin" : tactic => `(tactic| first
  | exact OkImp.perr _
  | (intro _ hh; cases hh; done)
  | (refine OkImp.pure ?_; mside)
  | (refine OkImp.ok ?_; mside))
set_option hygiene false in
macro "mgen" : tactic => `(tactic| first
  | (refine OkImp.bind' (Q1 := fun (s' : RS) => Q s'.mats) ?_ (fun s hs => ?_) <;> (try dsimp only at *))
  | (refine OkImp.bind' (Q1 := fun (p : _ × RS) => Q p.2.mats) ?_ (fun p hp => ?_) <;> (try (rcases p with ⟨_, _⟩)) <;> (try dsimp only at *)))
set_option hygiene false in
macro "mstep" : tactic => `(tactic| first
  | mfin
  | (mbind; intro p hp; (try (have hprod : p = (p.1, p.2) := rfl; clear hprod; rcases p with ⟨_, _⟩)); (try dsimp only at *))
  | refine OkImp.ite (fun _ => ?_) (fun _ => ?_)
  | (refine iter_inv _ (fun x => Q x.mats) (fun _ _ h => h) (fun s hs => ?_) _ (by mside); (try dsimp only at *))
  | (refine OkImp.bind' (iter_inv _ (fun x => Q x.mats) (fun _ _ h => h) (fun s hs => ?_) _ (by mside)) (fun s hs => ?_) <;> (try dsimp only at *))
  | mgen
  | (refine OkImp.bind (fun _ => ?_))
  | split
  | dsimp only
  | (refine OkImp.of_bind_pure ?_; mbind; intro p hp; exact OkImp.pure hp))
macro "mauto" : tactic => `(tactic| repeat' mstep)

theorem nextTok_mats (Q : List (List Nat) → Prop) (s : RS) (h : Q s.mats) : OkImp (nextTok s) (fun p => Q p.2.mats) := by
  unfold nextTok; mauto
macro_rules | `(tactic| mbind) => `(tactic| refine OkImp.bind' (nextTok_mats _ _ (by mside)) ?_)
theorem requireTok_mats (Q : List (List Nat) → Prop) (s : RS) (h : Q s.mats) : OkImp (requireTok s) (fun p => Q p.2.mats) := by
  unfold requireTok; mauto
macro_rules | `(tactic| mbind) => `(tactic| refine OkImp.bind' (requireTok_mats _ _ (by mside)) ?_)
theorem nextUcase_mats (Q : List (List Nat) → Prop) (s : RS) (h : Q s.mats) : OkImp (nextUcase s) (fun p => Q p.2.mats) := by
  unfold nextUcase; mauto
macro_rules | `(tactic| mbind) => `(tactic| refine OkImp.bind' (nextUcase_mats _ _ (by mside)) ?_)
theorem requireUcase_mats (Q : List (List Nat) → Prop) (s : RS) (h : Q s.mats) : OkImp (requireUcase s) (fun p => Q p.2.mats) := by
  unfold requireUcase; mauto
macro_rules | `(tactic| mbind) => `(tactic| refine OkImp.bind' (requireUcase_mats _ _ (by mside)) ?_)
theorem skipToSemi_mats (Q : List (List Nat) → Prop) (s : RS) (h : Q s.mats) : OkImp (skipToSemi s) (fun s' => Q s'.mats) := by
  unfold skipToSemi; mauto
macro_rules | `(tactic| mbind) => `(tactic| refine OkImp.bind' (skipToSemi_mats _ _ (by mside)) ?_)
theorem parseTitle_mats (Q : List (List Nat) → Prop) (s : RS) (h : Q s.mats) : OkImp (parseTitle s) (fun s' => Q s'.mats) := by
  unfold parseTitle; mauto
macro_rules | `(tactic| mbind) => `(tactic| refine OkImp.bind' (parseTitle_mats _ _ (by mside)) ?_)
theorem consumeToEnd_mats (Q : List (List Nat) → Prop) (t : Option (List Char)) (s : RS) (h : Q s.mats) : OkImp (consumeToEnd t s) (fun s' => Q s'.mats) := by
  unfold consumeToEnd; mauto
macro_rules | `(tactic| mbind) => `(tactic| refine OkImp.bind' (consumeToEnd_mats _ _ _ (by mside)) ?_)
theorem parseDimensions_mats (Q : List (List Nat) → Prop) (s : RS) (h : Q s.mats) : OkImp (parseDimensions s) (fun s' => Q s'.mats) := by
  unfold parseDimensions; mauto
macro_rules | `(tactic| mbind) => `(tactic| refine OkImp.bind' (parseDimensions_mats _ _ (by mside)) ?_)
theorem parseTaxlabels_mats (Q : List (List Nat) → Prop) (i : Nat) (s : RS) (h : Q s.mats) : OkImp (parseTaxlabels i s) (fun s' => Q s'.mats) := by
  unfold parseTaxlabels; mauto
macro_rules | `(tactic| mbind) => `(tactic| refine OkImp.bind' (parseTaxlabels_mats _ _ _ (by mside)) ?_)
theorem parseLink_mats (Q : List (List Nat) → Prop) (s : RS) (h : Q s.mats) : OkImp (parseLink s) (fun s' => Q s'.mats) := by
  unfold parseLink; mauto
macro_rules | `(tactic| mbind) => `(tactic| refine OkImp.bind' (parseLink_mats _ _ (by mside)) ?_)
theorem getTns_mats (Q : List (List Nat) → Prop) (t : Option (List Char)) (s : RS) (h : Q s.mats) : OkImp (getTns t s) (fun p => Q p.2.mats) := by
  unfold getTns; mauto
macro_rules | `(tactic| mbind) => `(tactic| refine OkImp.bind' (getTns_mats _ _ _ (by mside)) ?_)
theorem taxaBlock_mats (Q : List (List Nat) → Prop) (s : RS) (h : Q s.mats) : OkImp (taxaBlock s) (fun s' => Q s'.mats) := by
  unfold taxaBlock; mauto
macro_rules | `(tactic| mbind) => `(tactic| refine OkImp.bind' (taxaBlock_mats _ _ (by mside)) ?_)
theorem ensureNs_mats (Q : List (List Nat) → Prop) (s : RS) (h : Q s.mats) : OkImp (ensureNs s) (fun s' => Q s'.mats) := by
  unfold ensureNs; mauto
macro_rules | `(tactic| mbind) => `(tactic| refine OkImp.bind' (ensureNs_mats _ _ (by mside)) ?_)

theorem parseTranslate_mats (Q : List (List Nat) → Prop) (s : RS) (h : Q s.mats) : OkImp (parseTranslate s) (fun s' => Q s'.mats) := by
  unfold parseTranslate; mauto
macro_rules | `(tactic| mbind) => `(tactic| refine OkImp.bind' (parseTranslate_mats _ _ (by mside)) ?_)
theorem parseTreeStatement_mats (Q : List (List Nat) → Prop) (s : RS) (h : Q s.mats) : OkImp (parseTreeStatement s) (fun s' => Q s'.mats) := by
  unfold parseTreeStatement; mauto
macro_rules | `(tactic| mbind) => `(tactic| refine OkImp.bind' (parseTreeStatement_mats _ _ (by mside)) ?_)
theorem treesBlock_mats (Q : List (List Nat) → Prop) (s : RS) (h : Q s.mats) : OkImp (treesBlock s) (fun s' => Q s'.mats) := by
  unfold treesBlock; mauto
macro_rules | `(tactic| mbind) => `(tactic| refine OkImp.bind' (treesBlock_mats _ _ (by mside)) ?_)
theorem fmtDatatype_mats (Q : List (List Nat) → Prop) (s : RS) (h : Q s.mats) : OkImp (fmtDatatype s) (fun p => Q p.2.mats) := by
  unfold fmtDatatype; mauto
macro_rules | `(tactic| mbind) => `(tactic| refine OkImp.bind' (fmtDatatype_mats _ _ (by mside)) ?_)
theorem fmtSymbolsLoop_mats (Q : List (List Nat) → Prop) (s : RS) (h : Q s.mats) : OkImp (fmtSymbolsLoop s) (fun s' => Q s'.mats) := by
  unfold fmtSymbolsLoop; mauto
macro_rules | `(tactic| mbind) => `(tactic| refine OkImp.bind' (fmtSymbolsLoop_mats _ _ (by mside)) ?_)
theorem fmtSymbols_mats (Q : List (List Nat) → Prop) (s : RS) (h : Q s.mats) : OkImp (fmtSymbols s) (fun p => Q p.2.mats) := by
  unfold fmtSymbols; mauto
macro_rules | `(tactic| mbind) => `(tactic| refine OkImp.bind' (fmtSymbols_mats _ _ (by mside)) ?_)
theorem fmtAssign_mats (Q : List (List Nat) → Prop) (f : Nat) (s : RS) (h : Q s.mats) : OkImp (fmtAssign f s) (fun p => Q p.2.mats) := by
  unfold fmtAssign; mauto
macro_rules | `(tactic| mbind) => `(tactic| refine OkImp.bind' (fmtAssign_mats _ _ _ (by mside)) ?_)
theorem fmtInterleave_mats (Q : List (List Nat) → Prop) (s : RS) (h : Q s.mats) : OkImp (fmtInterleave s) (fun p => Q p.2.mats) := by
  unfold fmtInterleave; mauto
macro_rules | `(tactic| mbind) => `(tactic| refine OkImp.bind' (fmtInterleave_mats _ _ (by mside)) ?_)
theorem parseFormat_mats (Q : List (List Nat) → Prop) (s : RS) (h : Q s.mats) : OkImp (parseFormat s) (fun s' => Q s'.mats) := by
  unfold parseFormat; mauto
macro_rules | `(tactic| mbind) => `(tactic| refine OkImp.bind' (parseFormat_mats _ _ (by mside)) ?_)
theorem readStates_mats (Q : List (List Nat) → Prop) (symOk : Char → Bool) (r : Nat) (s : RS) (h : Q s.mats) : OkImp (readStates symOk r s) (fun s' => Q s'.mats) := by
  unfold readStates; mauto
macro_rules | `(tactic| mbind) => `(tactic| refine OkImp.bind' (readStates_mats _ _ _ _ (by mside)) ?_)
theorem rowFor_mats (Q : List (List Nat) → Prop) (i : Nat) (label : List Char) (s : RS) (h : Q s.mats) : OkImp (rowFor i label s) (fun p => Q p.2.mats) := by
  unfold rowFor; mauto
macro_rules | `(tactic| mbind) => `(tactic| refine OkImp.bind' (rowFor_mats _ _ _ _ (by mside)) ?_)
theorem matrixRows_mats (Q : List (List Nat) → Prop) (symOk : Char → Bool) (i nchar : Nat) (s : RS) (h : Q s.mats) : OkImp (matrixRows symOk i nchar s) (fun s' => Q s'.mats) := by
  unfold matrixRows; mauto
macro_rules | `(tactic| mbind) => `(tactic| refine OkImp.bind' (matrixRows_mats _ _ _ _ _ (by mside)) ?_)
theorem positionsRange_mats (Q : List (List Nat) → Prop) (start max : Nat) (s : RS) (h : Q s.mats) : OkImp (positionsRange start max s) (fun p => Q p.2.mats) := by
  unfold positionsRange; mauto
macro_rules | `(tactic| mbind) => `(tactic| refine OkImp.bind' (positionsRange_mats _ _ _ _ (by mside)) ?_)
theorem parsePositions_mats (Q : List (List Nat) → Prop) (s : RS) (h : Q s.mats) : OkImp (parsePositions s) (fun s' => Q s'.mats) := by
  unfold parsePositions; mauto
macro_rules | `(tactic| mbind) => `(tactic| refine OkImp.bind' (parsePositions_mats _ _ (by mside)) ?_)
theorem parseCharset_mats (Q : List (List Nat) → Prop) (s : RS) (h : Q s.mats) : OkImp (parseCharset s) (fun s' => Q s'.mats) := by
  unfold parseCharset; mauto
macro_rules | `(tactic| mbind) => `(tactic| refine OkImp.bind' (parseCharset_mats _ _ (by mside)) ?_)
theorem setsBlock_mats (Q : List (List Nat) → Prop) (s : RS) (h : Q s.mats) : OkImp (setsBlock s) (fun s' => Q s'.mats) := by
  unfold setsBlock; mauto
macro_rules | `(tactic| mbind) => `(tactic| refine OkImp.bind' (setsBlock_mats _ _ (by mside)) ?_)
theorem skipToBegin_mats (Q : List (List Nat) → Prop) (s : RS) (h : Q s.mats) : OkImp (skipToBegin s) (fun s' => Q s'.mats) := by
  unfold skipToBegin; mauto
macro_rules | `(tactic| mbind) => `(tactic| refine OkImp.bind' (skipToBegin_mats _ _ (by mside)) ?_)

/-- every matrix is rectangular with a positive width -/
def GoodMats (m : List (List Nat)) : Prop := ∀ row ∈ m, ∃ c, 0 < c ∧ ∀ x ∈ row, x = c

theorem matrixCheck_good (nchar : Nat) (s : RS) (hpos : 0 < nchar) (h : GoodMats s.mats) :
    OkImp (matrixCheck nchar s) (fun s' => GoodMats s'.mats) := by
  intro s' hs'
  obtain ⟨_, hm, hall, _, _⟩ := (matrixCheck_post nchar s).2 s' hs'
  intro row hrow
  rw [hm] at hrow
  rcases List.mem_append.mp hrow with h1 | h1
  · exact h row h1
  · simp only [List.mem_singleton] at h1
    subst h1
    exact ⟨nchar, hpos, hall⟩

theorem getTns_pres (t : Option (List Char)) (s : RS) : OkImp (getTns t s) (fun p => p.2.mats = s.mats ∧ p.2.nchar = s.nchar) := by
  unfold getTns
  split
  · split
    · exact OkImp.pure ⟨rfl, rfl⟩
    · split
      · exact OkImp.pure ⟨rfl, rfl⟩
      · exact OkImp.perr _
  · dsimp only
    split
    · exact OkImp.pure ⟨rfl, rfl⟩
    · exact OkImp.perr _

theorem parseMatrix_good (sy : Syms) (s : RS) (h : GoodMats s.mats) : OkImp (parseMatrix sy s) (fun s' => GoodMats s'.mats) := by
  unfold parseMatrix
  refine OkImp.ite (fun _ => OkImp.perr _) (fun hz => ?_)
  have hpos : 0 < s.nchar.getD 0 := by
    simp only [Bool.or_eq_true, beq_iff_eq, not_or] at hz
    omega
  refine OkImp.bind' (getTns_pres _ s) ?_
  rintro ⟨i, s1⟩ ⟨hm1, hn1⟩
  try dsimp only at hm1 hn1 ⊢
  refine OkImp.bind (fun symOk => ?_)
  refine OkImp.bind' (nextTok_mats GoodMats _ (by dsimp only; rw [hm1]; exact h)) ?_
  rintro ⟨t2, s2⟩ h2
  try dsimp only at h2 ⊢
  refine OkImp.bind' (matrixRows_mats GoodMats _ _ _ _ (by dsimp only; exact h2)) ?_
  intro s3 h3
  refine matrixCheck_good _ s3 ?_ h3
  rw [hn1]; exact hpos

set_option hygiene false in
macro_rules | `(tactic| mbind) => `(tactic| refine OkImp.bind' (hm _ _ (by mside)) ?_)

theorem charsBlock_mats (Q : List (List Nat) → Prop) (hm : ∀ sy s, Q s.mats → OkImp (parseMatrix sy s) (fun s' => Q s'.mats))
    (sy : Syms) (s : RS) (h : Q s.mats) : OkImp (charsBlock sy s) (fun s' => Q s'.mats) := by
  unfold charsBlock; mauto

theorem readBlock_mats (Q : List (List Nat) → Prop) (hm : ∀ sy s, Q s.mats → OkImp (parseMatrix sy s) (fun s' => Q s'.mats))
    (sy : Syms) (s : RS) (h : Q s.mats) : OkImp (readBlock sy s) (fun s' => Q s'.mats) := by
  unfold readBlock
  refine OkImp.bind' (skipToBegin_mats Q s h) ?_
  intro s1 h1
  refine OkImp.bind' (nextUcase_mats Q s1 h1) ?_
  rintro ⟨t, s2⟩ h2
  try dsimp only at h2 ⊢
  refine OkImp.ite (fun _ => taxaBlock_mats Q _ (by mside)) (fun _ => ?_)
  refine OkImp.ite (fun _ => charsBlock_mats Q hm sy _ (by mside)) (fun _ => ?_)
  refine OkImp.ite (fun _ => treesBlock_mats Q _ (by mside)) (fun _ => ?_)
  refine OkImp.ite (fun _ => setsBlock_mats Q _ (by mside)) (fun _ => ?_)
  refine OkImp.ite (fun _ => OkImp.perr _) (fun _ => consumeToEnd_mats Q _ _ (by mside))

theorem readNexus_good (sy : Syms) (text : List Char) : OkImp (readNexus sy text) (fun s => GoodMats s.mats) := by
  have hm : ∀ sy s, GoodMats s.mats → OkImp (parseMatrix sy s) (fun s' => GoodMats s'.mats) := parseMatrix_good
  have h0 : GoodMats ({ rest := text } : RS).mats := by intro row hrow; cases hrow
  unfold readNexus
  refine OkImp.bind' (nextTok_mats GoodMats _ h0) ?_
  rintro ⟨t, s1⟩ h1
  try dsimp only at h1 ⊢
  split
  · exact OkImp.perr _
  · refine OkImp.ite (fun _ => OkImp.perr _) (fun _ => ?_)
    refine iter_inv _ (fun x => GoodMats x.mats) (fun _ _ h => h) ?_ s1 h1
    intro s2 h2
    refine OkImp.ite (fun _ => OkImp.pure h2) (fun _ => ?_)
    refine OkImp.bind' (readBlock_mats GoodMats hm sy s2 h2) ?_
    intro s3 h3
    exact OkImp.pure h3


end DendroModel.C20.Aux

namespace DendroModel.C20
open DendroModel DendroModel.C20.Aux

/-- **Declared versus found, for what the NEXUS reader finally returns.**  In every successful result of `readNexus` —
for every text and symbol table — every matrix (`mats`, the row lengths the driver prints) is rectangular and its
width is positive: all rows have one and the same positive number of cells (the NCHAR in force at its MATRIX statement,
by `nexus_matrix_dims`).  Proof: `matrixCheck` is the only function of the reader that touches `mats` (invariance of
`mats` under all other functions, threaded through every loop), and it only appends matrices that passed the
declared-versus-found check.  (A bound of the row count by NTAX is not part of the result: since the row-count check
uses only the NTAX of the block's own DIMENSIONS statement, it is stated per MATRIX statement in `nexus_matrix_dims`.) -/
theorem nexus_result_dims (sy : Syms) (text : List Char) (s : RS) (h : readNexus sy text = .ok s) :
    ∀ row ∈ s.mats, ∃ c, 0 < c ∧ ∀ x ∈ row, x = c :=
  readNexus_good sy text s h

/-! ### bounded work -/

/-- **A real, linear step budget for the Newick statement machine.**  `run` — what `parseStatement`, hence `readNewick` and
the TREE statements of `readNexus`, execute — is the fuelled loop `runF`: one unit per machine step, started with
`newickFuel st = 3·|unread input| + 3` units (every token costs at least one character, so this is linear in the number
of tokens too).  The budget is never used up: from every state `runF` returns a result, and that result is what `run`
returns (the `outOfFuel` fallback of `run` is not taken), whatever the nesting of the statement. -/
theorem newick_fuel_suffices (k : Cfg) (st : NState) :
    runF k (newickFuel st) st = some (run k st) ∧ newickFuel st = 3 * st.rest.length + 3 := by
  refine ⟨?_, rfl⟩
  have h := (runF_stable k st.measure st (newickFuel st) (newickFuel st) (Nat.le_refl _) (measure_lt_fuel st) (measure_lt_fuel st)).2
  unfold run
  cases hr : runF k (newickFuel st) st with
  | none => exact absurd hr h
  | some r => rfl

/-- the budget is a real one: with nothing to spend the loop stops at once … -/
example (k : Cfg) (st : NState) : runF k 0 st = none := rfl
/-- … and one unit is enough for a state whose step finishes the statement -/
example (k : Cfg) (st : NState) (r : NDone) (h : step k st = .done r) : runF k 1 st = some r := by
  simp only [runF, h]

/-- **Only two outcomes on any text, in particular on any truncation.**  (The name is historical; what is stated is
the dichotomy, not that a cut yields an error — for that see `statement_needs_semicolon` / `taxa_block_needs_end`;
`doc.take n` ranges over all texts.)  Each of the
four reader models either accepts the text or reports a *parse* error; no third outcome exists (the
`internal` markers are unreachable by `nexus_never_internal`, `newick_never_internal`, `phylip_never_internal`,
`fasta_never_internal`, and the models are total functions, so they terminate).  In particular every truncation of
an accepted document is accepted or a parse error. -/
theorem eof_is_parse_error (sy : Syms) (sym : Char → Bool) (strict interleaved : Bool) (doc : List Char) (n : Nat) :
    ((∃ s, readNexus sy (doc.take n) = .ok s) ∨ ∃ e, readNexus sy (doc.take n) = .error (.parse e)) ∧
    ((∃ ts, readNewick (doc.take n) = .ok ts) ∨ ∃ e, readNewick (doc.take n) = .err e) ∧
    ((∃ rows, readPhylip sym strict interleaved (doc.take n) = .ok rows) ∨ ∃ e, readPhylip sym strict interleaved (doc.take n) = .err e) ∧
    ((∃ rows, readFasta sym (doc.take n) = .ok rows) ∨ ∃ e, readFasta sym (doc.take n) = .err e) := by
  refine ⟨?_, ?_, ?_, ?_⟩
  · cases h : readNexus sy (doc.take n) with
    | ok s => exact Or.inl ⟨s, rfl⟩
    | error e =>
      cases e with
      | parse e => exact Or.inr ⟨e, rfl⟩
      | internal w => exact absurd h (nexus_never_internal sy _ w)
      | fuel => exact absurd h (nexus_fuel_suffices sy _)
  · cases h : readNewick (doc.take n) with
    | ok ts => exact Or.inl ⟨ts, rfl⟩
    | err e => exact Or.inr ⟨e, rfl⟩
    | internal w => exact absurd h (newick_never_internal _ w)
  · cases h : readPhylip sym strict interleaved (doc.take n) with
    | ok rows => exact Or.inl ⟨rows, rfl⟩
    | err e => exact Or.inr ⟨e, rfl⟩
    | internal w => exact absurd h (phylip_never_internal sym strict interleaved _ w)
  · cases h : readFasta sym (doc.take n) with
    | ok rows => exact Or.inl ⟨rows, rfl⟩
    | err e => exact Or.inr ⟨e, rfl⟩
    | internal w => exact absurd h (fasta_never_internal sym _ w)

/-- **The row a MATRIX line refers to always exists.**  `_get_taxon` + `char_block[taxon]` (`rowFor`) returns a position
inside `rows`; `readStates` reports `internal` (the model's `IndexError`) for a position outside, and by
`nexus_never_internal` that never happens in `readNexus`. -/
theorem rowFor_in_range (i : Nat) (label : List Char) (s s' : RS) (r : Nat) (h : rowFor i label s = .ok (r, s')) :
    r < s'.rows.length ∧ s'.rest = s.rest :=
  ⟨((rowFor_post i label s).2 (r, s') h).2, ((rowFor_post i label s).2 (r, s') h).1⟩

end DendroModel.C20

namespace DendroModel.C20.Aux
open DendroModel DendroModel.C20

/-! ### which refusal: a Hoare logic with an error side (`EPost`) and the loop rule for error kinds -/
/-- **loop rule for error kinds**: if the body keeps an invariant and, under it, fails only with errors satisfying `P`
(as do the two markers), then the loop fails only with such errors -/
theorem iter_err (b : RS → R (Bool × RS)) (I : RS → Prop) (P : Stop → Prop)
    (hfuel : ∀ s n, I s → I { s with fuel := n }) (hPf : P .fuel) (hPi : ∀ w, P (.internal w))
    (hb : ∀ s, I s → (∀ p, b s = .ok p → I p.2) ∧ (∀ e, b s = .error e → P e)) :
    ∀ s, I s → ∀ e, iter b s = .error e → P e := by
  have key : ∀ (n : Nat) (s : RS), s.rest.length ≤ n → I s → ∀ e, iter b s = .error e → P e := by
    intro n
    induction n with
    | zero =>
      intro s hl hi e he
      rw [iter] at he
      split at he
      · cases he; exact hPf
      have hB := hb _ (hfuel s (s.fuel - 1) hi)
      split at he
      · rename_i e' he'
        cases he
        exact hB.2 _ he'
      · cases he
      · rename_i s1 h1
        split at he
        · omega
        · cases he; exact hPi _
    | succ n ih =>
      intro s hl hi e he
      rw [iter] at he
      split at he
      · cases he; exact hPf
      have hB := hb _ (hfuel s (s.fuel - 1) hi)
      split at he
      · rename_i e' he'
        cases he
        exact hB.2 _ he'
      · cases he
      · rename_i s1 h1
        split at he
        · rename_i hlt
          exact ih s1 (by omega) (hB.1 _ h1) e he
        · cases he; exact hPi _
  exact fun s hi e he => key s.rest.length s (Nat.le_refl _) hi e he

/-- Hoare triple with an error side: values satisfy `Q`, errors satisfy `P` -/
def EPost {α : Type} (r : R α) (Q : α → Prop) (P : Stop → Prop) : Prop :=
  (∀ a, r = .ok a → Q a) ∧ ∀ e, r = .error e → P e

theorem EPost.pure {α : Type} {a : α} {Q : α → Prop} {P : Stop → Prop} (h : Q a) : EPost (Pure.pure a : R α) Q P :=
  ⟨fun b hb => (by cases hb; exact h), fun e he => (by cases he)⟩
theorem EPost.perr {α : Type} {Q : α → Prop} {P : Stop → Prop} (e : PErr) (h : P (.parse e)) : EPost (perr e : R α) Q P :=
  ⟨fun b hb => (by unfold C20.perr at hb; cases hb), fun e' he => (by unfold C20.perr at he; cases he; exact h)⟩
theorem EPost.bind {α β : Type} {x : R α} {g : α → R β} {Q1 : α → Prop} {Q2 : β → Prop} {P : Stop → Prop}
    (hx : EPost x Q1 P) (hg : ∀ a, Q1 a → EPost (g a) Q2 P) : EPost (x >>= g) Q2 P := by
  cases hxx : x with
  | error e =>
    have e1 : (Except.error e >>= g : R β) = Except.error e := rfl
    rw [e1]
    exact ⟨fun b hb => (by cases hb), fun e' he => (by cases he; exact hx.2 _ hxx)⟩
  | ok a =>
    have e2 : (Except.ok a >>= g : R β) = g a := rfl
    rw [e2]
    exact hg a (hx.1 a hxx)
theorem EPost.ite {α : Type} {c : Prop} [Decidable c] {a b : R α} {Q : α → Prop} {P : Stop → Prop}
    (ha : EPost a Q P) (hb : EPost b Q P) : EPost (if c then a else b) Q P := by
  split <;> assumption

/-- what the token reads keep, and how they fail -/
def Keeps (s s' : RS) : Prop := s'.ntax = s.ntax ∧ s'.nsMutable = s.nsMutable ∧ s'.tns = s.tns

theorem requireTok_e (s : RS) (P : Stop → Prop) (h1 : P (.parse .eos)) (h2 : P (.parse .unterminated)) :
    EPost (requireTok s) (fun p => Keeps s p.2) P := by
  unfold requireTok
  split
  · exact EPost.perr _ h1
  · exact EPost.perr _ h2
  · exact ⟨fun p hp => (by cases hp; exact ⟨rfl, rfl, rfl⟩), fun e he => (by cases he)⟩

theorem nextTok_e (s : RS) (P : Stop → Prop) (h2 : P (.parse .unterminated)) :
    EPost (nextTok s) (fun p => Keeps s p.2) P := by
  unfold nextTok
  split
  · exact ⟨fun p hp => (by cases hp; exact ⟨rfl, rfl, rfl⟩), fun e he => (by cases he)⟩
  · exact EPost.perr _ h2
  · exact ⟨fun p hp => (by cases hp; exact ⟨rfl, rfl, rfl⟩), fun e he => (by cases he)⟩

theorem iter_e (b : RS → R (Bool × RS)) (I : RS → Prop) (P : Stop → Prop)
    (hfuel : ∀ s n, I s → I { s with fuel := n }) (hPf : P .fuel) (hPi : ∀ w, P (.internal w))
    (hb : ∀ s, I s → EPost (b s) (fun p => I p.2) P) (s : RS) (hi : I s) : ∀ e, iter b s = .error e → P e :=
  iter_err b I P hfuel hPf hPi (fun s hs => ⟨(hb s hs).1, (hb s hs).2⟩) s hi

theorem parseTranslate_kind (s : RS) (h : s.ntax = none) (e : Stop) (he : parseTranslate s = .error e) :
    e ≠ .parse .undefinedTaxon := by
  unfold parseTranslate at he
  refine iter_e _ (fun x => x.nsMutable = true) (fun e => e ≠ .parse .undefinedTaxon) (fun _ _ h => h) (by simp) (by simp) ?_ _ ?_ e he
  · intro s hs
    refine EPost.bind (requireTok_e s _ (by simp) (by simp)) ?_
    rintro ⟨tt, s1⟩ k1
    refine EPost.ite (EPost.perr _ (by simp)) ?_
    refine EPost.bind (requireTok_e s1 _ (by simp) (by simp)) ?_
    rintro ⟨tl, s2⟩ k2
    have hm : s2.nsMutable = true := by rw [k2.2.1, k1.2.1]; exact hs
    dsimp only
    refine EPost.bind (Q1 := fun _ => True) ?_ ?_
    · split
      · exact EPost.pure trivial
      · rw [if_pos hm]; exact EPost.pure trivial
    · rintro ⟨j, m⟩ _
      refine EPost.bind (nextTok_e _ _ (by simp)) ?_
      rintro ⟨t, s3⟩ k3
      have h3 : s3.nsMutable = true := by rw [k3.2.1]; exact hm
      refine EPost.ite (EPost.pure h3) (EPost.ite (EPost.perr _ (by simp)) (EPost.pure h3))
  · have hn : (ensureMapper s).ntax = none := by unfold ensureMapper; split <;> exact h
    simp [hn]

theorem parseTaxlabels_kind (i : Nat) (s : RS) (e : Stop) (he : parseTaxlabels i s = .error e) :
    e = .parse .tooManyTaxa → s.ntax.isSome = true := by
  unfold parseTaxlabels at he
  have hE : EPost (requireTok s >>= fun p => iter (fun s => do
      let label := s.stok
      if label == semi.text && !s.quoted then pure (false, s)
      else
        let labels := labelsOf s.tns i
        let s ← (if hasLabel labels label then pure s
                 else if (match s.ntax with | some n => decide (labels.length ≥ n) | none => false) then perr .tooManyTaxa
                 else pure { s with tns := setLabels s.tns i (labels ++ [label]) } : R RS)
        let (t, s) ← requireTok s
        pure (true, { s with stok := t })) { p.2 with stok := p.1 }) (fun _ => True)
      (fun e => e = .parse .tooManyTaxa → s.ntax.isSome = true) := by
    refine EPost.bind (requireTok_e s _ (by simp) (by simp)) ?_
    rintro ⟨t, s1⟩ k1
    refine ⟨fun _ _ => trivial, ?_⟩
    refine iter_e _ (fun x => x.ntax = s.ntax) (fun e => e = .parse .tooManyTaxa → s.ntax.isSome = true) (fun _ _ h => h) (by simp) (by simp) ?_ _ k1.1
    intro x hx
    dsimp only
    refine EPost.ite (P := fun e => e = .parse .tooManyTaxa → s.ntax.isSome = true) (EPost.pure hx) ?_
    refine EPost.bind (Q1 := fun y => y.ntax = s.ntax) ?_ ?_
    · refine EPost.ite (EPost.pure hx) ?_
      cases hn : x.ntax with
      | none =>
        simp only [Bool.false_eq_true, if_false]
        exact EPost.pure (by dsimp only; rw [← hx, hn])
      | some n =>
        have hsome : s.ntax.isSome = true := by rw [← hx, hn]; rfl
        simp only
        refine EPost.ite (EPost.perr _ (fun _ => hsome)) (EPost.pure (by dsimp only; rw [← hx, hn]))
    · intro y hy
      refine EPost.bind (requireTok_e y _ (by simp) (by simp)) ?_
      rintro ⟨t2, y2⟩ k2
      exact EPost.pure (by dsimp only; rw [k2.1]; exact hy)
  exact hE.2 e he

end DendroModel.C20.Aux

namespace DendroModel.C20
open DendroModel DendroModel.C20.Aux

/-- **The loop rule for refusal kinds** (about the driver's `iter`): if the body keeps an invariant and, under it, fails
only with errors satisfying `P` (as the two markers do), the loop fails only with such errors. -/
theorem reader_loop_error_rule (b : RS → R (Bool × RS)) (I : RS → Prop) (P : Stop → Prop)
    (hfuel : ∀ s n, I s → I { s with fuel := n }) (hPf : P .fuel) (hPi : ∀ w, P (.internal w))
    (hb : ∀ s, I s → (∀ p, b s = .ok p → I p.2) ∧ (∀ e, b s = .error e → P e))
    (s : RS) (hi : I s) (e : Stop) (he : iter b s = .error e) : P e :=
  iter_err b I P hfuel hPf hPi hb s hi e he

/-- **A tree file without TAXA block / NTAX is never refused with `UndefinedTaxonError`.**  When no NTAX has been declared
(`_file_specified_ntax is None`: MrBayes / BEAST style sources), `_parse_translate_statement` unlocks the namespace, and
whatever the TRANSLATE statement contains — complete, partial, cut — it adds the labels it does not know; it can fail
(end of stream, a missing comma, …) but not with the undefined-taxon refusal, which the driver prints as its own kind
and the correspondence compares with the exception class of the code. -/
theorem translate_without_ntax_never_undefined_taxon (s : RS) (h : s.ntax = none) :
    parseTranslate s ≠ .error (.parse .undefinedTaxon) :=
  fun he => parseTranslate_kind s h _ he rfl

/-- **`TooManyTaxaError` from TAXLABELS presupposes a declared NTAX**: the refusal kind is only produced when the
document (or an earlier block) has given the number it is measured against. -/
theorem too_many_taxa_needs_ntax (i : Nat) (s : RS) (h : parseTaxlabels i s = .error (.parse .tooManyTaxa)) :
    s.ntax.isSome = true :=
  parseTaxlabels_kind i s _ h rfl

/-- the hypotheses are satisfiable: a fresh reader state has no NTAX; one with `NTAX=1` has -/
example : ({ rest := "1 A, 2 B;".toList, fuel := 9 } : RS).ntax = none ∧ ({ rest := [], ntax := some 1 } : RS).ntax.isSome = true := ⟨rfl, rfl⟩

end DendroModel.C20

namespace DendroModel.C20.Aux
open DendroModel DendroModel.C20

/-! ### the row a MATRIX line fills exists before and after it is read -/
theorem requireTok_rows (s : RS) : OkImp (requireTok s) (fun p => p.2.rows = s.rows) := by
  unfold requireTok
  split
  · exact OkImp.perr _
  · exact OkImp.perr _
  · exact OkImp.ok rfl

theorem readStates_rows (symOk : Char → Bool) (r : Nat) (s : RS) :
    OkImp (readStates symOk r s) (fun s' => r < s.rows.length ∧ s'.rows.length = s.rows.length) := by
  unfold readStates
  refine OkImp.ite (fun _ => fun a ha => by cases ha) (fun hr => ?_)
  have hr' : r < s.rows.length := by omega
  try dsimp only
  refine OkImp.bind' (Q1 := fun x => x.rows.length = s.rows.length) ?_ ?_
  · refine iter_inv _ (fun x => x.rows.length = s.rows.length) (fun _ _ h => h) ?_ _ (by split <;> rfl)
    intro x hx
    try dsimp only
    refine OkImp.ite (fun _ => OkImp.pure hx) (fun _ => ?_)
    refine OkImp.bind' (requireTok_rows x) ?_
    rintro ⟨t, x1⟩ h1
    have h1' : x1.rows.length = s.rows.length := by rw [h1]; exact hx
    try dsimp only at h1 ⊢
    refine OkImp.ite (fun _ => ?_) (fun _ => ?_)
    · refine OkImp.bind' (Q1 := fun y => y.rows.length = s.rows.length) ?_ ?_
      · refine iter_inv _ (fun y => y.rows.length = s.rows.length) (fun _ _ h => h) ?_ _ h1'
        intro y hy
        refine OkImp.bind' (requireTok_rows y) ?_
        rintro ⟨t2, y1⟩ h2
        have : y1.rows.length = s.rows.length := by rw [h2]; exact hy
        exact OkImp.ite (fun _ => OkImp.pure this) (fun _ => OkImp.pure this)
      · intro y hy
        exact OkImp.ite (fun _ => OkImp.pure hy) (fun _ => OkImp.perr _)
    · refine OkImp.ite (fun _ => OkImp.pure h1') (fun _ => ?_)
      refine OkImp.ite (fun _ => OkImp.pure h1') (fun _ => ?_)
      refine OkImp.ite (fun _ => OkImp.ite (fun _ => OkImp.pure h1') (fun _ => OkImp.perr _)) (fun _ => ?_)
      refine OkImp.bind (fun n => OkImp.pure h1')
  · intro x hx
    refine OkImp.ite (fun _ => OkImp.ite (fun _ => OkImp.pure ⟨hr', ?_⟩) (fun _ => OkImp.pure ⟨hr', hx⟩)) (fun _ => OkImp.pure ⟨hr', ?_⟩)
    · simp only [List.length_mapIdx]; exact hx
    · simp only [List.length_mapIdx]; split <;> exact hx

end DendroModel.C20.Aux

namespace DendroModel.C20
open DendroModel DendroModel.C20.Aux

/-- **`rowLen` never takes its default in the MATRIX row loop.**  Whenever `_read_character_states` (`readStates`) returns for
the row at position `r`, that position was inside `rows` when it started (otherwise it reports `internal`, unreachable by
`rowFor_in_range` + `nexus_never_internal`) and is inside `rows` when it ends — the cell loop and the multistate loop do not
add or drop rows — so the `rowLen s r` that `matrixRows` evaluates next (`len(char_block[taxon]) < nchar`) reads an existing
row: its `getD 0` default is dead there. -/
theorem matrix_row_stays_in_range (symOk : Char → Bool) (r : Nat) (s s' : RS) (h : readStates symOk r s = .ok s') :
    r < s.rows.length ∧ s'.rows.length = s.rows.length ∧ ∃ x, s'.rows[r]? = some x ∧ rowLen s' r = x.2 := by
  obtain ⟨h1, h2⟩ := readStates_rows symOk r s s' h
  have h3 : r < s'.rows.length := by omega
  refine ⟨h1, h2, s'.rows[r], List.getElem?_eq_getElem h3, ?_⟩
  unfold rowLen
  rw [List.getElem?_eq_getElem h3]
  rfl

/-- the guard is real: a position outside `rows` is reported, not defaulted -/
example (symOk : Char → Bool) : readStates symOk 3 { rest := [], rows := [(0, 0)] } = .error (.internal "row index out of range") := rfl

/-- **PHYLIP never accepts a ragged matrix.**  Whatever the text and the mode — in particular an interleaved document
whose last block is incomplete (cut after the first row of the block, a line of the block lost) — a matrix that
`readPhylip` returns has all its rows of one length, the declared NCHAR, and as many rows as the declared NTAX: the
row-filling loops (`phySequential`, `phyInterleaved`) cannot make up for a short row, and the final declared-versus-found
check of the repaired `_read` sees every row, not only the longest one. -/
theorem phylip_never_accepts_ragged (sym : Char → Bool) (strict interleaved : Bool) (text : List Char) (rows : Rows)
    (h : readPhylip sym strict interleaved text = .ok rows) :
    (∀ r1 ∈ rows, ∀ r2 ∈ rows, r1.2 = r2.2) ∧
    ∃ ntax nchar, (splitLines text).head?.bind parseHeader = some (ntax, nchar) ∧ rows.length = ntax ∧ ∀ r ∈ rows, r.2 = nchar := by
  obtain ⟨ntax, nchar, hh, _, _, hl, hall⟩ := ok_dims sym strict interleaved text rows h
  exact ⟨fun r1 h1 r2 h2 => by rw [hall r1 h1, hall r2 h2], ntax, nchar, hh, hl, hall⟩

/-- the class of the seeded change: `2 4`, two blocks, the last block cut after its first row — rows 4/2 — is rejected … -/
example : readPhylip (fun c => c == 'A') false true "2 4\nx AA\ny AA\n\nAA\n".toList = .err .data := by decide
/-- … and the complete document is accepted with rows 4/4 -/
example : readPhylip (fun c => c == 'A') false true "2 4\nx AA\ny AA\n\nAA\nAA\n".toList = .ok [(['x'], 4), (['y'], 4)] := by decide

/-! ### Tie A: the regenerated constants of the readers (Gen/C20Consts.lean) against the model's own -/

/-- membership of a token in a list of keywords -/
def isKeyword (ks : List String) (t : Option (List Char)) : Bool := ks.any (fun k => t == some k.toList)

/-- the branch a block name takes according to the regenerated groups: the group that contains `name`, if it does not raise -/
def genInGroupOf (name : String) (t : Option (List Char)) : Bool :=
  C20Consts.blockGroups.any (fun g => g.1.contains name && !g.2 && isKeyword g.1 t)
def genRaises (t : Option (List Char)) : Bool := C20Consts.blockGroups.any (fun g => g.2 && isKeyword g.1 t)
def genBlockKind (t : Option (List Char)) : Nat :=
  if genInGroupOf "TAXA" t then 0 else if genInGroupOf "CHARACTERS" t then 1 else if genInGroupOf "TREES" t then 2
  else if genInGroupOf "SETS" t then 3 else if genRaises t then 4 else 5

/-- **Tie A — block names.**  The branch of `_parse_nexus_stream` that the model's `blockKind` (run by `readBlock`) selects for a
token is the one the regenerated groups of block names select: same names, same synonyms, same raising branch. -/
theorem block_names_bridge (t : Option (List Char)) : blockKind t = genBlockKind t := by
  unfold blockKind genBlockKind genInGroupOf genRaises isKeyword C20Consts.blockGroups kw
  simp only [List.any_cons, List.any_nil, List.contains_cons, List.contains_nil, String.reduceBEq, Bool.or_false, Bool.and_true,
    Bool.not_false, Bool.not_true, Bool.and_false, Bool.false_and, Bool.false_or, Bool.true_and, Bool.or_assoc]
  generalize (t == some "TAXA".toList) = b1
  generalize (t == some "CHARACTERS".toList) = b2
  generalize (t == some "DATA".toList) = b3
  generalize (t == some "TREES".toList) = b4
  generalize (t == some "SETS".toList) = b5
  generalize (t == some "ASSUMPTIONS".toList) = b6
  generalize (t == some "CODONS".toList) = b7
  generalize (t == some "BEGIN".toList) = b8
  revert b1 b2 b3 b4 b5 b6 b7 b8
  decide

/-- **Tie A — end of block.**  The model's `isEnd` accepts exactly the regenerated end-of-block keywords. -/
theorem end_keywords_bridge (t : Option (List Char)) : isEnd t = isKeyword C20Consts.endKeywords t := by
  unfold isEnd isKeyword C20Consts.endKeywords kw
  simp only [List.any_cons, List.any_nil, Bool.or_false]

def genDT (t : List Char) : String :=
  ((C20Consts.datatypeTable.find? (fun e => e.1.toList == t)).map (·.2)).getD C20Consts.datatypeDefault

/-- **Tie A — DATATYPE keywords.**  The data type the model's `dtOfKeyword` (run by `fmtDatatype`) selects, STANDARD for any
other keyword, is the one of the regenerated table, and the symbols installed with the default are the regenerated ones. -/
theorem datatype_bridge (t : List Char) :
    ((dtOfKeyword t).getD .standard).name = genDT t ∧ kw "0123456789" = C20Consts.datatypeDefaultSymbols.toList := by
  refine ⟨?_, rfl⟩
  unfold dtOfKeyword genDT C20Consts.datatypeTable C20Consts.datatypeDefault kw
  simp only [List.find?_cons, List.find?_nil]
  by_cases h1 : t = "DNA".toList
  · subst h1; decide
  by_cases h2 : t = "NUCLEOTIDES".toList
  · subst h2; decide
  by_cases h3 : t = "RNA".toList
  · subst h3; decide
  by_cases h4 : t = "NUCLEOTIDE".toList
  · subst h4; decide
  by_cases h5 : t = "PROTEIN".toList
  · subst h5; decide
  by_cases h6 : t = "CONTINUOUS".toList
  · subst h6; decide
  have e : ∀ (k : String), ¬ t = k.toList → (k.toList == t) = false ∧ (t == k.toList) = false := by
    intro k hk
    constructor
    · simp only [beq_eq_false_iff_ne, ne_eq]; exact fun h => hk h.symm
    · simp only [beq_eq_false_iff_ne, ne_eq]; exact hk
  simp only [(e _ h1).1, (e _ h2).1, (e _ h3).1, (e _ h4).1, (e _ h5).1, (e _ h6).1, (e _ h1).2, (e _ h2).2, (e _ h3).2, (e _ h4).2,
    (e _ h5).2, (e _ h6).2, Bool.or_false, Bool.false_eq_true, if_false]
  rfl

/-- **Tie A — strict PHYLIP label width.**  The model cuts the label where the code does (`line[:w]`, `line[w:]`). -/
theorem phylip_width_bridge : phyLabelWidth = C20Consts.phylipLabelEnd ∧ phyLabelWidth = C20Consts.phylipSeqStart := by decide

/-- **Tie A — initial FORMAT state.**  Symbols, gap, missing and match characters and the interleave flag of a fresh reader
state are those `NexusReader.__init__` assigns. -/
theorem reader_defaults_bridge :
    ({ rest := [] } : RS).symbols = C20Consts.initSymbols.toList ∧ ({ rest := [] } : RS).gap = C20Consts.initGap.toList ∧
    ({ rest := [] } : RS).missing = C20Consts.initMissing.toList ∧ ({ rest := [] } : RS).matchc = C20Consts.initMatch.map String.toList ∧
    ({ rest := [] } : RS).interleave = C20Consts.initInterleave := by decide


/-! ### non-vacuity: the hypotheses of the theorems above are satisfiable -/

theorem nextT_semi : nextT {} [';'] = .tok [';'] false [] := by
  rw [nextT]
  simp [skipWs, Cfg.unc, Cfg.cap, Tables.tokUncaptured, Tables.tokCaptured, isEol]

/-- `rowFor_in_range`: a row label of a declared taxon gets its (new) row -/
example : ∃ p, rowFor 0 ['A'] { rest := [], ntax := some 1, tns := [{ title := none, labels := [['A']] }] } = .ok p ∧ p.1 = 0 ∧ p.2.rows = [(0, 0)] :=
  ⟨_, rfl, rfl, rfl⟩

/-- `nexus_result_dims` / `nexus_matrix_dims`: the step that appends a matrix accepts a rectangular one … -/
example : ∃ s', matrixCheck 2 { rest := [], rows := [(0, 2), (1, 2)] } = .ok s' ∧ s'.mats = [[2, 2]] := ⟨_, rfl, rfl⟩
/-- … and rejects a ragged one -/
example : matrixCheck 2 { rest := [], rows := [(0, 2), (1, 1)] } = perr .nexus := rfl

/-- `statement_needs_semicolon`: a DIMENSIONS statement that is complete (`;`) is accepted by the model -/
example : (parseDimensions { rest := [';'], fuel := 1 }).isOk = true := by
  unfold parseDimensions requireUcase requireTok
  simp only [nextT_semi, bind, Except.bind, pure, Except.pure]
  rw [iter]
  simp [upper, upperC, semi, Except.isOk, Except.toBool]

/-- `nexus_fuel_suffices` is not vacuous: the marker is a real outcome of the loops when the budget is too small … -/
example : skipToSemi { rest := ['a', ';'], fuel := 0 } = .error .fuel := by
  unfold skipToSemi; rw [iter]; rfl
/-- … and `reader_loop_fuel_rule` applies to the body of `skip_to_semicolon` with `a = b = 0` -/
example : ∀ s : RS, 0 * s.rest.length + 0 ≤ s.fuel → FPost ((fun (s : RS) => do
      let (t, s) ← nextTok s
      pure (!(t == some semi.text) && !s.eof && t.isSome, s)) s) (fun p => FQ 0 0 s p.2) := by
  intro s _
  fauto
/-- the bridges speak about non-trivial values: `DATA` is a synonym of `CHARACTERS`, `NUCLEOTIDES` selects DNA -/
example : blockKind (some (kw "DATA")) = 1 ∧ genBlockKind (some (kw "DATA")) = 1 ∧ genDT (kw "NUCLEOTIDES") = "dna" := by decide

/-- `reader_loop_rule`: the body of `skip_to_semicolon` is such a body -/
example : ∃ b : RS → R (Bool × RS), ∀ s, Post (b s) (BodyQ s) :=
  ⟨_, fun s => (show Post ((fun (s : RS) => do
      let (t, s) ← nextUcase s
      pure (t.isSome && t != some (kw "BEGIN") && !s.eof, s)) s) (BodyQ s) from skipToBegin_body s)⟩

/-- `tokenizer_progress`: a token is read from `a;` -/
example : nextT {} ['a', ';'] = .tok ['a'] false [';'] := by
  rw [nextT]
  simp [skipWs, Cfg.unc, Cfg.cap, isQuote, readPlain, isCommentBegin, Tables.tokUncaptured, Tables.tokCaptured, Tables.tokQuote,
    Tables.tokCommentBegin, isEol]

/-- `ok_dims`: a PHYLIP source that is accepted (`1 1`, one row of one cell) -/
example : ∃ rows, readPhylip (fun c => c == 'A') false false ['1', ' ', '1', '\n', 'x', ' ', 'A', '\n', '\n'] = .ok rows :=
  ⟨[(['x'], 1)], by decide⟩

/-- ... and one whose row is longer than declared is rejected by the declared-versus-found check -/
example : readPhylip (fun c => c == 'A') false false ['1', ' ', '1', '\n', 'x', ' ', 'A', 'A', '\n', '\n'] = .err .data := by decide

/-- `fasta_rows_nonempty` / `phylip_loops_bounded`: accepted inputs exist -/
example : readFasta (fun c => c == 'A') ['>', 'x', '\n', 'A', '\n', '>', 'y', '\n'] = .ok [(['x'], 1), (['y'], 0)] := by decide
example : phySequential (fun c => c == 'A') false 1 1 [['x', ' ', 'A']] [] none = .ok [(['x'], 1)] := by rfl
example : phyInterleaved (fun c => c == 'A') false 1 2 [['x', ' ', 'A'], ['A']] [] false (-1) = .ok [(['x'], 2)] := by rfl

/- `newick_statement_progress` / `newick_balanced`: their hypothesis `parseStatement … = .tree …` holds for every accepted
statement; the driver evaluates it on each generated valid document (evidence: `newick:valid:ok`, `nexus:valid:ok`),
e.g. `newick 00002800006100002c00006200002900003b` ↦ `ok 1 …`. -/

end DendroModel.C20
