import DendroModel.Model.C06
import DendroModel.Theory.C06Proto
import DendroModel.Theory.C06Argmax
import DendroModel.Theory.C06Sort
import DendroModel.Gen.C06Kernels
import Mathlib.Tactic.Ring
/-! C06 — property theorems about the `TreeArray` / `SplitDistribution` / SumTrees model of
`Model/C06.lean` (the definitions the driver `drv_c06` executes).

Only property theorems live in `namespace DendroModel.C06` of this file; specifications used to state
them (`Aligned`, `ObsEq`, `TA.rows`, `Compatible`) are `def`s there; helper lemmas are in
`DendroModel.C06.Aux`. -/

namespace DendroModel.C06
open DendroModel

/-! ## vocabulary of the statements -/

/-- the four parallel per-tree lists are equally long and — when `k` — the distribution has counted as many trees -/
def AlignedK (k : Bool) (a : TA) : Prop :=
  a.elens.length = a.splits.length ∧ a.leafsets.length = a.splits.length ∧
  a.weights.length = a.splits.length ∧ (k = true → a.sd.total = a.splits.length)

/-- the four parallel per-tree lists are equally long, and the distribution has counted as many trees -/
def Aligned (a : TA) : Prop := AlignedK true a

/-- the four parallel per-tree lists are equally long (what the per-tree queries `assert`) -/
def Aligned4 (a : TA) : Prop := AlignedK false a

/-- the stored trees, row by row: what every per-tree query reads -/
def TA.rows (a : TA) : List (List Nat × List (Option Frac) × Nat × Q) :=
  a.splits.zip (a.elens.zip (a.leafsets.zip a.weights))

/-- the observable of a split distribution: number of trees, total weight, rooting types seen, and for
    every split mask `s` whether it was counted, its weighted count, and the *multisets* of edge lengths
    and node ages collected for it -/
def ObsEq (a b : SD) : Prop :=
  a.total = b.total ∧ a.sumW = b.sumW ∧ a.sawRooted = b.sawRooted ∧ a.sawUnrooted = b.sawUnrooted ∧
  ∀ s, hasKey s a.counts = hasKey s b.counts ∧ getQ s a.counts = getQ s b.counts ∧
       (getL s a.lens).Perm (getL s b.lens) ∧ (getL s a.ages).Perm (getL s b.ages)

/-- a family of sub-collections `(declared rooting, trees)` is compatible in rooting: every tree has
    rooting state `ρ`, every declared rooting is undefined or `ρ` -/
def Compatible (ρ : Option Bool) (parts : List (Option Bool × List TRec)) : Prop :=
  ∀ p ∈ parts, (p.1 = none ∨ p.1 = ρ) ∧ ∀ t ∈ p.2, t.rooted = ρ

/-! the ghost semantics `ghostStep` / `ghostRun` (which trees each array *should* hold) lives in `Model/C06.lean`: the driver
   prints it next to the arrays and the harness compares it with its own book-keeping -/

/-- an operation of a history respects rooting state `ρ` and settings `fl` -/
def OpOK (ρ : Option Bool) (fl : Flags) : Op → Prop
  | .new r f => (r = none ∨ r = ρ) ∧ f = fl
  | .add _ t => t.rooted = ρ
  | .ins _ _ t => t.rooted = ρ
  | _ => True

/-- the weight of a tree, if it has one, is a fraction with a positive denominator (what `Frac.parse` delivers) -/
def WPos (t : TRec) : Prop := ∀ w, t.weight = some w → 0 < w.den

/-- a predicate on the trees an operation brings in -/
def OpT (T : TRec → Prop) : Op → Prop
  | .add _ t => T t
  | .ins _ _ t => T t
  | _ => True

/-- two fractions denote the same rational (neither is smaller) -/
def Q.veq (a b : Q) : Prop := Q.lt a b = false ∧ Q.lt b a = false

/-- two optional lengths are both absent, or denote the same rational -/
def veqO : Option Frac → Option Frac → Prop
  | none, none => True
  | some x, some y => x.num * y.den = y.num * x.den
  | _, _ => False

/-- (stored topology, credibility score) of every tree of a collection, in order -/
def TA.scored (a : TA) : List (List Nat × Q) := a.rows.map fun r => (r.1, treeScore a.sd r.2.2.1 r.1)

end DendroModel.C06

namespace DendroModel.C06.Aux
open DendroModel DendroModel.C06

/-! ### `Q` is, structurally, a commutative monoid under `add` -/

theorem zero_add (a : Q) : Q.zero.add a = a := by
  cases a; simp [Q.add, Q.zero]

theorem add_zero (a : Q) : a.add Q.zero = a := by
  cases a; simp [Q.add, Q.zero]

theorem add_comm (a b : Q) : a.add b = b.add a := by
  simp [Q.add, Int.add_comm, Nat.mul_comm]

theorem add_assoc (a b c : Q) : (a.add b).add c = a.add (b.add c) := by
  simp only [Q.add, Q.mk.injEq]
  constructor
  · push_cast; ring
  · ring

theorem add_left_comm (a b c : Q) : a.add (b.add c) = b.add (a.add c) := by
  rw [← add_assoc, ← add_assoc, add_comm a b]

/-! ### association lists -/

def keys {β : Type} (l : List (Nat × β)) : List Nat := l.map (·.1)

theorem hasKey_iff {β : Type} (s : Nat) (l : List (Nat × β)) : hasKey s l = true ↔ s ∈ keys l := by
  induction l with
  | nil => simp [hasKey, keys]
  | cons x r ih =>
    obtain ⟨k, v⟩ := x
    simp only [hasKey, keys, List.map_cons, List.mem_cons, Bool.or_eq_true, beq_iff_eq]
    simp only [keys] at ih
    rw [ih]
    constructor
    · rintro (h | h)
      · exact Or.inl h.symm
      · exact Or.inr h
    · rintro (h | h)
      · exact Or.inl h.symm
      · exact Or.inr h

theorem getQ_of_not_key (s : Nat) (l : List (Nat × Q)) (h : hasKey s l = false) : getQ s l = Q.zero := by
  induction l with
  | nil => rfl
  | cons x r ih =>
    obtain ⟨k, v⟩ := x
    simp only [hasKey, Bool.or_eq_false_iff] at h
    simp [getQ, h.1, ih h.2]

theorem getL_of_not_key {α : Type} (s : Nat) (l : List (Nat × List α)) (h : hasKey s l = false) : getL s l = [] := by
  induction l with
  | nil => rfl
  | cons x r ih =>
    obtain ⟨k, v⟩ := x
    simp only [hasKey, Bool.or_eq_false_iff] at h
    simp [getL, h.1, ih h.2]

theorem getQ_bump (s k : Nat) (w : Q) (l : List (Nat × Q)) :
    getQ s (bump k w l) = (getQ s l).add (if k == s then w else Q.zero) := by
  induction l with
  | nil =>
    by_cases h : k == s <;> simp [bump, getQ, h, zero_add, add_zero]
  | cons x r ih =>
    obtain ⟨k', v⟩ := x
    by_cases h1 : k' == k
    · have hk : k' = k := by simpa using h1
      subst hk
      by_cases h2 : k' == s <;> simp [bump, getQ, h2, add_zero]
    · by_cases h2 : k' == s
      · have hks : (k == s) = false := by
          have e1 : k' = s := by simpa using h2
          have e2 : ¬ k' = k := by simpa using h1
          simp only [beq_eq_false_iff_ne, ne_eq]
          intro e; exact e2 (e1.trans e.symm)
        simp [bump, getQ, h1, h2, hks, add_zero]
      · simp [bump, getQ, h1, h2, ih]

theorem hasKey_bump (s k : Nat) (w : Q) (l : List (Nat × Q)) :
    hasKey s (bump k w l) = (hasKey s l || k == s) := by
  induction l with
  | nil => simp [bump, hasKey]
  | cons x r ih =>
    obtain ⟨k', v⟩ := x
    by_cases h1 : k' == k
    · have hk : k' = k := by simpa using h1
      subst hk
      by_cases h2 : k' == s <;> simp [bump, hasKey, h2]
    · have h1' : (k' == k) = false := by simpa using h1
      simp only [bump, h1', hasKey, ih, Bool.false_eq_true, if_false]
      cases (k' == s) <;> simp

theorem keys_bump (k : Nat) (w : Q) (l : List (Nat × Q)) :
    keys (bump k w l) = if hasKey k l then keys l else keys l ++ [k] := by
  induction l with
  | nil => simp [bump, hasKey, keys]
  | cons x r ih =>
    obtain ⟨k', v⟩ := x
    by_cases h1 : k' == k
    · simp [bump, hasKey, keys, h1]
    · have h1' : (k' == k) = false := by simpa using h1
      simp only [bump, h1', hasKey, Bool.false_or, Bool.false_eq_true, if_false]
      simp only [keys, List.map_cons] at ih ⊢
      rw [ih]
      split <;> simp

theorem nodup_bump (k : Nat) (w : Q) (l : List (Nat × Q)) (h : (keys l).Nodup) : (keys (bump k w l)).Nodup := by
  rw [keys_bump]
  split
  · exact h
  · rename_i hk
    have : k ∉ keys l := by
      intro hm; exact hk ((hasKey_iff k l).2 hm)
    exact List.nodup_append.2 ⟨h, by simp, by
      intro a ha b hb
      simp at hb; subst hb
      intro e; subst e; exact this ha⟩

theorem getL_pushAll {α : Type} (s k : Nat) (xs : List α) (l : List (Nat × List α)) :
    getL s (pushAll k xs l) = getL s l ++ (if k == s then xs else []) := by
  induction l with
  | nil => by_cases h : k == s <;> simp [pushAll, getL, h]
  | cons x r ih =>
    obtain ⟨k', v⟩ := x
    by_cases h1 : k' == k
    · have hk : k' = k := by simpa using h1
      subst hk
      by_cases h2 : k' == s <;> simp [pushAll, getL, h2]
    · by_cases h2 : k' == s
      · have hks : (k == s) = false := by
          have e1 : k' = s := by simpa using h2
          have e2 : ¬ k' = k := by simpa using h1
          simp only [beq_eq_false_iff_ne, ne_eq]
          intro e; exact e2 (e1.trans e.symm)
        simp [pushAll, getL, h1, h2, hks]
      · simp [pushAll, getL, h1, h2, ih]

/-! ### lengths of the parallel lists -/

theorem pyInsert_length {α : Type} (i : Int) (x : α) (l : List α) : (pyInsert i x l).length = l.length + 1 := by
  simp only [pyInsert, List.length_append, List.length_take, List.length_cons, List.length_drop]
  omega

theorem countEntry_total (fl : Flags) (w : Q) (sd : SD) (e : Entry) : (countEntry fl w sd e).total = sd.total := rfl

theorem foldl_countEntry_total (fl : Flags) (w : Q) (es : List Entry) (sd : SD) :
    (es.foldl (countEntry fl w) sd).total = sd.total := by
  induction es generalizing sd with
  | nil => rfl
  | cons e es ih => simp only [List.foldl_cons]; rw [ih]; rfl

theorem countTree_total (sd : SD) (t : TRec) : (countTree sd t).total = sd.total + 1 := by
  simp only [countTree]; rw [foldl_countEntry_total]

theorem foldl_mergeEntry_total (b : SD) (kcs : List (Nat × Q)) (a : SD) :
    (kcs.foldl (mergeEntry b) a).total = a.total := by
  induction kcs generalizing a with
  | nil => rfl
  | cons kc r ih => simp only [List.foldl_cons]; rw [ih]; rfl

theorem merge_total (a b : SD) : (a.merge b).total = a.total + b.total := by
  simp only [SD.merge]; rw [foldl_mergeEntry_total]

theorem aligned_new (k : Bool) (r : Option Bool) (f : Flags) : AlignedK k (TA.new r f) := by
  simp [AlignedK, TA.new, SD.new]

theorem addTree_aligned {k : Bool} {a a' : TA} {t : TRec} {idx : Option Int} (ha : AlignedK k a) (h : addTree a t idx = .ok a') :
    AlignedK k a' := by
  obtain ⟨h1, h2, h3, h4⟩ := ha
  simp only [addTree] at h
  split at h
  · cases h
  · split at h
    · cases h
    · split at h
      · cases h
        simp only [AlignedK, List.length_append, List.length_cons, List.length_nil, countTree_total]
        exact ⟨by omega, by omega, by omega, fun hk => by have := h4 hk; omega⟩
      · cases h
        simp only [AlignedK, pyInsert_length, countTree_total]
        exact ⟨by omega, by omega, by omega, fun hk => by have := h4 hk; omega⟩

theorem addTreeHalf_aligned4 {k : Bool} {a : TA} (t : TRec) (ha : AlignedK k a) : AlignedK false (addTreeHalf a t) := by
  obtain ⟨h1, h2, h3, _⟩ := ha
  simp only [addTreeHalf]
  split
  · exact ⟨h1, h2, h3, by simp⟩
  · exact ⟨h1, h2, h3, by simp⟩

theorem absorb_aligned {k : Bool} {a b : TA} (ha : AlignedK k a) (hb : AlignedK k b) : AlignedK k (a.absorb b) := by
  obtain ⟨h1, h2, h3, h4⟩ := ha
  obtain ⟨g1, g2, g3, g4⟩ := hb
  simp only [AlignedK, TA.absorb, List.length_append, merge_total]
  exact ⟨by omega, by omega, by omega, fun hk => by have := h4 hk; have := g4 hk; omega⟩

theorem update_aligned {k : Bool} {a b c : TA} (ha : AlignedK k a) (hb : AlignedK k b) (h : update a b = .ok c) : AlignedK k c := by
  simp only [update] at h
  split at h
  · cases h; exact ha
  · split at h
    · split at h
      · cases h
      · split at h
        · cases h
        · split at h
          · cases h
          · split at h
            · cases h
            · cases h; exact absorb_aligned ha hb
    · cases h
      exact absorb_aligned (a := { a with rooting := b.rooting, flags := b.flags }) ha hb

theorem plus_aligned {k : Bool} {a b c : TA} (ha : AlignedK k a) (hb : AlignedK k b) (h : plus a b = .ok c) : AlignedK k c := by
  simp only [plus, extend] at h
  split at h
  · cases h
  · rename_i c0 hc0
    exact update_aligned (update_aligned (aligned_new _ _ _) ha hc0) hb h

theorem argmaxFrom_isSome (l : List Q) : ∀ (i : Nat) (b : Nat × Q), (argmaxFrom l i (some b)).isSome = true := by
  induction l with
  | nil => intro i b; rfl
  | cons x r ih =>
    intro i b
    obtain ⟨j, m⟩ := b
    simp only [argmaxFrom]
    split <;> exact ih _ _

theorem take_zip' {α β : Type} : ∀ (n : Nat) (l1 : List α) (l2 : List β), (l1.take n).zip (l2.take n) = (l1.zip l2).take n
  | 0, _, _ => by simp
  | _ + 1, [], _ => by simp
  | _ + 1, _ :: _, [] => by simp
  | n + 1, x :: l1, y :: l2 => by simp [take_zip' n l1 l2]

theorem drop_zip' {α β : Type} : ∀ (n : Nat) (l1 : List α) (l2 : List β), (l1.drop n).zip (l2.drop n) = (l1.zip l2).drop n
  | 0, _, _ => by simp
  | _ + 1, [], _ => by simp
  | _ + 1, _ :: _, [] => by simp
  | n + 1, x :: l1, y :: l2 => by simp [drop_zip' n l1 l2]

theorem zip_pyInsert {α β : Type} (i : Int) (x : α) (y : β) (l1 : List α) (l2 : List β) (h : l1.length = l2.length) :
    (pyInsert i x l1).zip (pyInsert i y l2) = pyInsert i (x, y) (l1.zip l2) := by
  simp only [pyInsert, List.length_zip, h, Nat.min_self]
  rw [List.zip_append (by simp [h]), List.zip_cons_cons, take_zip', drop_zip']

theorem zip4_snoc {α β γ δ : Type} (l1 : List α) (l2 : List β) (l3 : List γ) (l4 : List δ) (a : α) (b : β) (c : γ) (d : δ)
    (h2 : l2.length = l1.length) (h3 : l3.length = l1.length) (h4 : l4.length = l1.length) :
    (l1 ++ [a]).zip ((l2 ++ [b]).zip ((l3 ++ [c]).zip (l4 ++ [d]))) = l1.zip (l2.zip (l3.zip l4)) ++ [(a, b, c, d)] := by
  rw [List.zip_append (by omega : l3.length = l4.length),
      List.zip_append (by simp [List.length_zip]; omega : l2.length = (l3.zip l4).length),
      List.zip_append (by simp [List.length_zip]; omega : l1.length = (l2.zip (l3.zip l4)).length)]
  rfl

theorem zip4_pyInsert {α β γ δ : Type} (i : Int) (l1 : List α) (l2 : List β) (l3 : List γ) (l4 : List δ) (a : α) (b : β) (c : γ) (d : δ)
    (h2 : l2.length = l1.length) (h3 : l3.length = l1.length) (h4 : l4.length = l1.length) :
    (pyInsert i a l1).zip ((pyInsert i b l2).zip ((pyInsert i c l3).zip (pyInsert i d l4))) =
      pyInsert i (a, b, c, d) (l1.zip (l2.zip (l3.zip l4))) := by
  rw [zip_pyInsert i c d l3 l4 (by omega), zip_pyInsert i b _ l2 _ (by simp [List.length_zip]; omega),
      zip_pyInsert i a _ l1 _ (by simp [List.length_zip]; omega)]

theorem set_forall {α : Type} {P : α → Prop} {l : List α} (h : ∀ a ∈ l, P a) (d : Nat) (x : α) (hx : P x) :
    ∀ a ∈ l.set d x, P a := by
  intro a ha
  rcases List.mem_or_eq_of_mem_set ha with h1 | h1
  · exact h a h1
  · subst h1; exact hx

theorem step_aligned {k : Bool} {regs regs' : List TA} {op : Op} (hr : ∀ a ∈ regs, AlignedK k a) (h : step regs op = .ok regs') :
    ∀ a ∈ regs', AlignedK k a := by
  cases op with
  | new r f =>
    simp only [step] at h; cases h
    intro a ha
    rcases List.mem_append.1 ha with h1 | h1
    · exact hr a h1
    · simp at h1; subst h1; exact aligned_new k r f
  | add d t =>
    simp only [step] at h
    split at h
    · cases h
    · rename_i x hx
      split at h
      · rename_i a' ha'
        cases h
        exact set_forall hr d a' (addTree_aligned (hr x (List.mem_of_getElem? hx)) ha')
      · cases h
  | ins d i t =>
    simp only [step] at h
    split at h
    · cases h
    · rename_i x hx
      split at h
      · rename_i a' ha'
        cases h
        exact set_forall hr d a' (addTree_aligned (hr x (List.mem_of_getElem? hx)) ha')
      · cases h
  | upd d s =>
    simp only [step] at h
    split at h
    · rename_i x y hx hy
      split at h
      · rename_i a' ha'
        cases h
        exact set_forall hr d a' (update_aligned (hr x (List.mem_of_getElem? hx)) (hr y (List.mem_of_getElem? hy)) ha')
      · cases h
    · cases h
  | ext d s =>
    simp only [step, extend] at h
    split at h
    · rename_i x y hx hy
      split at h
      · rename_i a' ha'
        cases h
        exact set_forall hr d a' (update_aligned (hr x (List.mem_of_getElem? hx)) (hr y (List.mem_of_getElem? hy)) ha')
      · cases h
    · cases h
  | iadd d s =>
    simp only [step, extend] at h
    split at h
    · rename_i x y hx hy
      split at h
      · rename_i a' ha'
        cases h
        exact set_forall hr d a' (update_aligned (hr x (List.mem_of_getElem? hx)) (hr y (List.mem_of_getElem? hy)) ha')
      · cases h
    · cases h
  | plus a b =>
    simp only [step] at h
    split at h
    · rename_i x y hx hy
      split at h
      · rename_i c hc
        cases h
        intro z hz
        rcases List.mem_append.1 hz with h1 | h1
        · exact hr z h1
        · simp at h1; subst h1
          exact plus_aligned (hr x (List.mem_of_getElem? hx)) (hr y (List.mem_of_getElem? hy)) hc
      · cases h
    · cases h

theorem afterError_aligned4 {regs : List TA} (op : Op) (e : Err) (hr : ∀ a ∈ regs, AlignedK false a) :
    ∀ a ∈ afterError regs op e, AlignedK false a := by
  simp only [afterError]
  split
  · split
    · rename_i d t
      split
      · rename_i x hx
        exact set_forall hr d _ (addTreeHalf_aligned4 t (hr x (List.mem_of_getElem? hx)))
      · exact hr
    · rename_i d i t
      split
      · rename_i x hx
        exact set_forall hr d _ (addTreeHalf_aligned4 t (hr x (List.mem_of_getElem? hx)))
      · exact hr
    · exact hr
  · exact hr

/-- the four lists stay aligned whatever happens, failed asserts included -/
theorem run_aligned4 (ops : List Op) : ∀ (regs : List TA), (∀ a ∈ regs, AlignedK false a) → ∀ a ∈ (run regs ops).1, AlignedK false a := by
  induction ops with
  | nil => intro regs hr; simpa [run] using hr
  | cons op ops ih =>
    intro regs hr
    simp only [run]
    split
    · rename_i regs' h
      exact ih regs' (step_aligned hr h)
    · rename_i e h
      exact ih _ (afterError_aligned4 op e hr)

/-- … and in step with the distribution's tree count as long as no `assert` of `add_tree` fired -/
theorem run_aligned (ops : List Op) : ∀ (regs : List TA), (∀ a ∈ regs, AlignedK true a) →
    (∀ e ∈ (run regs ops).2, e ≠ some Err.assertion) → ∀ a ∈ (run regs ops).1, AlignedK true a := by
  induction ops with
  | nil => intro regs hr _; simpa [run] using hr
  | cons op ops ih =>
    intro regs hr hlog
    simp only [run] at hlog ⊢
    split
    · rename_i regs' h
      simp only [h] at hlog
      exact ih regs' (step_aligned hr h) (fun e he => hlog e (by simp [he]))
    · rename_i e h
      simp only [h] at hlog
      have hne : e ≠ Err.assertion := by
        intro he; exact hlog (some e) (by simp) (by rw [he])
      have : afterError regs op e = regs := by simp [afterError, hne]
      rw [this] at hlog ⊢
      exact ih regs hr (fun e' he' => hlog e' (by simp [he']))

/-! ### what a collection holding exactly `trees` must show (specification side) -/

def cntT (w : Q) (s : Nat) : List Entry → Q
  | [] => Q.zero
  | e :: es => (if e.split == s then w else Q.zero).add (cntT w s es)

/-- weighted number of occurrences of split `s` in `trees` -/
def cnt (fl : Flags) (s : Nat) : List TRec → Q
  | [] => Q.zero
  | t :: ts => (cntT (weightOf fl.useWeights t) s t.entries).add (cnt fl s ts)

def wsum (fl : Flags) : List TRec → Q
  | [] => Q.zero
  | t :: ts => (weightOf fl.useWeights t).add (wsum fl ts)

def pick {α : Type} (f : Entry → α) (s : Nat) (es : List Entry) : List α := (es.filter (·.split == s)).map f

def lenOf (e : Entry) : Frac := e.len.getD Frac.zero

def lensOf (fl : Flags) (s : Nat) (trees : List TRec) : List Frac :=
  if fl.ignoreLens then [] else trees.flatMap (fun t => pick lenOf s t.entries)

def agesOf (fl : Flags) (s : Nat) (trees : List TRec) : List (Option Frac) :=
  if fl.ignoreAges then [] else trees.flatMap (fun t => pick (·.age) s t.entries)

def hasSplit (s : Nat) (trees : List TRec) : Bool := trees.any (fun t => t.entries.any (·.split == s))

theorem cnt_append (fl : Flags) (s : Nat) (a b : List TRec) : cnt fl s (a ++ b) = (cnt fl s a).add (cnt fl s b) := by
  induction a with
  | nil => simp [cnt, zero_add]
  | cons t ts ih => simp only [List.cons_append, cnt, ih, add_assoc]

theorem cnt_perm (fl : Flags) (s : Nat) {a b : List TRec} (h : a.Perm b) : cnt fl s a = cnt fl s b := by
  induction h with
  | nil => rfl
  | cons x _ ih => simp only [cnt, ih]
  | swap x y l => simp only [cnt]; exact add_left_comm _ _ _
  | trans _ _ ih1 ih2 => exact ih1.trans ih2

theorem wsum_append (fl : Flags) (a b : List TRec) : wsum fl (a ++ b) = (wsum fl a).add (wsum fl b) := by
  induction a with
  | nil => simp [wsum, zero_add]
  | cons t ts ih => simp only [List.cons_append, wsum, ih, add_assoc]

theorem wsum_perm (fl : Flags) {a b : List TRec} (h : a.Perm b) : wsum fl a = wsum fl b := by
  induction h with
  | nil => rfl
  | cons x _ ih => simp only [wsum, ih]
  | swap x y l => simp only [wsum]; exact add_left_comm _ _ _
  | trans _ _ ih1 ih2 => exact ih1.trans ih2

theorem lensOf_append (fl : Flags) (s : Nat) (a b : List TRec) : lensOf fl s (a ++ b) = lensOf fl s a ++ lensOf fl s b := by
  simp only [lensOf]; split <;> simp [List.flatMap_append]

theorem agesOf_append (fl : Flags) (s : Nat) (a b : List TRec) : agesOf fl s (a ++ b) = agesOf fl s a ++ agesOf fl s b := by
  simp only [agesOf]; split <;> simp [List.flatMap_append]

theorem lensOf_perm (fl : Flags) (s : Nat) {a b : List TRec} (h : a.Perm b) : (lensOf fl s a).Perm (lensOf fl s b) := by
  simp only [lensOf]; split
  · exact List.Perm.refl _
  · exact h.flatMap_right _

theorem agesOf_perm (fl : Flags) (s : Nat) {a b : List TRec} (h : a.Perm b) : (agesOf fl s a).Perm (agesOf fl s b) := by
  simp only [agesOf]; split
  · exact List.Perm.refl _
  · exact h.flatMap_right _

theorem hasSplit_append (s : Nat) (a b : List TRec) : hasSplit s (a ++ b) = (hasSplit s a || hasSplit s b) := by
  simp [hasSplit, List.any_append]

theorem pick_nil_of_not_any {α : Type} (f : Entry → α) (s : Nat) (es : List Entry) (h : es.any (·.split == s) = false) :
    pick f s es = [] := by
  induction es with
  | nil => rfl
  | cons e es ih =>
    simp only [List.any_cons, Bool.or_eq_false_iff] at h
    simp [pick, h.1]
    simpa [pick] using ih h.2

theorem lensOf_nil_of_not_hasSplit (fl : Flags) (s : Nat) (trees : List TRec) (h : hasSplit s trees = false) :
    lensOf fl s trees = [] := by
  simp only [lensOf]; split
  · rfl
  · induction trees with
    | nil => rfl
    | cons t ts ih =>
      simp only [hasSplit, List.any_cons, Bool.or_eq_false_iff] at h
      simp only [List.flatMap_cons, pick_nil_of_not_any _ s _ h.1, List.nil_append]
      exact ih (by simpa [hasSplit] using h.2)

theorem agesOf_nil_of_not_hasSplit (fl : Flags) (s : Nat) (trees : List TRec) (h : hasSplit s trees = false) :
    agesOf fl s trees = [] := by
  simp only [agesOf]; split
  · rfl
  · induction trees with
    | nil => rfl
    | cons t ts ih =>
      simp only [hasSplit, List.any_cons, Bool.or_eq_false_iff] at h
      simp only [List.flatMap_cons, pick_nil_of_not_any _ s _ h.1, List.nil_append]
      exact ih (by simpa [hasSplit] using h.2)

/-! ### the counting loop, field by field -/

theorem foldl_countEntry (fl : Flags) (w : Q) (es : List Entry) (sd : SD) :
    es.foldl (countEntry fl w) sd =
      { sd with
        counts := es.foldl (fun c e => bump e.split w c) sd.counts
        lens := if fl.ignoreLens then sd.lens else es.foldl (fun l e => push e.split (lenOf e) l) sd.lens
        ages := if fl.ignoreAges then sd.ages else es.foldl (fun l e => push e.split e.age l) sd.ages } := by
  induction es generalizing sd with
  | nil => cases sd; simp
  | cons e es ih =>
    simp only [List.foldl_cons]
    rw [ih]
    simp only [countEntry, lenOf]
    cases fl.ignoreLens <;> cases fl.ignoreAges <;> simp

theorem getQ_foldl_bump (w : Q) (s : Nat) (es : List Entry) (c0 : List (Nat × Q)) :
    getQ s (es.foldl (fun c e => bump e.split w c) c0) = (getQ s c0).add (cntT w s es) := by
  induction es generalizing c0 with
  | nil => simp [cntT, add_zero]
  | cons e es ih => simp only [List.foldl_cons, ih, getQ_bump, cntT, add_assoc]

theorem hasKey_foldl_bump (w : Q) (s : Nat) (es : List Entry) (c0 : List (Nat × Q)) :
    hasKey s (es.foldl (fun c e => bump e.split w c) c0) = (hasKey s c0 || es.any (·.split == s)) := by
  induction es generalizing c0 with
  | nil => simp
  | cons e es ih => simp only [List.foldl_cons, ih, hasKey_bump, List.any_cons, Bool.or_assoc]

theorem nodup_foldl_bump (w : Q) (es : List Entry) (c0 : List (Nat × Q)) (h : (keys c0).Nodup) :
    (keys (es.foldl (fun c e => bump e.split w c) c0)).Nodup := by
  induction es generalizing c0 with
  | nil => exact h
  | cons e es ih => simp only [List.foldl_cons]; exact ih _ (nodup_bump _ _ _ h)

theorem getL_foldl_push {α : Type} (f : Entry → α) (s : Nat) (es : List Entry) (l0 : List (Nat × List α)) :
    getL s (es.foldl (fun l e => push e.split (f e) l) l0) = getL s l0 ++ pick f s es := by
  induction es generalizing l0 with
  | nil => simp [pick]
  | cons e es ih =>
    rw [List.foldl_cons, ih]
    simp only [push, getL_pushAll, pick, List.filter_cons]
    by_cases h : e.split == s <;> simp [h]

/-! ### the merging loop, field by field -/

theorem foldl_mergeEntry (b : SD) (kcs : List (Nat × Q)) (a : SD) :
    kcs.foldl (mergeEntry b) a =
      { a with
        counts := kcs.foldl (fun c kc => bump kc.1 kc.2 c) a.counts
        lens := kcs.foldl (fun l kc => pushAll kc.1 (getL kc.1 b.lens) l) a.lens
        ages := kcs.foldl (fun l kc => pushAll kc.1 (getL kc.1 b.ages) l) a.ages } := by
  induction kcs generalizing a with
  | nil => cases a; simp
  | cons kc r ih => simp only [List.foldl_cons]; rw [ih]; simp [mergeEntry]

theorem getQ_foldl_merge (s : Nat) (kcs : List (Nat × Q)) (c0 : List (Nat × Q)) (h : (keys kcs).Nodup) :
    getQ s (kcs.foldl (fun c kc => bump kc.1 kc.2 c) c0) = (getQ s c0).add (getQ s kcs) := by
  induction kcs generalizing c0 with
  | nil => simp [getQ, add_zero]
  | cons kc r ih =>
    obtain ⟨k, c⟩ := kc
    simp only [keys, List.map_cons, List.nodup_cons] at h
    simp only [List.foldl_cons, ih _ h.2, getQ_bump, getQ]
    by_cases hk : k == s
    · have e : k = s := by simpa using hk
      subst e
      have : hasKey k r = false := by
        cases hh : hasKey k r
        · rfl
        · exact absurd ((hasKey_iff k r).1 hh) h.1
      simp [getQ_of_not_key _ _ this, add_zero]
    · simp [hk, add_zero]

theorem hasKey_foldl_merge (s : Nat) (kcs : List (Nat × Q)) (c0 : List (Nat × Q)) :
    hasKey s (kcs.foldl (fun c kc => bump kc.1 kc.2 c) c0) = (hasKey s c0 || hasKey s kcs) := by
  induction kcs generalizing c0 with
  | nil => simp [hasKey]
  | cons kc r ih => simp only [List.foldl_cons, ih, hasKey_bump, hasKey, Bool.or_assoc]

theorem nodup_foldl_merge (kcs : List (Nat × Q)) (c0 : List (Nat × Q)) (h : (keys c0).Nodup) :
    (keys (kcs.foldl (fun c kc => bump kc.1 kc.2 c) c0)).Nodup := by
  induction kcs generalizing c0 with
  | nil => exact h
  | cons kc r ih => simp only [List.foldl_cons]; exact ih _ (nodup_bump _ _ _ h)

theorem getL_foldl_merge {α : Type} (bl : List (Nat × List α)) (s : Nat) (kcs : List (Nat × Q)) (l0 : List (Nat × List α))
    (h : (keys kcs).Nodup) :
    getL s (kcs.foldl (fun l kc => pushAll kc.1 (getL kc.1 bl) l) l0) = getL s l0 ++ (if hasKey s kcs then getL s bl else []) := by
  induction kcs generalizing l0 with
  | nil => simp [hasKey]
  | cons kc r ih =>
    obtain ⟨k, c⟩ := kc
    simp only [keys, List.map_cons, List.nodup_cons] at h
    simp only [List.foldl_cons, ih _ h.2, getL_pushAll, hasKey]
    by_cases hk : k == s
    · have e : k = s := by simpa using hk
      subst e
      have : hasKey k r = false := by
        cases hh : hasKey k r
        · rfl
        · exact absurd ((hasKey_iff k r).1 hh) h.1
      simp [this]
    · simp [hk]

/-! ### the representation invariant of a distribution -/

/-- `sd`, run with settings `fl`, shows exactly what a collection holding `trees` must show -/
structure SDRep (sd : SD) (fl : Flags) (trees : List TRec) : Prop where
  flags : sd.flags = fl
  nodup : (keys sd.counts).Nodup
  total : sd.total = trees.length
  sumW : sd.sumW = wsum fl trees
  key : ∀ s, hasKey s sd.counts = hasSplit s trees
  count : ∀ s, getQ s sd.counts = cnt fl s trees
  lens : ∀ s, (getL s sd.lens).Perm (lensOf fl s trees)
  ages : ∀ s, (getL s sd.ages).Perm (agesOf fl s trees)
  sawR : sd.sawRooted = trees.any (·.rooted == some true)
  sawU : sd.sawUnrooted = trees.any (·.rooted != some true)

theorem sdrep_new (fl : Flags) : SDRep (SD.new fl) fl [] := by
  constructor <;> simp [SD.new, keys, wsum, hasKey, hasSplit, getQ, cnt, getL, lensOf, agesOf]

theorem sdrep_perm {sd : SD} {fl : Flags} {a b : List TRec} (h : SDRep sd fl a) (hp : a.Perm b) : SDRep sd fl b where
  flags := h.flags
  nodup := h.nodup
  total := by rw [h.total, hp.length_eq]
  sumW := by rw [h.sumW, wsum_perm fl hp]
  key := fun s => by rw [h.key, hasSplit, hasSplit, hp.any_eq]
  count := fun s => by rw [h.count, cnt_perm fl s hp]
  lens := fun s => (h.lens s).trans (lensOf_perm fl s hp)
  ages := fun s => (h.ages s).trans (agesOf_perm fl s hp)
  sawR := by rw [h.sawR, hp.any_eq]
  sawU := by rw [h.sawU, hp.any_eq]

theorem cnt_single (fl : Flags) (s : Nat) (t : TRec) : cnt fl s [t] = cntT (weightOf fl.useWeights t) s t.entries := by
  simp [cnt, add_zero]

theorem sdrep_count {sd : SD} {fl : Flags} {trees : List TRec} (h : SDRep sd fl trees) (t : TRec) :
    SDRep (countTree sd t) fl (trees ++ [t]) := by
  have hf := h.flags
  simp only [countTree]
  rw [foldl_countEntry]
  constructor
  · exact hf
  · exact nodup_foldl_bump _ _ _ h.nodup
  · simp [h.total]
  · simp only [wsum_append, wsum, add_zero, h.sumW, hf]
  · intro s
    simp only [hasKey_foldl_bump, h.key, hasSplit_append]
    simp [hasSplit]
  · intro s
    simp only [getQ_foldl_bump, h.count, cnt_append, cnt_single, hf]
  · intro s
    simp only [lensOf_append, hf]
    by_cases hi : fl.ignoreLens
    · simpa [hi, lensOf] using h.lens s
    · simp only [hi, Bool.false_eq_true, if_false, getL_foldl_push]
      refine (h.lens s).append ?_
      simp [lensOf, hi]
  · intro s
    simp only [agesOf_append, hf]
    by_cases hi : fl.ignoreAges
    · simpa [hi, agesOf] using h.ages s
    · simp only [hi, Bool.false_eq_true, if_false, getL_foldl_push]
      refine (h.ages s).append ?_
      simp [agesOf, hi]
  · simp [h.sawR, List.any_append]
  · simp [h.sawU, List.any_append]

theorem sdrep_merge {a b : SD} {fl : Flags} {ta tb : List TRec} (ha : SDRep a fl ta) (hb : SDRep b fl tb) :
    SDRep (a.merge b) fl (ta ++ tb) := by
  simp only [SD.merge]
  rw [foldl_mergeEntry]
  constructor
  · exact ha.flags
  · exact nodup_foldl_merge _ _ ha.nodup
  · simp [ha.total, hb.total]
  · simp only [wsum_append, ha.sumW, hb.sumW]
  · intro s
    simp only [hasKey_foldl_merge, ha.key, hb.key, hasSplit_append]
  · intro s
    simp only [getQ_foldl_merge _ _ _ hb.nodup, ha.count, hb.count, cnt_append]
  · intro s
    simp only [getL_foldl_merge _ _ _ _ hb.nodup, lensOf_append]
    refine (ha.lens s).append ?_
    cases hk : hasKey s b.counts
    · rw [hb.key] at hk
      simp [lensOf_nil_of_not_hasSplit fl s tb hk]
    · simpa using hb.lens s
  · intro s
    simp only [getL_foldl_merge _ _ _ _ hb.nodup, agesOf_append]
    refine (ha.ages s).append ?_
    cases hk : hasKey s b.counts
    · rw [hb.key] at hk
      simp [agesOf_nil_of_not_hasSplit fl s tb hk]
    · simpa using hb.ages s
  · simp [ha.sawR, hb.sawR, List.any_append]
  · simp [ha.sawU, hb.sawU, List.any_append]

theorem sdrep_obs {a b : SD} {fl : Flags} {ta tb : List TRec} (ha : SDRep a fl ta) (hb : SDRep b fl tb) (hp : ta.Perm tb) :
    ObsEq a b := by
  have hb' := sdrep_perm hb hp.symm
  refine ⟨by rw [ha.total, hb'.total], by rw [ha.sumW, hb'.sumW], by rw [ha.sawR, hb'.sawR], by rw [ha.sawU, hb'.sawU], ?_⟩
  intro s
  exact ⟨by rw [ha.key, hb'.key], by rw [ha.count, hb'.count], (ha.lens s).trans (hb'.lens s).symm,
    (ha.ages s).trans (hb'.ages s).symm⟩


/-! ### the representation invariant of an array -/

def splitsOf (t : TRec) : List Nat := t.entries.map (·.split)

def elensOf (fl : Flags) (t : TRec) : List (Option Frac) :=
  if fl.ignoreLens then t.entries.map (fun _ => none) else t.entries.map (fun e => some (e.len.getD Frac.zero))

def rowOf (fl : Flags) (t : TRec) : List Nat × List (Option Frac) × Nat × Q :=
  (splitsOf t, elensOf fl t, t.leafset, weightOf fl.useWeights t)

/-- array `a` (settings `fl`, all trees of rooting state `ρ`) holds exactly `trees`, in this order -/
structure TARep (ρ : Option Bool) (fl : Flags) (a : TA) (trees : List TRec) : Prop where
  root : a.rooting = ρ ∨ (trees = [] ∧ a.rooting = none)
  flags : a.flags = fl
  splits : a.splits = trees.map splitsOf
  elens : a.elens = trees.map (elensOf fl)
  leafsets : a.leafsets = trees.map (·.leafset)
  weights : a.weights = trees.map (weightOf fl.useWeights)
  sd : SDRep a.sd fl trees
  rooted : ∀ t ∈ trees, t.rooted = ρ

theorem rep_new (ρ : Option Bool) (fl : Flags) (r : Option Bool) (h : r = none ∨ r = ρ) : TARep ρ fl (TA.new r fl) [] := by
  refine ⟨?_, rfl, rfl, rfl, rfl, rfl, sdrep_new fl, by simp⟩
  rcases h with h | h
  · exact Or.inr ⟨rfl, h⟩
  · exact Or.inl h

theorem rep_rows {ρ : Option Bool} {fl : Flags} {a : TA} {trees : List TRec} (h : TARep ρ fl a trees) :
    a.rows = trees.map (rowOf fl) := by
  simp only [TA.rows, h.splits, h.elens, h.leafsets, h.weights, List.zip_map']
  rfl

theorem rep_aligned {ρ : Option Bool} {fl : Flags} {a : TA} {trees : List TRec} (h : TARep ρ fl a trees) : Aligned a := by
  simp [Aligned, AlignedK, h.splits, h.elens, h.leafsets, h.weights, h.sd.total]

theorem rep_empty_iff {ρ : Option Bool} {fl : Flags} {a : TA} {trees : List TRec} (h : TARep ρ fl a trees) :
    a.splits.isEmpty = trees.isEmpty := by
  rw [h.splits]; cases trees <;> rfl

theorem pyInsert_map {α β : Type} (f : α → β) (i : Int) (x : α) (l : List α) :
    pyInsert i (f x) (l.map f) = (pyInsert i x l).map f := by
  simp [pyInsert, List.map_take, List.map_drop]

theorem pyInsert_perm {α : Type} (i : Int) (x : α) (l : List α) : (l ++ [x]).Perm (pyInsert i x l) := by
  simp only [pyInsert]
  refine List.Perm.trans ?_ List.perm_middle.symm
  rw [List.take_append_drop]
  exact List.perm_append_singleton x l

theorem validate_ok {ρ : Option Bool} {fl : Flags} {a : TA} {trees : List TRec} (h : TARep ρ fl a trees) :
    validateRooting a.rooting ρ = some ρ := by
  rcases h.root with hr | ⟨_, hr⟩
  · rw [hr]
    cases ρ with
    | none => rfl
    | some r => simp [validateRooting]
  · rw [hr]; rfl

theorem rep_add {ρ : Option Bool} {fl : Flags} {a : TA} {trees : List TRec} (h : TARep ρ fl a trees) (t : TRec)
    (ht : t.rooted = ρ) (idx : Option Int) :
    ∃ a', addTree a t idx = .ok a' ∧
      TARep ρ fl a' (match idx with | none => trees ++ [t] | some i => pyInsert i t trees) := by
  have hflags : (!a.flags.ignoreLens && a.sd.flags.ignoreLens && !t.entries.isEmpty) = false := by
    rw [h.flags, h.sd.flags]; cases fl.ignoreLens <;> simp
  have hmem : ∀ x ∈ trees ++ [t], x.rooted = ρ := by
    intro x hx
    rcases List.mem_append.1 hx with h1 | h1
    · exact h.rooted x h1
    · simp at h1; subst h1; exact ht
  cases idx with
  | none =>
    simp only [addTree, ht, validate_ok h, hflags]
    refine ⟨_, rfl, ?_⟩
    · refine ⟨Or.inl rfl, h.flags, ?_, ?_, ?_, ?_, sdrep_count h.sd t, hmem⟩
      · simp [h.splits, splitsOf]
      · simp [h.elens, elensOf, h.flags]
      · simp [h.leafsets]
      · simp [h.weights, h.flags]
  | some i =>
    simp only [addTree, ht, validate_ok h, hflags]
    refine ⟨_, rfl, ?_⟩
    · refine ⟨Or.inl rfl, h.flags, ?_, ?_, ?_, ?_, sdrep_perm (sdrep_count h.sd t) (pyInsert_perm i t trees), ?_⟩
      · simp only [h.splits]; exact pyInsert_map splitsOf i t trees
      · simp only [h.elens, h.flags]; exact pyInsert_map (elensOf fl) i t trees
      · simp only [h.leafsets]; exact pyInsert_map (fun x : TRec => x.leafset) i t trees
      · simp only [h.weights, h.flags]; exact pyInsert_map (weightOf fl.useWeights) i t trees
      · intro x hx
        exact hmem x ((pyInsert_perm i t trees).mem_iff.2 hx)

theorem rep_absorb {ρ : Option Bool} {fl : Flags} {a b : TA} {ta tb : List TRec} (ha : TARep ρ fl a ta) (hb : TARep ρ fl b tb)
    (hr : a.rooting = ρ) : TARep ρ fl (a.absorb b) (ta ++ tb) := by
  refine ⟨Or.inl hr, ha.flags, ?_, ?_, ?_, ?_, sdrep_merge ha.sd hb.sd, ?_⟩
  · simp [TA.absorb, ha.splits, hb.splits]
  · simp [TA.absorb, ha.elens, hb.elens]
  · simp [TA.absorb, ha.leafsets, hb.leafsets]
  · simp [TA.absorb, ha.weights, hb.weights]
  · intro x hx
    rcases List.mem_append.1 hx with h1 | h1
    · exact ha.rooted x h1
    · exact hb.rooted x h1

theorem rep_update {ρ : Option Bool} {fl : Flags} {a b : TA} {ta tb : List TRec} (ha : TARep ρ fl a ta) (hb : TARep ρ fl b tb) :
    ∃ c, update a b = .ok c ∧ TARep ρ fl c (ta ++ tb) := by
  cases tb with
  | nil =>
    refine ⟨a, ?_, by simpa using ha⟩
    simp [update, hb.splits]
  | cons t tb =>
    have hbne : b.splits.isEmpty = false := by rw [rep_empty_iff hb]; rfl
    have hbr : b.rooting = ρ := by
      rcases hb.root with h | ⟨h, _⟩
      · exact h
      · cases h
    cases ta with
    | nil =>
      have hae : a.splits.isEmpty = true := by rw [rep_empty_iff ha]; rfl
      refine ⟨_, by simp only [update, hbne, hae]; rfl, ?_⟩
      have ha' : TARep ρ fl { a with rooting := b.rooting, flags := b.flags } [] :=
        ⟨Or.inl hbr, hb.flags, ha.splits, ha.elens, ha.leafsets, ha.weights, ha.sd, ha.rooted⟩
      exact rep_absorb ha' hb hbr
    | cons u ta =>
      have hane : a.splits.isEmpty = false := by rw [rep_empty_iff ha]; rfl
      have har : a.rooting = ρ := by
        rcases ha.root with h | ⟨h, _⟩
        · exact h
        · cases h
      refine ⟨a.absorb b, ?_, rep_absorb ha hb har⟩
      simp [update, hbne, hane, har, hbr, ha.flags, hb.flags]

theorem rep_addAll {ρ : Option Bool} {fl : Flags} (ts : List TRec) : ∀ {a : TA} {trees : List TRec}, TARep ρ fl a trees →
    (∀ t ∈ ts, t.rooted = ρ) → ∃ a', addAll a ts = .ok a' ∧ TARep ρ fl a' (trees ++ ts) := by
  induction ts with
  | nil => intro a trees h _; exact ⟨a, rfl, by simpa using h⟩
  | cons t ts ih =>
    intro a trees h hts
    obtain ⟨a1, h1, r1⟩ := rep_add h t (hts t (by simp)) none
    obtain ⟨a2, h2, r2⟩ := ih r1 (fun x hx => hts x (by simp [hx]))
    exact ⟨a2, by simp only [addAll, h1, h2], by simpa using r2⟩

theorem rep_buildParts {ρ : Option Bool} {fl : Flags} (parts : List (Option Bool × List TRec)) (hc : Compatible ρ parts) :
    ∃ ws, buildParts fl parts = .ok ws ∧ List.Forall₂ (fun p w => TARep ρ fl w p.2) parts ws := by
  induction parts with
  | nil => exact ⟨[], rfl, List.Forall₂.nil⟩
  | cons p ps ih =>
    obtain ⟨ws, h1, r1⟩ := ih (fun q hq => hc q (by simp [hq]))
    have hp := hc p (by simp)
    obtain ⟨w, h2, r2⟩ := rep_addAll p.2 (rep_new ρ fl p.1 hp.1) hp.2
    exact ⟨w :: ws, by simp only [buildParts, h1, h2], List.Forall₂.cons (by simpa using r2) r1⟩

theorem rep_collate {ρ : Option Bool} {fl : Flags} : ∀ (parts : List (Option Bool × List TRec)) (ws : List TA) (m : TA) (tm : List TRec),
    TARep ρ fl m tm → List.Forall₂ (fun p w => TARep ρ fl w p.2) parts ws →
    ∃ m', collate m ws = .ok m' ∧ TARep ρ fl m' (tm ++ parts.flatMap (·.2)) := by
  intro parts ws m tm hm hf
  induction hf generalizing m tm with
  | nil => exact ⟨m, rfl, by simpa using hm⟩
  | cons hpw _ ih =>
    obtain ⟨m1, h1, r1⟩ := rep_update hm hpw
    obtain ⟨m2, h2, r2⟩ := ih m1 _ r1
    exact ⟨m2, by simp only [collate, h1, h2], by simpa [List.flatMap_cons, List.append_assoc] using r2⟩

theorem flatMap_perm {α β : Type} (f : α → List β) {a b : List α} (h : a.Perm b) : (a.flatMap f).Perm (b.flatMap f) :=
  h.flatMap_right f

end DendroModel.C06.Aux

namespace DendroModel.C06
open DendroModel DendroModel.C06.Aux

/-- **aligned**: over the whole operation alphabet (new / add / insert at any index / update / extend / `+=` / `+`,
self-merges included, rejected operations included — also the one rejection that happens *after* the distribution
was touched, the length `assert` inside `add_tree`), every array reachable from nothing keeps its four per-tree
lists equally long; and as long as that `assert` never fired, also in step with the distribution's tree count. -/
theorem aligned (ops : List Op) :
    (∀ a ∈ (run [] ops).1, Aligned4 a) ∧
    ((∀ e ∈ (run [] ops).2, e ≠ some Err.assertion) → ∀ a ∈ (run [] ops).1, Aligned a) :=
  ⟨run_aligned4 ops [] (by simp), run_aligned ops [] (by simp)⟩

/-- the length `assert` guarding the per-tree score queries never fires on a reachable array -/
theorem queries_defined (ops : List Op) : ∀ a ∈ (run [] ops).1, (scores a).isSome ∧ (sums a).isSome ∧
    (a.splits ≠ [] → (mccIndex a).isSome) := by
  intro a ha
  obtain ⟨h1, h2, _, _⟩ := (aligned ops).1 a ha
  refine ⟨by simp [scores, h2], by simp [sums, h2], ?_⟩
  intro hne
  simp only [mccIndex, scores, h2, bne_self_eq_false, Bool.false_eq_true, if_false]
  cases hs : a.splits with
  | nil => exact absurd hs hne
  | cons sp r =>
    cases hl : a.leafsets with
    | nil => rw [hs, hl] at h2; simp at h2
    | cons l r' => simp [argmaxFrom, argmaxFrom_isSome]

/-- **insert_any_index**: inserting a tree at any (also negative or out-of-range) index is rejected exactly when
appending is, with the same error; on success it leaves the same distribution, rooting and settings, and — on an
array whose lists are aligned — stores the same row `r` at the Python `list.insert` position instead of at the end,
so the rows are the same up to order. -/
theorem insert_any_index (a : TA) (t : TRec) (i : Int) :
    (∀ e, addTree a t none = .error e → addTree a t (some i) = .error e) ∧
    (∀ x, addTree a t none = .ok x → ∃ y r, addTree a t (some i) = .ok y ∧ y.sd = x.sd ∧ y.rooting = x.rooting ∧
      y.flags = x.flags ∧
      (Aligned4 a → x.rows = a.rows ++ [r] ∧ y.rows = pyInsert i r a.rows ∧ y.rows.Perm x.rows)) := by
  simp only [addTree]
  cases validateRooting a.rooting t.rooted with
  | none => simp
  | some r =>
    cases hc : (!a.flags.ignoreLens && a.sd.flags.ignoreLens && !t.entries.isEmpty) with
    | true => simp
    | false =>
      refine ⟨by simp, ?_⟩
      intro x hx
      simp only [Bool.false_eq_true, if_false, Except.ok.injEq] at hx
      subst hx
      refine ⟨_, (t.entries.map (·.split),
        (if a.flags.ignoreLens then t.entries.map (fun _ => none) else t.entries.map (fun e => some (e.len.getD Frac.zero))),
        t.leafset, weightOf a.flags.useWeights t), rfl, rfl, rfl, rfl, ?_⟩
      rintro ⟨h1, h2, h3, _⟩
      simp only [TA.rows]
      rw [zip4_snoc _ _ _ _ _ _ _ _ h1 h2 h3, zip4_pyInsert i _ _ _ _ _ _ _ _ h1 h2 h3]
      exact ⟨rfl, rfl, (pyInsert_perm i _ _).symm⟩

/-- **add_perm** (clause a): adding the same trees one at a time in any two orders never fails (all trees of one
rooting state `ρ`, declared rooting undefined or `ρ`) and gives the same observable — counts, total weight,
per-split multisets of edge lengths and node ages — and the same stored rows up to order. -/
theorem add_perm (ρ : Option Bool) (fl : Flags) (r0 : Option Bool) (t1 t2 : List TRec) (hp : t1.Perm t2)
    (hr : ∀ t ∈ t1, t.rooted = ρ) (h0 : r0 = none ∨ r0 = ρ) :
    ∃ a b, addAll (TA.new r0 fl) t1 = .ok a ∧ addAll (TA.new r0 fl) t2 = .ok b ∧
      ObsEq a.sd b.sd ∧ a.rows.Perm b.rows := by
  obtain ⟨a, ha, ra⟩ := rep_addAll t1 (rep_new ρ fl r0 h0) hr
  obtain ⟨b, hb, rb⟩ := rep_addAll t2 (rep_new ρ fl r0 h0) (fun t ht => hr t (hp.mem_iff.2 ht))
  refine ⟨a, b, ha, hb, sdrep_obs ra.sd rb.sd (by simpa using hp), ?_⟩
  rw [rep_rows ra, rep_rows rb]
  exact (by simpa using hp : ([] ++ t1).Perm ([] ++ t2)).map _

/-- **merge_any_partition** (clause b): sub-collections — some possibly empty, each with declared rooting undefined
or `ρ`, holding trees of rooting state `ρ` — built separately and merged by `update` (`extend` and `+=` are, in the
repaired code and in the model, the same function: `extend a b := update a b`) into a master
in *any* arrival order: building never fails, merging never fails, the result is aligned, and its observable and
rows (up to order) are those of adding all the trees one at a time. -/
theorem merge_any_partition (ρ : Option Bool) (fl : Flags) (r0 : Option Bool)
    (parts arrived : List (Option Bool × List TRec))
    (hc : Compatible ρ parts) (h0 : r0 = none ∨ r0 = ρ) (hp : arrived.Perm parts) :
    ∃ ws m s, buildParts fl arrived = .ok ws ∧ collate (TA.new r0 fl) ws = .ok m ∧
      addAll (TA.new r0 fl) (parts.flatMap (·.2)) = .ok s ∧
      ObsEq m.sd s.sd ∧ m.rows.Perm s.rows ∧ Aligned m := by
  have hc' : Compatible ρ arrived := fun p hpm => hc p (hp.mem_iff.1 hpm)
  obtain ⟨ws, hws, rws⟩ := rep_buildParts (fl := fl) arrived hc'
  obtain ⟨m, hm, rm⟩ := rep_collate arrived ws _ [] (rep_new ρ fl r0 h0) rws
  have hall : ∀ t ∈ parts.flatMap (·.2), t.rooted = ρ := by
    intro t ht
    obtain ⟨p, hpm, htp⟩ := List.mem_flatMap.1 ht
    exact (hc p hpm).2 t htp
  obtain ⟨s, hs, rs⟩ := rep_addAll (parts.flatMap (·.2)) (rep_new ρ fl r0 h0) hall
  have hperm : (([] : List TRec) ++ arrived.flatMap (fun p => p.2)).Perm ([] ++ parts.flatMap (fun p => p.2)) := by
    simpa using flatMap_perm (fun p : Option Bool × List TRec => p.2) hp
  refine ⟨ws, m, s, hws, hm, hs, sdrep_obs rm.sd rs.sd hperm, ?_, rep_aligned rm⟩
  rw [rep_rows rm, rep_rows rs]
  exact hperm.map _

/-- **update_ok_iff**: `update` (= `extend` = `+=`) is rejected in exactly one situation — both collections hold trees
and they differ in rooting state or in one of the three settings. In particular an *empty* `other` is never rejected,
whatever its rooting state and settings (the SumTrees idle-worker case), and then nothing changes. -/
theorem update_ok_iff (a b : TA) :
    ((∃ c, update a b = .ok c) ↔ (b.splits = [] ∨ a.splits = [] ∨ (a.rooting = b.rooting ∧ a.flags = b.flags))) ∧
    (b.splits = [] → update a b = .ok a) := by
  constructor
  · by_cases hb : b.splits = []
    · simp [update, hb]
    · by_cases ha : a.splits = []
      · simp [update, hb, ha]
      · have hb' : b.splits.isEmpty = false := by cases h : b.splits <;> simp_all
        have ha' : a.splits.isEmpty = false := by cases h : a.splits <;> simp_all
        have hfl : a.flags = b.flags ↔ (a.flags.ignoreLens = b.flags.ignoreLens ∧ a.flags.ignoreAges = b.flags.ignoreAges ∧
            a.flags.useWeights = b.flags.useWeights) := by
          cases a.flags; cases b.flags; simp
        simp only [update, hb', ha', hb, ha, false_or, hfl, Bool.false_eq_true, if_false, Bool.not_false, if_true]
        by_cases h1 : a.rooting = b.rooting
        · by_cases h2 : a.flags.ignoreLens = b.flags.ignoreLens
          · by_cases h3 : a.flags.ignoreAges = b.flags.ignoreAges
            · by_cases h4 : a.flags.useWeights = b.flags.useWeights <;> simp [h1, h2, h3, h4]
            · simp [h1, h2, h3]
          · simp [h1, h2]
        · simp [h1]
  · intro h; simp [update, h]

end DendroModel.C06

namespace DendroModel.C06.Aux
open DendroModel DendroModel.C06


/-! ### closure of a predicate under every operation of a history -/

structure Closed (P : TA → Prop) (T : TRec → Prop) : Prop where
  new : ∀ r f, P (TA.new r f)
  add : ∀ a a' t idx, P a → T t → addTree a t idx = .ok a' → P a'
  half : ∀ a t, P a → T t → P (addTreeHalf a t)
  upd : ∀ a b c, P a → P b → update a b = .ok c → P c

theorem step_closed {P : TA → Prop} {T : TRec → Prop} (hc : Closed P T) {regs regs' : List TA} {op : Op}
    (hr : ∀ a ∈ regs, P a) (hop : OpT T op) (h : step regs op = .ok regs') : ∀ a ∈ regs', P a := by
  cases op with
  | new r f =>
    simp only [step] at h; cases h
    intro a ha
    rcases List.mem_append.1 ha with h1 | h1
    · exact hr a h1
    · simp at h1; subst h1; exact hc.new r f
  | add d t =>
    simp only [step] at h
    split at h
    · cases h
    · rename_i x hx
      split at h
      · rename_i a' ha'
        cases h
        exact set_forall hr d a' (hc.add _ _ _ _ (hr x (List.mem_of_getElem? hx)) hop ha')
      · cases h
  | ins d i t =>
    simp only [step] at h
    split at h
    · cases h
    · rename_i x hx
      split at h
      · rename_i a' ha'
        cases h
        exact set_forall hr d a' (hc.add _ _ _ _ (hr x (List.mem_of_getElem? hx)) hop ha')
      · cases h
  | upd d s =>
    simp only [step] at h
    split at h
    · rename_i x y hx hy
      split at h
      · rename_i a' ha'
        cases h
        exact set_forall hr d a' (hc.upd _ _ _ (hr x (List.mem_of_getElem? hx)) (hr y (List.mem_of_getElem? hy)) ha')
      · cases h
    · cases h
  | ext d s =>
    simp only [step, extend] at h
    split at h
    · rename_i x y hx hy
      split at h
      · rename_i a' ha'
        cases h
        exact set_forall hr d a' (hc.upd _ _ _ (hr x (List.mem_of_getElem? hx)) (hr y (List.mem_of_getElem? hy)) ha')
      · cases h
    · cases h
  | iadd d s =>
    simp only [step, extend] at h
    split at h
    · rename_i x y hx hy
      split at h
      · rename_i a' ha'
        cases h
        exact set_forall hr d a' (hc.upd _ _ _ (hr x (List.mem_of_getElem? hx)) (hr y (List.mem_of_getElem? hy)) ha')
      · cases h
    · cases h
  | plus a b =>
    simp only [step] at h
    split at h
    · rename_i x y hx hy
      split at h
      · rename_i c hcc
        cases h
        intro z hz
        rcases List.mem_append.1 hz with h1 | h1
        · exact hr z h1
        · simp at h1; subst h1
          simp only [plus, extend] at hcc
          split at hcc
          · cases hcc
          · rename_i c0 hc0
            exact hc.upd _ _ _ (hc.upd _ _ _ (hc.new _ _) (hr x (List.mem_of_getElem? hx)) hc0) (hr y (List.mem_of_getElem? hy)) hcc
      · cases h
    · cases h

theorem afterError_closed {P : TA → Prop} {T : TRec → Prop} (hc : Closed P T) {regs : List TA} (op : Op) (e : Err)
    (hr : ∀ a ∈ regs, P a) (hop : OpT T op) : ∀ a ∈ afterError regs op e, P a := by
  simp only [afterError]
  split
  · split
    · rename_i d t
      split
      · rename_i x hx
        exact set_forall hr d _ (hc.half _ _ (hr x (List.mem_of_getElem? hx)) hop)
      · exact hr
    · rename_i d i t
      split
      · rename_i x hx
        exact set_forall hr d _ (hc.half _ _ (hr x (List.mem_of_getElem? hx)) hop)
      · exact hr
    · exact hr
  · exact hr

theorem run_closed {P : TA → Prop} {T : TRec → Prop} (hc : Closed P T) (ops : List Op) : ∀ (regs : List TA),
    (∀ a ∈ regs, P a) → (∀ op ∈ ops, OpT T op) → ∀ a ∈ (run regs ops).1, P a := by
  induction ops with
  | nil => intro regs hr _; simpa [run] using hr
  | cons op ops ih =>
    intro regs hr hops
    have hop := hops op (by simp)
    have hrest : ∀ o ∈ ops, OpT T o := fun o ho => hops o (by simp [ho])
    simp only [run]
    split
    · rename_i regs' h
      exact ih regs' (step_closed hc hr hop h) hrest
    · rename_i e h
      exact ih _ (afterError_closed hc op e hr hop) hrest

/-! ### denominators stay positive -/

def PosSD (sd : SD) : Prop := ∀ kc ∈ sd.counts, 0 < kc.2.den

theorem add_den_pos {a b : Q} (ha : 0 < a.den) (hb : 0 < b.den) : 0 < (a.add b).den := by
  simp only [Q.add]; exact Nat.mul_pos ha hb

theorem mul_den_pos {a b : Q} (ha : 0 < a.den) (hb : 0 < b.den) : 0 < (a.mul b).den := by
  simp only [Q.mul]; exact Nat.mul_pos ha hb

theorem div_den_pos {a : Q} (b : Q) (ha : 0 < a.den) : 0 < (a.div b).den := by
  simp only [Q.div]
  split
  · rename_i h; exact Nat.mul_pos ha (by omega)
  · split
    · rename_i h1 h2; exact Nat.mul_pos ha (by omega)
    · simp [Q.zero]

theorem bump_pos (s : Nat) (w : Q) (hw : 0 < w.den) : ∀ (l : List (Nat × Q)), (∀ kc ∈ l, 0 < kc.2.den) →
    ∀ kc ∈ bump s w l, 0 < kc.2.den
  | [], _ => by
    intro kc hkc
    simp only [bump, List.mem_singleton] at hkc
    subst hkc
    exact add_den_pos (by simp [Q.zero]) hw
  | (k, v) :: r, h => by
    intro kc hkc
    simp only [bump] at hkc
    split at hkc
    · simp only [List.mem_cons] at hkc
      rcases hkc with rfl | hkc
      · exact add_den_pos (h (k, v) (by simp)) hw
      · exact h kc (by simp [hkc])
    · simp only [List.mem_cons] at hkc
      rcases hkc with rfl | hkc
      · exact h (k, v) (by simp)
      · exact bump_pos s w hw r (fun x hx => h x (by simp [hx])) kc hkc

theorem weightOf_pos (u : Bool) {t : TRec} (ht : WPos t) : 0 < (weightOf u t).den := by
  simp only [weightOf]
  cases hw : t.weight with
  | none => simp [Q.one]
  | some w =>
    simp only
    split
    · exact ht w hw
    · simp [Q.one]

theorem countTree_pos {sd : SD} {t : TRec} (h : PosSD sd) (ht : WPos t) : PosSD (countTree sd t) := by
  simp only [countTree]
  rw [foldl_countEntry]
  simp only [PosSD]
  have h' : ∀ kc ∈ sd.counts, 0 < kc.2.den := h
  have hw := weightOf_pos sd.flags.useWeights ht
  generalize weightOf sd.flags.useWeights t = w at hw
  have : ∀ (es : List Entry) (c : List (Nat × Q)), (∀ kc ∈ c, 0 < kc.2.den) →
      ∀ kc ∈ es.foldl (fun c e => bump e.split w c) c, 0 < kc.2.den := by
    intro es
    induction es with
    | nil => intro c hc; simpa using hc
    | cons e es ih => intro c hc; simp only [List.foldl_cons]; exact ih _ (bump_pos _ _ hw c hc)
  exact this t.entries sd.counts h'

theorem merge_pos {a b : SD} (ha : PosSD a) (hb : PosSD b) : PosSD (a.merge b) := by
  simp only [SD.merge]
  rw [foldl_mergeEntry]
  simp only [PosSD]
  have : ∀ (kcs : List (Nat × Q)) (c : List (Nat × Q)), (∀ kc ∈ kcs, 0 < kc.2.den) → (∀ kc ∈ c, 0 < kc.2.den) →
      ∀ kc ∈ kcs.foldl (fun c kc => bump kc.1 kc.2 c) c, 0 < kc.2.den := by
    intro kcs
    induction kcs with
    | nil => intro c _ hc; simpa using hc
    | cons x r ih =>
      intro c hk hc
      simp only [List.foldl_cons]
      exact ih _ (fun y hy => hk y (by simp [hy])) (bump_pos _ _ (hk x (by simp)) c hc)
  exact this b.counts a.counts hb ha

theorem pos_closed : Closed (fun a => PosSD a.sd) WPos where
  new := by intro r f; simp [TA.new, SD.new, PosSD]
  add := by
    intro a a' t idx ha ht h
    simp only [addTree] at h
    split at h
    · cases h
    · split at h
      · cases h
      · split at h <;> (cases h; exact countTree_pos ha ht)
  half := by
    intro a t ha ht
    simp only [addTreeHalf]
    split
    · exact ha
    · exact countTree_pos ha ht
  upd := by
    intro a b c ha hb h
    simp only [update] at h
    split at h
    · cases h; exact ha
    · split at h
      · split at h
        · cases h
        · split at h
          · cases h
          · split at h
            · cases h
            · split at h
              · cases h
              · cases h; exact merge_pos ha hb
      · cases h; exact merge_pos ha hb

theorem getQ_pos (s : Nat) : ∀ (l : List (Nat × Q)), (∀ kc ∈ l, 0 < kc.2.den) → 0 < (getQ s l).den
  | [], _ => by simp [getQ, Q.zero]
  | (k, v) :: r, h => by
    simp only [getQ]
    split
    · exact h (k, v) (by simp)
    · exact getQ_pos s r (fun x hx => h x (by simp [hx]))

theorem freq_pos {sd : SD} (h : PosSD sd) (s : Nat) : 0 < (sd.freq s).den := by
  simp only [SD.freq]
  split
  · split
    · simp [Q.one]
    · exact div_den_pos _ (getQ_pos s _ h)
  · simp [Q.zero]

theorem treeScore_pos {sd : SD} (h : PosSD sd) (leafset : Nat) (splits : List Nat) : 0 < (treeScore sd leafset splits).den := by
  simp only [treeScore]
  have : ∀ (l : List Nat) (acc : Q), 0 < acc.den →
      0 < (l.foldl (fun acc s => if qualifies leafset s then (let f := sd.freq s; if f.isZero then acc else acc.mul f) else acc) acc).den := by
    intro l
    induction l with
    | nil => intro acc ha; simpa using ha
    | cons x r ih =>
      intro acc ha
      simp only [List.foldl_cons]
      apply ih
      split
      · split
        · exact ha
        · exact mul_den_pos ha (freq_pos h x)
      · exact ha
  exact this splits Q.one (by simp [Q.one])

theorem scores_pos {a : TA} (h : PosSD a.sd) (l : List Q) (hs : scores a = some l) : ∀ q ∈ l, 0 < q.den := by
  simp only [scores] at hs
  split at hs
  · cases hs
  · cases hs
    intro q hq
    obtain ⟨p, _, rfl⟩ := List.mem_map.1 hq
    exact treeScore_pos h _ _

/-! ### schedules: the workers' files are a partition of the input files -/

theorem flatMap_congr' {α β : Type} {f g : α → List β} : ∀ (l : List α), (∀ i ∈ l, f i = g i) → l.flatMap f = l.flatMap g
  | [], _ => rfl
  | x :: r, h => by
    simp only [List.flatMap_cons, h x (by simp), flatMap_congr' r (fun i hi => h i (by simp [hi]))]

theorem bucket_perm {α : Type} : ∀ (nw : Nat) (l : List (α × Nat)), (∀ x ∈ l, x.2 < nw) →
    ((List.range nw).flatMap (fun i => l.filter (fun x => x.2 == i))).Perm l
  | 0, l, h => by
    cases l with
    | nil => simp
    | cons x r => exact absurd (h x (by simp)) (by omega)
  | n + 1, l, h => by
    rw [List.range_succ, List.flatMap_append]
    simp only [List.flatMap_cons, List.flatMap_nil, List.append_nil]
    have h' : ∀ x ∈ l.filter (fun x => x.2 != n), x.2 < n := by
      intro x hx
      simp only [List.mem_filter, bne_iff_ne, ne_eq] at hx
      have := h x hx.1
      omega
    have hcongr : (List.range n).flatMap (fun i => l.filter (fun x => x.2 == i)) =
        (List.range n).flatMap (fun i => (l.filter (fun x => x.2 != n)).filter (fun x => x.2 == i)) := by
      apply flatMap_congr'
      intro i hi
      have hin : i < n := List.mem_range.1 hi
      rw [List.filter_filter]
      apply List.filter_congr
      intro x _
      by_cases hx : x.2 = i
      · simp [hx]
        omega
      · simp [hx]
    rw [hcongr]
    refine ((bucket_perm n _ h').append (List.Perm.refl _)).trans ?_
    have := List.filter_append_perm (fun x : α × Nat => x.2 != n) l
    have e : ∀ x : α × Nat, (!(x.2 != n)) = (x.2 == n) := by
      intro x; cases hxn : (x.2 == n) <;> simp [bne, hxn]
    simpa only [e] using this

theorem flatten_flatMap' {α β : Type} (f : α → List (List β)) : ∀ (l : List α),
    (l.flatMap f).flatten = l.flatMap (fun i => (f i).flatten)
  | [] => rfl
  | x :: r => by simp only [List.flatMap_cons, List.flatten_append, flatten_flatMap' f r]

theorem files_partition (nw : Nat) (assign : List Nat) (files : List (List TRec)) (hlen : assign.length = files.length)
    (hass : ∀ i ∈ assign, i < nw) :
    ((List.range nw).flatMap (fun i => (filesOf i assign files).flatten)).Perm files.flatten := by
  have h1 : ∀ x ∈ files.zip assign, x.2 < nw := fun x hx => hass x.2 (List.of_mem_zip hx).2
  have h2 := bucket_perm nw (files.zip assign) h1
  have h3 : ((List.range nw).flatMap (fun i => filesOf i assign files)).Perm files := by
    have := h2.map Prod.fst
    rw [List.map_fst_zip (by omega), List.map_flatMap] at this
    exact this
  have h4 := h3.flatten
  rw [flatten_flatMap'] at h4
  exact h4

theorem zip4_proj {α β γ δ : Type} : ∀ (l1 : List α) (l2 : List β) (l3 : List γ) (l4 : List δ),
    l2.length = l1.length → l3.length = l1.length → l4.length = l1.length →
    (l1.zip (l2.zip (l3.zip l4))).map (fun r => (r.2.2.1, r.1)) = l3.zip l1
  | [], _, l3, _, _, h3, _ => by
    cases l3 with
    | nil => rfl
    | cons _ _ => simp at h3
  | x :: l1, [], _, _, h2, _, _ => by simp at h2
  | x :: l1, _ :: _, [], _, _, h3, _ => by simp at h3
  | x :: l1, _ :: _, _ :: _, [], _, _, h4 => by simp at h4
  | x :: l1, y :: l2, z :: l3, w :: l4, h2, h3, h4 => by
    simp only [List.zip_cons_cons, List.map_cons]
    rw [zip4_proj l1 l2 l3 l4 (by simpa using h2) (by simpa using h3) (by simpa using h4)]

theorem scores_eq_scored {a : TA} (ha : Aligned a) : scores a = some (a.scored.map (·.2)) := by
  obtain ⟨a1, a2, a3, _⟩ := ha
  simp only [scores, a2, bne_self_eq_false, Bool.false_eq_true, if_false, TA.scored, TA.rows, List.map_map]
  rw [← zip4_proj a.splits a.elens a.leafsets a.weights a1 a2 a3, List.map_map]
  rfl

theorem insDesc_perm (x : Q × Nat) (l : List (Q × Nat)) : (insDesc x l).Perm (x :: l) := by
  induction l with
  | nil => exact List.Perm.refl _
  | cons y r ih =>
    simp only [insDesc]
    split_ifs
    all_goals first | exact List.Perm.refl _ | exact (List.Perm.cons y ih).trans (List.Perm.swap x y r)

theorem sortDesc_perm (l : List (Q × Nat)) : (l.foldr insDesc []).Perm l := by
  induction l with
  | nil => exact List.Perm.refl _
  | cons x r ih => simp only [List.foldr_cons]; exact (insDesc_perm x _).trans (List.Perm.cons x ih)

theorem mem_consensusOrder (sd : SD) (θ : Q) (s : Nat) :
    s ∈ consensusOrder sd θ ↔ hasKey s sd.counts = true ∧ Q.le θ (sd.freq s) = true := by
  simp only [consensusOrder, List.mem_map]
  constructor
  · rintro ⟨p, hp, rfl⟩
    have hp' := (sortDesc_perm _).mem_iff.1 hp
    simp only [List.mem_filter, List.mem_map] at hp'
    obtain ⟨⟨kc, hkc, rfl⟩, hle⟩ := hp'
    exact ⟨(hasKey_iff _ _).2 (List.mem_map.2 ⟨kc, hkc, rfl⟩), hle⟩
  · rintro ⟨hk, hle⟩
    obtain ⟨kc, hkc, rfl⟩ := List.mem_map.1 ((hasKey_iff _ _).1 hk)
    refine ⟨(sd.freq kc.1, kc.1), (sortDesc_perm _).mem_iff.2 ?_, rfl⟩
    simp only [List.mem_filter, List.mem_map]
    exact ⟨⟨kc, hkc, rfl⟩, hle⟩


/-! ### the sorted candidate order is a function of the multiset of candidates -/

theorem sort_perm_eq {l1 l2 : List (Q × Nat)} (hp : l1.Perm l2) (hpos : ∀ z ∈ l1, 0 < z.1.den)
    (hinj : ∀ u ∈ l1, ∀ v ∈ l1, u.2 = v.2 → u = v) : l1.foldr insDesc [] = l2.foldr insDesc [] := by
  apply List.Perm.eq_of_pairwise (le := geP)
  · intro u v hu hv h1 h2
    have hu' : u ∈ l1 := (sortDesc_perm l1).mem_iff.1 hu
    have hv' : v ∈ l1 := hp.mem_iff.2 ((sortDesc_perm l2).mem_iff.1 hv)
    exact hinj u hu' v hv' (geP_antisymm h1 h2)
  · exact sortDesc_sorted l1 hpos
  · exact sortDesc_sorted l2 (fun z hz => hpos z (hp.mem_iff.2 hz))
  · exact ((sortDesc_perm l1).trans hp).trans (sortDesc_perm l2).symm

theorem nodup_closed : Closed (fun a => (keys a.sd.counts).Nodup) (fun _ => True) where
  new := by intro r f; simp [TA.new, SD.new, keys]
  add := by
    intro a a' t idx ha _ h
    simp only [addTree] at h
    split at h
    · cases h
    · split at h
      · cases h
      · split at h <;> (cases h; simp only [countTree]; rw [foldl_countEntry]; exact nodup_foldl_bump _ _ _ ha)
  half := by
    intro a t ha _
    simp only [addTreeHalf]
    split
    · exact ha
    · simp only [countTree]; rw [foldl_countEntry]; exact nodup_foldl_bump _ _ _ ha
  upd := by
    intro a b c ha hb h
    have hm : ∀ (x : SD), (keys x.counts).Nodup → (keys (x.merge b.sd).counts).Nodup := by
      intro x hx
      simp only [SD.merge]; rw [foldl_mergeEntry]; exact nodup_foldl_merge _ _ hx
    simp only [update] at h
    split at h
    · cases h; exact ha
    · split at h
      · split at h
        · cases h
        · split at h
          · cases h
          · split at h
            · cases h
            · split at h
              · cases h
              · cases h; exact hm _ ha
      · cases h; exact hm _ ha


theorem qsumF_perm {a b : List Frac} (h : a.Perm b) : qsumF a = qsumF b := by
  induction h with
  | nil => rfl
  | cons x _ ih => simp only [qsumF, ih]
  | swap x y l => simp only [qsumF]; exact add_left_comm _ _ _
  | trans _ _ ih1 ih2 => exact ih1.trans ih2

theorem isEmpty_of_perm {α : Type} {a b : List α} (h : a.Perm b) : a.isEmpty = b.isEmpty := by
  have := h.length_eq
  cases a <;> cases b <;> simp_all

theorem range_flatMap_getElem? {α β : Type} (h : Option α → List β) : ∀ (l : List α),
    (List.range l.length).flatMap (fun i => h l[i]?) = l.flatMap (fun x => h (some x))
  | [] => rfl
  | x :: r => by
    rw [List.length_cons, List.range_succ_eq_map, List.flatMap_cons, List.flatMap_map, List.flatMap_cons]
    simp only [List.getElem?_cons_zero, List.getElem?_cons_succ]
    rw [range_flatMap_getElem? h r]

theorem f2_get {α β : Type} {R : α → β → Prop} {l1 : List α} {l2 : List β} (h : List.Forall₂ R l1 l2) :
    ∀ d : Nat, (l1[d]? = none ∧ l2[d]? = none) ∨ ∃ x y, l1[d]? = some x ∧ l2[d]? = some y ∧ R x y := by
  induction h with
  | nil => intro d; left; simp
  | cons hxy _ ih =>
    intro d
    cases d with
    | zero => right; exact ⟨_, _, by simp, by simp, hxy⟩
    | succ d => simpa using ih d

theorem f2_set {α β : Type} {R : α → β → Prop} {l1 : List α} {l2 : List β} (h : List.Forall₂ R l1 l2) {x : α} {y : β}
    (hxy : R x y) : ∀ d : Nat, List.Forall₂ R (l1.set d x) (l2.set d y) := by
  induction h with
  | nil => intro d; simp
  | cons hab hrest ih =>
    intro d
    cases d with
    | zero => simpa using List.Forall₂.cons hxy hrest
    | succ d => simpa using List.Forall₂.cons hab (ih d)

theorem f2_snoc {α β : Type} {R : α → β → Prop} {l1 : List α} {l2 : List β} (h : List.Forall₂ R l1 l2) {x : α} {y : β}
    (hxy : R x y) : List.Forall₂ R (l1 ++ [x]) (l2 ++ [y]) := by
  induction h with
  | nil => simpa using List.Forall₂.cons hxy List.Forall₂.nil
  | cons hab _ ih => simpa using List.Forall₂.cons hab ih

theorem f2_imp {α β : Type} {R S : α → β → Prop} (hi : ∀ a b, R a b → S a b) {l1 : List α} {l2 : List β}
    (h : List.Forall₂ R l1 l2) : List.Forall₂ S l1 l2 := by
  induction h with
  | nil => exact List.Forall₂.nil
  | cons hab _ ih => exact List.Forall₂.cons (hi _ _ hab) ih

theorem step_ghost {ρ : Option Bool} {fl : Flags} {regs : List TA} {g : List (List TRec)} {op : Op}
    (hr : List.Forall₂ (TARep ρ fl) regs g) (hop : OpOK ρ fl op) :
    (∃ regs', step regs op = .ok regs' ∧ List.Forall₂ (TARep ρ fl) regs' (ghostStep g op)) ∨
    (step regs op = .error .badReg ∧ ghostStep g op = g) := by
  cases op with
  | new r f =>
    left
    obtain ⟨h1, h2⟩ := hop
    subst h2
    exact ⟨_, rfl, f2_snoc hr (rep_new ρ f r h1)⟩
  | add d t =>
    rcases f2_get hr d with ⟨h1, h2⟩ | ⟨x, ts, hx, hts, rx⟩
    · right; simp [step, ghostStep, h1, h2]
    · left
      obtain ⟨a', e1, r1⟩ := rep_add rx t hop none
      refine ⟨_, by simp only [step, hx, e1]; rfl, ?_⟩
      simp only [ghostStep, hts]
      exact f2_set hr r1 d
  | ins d i t =>
    rcases f2_get hr d with ⟨h1, h2⟩ | ⟨x, ts, hx, hts, rx⟩
    · right; simp [step, ghostStep, h1, h2]
    · left
      obtain ⟨a', e1, r1⟩ := rep_add rx t hop (some i)
      refine ⟨_, by simp only [step, hx, e1]; rfl, ?_⟩
      simp only [ghostStep, hts]
      exact f2_set hr r1 d
  | upd d s =>
    rcases f2_get hr d with ⟨h1, h2⟩ | ⟨x, tx, hx, htx, rx⟩
    · right; simp [step, ghostStep, h1, h2]
    · rcases f2_get hr s with ⟨h1, h2⟩ | ⟨y, ty, hy, hty, ry⟩
      · right; simp [step, ghostStep, hx, htx, h1, h2]
      · left
        obtain ⟨c, e1, r1⟩ := rep_update rx ry
        refine ⟨_, by simp only [step, hx, hy, e1]; rfl, ?_⟩
        simp only [ghostStep, htx, hty]
        exact f2_set hr r1 d
  | ext d s =>
    rcases f2_get hr d with ⟨h1, h2⟩ | ⟨x, tx, hx, htx, rx⟩
    · right; simp [step, ghostStep, h1, h2]
    · rcases f2_get hr s with ⟨h1, h2⟩ | ⟨y, ty, hy, hty, ry⟩
      · right; simp [step, ghostStep, hx, htx, h1, h2]
      · left
        obtain ⟨c, e1, r1⟩ := rep_update rx ry
        refine ⟨_, by simp only [step, extend, hx, hy, e1]; rfl, ?_⟩
        simp only [ghostStep, htx, hty]
        exact f2_set hr r1 d
  | iadd d s =>
    rcases f2_get hr d with ⟨h1, h2⟩ | ⟨x, tx, hx, htx, rx⟩
    · right; simp [step, ghostStep, h1, h2]
    · rcases f2_get hr s with ⟨h1, h2⟩ | ⟨y, ty, hy, hty, ry⟩
      · right; simp [step, ghostStep, hx, htx, h1, h2]
      · left
        obtain ⟨c, e1, r1⟩ := rep_update rx ry
        refine ⟨_, by simp only [step, extend, hx, hy, e1]; rfl, ?_⟩
        simp only [ghostStep, htx, hty]
        exact f2_set hr r1 d
  | plus a b =>
    rcases f2_get hr a with ⟨h1, h2⟩ | ⟨x, tx, hx, htx, rx⟩
    · right; simp [step, ghostStep, h1, h2]
    · rcases f2_get hr b with ⟨h1, h2⟩ | ⟨y, ty, hy, hty, ry⟩
      · right; simp [step, ghostStep, hx, htx, h1, h2]
      · left
        have hroot : x.rooting = none ∨ x.rooting = ρ := by
          rcases rx.root with h | ⟨_, h⟩
          · exact Or.inr h
          · exact Or.inl h
        have r0 : TARep ρ fl (TA.new x.rooting x.flags) [] := by
          rw [rx.flags]; exact rep_new ρ fl _ hroot
        obtain ⟨c1, e1, r1⟩ := rep_update r0 rx
        obtain ⟨c2, e2, r2⟩ := rep_update r1 ry
        refine ⟨_, by simp only [step, hx, hy, plus, extend, e1, e2]; rfl, ?_⟩
        simp only [ghostStep, htx, hty]
        exact f2_snoc hr (by simpa using r2)

theorem readLoop_same (target i : Nat) (rest : List (Nat × TRec)) : ∀ (f : List TRec) (k : Nat),
    readLoop target (f.map (fun t => (i, t)) ++ rest) (some i) k = f.drop (target - k) ++ readLoop target rest (some i) (k + f.length)
  | [], k => by simp
  | t :: f, k => by
    simp only [List.map_cons, List.cons_append, readLoop, bne_self_eq_false, Bool.false_eq_true, if_false]
    rw [readLoop_same target i rest f (k + 1)]
    by_cases h : k ≥ target
    · have e1 : target - k = 0 := by omega
      have e2 : target - (k + 1) = 0 := by omega
      rw [show k + 1 + f.length = k + (f.length + 1) by omega]
      simp [h, e1, e2]
    · have e1 : target - k = (target - (k + 1)) + 1 := by omega
      rw [show k + 1 + f.length = k + (f.length + 1) by omega]
      simp only [h, if_false, e1, List.drop_succ_cons, List.length_cons]

theorem readLoop_enter (target i : Nat) (rest : List (Nat × TRec)) (t : TRec) (f : List TRec) (src : Option Nat) (off : Nat)
    (h : src ≠ some i) :
    readLoop target ((t :: f).map (fun t => (i, t)) ++ rest) src off =
      (t :: f).drop target ++ readLoop target rest (some i) (t :: f).length := by
  have hb : (src != some i) = true := by simpa using h
  simp only [List.map_cons, List.cons_append, readLoop, hb, if_true]
  rw [readLoop_same target i rest f 1]
  cases target with
  | zero =>
    rw [show 1 + f.length = f.length + 1 by omega]
    simp
  | succ n =>
    rw [show 1 + f.length = f.length + 1 by omega]
    simp

theorem readLoop_files (target : Nat) : ∀ (files : List (List TRec)) (n : Nat) (src : Option Nat) (off : Nat),
    (src = none ∨ ∃ j, j < n ∧ src = some j) → readLoop target (tagFrom n files) src off = files.flatMap (·.drop target)
  | [], _, _, _, _ => by simp [tagFrom, readLoop]
  | [] :: fs, n, src, off, h => by
    simp only [tagFrom, List.map_nil, List.nil_append, List.flatMap_cons, List.drop_nil]
    apply readLoop_files target fs (n + 1) src off
    rcases h with h | ⟨j, hj, h⟩
    · exact Or.inl h
    · exact Or.inr ⟨j, by omega, h⟩
  | (t :: f) :: fs, n, src, off, h => by
    have hne : src ≠ some n := by
      rcases h with h | ⟨j, hj, h⟩
      · rw [h]; simp
      · rw [h]; intro e; cases e; omega
    simp only [tagFrom, List.flatMap_cons]
    rw [readLoop_enter target n _ t f src off hne, readLoop_files target fs (n + 1) (some n) _ (Or.inr ⟨n, by omega, rfl⟩)]

theorem isEmpty_false_of_ne {α : Type} {l : List α} (h : l ≠ []) : l.isEmpty = false ∧ (l.length == 0) = false ∧ 0 < l.length := by
  cases l with
  | nil => exact absurd rfl h
  | cons x r => simp

theorem collateX_of_buildParts (f : Flags) : ∀ (parts : List (Option Bool × List TRec)) (ws : List TA) (m : TA),
    buildParts f parts = .ok ws → collateX m (parts.map fun p => addAll (TA.new p.1 f) p.2) = collate m ws
  | [], ws, m, h => by
    simp only [buildParts, Except.ok.injEq] at h; subst h; rfl
  | p :: ps, ws, m, h => by
    simp only [buildParts] at h
    cases h1 : addAll (TA.new p.1 f) p.2 with
    | error e => simp [h1] at h
    | ok w =>
      cases h2 : buildParts f ps with
      | error e => simp [h1, h2] at h
      | ok ws' =>
        simp only [h1, h2, Except.ok.injEq] at h
        subst h
        simp only [List.map_cons, h1, collateX, collate]
        cases hu : update m w with
        | error e => rfl
        | ok m1 => exact collateX_of_buildParts f ps ws' m1 h2

theorem qsumSq_perm {a b : List Frac} (h : a.Perm b) : qsumSq a = qsumSq b := by
  induction h with
  | nil => rfl
  | cons x _ ih => simp only [qsumSq, ih]
  | swap x y l => simp only [qsumSq]; exact add_left_comm _ _ _
  | trans _ _ ih1 ih2 => exact ih1.trans ih2

theorem varOf_perm {a b : List Frac} (h : a.Perm b) : varOf a = varOf b := by
  simp only [varOf, h.length_eq, qsumSq_perm h, qsumF_perm h]

/-- `a ≤ b` for two lengths, as rationals -/
def LF (a b : Frac) : Prop := L (Q.ofFrac a) (Q.ofFrac b)

theorem LF_refl (a : Frac) : LF a a := by simp [LF, L]

theorem LF_of_not_lt {a b : Frac} (h : Frac.lt a b = false) : LF b a := by
  simp only [Frac.lt, decide_eq_false_iff_not, not_lt] at h
  simpa [LF, L, Q.ofFrac] using h

theorem LF_of_lt {a b : Frac} (h : Frac.lt a b = true) : LF a b := by
  simp only [Frac.lt, decide_eq_true_eq] at h
  simpa [LF, L, Q.ofFrac] using le_of_lt h

theorem LF_trans {a b c : Frac} (hb : 0 < b.den) (h1 : LF a b) (h2 : LF b c) : LF a c :=
  L_trans (b := Q.ofFrac b) (by simpa [Q.ofFrac] using hb) h1 h2

theorem minF_spec : ∀ (l : List Frac), (∀ x ∈ l, 0 < x.den) →
    (l = [] → minF l = none) ∧ (l ≠ [] → ∃ m, minF l = some m ∧ m ∈ l ∧ ∀ x ∈ l, LF m x)
  | [], _ => ⟨fun _ => rfl, fun h => absurd rfl h⟩
  | f :: r, hp => by
    refine ⟨fun h => absurd h (by simp), fun _ => ?_⟩
    obtain ⟨ih1, ih2⟩ := minF_spec r (fun x hx => hp x (by simp [hx]))
    cases r with
    | nil => exact ⟨f, by simp [minF], by simp, by intro x hx; simp at hx; subst hx; exact LF_refl _⟩
    | cons g r' =>
      obtain ⟨m, hm, hmem, hle⟩ := ih2 (by simp)
      have hmd : 0 < m.den := hp m (by simp [hmem])
      simp only [minF] at hm ⊢
      rw [hm]
      by_cases hlt : Frac.lt m f = true
      · refine ⟨m, by simp [hlt], by simp [hmem], ?_⟩
        intro x hx
        rcases List.mem_cons.1 hx with rfl | hx
        · exact LF_of_lt hlt
        · exact hle x hx
      · have hlt' : Frac.lt m f = false := by simpa using hlt
        refine ⟨f, by simp [hlt'], by simp, ?_⟩
        intro x hx
        rcases List.mem_cons.1 hx with rfl | hx
        · exact LF_refl _
        · exact LF_trans hmd (LF_of_not_lt hlt') (hle x hx)

theorem maxF_spec : ∀ (l : List Frac), (∀ x ∈ l, 0 < x.den) →
    (l = [] → maxF l = none) ∧ (l ≠ [] → ∃ m, maxF l = some m ∧ m ∈ l ∧ ∀ x ∈ l, LF x m)
  | [], _ => ⟨fun _ => rfl, fun h => absurd rfl h⟩
  | f :: r, hp => by
    refine ⟨fun h => absurd h (by simp), fun _ => ?_⟩
    obtain ⟨ih1, ih2⟩ := maxF_spec r (fun x hx => hp x (by simp [hx]))
    cases r with
    | nil => exact ⟨f, by simp [maxF], by simp, by intro x hx; simp at hx; subst hx; exact LF_refl _⟩
    | cons g r' =>
      obtain ⟨m, hm, hmem, hle⟩ := ih2 (by simp)
      have hmd : 0 < m.den := hp m (by simp [hmem])
      simp only [maxF] at hm ⊢
      rw [hm]
      by_cases hlt : Frac.lt f m = true
      · refine ⟨m, by simp [hlt], by simp [hmem], ?_⟩
        intro x hx
        rcases List.mem_cons.1 hx with rfl | hx
        · exact LF_of_lt hlt
        · exact hle x hx
      · have hlt' : Frac.lt f m = false := by simpa using hlt
        refine ⟨f, by simp [hlt'], by simp, ?_⟩
        intro x hx
        rcases List.mem_cons.1 hx with rfl | hx
        · exact LF_refl _
        · exact LF_trans hmd (hle x hx) (LF_of_not_lt hlt')

theorem addTree_ok_rooting {a a' : TA} {t : TRec} {idx : Option Int} (h : addTree a t idx = .ok a') :
    validateRooting a.rooting t.rooted = some a'.rooting := by
  simp only [addTree] at h
  split at h
  · cases h
  · rename_i r hr
    split at h
    · cases h
    · split at h <;> (cases h; exact hr)

/-- accession that succeeds has seen trees of one rooting state only -/
theorem addAll_ok_one_rooting : ∀ (ts : List TRec) (a a' : TA), addAll a ts = .ok a' → (∀ t ∈ ts, t.rooted ≠ none) →
    (∀ ρ, a.rooting = some ρ → ∀ t ∈ ts, t.rooted = some ρ) ∧
    (a.rooting = none → ∀ t ∈ ts, ∀ u ∈ ts, t.rooted = u.rooted)
  | [], _, _, _, _ => ⟨by simp, by simp⟩
  | t :: ts, a, a', h, hd => by
    simp only [addAll] at h
    cases h1 : addTree a t none with
    | error e => simp [h1] at h
    | ok a1 =>
      simp only [h1] at h
      have hv := addTree_ok_rooting h1
      obtain ⟨b, htb⟩ : ∃ b, t.rooted = some b := by
        cases hb : t.rooted with
        | none => exact absurd hb (hd t (by simp))
        | some b => exact ⟨b, rfl⟩
      have ha1 : a1.rooting = some b := by
        simp only [validateRooting] at hv
        cases hr : a.rooting with
        | none => simp [hr] at hv; rw [← hv, htb]
        | some r =>
          simp only [hr] at hv
          split at hv
          · rename_i heq
            have : t.rooted = some r := by simpa using heq
            rw [htb] at this; cases this
            simpa using hv.symm
          · cases hv
      obtain ⟨ih1, _⟩ := addAll_ok_one_rooting ts a1 a' h (fun x hx => hd x (by simp [hx]))
      have hall : ∀ x ∈ t :: ts, x.rooted = some b := by
        intro x hx
        rcases List.mem_cons.1 hx with rfl | hx
        · exact htb
        · exact ih1 b ha1 x hx
      constructor
      · intro ρ hρ
        simp only [validateRooting, hρ] at hv
        split at hv
        · rename_i heq
          have : t.rooted = some ρ := by simpa using heq
          rw [htb] at this; cases this
          exact hall
        · cases hv
      · intro _ x hx u hu
        rw [hall x hx, hall u hu]

theorem run_ghost {ρ : Option Bool} {fl : Flags} (ops : List Op) : ∀ (regs : List TA) (g : List (List TRec)),
    List.Forall₂ (TARep ρ fl) regs g → (∀ op ∈ ops, OpOK ρ fl op) →
    List.Forall₂ (TARep ρ fl) (run regs ops).1 (ops.foldl ghostStep g) ∧
      ∀ e ∈ (run regs ops).2, e = none ∨ e = some Err.badReg := by
  induction ops with
  | nil => intro regs g hr _; exact ⟨by simpa [run] using hr, by simp [run]⟩
  | cons op ops ih =>
    intro regs g hr hops
    have hop := hops op (by simp)
    have hrest : ∀ o ∈ ops, OpOK ρ fl o := fun o ho => hops o (by simp [ho])
    rcases step_ghost hr hop with ⟨regs', h1, r1⟩ | ⟨h1, hg⟩
    · obtain ⟨i1, i2⟩ := ih regs' _ r1 hrest
      simp only [run, h1, List.foldl_cons]
      refine ⟨i1, ?_⟩
      intro e he
      simp only [List.mem_cons] at he
      rcases he with h | h
      · exact Or.inl h
      · exact i2 e h
    · have hae : afterError regs op Err.badReg = regs := by simp [afterError]
      obtain ⟨i1, i2⟩ := ih regs g hr hrest
      simp only [run, h1, List.foldl_cons, hg, hae]
      refine ⟨i1, ?_⟩
      intro e he
      simp only [List.mem_cons] at he
      rcases he with h | h
      · exact Or.inr h
      · exact i2 e h

end DendroModel.C06.Aux

namespace DendroModel.C06
open DendroModel DendroModel.C06.Aux

/-- **history_holds_its_trees** (all interleavings): in *every* history over the operation alphabet — new arrays with
declared rooting undefined or `ρ`, trees of rooting state `ρ` added or inserted anywhere, `update` / `extend` / `+=` /
`+` between any two arrays incl. empty ones, nested merges and an array with itself — no operation is ever rejected
(except for naming a register that does not exist), and the i-th array finally holds exactly the trees the ghost
semantics `ghostRun` assigns to it: it is aligned, and row for row and in its observable it equals the one-at-a-time
accession of that very list of trees. -/
theorem history_holds_its_trees (ρ : Option Bool) (fl : Flags) (ops : List Op) (h : ∀ op ∈ ops, OpOK ρ fl op) :
    (∀ e ∈ (run [] ops).2, e = none ∨ e = some Err.badReg) ∧
    List.Forall₂ (fun a ts => ∃ s, addAll (TA.new none fl) ts = .ok s ∧ ObsEq a.sd s.sd ∧ a.rows = s.rows ∧ Aligned a)
      (run [] ops).1 (ghostRun ops) := by
  obtain ⟨h1, h2⟩ := run_ghost (ρ := ρ) (fl := fl) ops [] [] List.Forall₂.nil h
  refine ⟨h2, f2_imp ?_ h1⟩
  intro a ts ra
  obtain ⟨s, hs, rs⟩ := rep_addAll ts (rep_new ρ fl none (Or.inl rfl)) ra.rooted
  refine ⟨s, hs, sdrep_obs ra.sd rs.sd (by simp), ?_, rep_aligned ra⟩
  rw [rep_rows ra, rep_rows rs]; simp

/-- **histories_agree** (the statement itself): two compatible histories — any two ways of partitioning, ordering,
nesting and merging — that leave, by the ghost semantics, the same trees up to order in array `i` of the first and
array `j` of the second, leave there the same observable (counts, weights, per-split multisets of lengths and ages)
and the same stored rows up to order. -/
theorem histories_agree (ρ : Option Bool) (fl : Flags) (ops1 ops2 : List Op)
    (h1 : ∀ op ∈ ops1, OpOK ρ fl op) (h2 : ∀ op ∈ ops2, OpOK ρ fl op) (i j : Nat) (a b : TA) (ta tb : List TRec)
    (ha : (run [] ops1).1[i]? = some a) (hb : (run [] ops2).1[j]? = some b)
    (hta : (ghostRun ops1)[i]? = some ta) (htb : (ghostRun ops2)[j]? = some tb) (hp : ta.Perm tb) :
    ObsEq a.sd b.sd ∧ a.rows.Perm b.rows := by
  obtain ⟨r1, _⟩ := run_ghost (ρ := ρ) (fl := fl) ops1 [] [] List.Forall₂.nil h1
  obtain ⟨r2, _⟩ := run_ghost (ρ := ρ) (fl := fl) ops2 [] [] List.Forall₂.nil h2
  have ra : TARep ρ fl a ta := by
    rcases f2_get r1 i with ⟨e1, _⟩ | ⟨x, y, e1, e2, r⟩
    · rw [ha] at e1; cases e1
    · rw [ha] at e1; cases e1
      rw [ghostRun] at hta; rw [hta] at e2; cases e2; exact r
  have rb : TARep ρ fl b tb := by
    rcases f2_get r2 j with ⟨e1, _⟩ | ⟨x, y, e1, e2, r⟩
    · rw [hb] at e1; cases e1
    · rw [hb] at e1; cases e1
      rw [ghostRun] at htb; rw [htb] at e2; cases e2; exact r
  refine ⟨sdrep_obs ra.sd rb.sd hp, ?_⟩
  rw [rep_rows ra, rep_rows rb]
  exact hp.map _

/-- **sumtrees_schedule_independent** (clause d): for every number of workers `nw` (also more workers than files),
every assignment of the input files to workers (`assign`, so some workers may get no file at all) and every order in
which the workers' results arrive (`arrival`, any permutation of the workers), the collation of
`parallel_analyze_trees` never fails and yields the observable and the rows (up to order) of the serial run —
provided the trees have one rooting state `ρ` and the declared source rooting is undefined or `ρ`. -/
theorem sumtrees_schedule_independent (ρ : Option Bool) (fl : Flags) (r : Option Bool) (nw : Nat)
    (assign arrival : List Nat) (files : List (List TRec))
    (hlen : assign.length = files.length) (hass : ∀ i ∈ assign, i < nw) (harr : arrival.Perm (List.range nw))
    (htrees : ∀ f ∈ files, ∀ t ∈ f, t.rooted = ρ) (hr : r = none ∨ r = ρ) :
    ∃ m s, runParallel r fl assign arrival files = .ok m ∧ runSerial r fl files = .ok s ∧
      ObsEq m.sd s.sd ∧ m.rows.Perm s.rows ∧ Aligned m := by
  let part : Nat → Option Bool × List TRec := fun i => (r, (filesOf i assign files).flatten)
  have hc : Compatible ρ (arrival.map part) := by
    intro p hp
    obtain ⟨i, _, rfl⟩ := List.mem_map.1 hp
    refine ⟨hr, ?_⟩
    intro t ht
    obtain ⟨f, hf, htf⟩ := List.mem_flatten.1 ht
    simp only [filesOf, List.mem_map, List.mem_filter] at hf
    obtain ⟨x, ⟨hx, _⟩, rfl⟩ := hf
    exact htrees x.1 (List.of_mem_zip hx).1 t htf
  obtain ⟨ws, hws, rws⟩ := rep_buildParts (fl := fl) (arrival.map part) hc
  obtain ⟨m, hm, rm⟩ := rep_collate (arrival.map part) ws _ [] (rep_new ρ fl r hr) rws
  have hall : ∀ t ∈ files.flatten, t.rooted = ρ := by
    intro t ht
    obtain ⟨f, hf, htf⟩ := List.mem_flatten.1 ht
    exact htrees f hf t htf
  obtain ⟨s, hs, rs⟩ := rep_addAll files.flatten (rep_new ρ fl r hr) hall
  have hperm : (([] : List TRec) ++ (arrival.map part).flatMap (fun p => p.2)).Perm ([] ++ files.flatten) := by
    simp only [List.nil_append, List.flatMap_map]
    exact (flatMap_perm (fun i => (part i).2) harr).trans (files_partition nw assign files hlen hass)
  refine ⟨m, s, ?_, hs, sdrep_obs rm.sd rs.sd hperm, ?_, rep_aligned rm⟩
  · simp only [runParallel]
    change (match buildParts fl (arrival.map part) with | .ok ws => collate (TA.new r fl) ws | .error e => .error e) = _
    rw [hws]; exact hm
  · rw [rep_rows rm, rep_rows rs]
    exact hperm.map _

/-- split frequencies are a function of the observable -/
theorem freq_of_obs {a b : SD} (h : ObsEq a b) (s : Nat) : a.freq s = b.freq s := by
  obtain ⟨h1, h2, _, _, h5⟩ := h
  obtain ⟨k, c, _, _⟩ := h5 s
  simp [SD.freq, SD.norm, h1, h2, k, c]

/-- the credibility score (product of supports) and the sum of supports of a tree are functions of the observable -/
theorem scores_of_obs {a b : SD} (h : ObsEq a b) (leafset : Nat) (splits : List Nat) :
    treeScore a leafset splits = treeScore b leafset splits ∧ treeSum a leafset splits = treeSum b leafset splits := by
  simp only [treeScore, treeSum, freq_of_obs h]
  exact ⟨trivial, trivial⟩

/-- **mcc_scores_of_obs** (clause c): two aligned collections with the same observable and the same rows up to
order have the same multiset of per-tree credibility scores (the pairing with topologies is `mcc_topologies_of_obs`;
the code's first-strict-maximum index `mccIndex` depends on the order of the rows and is tied to the code by the
correspondence only). -/
theorem mcc_scores_of_obs {a b : TA} (ha : Aligned a) (hb : Aligned b) (h : ObsEq a.sd b.sd) (hr : a.rows.Perm b.rows) :
    ∃ la lb, scores a = some la ∧ scores b = some lb ∧ la.Perm lb := by
  obtain ⟨a1, a2, a3, _⟩ := ha
  obtain ⟨b1, b2, b3, _⟩ := hb
  refine ⟨(a.leafsets.zip a.splits).map (fun p => treeScore a.sd p.1 p.2),
    (b.leafsets.zip b.splits).map (fun p => treeScore b.sd p.1 p.2), by simp [scores, a2], by simp [scores, b2], ?_⟩
  rw [← zip4_proj a.splits a.elens a.leafsets a.weights a1 a2 a3,
      ← zip4_proj b.splits b.elens b.leafsets b.weights b1 b2 b3]
  simp only [List.map_map]
  have hfun : (fun p : Nat × List Nat => treeScore a.sd p.1 p.2) = (fun p => treeScore b.sd p.1 p.2) := by
    funext p; exact (scores_of_obs h p.1 p.2).1
  rw [hfun]
  exact hr.map _

/-- **mcc_topologies_of_obs** (clause c): with the same observable and the same rows up to order, the multiset of
(stored topology, credibility score) pairs (`TA.scored`) is the same.  Only the multiset is stated here (`rows` is a zip of
the four lists: on a misaligned array it is silently the common prefix); what this means for the tree `mccIndex` reports —
same maximum score, same topology when the maximiser is unique — is `mcc_of_obs`. -/
theorem mcc_topologies_of_obs {a b : TA} (h : ObsEq a.sd b.sd) (hr : a.rows.Perm b.rows) :
    (a.rows.map fun r => (r.1, treeScore a.sd r.2.2.1 r.1)).Perm
      (b.rows.map fun r => (r.1, treeScore b.sd r.2.2.1 r.1)) := by
  have hfun : (fun r : List Nat × List (Option Frac) × Nat × Q => (r.1, treeScore a.sd r.2.2.1 r.1)) =
      (fun r => (r.1, treeScore b.sd r.2.2.1 r.1)) := by
    funext r; rw [(scores_of_obs h r.2.2.1 r.1).1]
  rw [hfun]
  exact hr.map _

/-- **consensus_candidates_spec** (clause c): the splits `consensus_tree(min_freq)` tries to add are *exactly* the counted splits
with frequency ≥ `min_freq` — nothing dropped, nothing invented by the sort — and hence the same set for two distributions
with the same observable.  (Their *order*, decreasing `(frequency, mask)`, is a function of the observable too:
`consensus_of_obs`.) -/
theorem consensus_candidates_spec (sd : SD) (θ : Q) (s : Nat) :
    (s ∈ consensusOrder sd θ ↔ hasKey s sd.counts = true ∧ Q.le θ (sd.freq s) = true) ∧
    ∀ b : SD, ObsEq sd b → (s ∈ consensusOrder sd θ ↔ s ∈ consensusOrder b θ) := by
  refine ⟨mem_consensusOrder sd θ s, ?_⟩
  intro b h
  rw [mem_consensusOrder, mem_consensusOrder, freq_of_obs h s, (h.2.2.2.2 s).1]

/-- **async_sentinel_every_file_once** (clause d, queue level): under the end-marker protocol (blocking `get`, one marker
per worker behind the files) with *asynchronous* delivery of the work items, for every number of workers, every number of
files and every schedule `choices` of deliveries and worker moves, the run ends with every worker stopped (so the parent
collects exactly one result per worker) and every file read exactly once, by exactly one worker. -/
theorem async_sentinel_every_file_once (nw nfiles : Nat) (choices : List Nat) (hnw : 0 < nw) :
    (finalP true nw nfiles choices).ws.length = nw ∧
    (∀ w ∈ (finalP true nw nfiles choices).ws, w.phase = Phase.done) ∧
    ((finalP true nw nfiles choices).ws.flatMap (·.taken)).Perm (List.range nfiles) := by
  have hinv := run_inv true (PInv nw nfiles) (fun s a h ha => pinv_apply s a h ha) (fuelOf nw nfiles) choices _ (pinv_init nw nfiles)
  have hterm := run_terminal true (fuelOf nw nfiles) choices _ (mu_init true nw nfiles)
  obtain ⟨h1, h2⟩ := pinv_terminal hinv hnw hterm
  exact ⟨hinv.len, h1, h2⟩

/-- **sumtrees_async_schedule_independent** (clause d, with the queue): with the end-marker protocol, whatever the
schedule of item deliveries and worker moves (`choices`) and whatever the arrival order of the results, the parallel
run returns (never hangs), never fails, and yields the observable and the rows (up to order) of the serial run.
Modelling assumptions doing work here: there is at least one worker; every worker that stops posts exactly one result
(`arrival` is a permutation of the workers); a worker that posts an exception instead, or dies, is outside the model. -/
theorem sumtrees_async_schedule_independent (ρ : Option Bool) (fl : Flags) (r : Option Bool) (nw : Nat)
    (choices arrival : List Nat) (files : List (List TRec)) (hnw : 0 < nw) (harr : arrival.Perm (List.range nw))
    (htrees : ∀ f ∈ files, ∀ t ∈ f, t.rooted = ρ) (hr : r = none ∨ r = ρ) :
    ∃ m s, runAsync r fl true nw choices arrival files = some (.ok m) ∧ runSerial r fl files = .ok s ∧
      ObsEq m.sd s.sd ∧ m.rows.Perm s.rows ∧ Aligned m := by
  obtain ⟨hlen, hdone, hperm⟩ := async_sentinel_every_file_once nw files.length choices hnw
  generalize hfin : finalP true nw files.length choices = fin at hlen hdone hperm
  let part : Nat → Option Bool × List TRec := fun i => (r, treesOf fin files i)
  have hall : ∀ t ∈ files.flatten, t.rooted = ρ := by
    intro t ht
    obtain ⟨f, hf, htf⟩ := List.mem_flatten.1 ht
    exact htrees f hf t htf
  have hc : Compatible ρ (arrival.map part) := by
    intro p hp
    obtain ⟨i, _, rfl⟩ := List.mem_map.1 hp
    refine ⟨hr, ?_⟩
    intro t ht
    simp only [part, treesOf, List.mem_flatMap] at ht
    obtain ⟨k, _, htk⟩ := ht
    cases hk : files[k]? with
    | none => simp [hk] at htk
    | some f =>
      simp only [hk, Option.getD_some] at htk
      exact htrees f (List.mem_of_getElem? hk) t htk
  obtain ⟨ws, hws, rws⟩ := rep_buildParts (fl := fl) (arrival.map part) hc
  obtain ⟨m, hm, rm⟩ := rep_collate (arrival.map part) ws _ [] (rep_new ρ fl r hr) rws
  obtain ⟨s, hs, rs⟩ := rep_addAll files.flatten (rep_new ρ fl r hr) hall
  have hp1 : ((List.range nw).flatMap (fun i => treesOf fin files i)).Perm files.flatten := by
    have e1 : (List.range nw).flatMap (fun i => treesOf fin files i) =
        (fin.ws.flatMap (·.taken)).flatMap (fun k => files[k]?.getD []) := by
      rw [← hlen]
      have := range_flatMap_getElem? (fun o : Option WState => ((o.map (·.taken)).getD []).flatMap (fun k => files[k]?.getD [])) fin.ws
      simp only [treesOf]
      rw [this, List.flatMap_assoc]
      rfl
    rw [e1]
    refine (hperm.flatMap_right _).trans ?_
    have := range_flatMap_getElem? (fun o : Option (List TRec) => o.getD []) files
    simp only [Option.getD_some] at this
    rw [this]
    simp [List.flatMap_id']
  have hperm2 : (([] : List TRec) ++ (arrival.map part).flatMap (fun p => p.2)).Perm ([] ++ files.flatten) := by
    simp only [List.nil_append, List.flatMap_map]
    exact (flatMap_perm (fun i => (part i).2) harr).trans hp1
  refine ⟨m, s, ?_, hs, sdrep_obs rm.sd rs.sd hperm2, ?_, rep_aligned rm⟩
  · have hall' : fin.ws.all (fun w => w.phase == Phase.done) = true := by
      simp only [List.all_eq_true, beq_iff_eq]; exact hdone
    simp only [runAsync, hfin, hall', if_true]
    change some (match buildParts fl (arrival.map part) with | .ok ws => collate (TA.new r fl) ws | .error e => .error e) = _
    rw [hws]
    exact congrArg some hm
  · rw [rep_rows rm, rep_rows rs]
    exact hperm2.map _

/-- **mcc_index_spec** (clause c): `mccIndex` — the index `calculate_log_product_of_split_supports` reports — points at a
tree whose credibility score is a maximum of all scores (no score is strictly greater, in the order of the rationals),
and it is the *first* maximiser (every earlier tree scores strictly less).  Hypothesis `hpos`: the score fractions have
positive denominators (un-normalised fractions with a zero denominator are not ordered by `Q.lt`); `scores_den_pos` proves
it for every array reachable by a history whose tree weights come out of `Frac.parse`. -/
theorem mcc_index_spec (a : TA) (l : List Q) (hs : scores a = some l) (hne : l ≠ []) (hpos : ∀ q ∈ l, 0 < q.den) :
    ∃ j m, mccIndex a = some j ∧ l[j]? = some m ∧
      (∀ (k : Nat) (x : Q), l[k]? = some x → Q.lt m x = false) ∧
      (∀ (k : Nat) (x : Q), k < j → l[k]? = some x → Q.lt x m = true) := by
  obtain ⟨j, m, h, hb⟩ := argmax_spec l hpos hne
  exact ⟨j, m, by simp [mccIndex, hs, h], hb.1, hb.2.1, hb.2.2⟩

/-- **scores_den_pos**: after *any* history (compatible or not, rejected operations and failed asserts included) whose
trees carry weights with positive denominators — all `Frac.parse` can deliver — every credibility score of every array is
a fraction with a positive denominator.  This discharges the hypothesis `hpos` of `mcc_index_spec` for every array the
driver can reach. -/
theorem scores_den_pos (ops : List Op) (hw : ∀ op ∈ ops, OpT WPos op) :
    ∀ a ∈ (run [] ops).1, ∀ l, scores a = some l → ∀ q ∈ l, 0 < q.den := by
  intro a ha l hs
  exact scores_pos (run_closed pos_closed ops [] (by simp) hw a ha) l hs

/-- **mcc_of_obs** (clause c): two aligned, non-empty collections with the same observable and the same rows up to order
(what `histories_agree` / `merge_any_partition` / `sumtrees_*_schedule_independent` deliver) report — each through its own
first-strict-maximum index `mccIndex` — trees whose credibility scores are the same rational number; and whenever the
maximiser of the first is unique up to topology (every tree scoring as much stores the same splits), the tree reported by
the second has that very topology.  Positivity of the score denominators is what `scores_den_pos` provides. -/
theorem mcc_of_obs {a b : TA} (ha : Aligned a) (hb : Aligned b) (h : ObsEq a.sd b.sd) (hr : a.rows.Perm b.rows)
    (hpa : ∀ l, scores a = some l → ∀ q ∈ l, 0 < q.den) (hpb : ∀ l, scores b = some l → ∀ q ∈ l, 0 < q.den)
    (hne : a.splits ≠ []) :
    ∃ i j pa pb, mccIndex a = some i ∧ mccIndex b = some j ∧ a.scored[i]? = some pa ∧ b.scored[j]? = some pb ∧
      Q.veq pa.2 pb.2 ∧ ((∀ p ∈ a.scored, Q.veq p.2 pa.2 → p.1 = pa.1) → pb.1 = pa.1) := by
  have hperm : a.scored.Perm b.scored := mcc_topologies_of_obs h hr
  have hsa := scores_eq_scored ha
  have hsb := scores_eq_scored hb
  have hlen : a.scored.length = a.splits.length := by
    obtain ⟨a1, a2, a3, _⟩ := ha
    simp [TA.scored, TA.rows, List.length_zip]; omega
  have hnea : a.scored.map (·.2) ≠ [] := by
    intro e
    have : a.scored.length = 0 := by simpa using congrArg List.length e
    rw [hlen] at this
    exact hne (List.length_eq_zero_iff.1 this)
  have hneb : b.scored.map (·.2) ≠ [] := by
    intro e
    have h0 : b.scored.length = 0 := by simpa using congrArg List.length e
    rw [← hperm.length_eq] at h0
    exact hnea (by simp [List.length_eq_zero_iff.1 h0])
  obtain ⟨i, ma, hi, hia, hmaxa, _⟩ := mcc_index_spec a _ hsa hnea (hpa _ hsa)
  obtain ⟨j, mb, hj, hjb, hmaxb, _⟩ := mcc_index_spec b _ hsb hneb (hpb _ hsb)
  rw [List.getElem?_map] at hia hjb
  obtain ⟨pa, hpa1, hpa2⟩ := Option.map_eq_some_iff.1 hia
  obtain ⟨pb, hpb1, hpb2⟩ := Option.map_eq_some_iff.1 hjb
  have hpb_in_a : pb ∈ a.scored := hperm.mem_iff.2 (List.mem_of_getElem? hpb1)
  have hpa_in_b : pa ∈ b.scored := hperm.mem_iff.1 (List.mem_of_getElem? hpa1)
  have h1 : Q.lt pa.2 pb.2 = false := by
    obtain ⟨k, hk⟩ := List.getElem?_of_mem (List.mem_map.2 ⟨pb, hpb_in_a, rfl⟩)
    rw [hpa2]; exact hmaxa k _ hk
  have h2 : Q.lt pb.2 pa.2 = false := by
    obtain ⟨k, hk⟩ := List.getElem?_of_mem (List.mem_map.2 ⟨pa, hpa_in_b, rfl⟩)
    rw [hpb2]; exact hmaxb k _ hk
  exact ⟨i, j, pa, pb, hi, hj, hpa1, hpb1, ⟨h1, h2⟩, fun hu => hu pb hpb_in_a ⟨h2, h1⟩⟩

/-- **consensus_of_obs** (clause c): the list of splits `consensus_tree(min_freq)` hands to the tree builder — every counted
split with frequency ≥ `min_freq`, sorted by decreasing `(frequency, mask)` — is, *including its order*, a function of
the observable: two distributions with the same observable (dictionary keys without repetition, counts with positive
denominators) produce the same list, in whatever order their trees were counted or merged.  Hence the greedy consensus,
which is determined by that list, does not depend on partitioning, order or scheduling. -/
theorem consensus_of_obs {a b : SD} (h : ObsEq a b) (hna : (a.counts.map (·.1)).Nodup) (hnb : (b.counts.map (·.1)).Nodup)
    (hpa : ∀ kc ∈ a.counts, 0 < kc.2.den) (θ : Q) : consensusOrder a θ = consensusOrder b θ := by
  have hkeys : (a.counts.map (·.1)).Perm (b.counts.map (·.1)) := by
    refine (List.perm_ext_iff_of_nodup hna hnb).2 ?_
    intro k
    have := (h.2.2.2.2 k).1
    change k ∈ keys a.counts ↔ k ∈ keys b.counts
    rw [← hasKey_iff k a.counts, ← hasKey_iff k b.counts, this]
  have hfun : (fun k => (a.freq k, k)) = (fun k => (b.freq k, k)) := by
    funext k; rw [freq_of_obs h k]
  have hc : ((a.counts.map fun kc => (a.freq kc.1, kc.1)).filter fun p => Q.le θ p.1).Perm
      ((b.counts.map fun kc => (b.freq kc.1, kc.1)).filter fun p => Q.le θ p.1) := by
    have e1 : (a.counts.map fun kc => (a.freq kc.1, kc.1)) = (a.counts.map (·.1)).map (fun k => (a.freq k, k)) := by
      simp [List.map_map]
    have e2 : (b.counts.map fun kc => (b.freq kc.1, kc.1)) = (b.counts.map (·.1)).map (fun k => (b.freq k, k)) := by
      simp [List.map_map]
    rw [e1, e2, hfun]
    exact (hkeys.map _).filter _
  simp only [consensusOrder]
  congr 1
  refine sort_perm_eq hc ?_ ?_
  · intro z hz
    obtain ⟨hz1, _⟩ := List.mem_filter.1 hz
    obtain ⟨kc, _, rfl⟩ := List.mem_map.1 hz1
    exact freq_pos (sd := a) hpa kc.1
  · intro u hu v hv huv
    obtain ⟨hu1, _⟩ := List.mem_filter.1 hu
    obtain ⟨ku, _, rfl⟩ := List.mem_map.1 hu1
    obtain ⟨hv1, _⟩ := List.mem_filter.1 hv
    obtain ⟨kv, _, rfl⟩ := List.mem_map.1 hv1
    simp only at huv
    rw [huv]

/-- **consensus_of_obs_reachable**: for arrays reached by *any* two histories (the tree weights of the first with positive
denominators), the hypotheses of `consensus_of_obs` hold (keys never repeat, counts keep positive denominators — both are
invariants of every operation): equal observables give the same sorted candidate list. -/
theorem consensus_of_obs_reachable (ops1 ops2 : List Op) (hw1 : ∀ op ∈ ops1, OpT WPos op)
    (a b : TA) (ha : a ∈ (run [] ops1).1) (hb : b ∈ (run [] ops2).1) (h : ObsEq a.sd b.sd) (θ : Q) :
    consensusOrder a.sd θ = consensusOrder b.sd θ := by
  have t1 : ∀ op ∈ ops1, OpT (fun _ => True) op := by intro op _; cases op <;> simp [OpT]
  have t2 : ∀ op ∈ ops2, OpT (fun _ => True) op := by intro op _; cases op <;> simp [OpT]
  exact consensus_of_obs h (run_closed nodup_closed ops1 [] (by simp) t1 a ha) (run_closed nodup_closed ops2 [] (by simp) t2 b hb)
    (run_closed pos_closed ops1 [] (by simp) hw1 a ha) θ

/-- **history_final_rooting_flags**: after a compatible history every array carries the common settings `fl` (its own and
its distribution's), its rooting state is `ρ` as soon as it holds a tree, and undefined or `ρ` while it is empty
(adoption on merging into an empty array included). -/
theorem history_final_rooting_flags (ρ : Option Bool) (fl : Flags) (ops : List Op) (h : ∀ op ∈ ops, OpOK ρ fl op) :
    List.Forall₂ (fun a ts => a.flags = fl ∧ a.sd.flags = fl ∧ (ts ≠ [] → a.rooting = ρ) ∧ (a.rooting = none ∨ a.rooting = ρ))
      (run [] ops).1 (ghostRun ops) := by
  obtain ⟨h1, _⟩ := run_ghost (ρ := ρ) (fl := fl) ops [] [] List.Forall₂.nil h
  refine f2_imp ?_ h1
  intro a ts ra
  refine ⟨ra.flags, ra.sd.flags, ?_, ?_⟩
  · intro hne
    rcases ra.root with hr | ⟨he, _⟩
    · exact hr
    · exact absurd he hne
  · rcases ra.root with hr | ⟨_, hr⟩
    · exact Or.inr hr
    · exact Or.inl hr

/-- **summaries_of_obs** (clause c, summaries on the summary tree): for every split, what `summarize_splits_on_tree` reads —
the collections of edge lengths and of node ages (as multisets), their sizes, and the mean edge length and mean node age
computed from them (exact sums of un-normalised fractions, hence literally equal) — is a function of the observable. -/
theorem summaries_of_obs {a b : SD} (h : ObsEq a b) (s : Nat) :
    (getL s a.lens).Perm (getL s b.lens) ∧ (getL s a.ages).Perm (getL s b.ages) ∧
    a.summarySizes s = b.summarySizes s ∧ a.meanLen s = b.meanLen s ∧ a.meanAge s = b.meanAge s := by
  obtain ⟨_, _, pl, pa⟩ := h.2.2.2.2 s
  have pa' : ((getL s a.ages).filterMap id).Perm ((getL s b.ages).filterMap id) := pa.filterMap id
  refine ⟨pl, pa, ?_, ?_, ?_⟩
  · simp only [SD.summarySizes, pl.length_eq, pa'.length_eq]
  · simp only [SD.meanLen, qsumF_perm pl, pl.length_eq, isEmpty_of_perm pl]
  · simp only [SD.meanAge, qsumF_perm pa', pa'.length_eq, isEmpty_of_perm pa']

/-- **summaries_of_histories**: two compatible histories leaving the same trees up to order in two arrays (by the ghost
semantics) leave there, for every split, the same mean edge length, mean node age and summary sizes. -/
theorem summaries_of_histories (ρ : Option Bool) (fl : Flags) (ops1 ops2 : List Op)
    (h1 : ∀ op ∈ ops1, OpOK ρ fl op) (h2 : ∀ op ∈ ops2, OpOK ρ fl op) (i j : Nat) (a b : TA) (ta tb : List TRec)
    (ha : (run [] ops1).1[i]? = some a) (hb : (run [] ops2).1[j]? = some b)
    (hta : (ghostRun ops1)[i]? = some ta) (htb : (ghostRun ops2)[j]? = some tb) (hp : ta.Perm tb) (s : Nat) :
    a.sd.meanLen s = b.sd.meanLen s ∧ a.sd.meanAge s = b.sd.meanAge s ∧ a.sd.summarySizes s = b.sd.summarySizes s := by
  obtain ⟨hobs, _⟩ := histories_agree ρ fl ops1 ops2 h1 h2 i j a b ta tb ha hb hta htb hp
  obtain ⟨_, _, h3, h4, h5⟩ := summaries_of_obs hobs s
  exact ⟨h4, h5, h3⟩

/-! ### tie A: the decision kernels regenerated from the source (`Gen/C06Kernels.lean`) are the model's -/

/-- the model's array seen through the generated record -/
def toK (a : TA) : C06Kernels.KTA (List Nat) (List (Option Frac)) Nat Q SD :=
  ⟨a.rooting, a.flags.ignoreLens, a.flags.ignoreAges, a.flags.useWeights, a.splits, a.elens, a.leafsets, a.weights, a.sd⟩

def toExc : Err → Option C06Kernels.Exc
  | .mixedRooting => some .mixedRooting | .incRooting => some .incRooting | .incLens => some .incLens
  | .incAges => some .incAges | .incWeights => some .incWeights | _ => none

/-- outcome of a model operation in the vocabulary of the generated kernels -/
def outK : Except Err TA → Option (Except C06Kernels.Exc (C06Kernels.KTA (List Nat) (List (Option Frac)) Nat Q SD))
  | .ok a => some (.ok (toK a))
  | .error e => (toExc e).map .error

theorem update_bridge (a b : TA) : outK (update a b) = some (C06Kernels.update SD.merge (toK a) (toK b)) := by
  simp only [update, C06Kernels.update, toK]
  by_cases hb : b.splits = []
  · simp [outK, toK, hb]
  · obtain ⟨b1, b2, _⟩ := isEmpty_false_of_ne hb
    by_cases ha : a.splits = []
    · simp [outK, toK, TA.absorb, ha, b1, b2]
    · obtain ⟨a1, _, a3⟩ := isEmpty_false_of_ne ha
      by_cases h1 : a.rooting = b.rooting <;> by_cases h2 : a.flags.ignoreLens = b.flags.ignoreLens <;>
        by_cases h3 : a.flags.ignoreAges = b.flags.ignoreAges <;> by_cases h4 : a.flags.useWeights = b.flags.useWeights <;>
        simp [outK, toK, toExc, TA.absorb, a1, a3, b1, b2, h1, h2, h3, h4]


theorem validate_bridge (a : TA) (tr : Option Bool) :
    C06Kernels.validateRooting (toK a) tr =
      (match validateRooting a.rooting tr with
       | none => .error .mixedRooting
       | some r => .ok (toK { a with rooting := r })) := by
  obtain ⟨ro, fl, sp, el, ls, ws, sd⟩ := a
  simp only [C06Kernels.validateRooting, validateRooting, toK]
  cases ro with
  | none => simp
  | some r =>
    by_cases h : tr = some r
    · simp [h]
    · have h' : ¬ (some r = tr) := fun e => h e.symm
      simp [h, h']

theorem weight_bridge (u : Bool) (t : TRec) :
    weightOf u t = C06Kernels.weightToUse Q.one (t.weight.map Q.ofFrac) u := by
  simp only [weightOf, C06Kernels.weightToUse]
  cases t.weight <;> cases u <;> simp

/-- the accession block of `add_tree` (append, or insert at a Python index, into the four lists) is what `addTree` does to them -/
theorem accession_bridge (a a' : TA) (t : TRec) (idx : Option Int) (h : addTree a t idx = .ok a') :
    ∃ sp el, toK a' = C06Kernels.accession (fun i x l => pyInsert i x l) (toK { a with rooting := a'.rooting, sd := a'.sd }) idx
      sp el t.leafset (weightOf a.flags.useWeights t) := by
  simp only [addTree] at h
  split at h
  · cases h
  · split at h
    · cases h
    · split at h <;> (cases h; exact ⟨_, _, rfl⟩)

theorem qualifies_bridge (leafset s : Nat) :
    qualifies leafset s = C06Kernels.qualifies (fun x y => PyBits.is_trivial_bitmask (x : Int) (y : Int))
      C06Kernels.includeExternalDefault s leafset := by
  simp [qualifies, C06Kernels.qualifies, C06Kernels.includeExternalDefault]

/-- the scan of `calculate_log_product_of_split_supports` replaces its best-so-far exactly when the generated test says so -/
theorem argmax_bridge (x : Q) (r : List Q) (i : Nat) (best : Option (Nat × Q)) :
    argmaxFrom (x :: r) i best =
      argmaxFrom r (i + 1) (if C06Kernels.replacesMax Q.lt (best.map (·.2)) x then some (i, x) else best) := by
  cases best with
  | none => simp [argmaxFrom, C06Kernels.replacesMax]
  | some b =>
    obtain ⟨j, m⟩ := b
    simp [argmaxFrom, C06Kernels.replacesMax]

/-- one pass of the model's reading loop is the generated loop body (of both reading loops) -/
theorem readStep_bridge (target : Nat) (src : Option Nat) (off i : Nat) :
    C06Kernels.readStep target src off i =
      (some i, (if src != some i then 0 else off) + 1, if (if src != some i then 0 else off) ≥ target then 1 else 0) ∧
    C06Kernels.readStepLogged target src off i = C06Kernels.readStep target src off i := by
  simp only [C06Kernels.readStep, C06Kernels.readStepLogged]
  by_cases h : src = some i <;> by_cases h2 : off ≥ target <;> by_cases h3 : 0 ≥ target <;> simp [h, h2, h3]

theorem readLoop_cons (target : Nat) (i : Nat) (t : TRec) (r : List (Nat × TRec)) (src : Option Nat) (off : Nat) :
    readLoop target ((i, t) :: r) src off =
      (let st := C06Kernels.readStep target src off i
       List.replicate st.2.2 t ++ readLoop target r st.1 st.2.1) := by
  rw [(readStep_bridge target src off i).1]
  simp only [readLoop]
  split <;> split <;> simp_all

/-- the worker protocol the theorems are about is the one the source configures: blocking `get`, stop at `None`, one marker
    per worker behind the files, one worker and one awaited result per process -/
theorem proto_bridge (nw nfiles : Nat) :
    C06Kernels.workerGetBlocks = true ∧ C06Kernels.workerStopsAtNone = true ∧
    C06Kernels.workerPostsException = true ∧ C06Kernels.workerPostsArray = true ∧
    C06Kernels.parentReraises = true ∧ C06Kernels.parentMergesWithUpdate = true ∧
    C06Kernels.extendIsUpdate = true ∧ C06Kernels.iaddIsExtend = true ∧
    (initP C06Kernels.workerGetBlocks nw nfiles).inflight =
      (C06Kernels.initialQueue nw nfiles).map (fun o => match o with | some k => Item.file k | none => Item.stop) ∧
    (initP C06Kernels.workerGetBlocks nw nfiles).ws.length = C06Kernels.workersStarted nw nfiles ∧
    C06Kernels.resultsAwaited nw nfiles = (initP C06Kernels.workerGetBlocks nw nfiles).ws.length := by
  refine ⟨rfl, rfl, rfl, rfl, rfl, rfl, rfl, rfl, ?_, ?_, ?_⟩
  · simp [initP, C06Kernels.initialQueue, C06Kernels.workerGetBlocks, C06Kernels.markersPosted, List.map_map, Function.comp_def]
  · simp [initP, C06Kernels.workersStarted]
  · simp [initP, C06Kernels.resultsAwaited]

theorem runsSerial_bridge (n : Nat) : C06Kernels.runsSerial (some (n : Int)) = decide (n ≤ 1) ∧ C06Kernels.runsSerial none = true := by
  constructor
  · simp [C06Kernels.runsSerial]
  · rfl

/-- **burnin_per_source**: the reading loop with its running offset (reset when the source number changes) adds, for every
source of the call, all trees but its first `burnin` ones, in order — whether the sources are read in one call (the serial
run) or one call per source (what each worker does with each file it takes). -/
theorem burnin_per_source (burnin : Nat) (files : List (List TRec)) :
    readFiles burnin files = files.flatMap (·.drop burnin) ∧
    (workerFiles burnin files).flatten = readFiles burnin files ∧
    workerFiles burnin files = files.map (·.drop burnin) := by
  have h1 : ∀ fs, readFiles burnin fs = fs.flatMap (·.drop burnin) := fun fs =>
    readLoop_files burnin fs 0 none 0 (Or.inl rfl)
  have h3 : workerFiles burnin files = files.map (·.drop burnin) := by
    simp only [workerFiles]
    apply List.map_congr_left
    intro f _
    rw [h1]; simp
  refine ⟨h1 files, ?_, h3⟩
  rw [h3, h1, List.flatMap_def]


/-! ### the worker protocol when a read can fail; the parent's collation of what the workers post -/

/-- **async_failures_never_hang** (clause d, queue level, failing reads included): whatever files fail to read in whatever
worker state (`fails` arbitrary), for every number of workers and files and every schedule of deliveries and worker moves, the
end-marker protocol ends with *every* worker stopped — so the parent's collation loop gets its one result per worker (array
or exception) and never waits for ever.  (A failing worker leaves its own marker on the queue; the invariant is that the
markers never run out.) -/
theorem async_failures_never_hang (fails : List Nat → Nat → Bool) (nw nfiles : Nat) (choices : List Nat) :
    (finalPF fails nw nfiles choices).ws.length = nw ∧
    ∀ w ∈ (finalPF fails nw nfiles choices).ws, w.phase = Phase.done := by
  have hinv := run_invF fails (QInv nw) (fun s a h ha => qinv_apply fails s a h ha) (fuelOf nw nfiles) choices _ (qinv_init nw nfiles)
  have hterm := run_terminalF fails (fuelOf nw nfiles) choices _ (mu_init true nw nfiles)
  exact ⟨hinv.len, qinv_terminal hinv hterm⟩

/-- **async_no_failing_read_same_run**: when no read can fail, the failing-read protocol is, schedule by schedule, the plain
end-marker protocol (so `async_sentinel_every_file_once` speaks about it) -/
theorem async_no_failing_read_same_run (fails : List Nat → Nat → Bool) (hf : ∀ t k, fails t k = false) (nw nfiles : Nat)
    (choices : List Nat) : finalPF fails nw nfiles choices = finalP true nw nfiles choices :=
  runProtoF_of_never fails hf _ _ _

/-- **collation_reraises_first_exception**: the parent's loop over the posted results — arrays merged so far, then an
exception: the run raises that exception; and any posted exception, wherever it arrives, means the run ends in an error
(that one, or an earlier rejection), never in a summary. -/
theorem collation_reraises_first_exception (m : TA) :
    (∀ (oks : List TA) (m' : TA) (e : Err) (rest : List (Except Err TA)), collate m oks = .ok m' →
      collateX m (oks.map .ok ++ .error e :: rest) = .error e) ∧
    (∀ rs : List (Except Err TA), (∃ e, Except.error e ∈ rs) → ∃ e, collateX m rs = .error e) := by
  constructor
  · intro oks
    induction oks generalizing m with
    | nil => intro m' e rest _; rfl
    | cons w ws ih =>
      intro m' e rest h
      simp only [collate] at h
      simp only [List.map_cons, List.cons_append, collateX]
      cases hu : update m w with
      | error e' => simp [hu] at h
      | ok m1 => simp only [hu] at h ⊢; exact ih m1 m' e rest h
  · intro rs
    induction rs generalizing m with
    | nil => rintro ⟨e, he⟩; simp at he
    | cons r rs ih =>
      rintro ⟨e, he⟩
      cases r with
      | error e' => exact ⟨e', rfl⟩
      | ok w =>
        simp only [collateX]
        cases hu : update m w with
        | error e' => exact ⟨e', rfl⟩
        | ok m1 =>
          simp only [List.mem_cons] at he
          rcases he with he | he
          · cases he
          · exact ih m1 ⟨e, he⟩

/-- **sumtrees_failing_read_reported**: if, under some schedule, the array some worker would post is an exception (a read
failed in it), then — every worker stops (`async_failures_never_hang`), the parent takes one result per worker in any
arrival order — the parallel run ends in an error: it neither hangs nor returns a summary. -/
theorem sumtrees_failing_read_reported (r : Option Bool) (fl : Flags) (nw : Nat) (choices arrival : List Nat)
    (files : List (List TRec)) (harr : arrival.Perm (List.range nw)) (i : Nat) (hi : i < nw) (e : Err)
    (hfail : postedBy r fl (finalPF (failsOf r fl files) nw files.length choices) files i = .error e) :
    ∃ e', runAsyncF r fl nw choices arrival files = some (.error e') := by
  obtain ⟨_, hdone⟩ := async_failures_never_hang (failsOf r fl files) nw files.length choices
  have hall : (finalPF (failsOf r fl files) nw files.length choices).ws.all (fun w => w.phase == Phase.done) = true := by
    simp only [List.all_eq_true, beq_iff_eq]; exact hdone
  have hmem : i ∈ arrival := harr.mem_iff.2 (List.mem_range.2 hi)
  obtain ⟨e', he'⟩ := (collation_reraises_first_exception (TA.new r fl)).2
    (arrival.map fun i => postedBy r fl (finalPF (failsOf r fl files) nw files.length choices) files i)
    ⟨e, List.mem_map.2 ⟨i, hmem, hfail⟩⟩
  exact ⟨e', by simp only [runAsyncF, hall, if_true, he']⟩

/-- **sumtrees_burnin_schedule_independent** (clause d, the whole pipeline): with a burn-in that every worker applies to
every file it reads and the serial run applies per source within its one reading call, with the failing-read protocol, the
parent's re-raising collation, any number of workers ≥ 1 (also more workers than files, also no file at all), every schedule
of deliveries and worker moves and every arrival order: for trees of one rooting state the parallel run returns, never
fails, and yields the observable and the rows (up to order) of the serial run. -/
theorem sumtrees_burnin_schedule_independent (ρ : Option Bool) (fl : Flags) (r : Option Bool) (burnin nw : Nat)
    (choices arrival : List Nat) (files : List (List TRec)) (hnw : 0 < nw) (harr : arrival.Perm (List.range nw))
    (htrees : ∀ f ∈ files, ∀ t ∈ f, t.rooted = ρ) (hr : r = none ∨ r = ρ) :
    ∃ m s, runAsyncFB burnin r fl nw choices arrival files = some (.ok m) ∧ runSerialB burnin r fl files = .ok s ∧
      ObsEq m.sd s.sd ∧ m.rows.Perm s.rows ∧ Aligned m := by
  obtain ⟨hb1, hb2, hb3⟩ := burnin_per_source burnin files
  have htrees' : ∀ f ∈ workerFiles burnin files, ∀ t ∈ f, t.rooted = ρ := by
    rw [hb3]
    intro f hf t ht
    obtain ⟨g, hg, rfl⟩ := List.mem_map.1 hf
    exact htrees g hg t (List.mem_of_mem_drop ht)
  obtain ⟨m, s, hm, hs, hobs, hrows, hal⟩ :=
    sumtrees_async_schedule_independent ρ fl r nw choices arrival (workerFiles burnin files) hnw harr htrees' hr
  refine ⟨m, s, ?_, ?_, hobs, hrows, hal⟩
  · -- no read can fail, so the protocol run is the plain one and every worker posts an array
    have hnf : ∀ t k, failsOf r fl (workerFiles burnin files) t k = false := by
      intro t k
      have hall : ∀ x ∈ (t ++ [k]).flatMap (fun j => (workerFiles burnin files)[j]?.getD []), x.rooted = ρ := by
        intro x hx
        obtain ⟨j, _, hxj⟩ := List.mem_flatMap.1 hx
        cases hj : (workerFiles burnin files)[j]? with
        | none => simp [hj] at hxj
        | some f =>
          simp only [hj, Option.getD_some] at hxj
          exact htrees' f (List.mem_of_getElem? hj) x hxj
      obtain ⟨a', ha', _⟩ := rep_addAll _ (rep_new ρ fl r hr) hall
      simp only [failsOf, ha']
    simp only [runAsyncFB, runAsyncF]
    rw [async_no_failing_read_same_run _ hnf]
    simp only [runAsync] at hm
    split at hm
    · rename_i hdone
      simp only [hdone, if_true]
      cases hbp : buildParts fl (arrival.map fun i => (r, treesOf (finalP true nw (workerFiles burnin files).length choices) (workerFiles burnin files) i)) with
      | error e => simp [hbp] at hm
      | ok ws =>
        simp only [hbp, Option.some.injEq] at hm
        have := collateX_of_buildParts fl (arrival.map fun i => (r, treesOf (finalP true nw (workerFiles burnin files).length choices) (workerFiles burnin files) i)) ws (TA.new r fl) hbp
        simp only [List.map_map] at this
        simp only [postedBy]
        rw [← hm]
        exact congrArg some this
    · cases hm
  · simp only [runSerialB, ← hb2]
    exact hs

/-! ### spread of the per-split summaries; how many results the parent waits for -/

/-- **spread_of_obs** (clause c, summaries on the summary tree): the sample variance (`var`, and hence `sd` = its square root) of the
edge lengths and of the node ages collected for a split — computed exactly, `(n·Σx² − (Σx)²)/(n·(n−1))` over un-normalised fractions —
is literally a function of the observable. -/
theorem spread_of_obs {a b : SD} (h : ObsEq a b) (s : Nat) : a.varLen s = b.varLen s ∧ a.varAge s = b.varAge s := by
  obtain ⟨_, _, pl, pa⟩ := h.2.2.2.2 s
  exact ⟨varOf_perm pl, varOf_perm (pa.filterMap id)⟩

/-- the minimum and the maximum of two lists holding the same values in different orders denote the same rationals -/
theorem range_of_perm {l1 l2 : List Frac} (hp : l1.Perm l2) (hpos : ∀ x ∈ l1, 0 < x.den) :
    veqO (minF l1) (minF l2) ∧ veqO (maxF l1) (maxF l2) := by
  have hpos2 : ∀ x ∈ l2, 0 < x.den := fun x hx => hpos x (hp.mem_iff.2 hx)
  obtain ⟨a1, a2⟩ := minF_spec l1 hpos
  obtain ⟨b1, b2⟩ := minF_spec l2 hpos2
  obtain ⟨c1, c2⟩ := maxF_spec l1 hpos
  obtain ⟨d1, d2⟩ := maxF_spec l2 hpos2
  by_cases he : l1 = []
  · have he2 : l2 = [] := by subst he; exact hp.nil_eq.symm
    rw [a1 he, b1 he2, c1 he, d1 he2]; exact ⟨trivial, trivial⟩
  · have he2 : l2 ≠ [] := by intro e; subst e; exact he hp.eq_nil
    obtain ⟨m1, e1, mem1, le1⟩ := a2 he
    obtain ⟨m2, e2, mem2, le2⟩ := b2 he2
    obtain ⟨M1, f1, Mem1, ge1⟩ := c2 he
    obtain ⟨M2, f2, Mem2, ge2⟩ := d2 he2
    rw [e1, e2, f1, f2]
    have h1 := le1 m2 (hp.mem_iff.2 mem2)
    have h2 := le2 m1 (hp.mem_iff.1 mem1)
    have h3 := ge1 M2 (hp.mem_iff.2 Mem2)
    have h4 := ge2 M1 (hp.mem_iff.1 Mem1)
    simp only [LF, L, Q.ofFrac] at h1 h2 h3 h4
    exact ⟨le_antisymm h1 h2, le_antisymm h4 h3⟩

/-- **range_of_obs** (clause c): `range` = (minimum, maximum) of the edge lengths and of the node ages collected for a split is a
function of the observable, as rational numbers (the fractions stored have positive denominators: all `Frac.parse` delivers). -/
theorem range_of_obs {a b : SD} (h : ObsEq a b) (s : Nat) (hl : ∀ x ∈ getL s a.lens, 0 < x.den)
    (ha : ∀ x ∈ (getL s a.ages).filterMap id, 0 < x.den) :
    veqO (a.rangeLen s).1 (b.rangeLen s).1 ∧ veqO (a.rangeLen s).2 (b.rangeLen s).2 ∧
    veqO (a.rangeAge s).1 (b.rangeAge s).1 ∧ veqO (a.rangeAge s).2 (b.rangeAge s).2 := by
  obtain ⟨_, _, pl, pa⟩ := h.2.2.2.2 s
  obtain ⟨r1, r2⟩ := range_of_perm pl hl
  obtain ⟨r3, r4⟩ := range_of_perm (pa.filterMap id) ha
  exact ⟨r1, r2, r3, r4⟩

/-- **collation_count_bridge**: the number of results the source's collation loop waits for (`Gen/C06Kernels.resultsAwaited`,
regenerated from `while result_count < …`, temporaries inlined) is one per worker, so the counted collation `runAsyncN` is the
model's `runAsyncF` whenever one result per worker arrives. -/
theorem collation_count_bridge (r : Option Bool) (f : Flags) (nw : Nat) (choices arrival : List Nat) (files : List (List TRec))
    (hlen : arrival.length = nw) :
    runAsyncN (C06Kernels.resultsAwaited nw files.length) r f nw choices arrival files = runAsyncF r f nw choices arrival files := by
  simp only [runAsyncN, runAsyncF, C06Kernels.resultsAwaited]
  rw [List.take_of_length_le (by simp [hlen])]

/-- **serial_ok_every_schedule_ok** (clause d, from the serial outcome alone): if the serial run over sources whose trees all
have a definite rooting state succeeds, then the sources are of one rooting state compatible with the declared one — and hence
(`sumtrees_burnin_schedule_independent`) the parallel run returns, never fails and gives the serial observable for every
burn-in-free schedule, every number of workers ≥ 1 and every arrival order.  Contrapositive: a parallel run that fails under some
schedule means the serial run fails as well. -/
theorem serial_ok_every_schedule_ok (fl : Flags) (r : Option Bool) (files : List (List TRec)) (s : TA)
    (hdef : ∀ f ∈ files, ∀ t ∈ f, t.rooted ≠ none) (hs : runSerial r fl files = .ok s) :
    ∀ (nw : Nat) (choices arrival : List Nat), 0 < nw → arrival.Perm (List.range nw) →
      ∃ m, runAsyncFB 0 r fl nw choices arrival files = some (.ok m) ∧ ObsEq m.sd s.sd ∧ m.rows.Perm s.rows ∧ Aligned m := by
  intro nw choices arrival hnw harr
  have hd : ∀ t ∈ files.flatten, t.rooted ≠ none := by
    intro t ht
    obtain ⟨f, hf, htf⟩ := List.mem_flatten.1 ht
    exact hdef f hf t htf
  obtain ⟨h1, h2⟩ := addAll_ok_one_rooting files.flatten (TA.new r fl) s hs hd
  -- one rooting state ρ for all trees, compatible with the declared one
  have : ∃ ρ : Option Bool, (∀ f ∈ files, ∀ t ∈ f, t.rooted = ρ) ∧ (r = none ∨ r = ρ) := by
    cases hr : r with
    | some b =>
      refine ⟨some b, ?_, Or.inr rfl⟩
      intro f hf t ht
      exact h1 b (by simp [TA.new, hr]) t (List.mem_flatten.2 ⟨f, hf, ht⟩)
    | none =>
      cases hfl : files.flatten with
      | nil =>
        refine ⟨none, ?_, Or.inl rfl⟩
        intro f hf t ht
        have : t ∈ files.flatten := List.mem_flatten.2 ⟨f, hf, ht⟩
        rw [hfl] at this; cases this
      | cons u us =>
        refine ⟨u.rooted, ?_, Or.inl rfl⟩
        intro f hf t ht
        exact h2 (by simp [TA.new, hr]) t (List.mem_flatten.2 ⟨f, hf, ht⟩) u (by rw [hfl]; simp)
  obtain ⟨ρ, htrees, hr⟩ := this
  obtain ⟨m, s', hm, hs', hobs, hrows, hal⟩ :=
    sumtrees_burnin_schedule_independent ρ fl r 0 nw choices arrival files hnw harr htrees hr
  have hb := (burnin_per_source 0 files).1
  have : s' = s := by
    simp only [runSerialB, hb, List.drop_zero] at hs'
    simp only [runSerial, List.flatten_eq_flatMap] at hs
    have e : files.flatMap (fun x => x) = files.flatMap id := rfl
    rw [e, hs] at hs'
    cases hs'; rfl
  subst this
  exact ⟨m, hm, hobs, hrows, hal⟩

/-! ### non-vacuity: the hypotheses are satisfiable and the statements say something on a concrete sample -/

section Examples
def exFl : Flags := ⟨false, true, true⟩
def exT1 : TRec := ⟨some false, none, 15, [⟨2, none, none⟩, ⟨4, none, none⟩, ⟨6, some ⟨1, 2⟩, none⟩, ⟨8, none, none⟩, ⟨0, none, none⟩]⟩
def exT2 : TRec := ⟨some false, some ⟨3, 2⟩, 15, [⟨2, none, none⟩, ⟨8, none, none⟩, ⟨10, some ⟨1, 1⟩, none⟩, ⟨4, none, none⟩, ⟨0, none, none⟩]⟩

/-- three sub-collections, the middle one empty with undefined rooting: compatible -/
example : Compatible (some false) [(none, [exT1]), (none, []), (some false, [exT2, exT1])] := by
  intro p hp
  simp only [List.mem_cons, List.not_mem_nil, or_false] at hp
  rcases hp with rfl | rfl | rfl <;> simp [exT1, exT2]

/-- the idle-worker schedule (3 workers, 2 files, worker 2 idle and arriving in the middle) is covered by the hypotheses -/
example : [0, 1].length = [[exT1, exT1], [exT2]].length ∧ (∀ i ∈ [0, 1], i < 3) ∧ [0, 2, 1].Perm (List.range 3) := by
  refine ⟨rfl, by simp, ?_⟩
  decide

/-- … and on it the parallel run counts the three trees, as the serial run does -/
example : (match runParallel none exFl [0, 1] [0, 2, 1] [[exT1, exT1], [exT2]] with | .ok m => m.sd.total | .error _ => 0) = 3 := by
  decide

/-- a history satisfying `OpOK` -/
example : ∀ op ∈ [Op.new none exFl, Op.new (some false) exFl, Op.add 0 exT1, Op.upd 0 1, Op.plus 1 0, Op.iadd 2 2],
    OpOK (some false) exFl op := by
  intro op hop
  simp only [List.mem_cons, List.not_mem_nil, or_false] at hop
  rcases hop with rfl | rfl | rfl | rfl | rfl | rfl <;> simp [OpOK, exT1]
/-- the ghost semantics of two different ways to collect {exT1, exT2, exT1}: serially into array 0, or as two parts,
    an empty third one and a nested `+` — the hypotheses of `histories_agree` hold with `i = 0`, `j = 4` -/
def exSerial : List Op := [Op.new none exFl, Op.add 0 exT1, Op.add 0 exT2, Op.ins 0 (-1) exT1]
def exNested : List Op := [Op.new none exFl, Op.new (some false) exFl, Op.new none exFl, Op.add 1 exT1, Op.add 0 exT2,
  Op.add 0 exT1, Op.upd 0 2, Op.plus 1 2, Op.plus 3 0]

example : (ghostRun exSerial)[0]? = some [exT1, exT1, exT2] := by decide
example : (ghostRun exNested)[4]? = some [exT1, exT2, exT1] := by decide
example : [exT1, exT1, exT2].Perm [exT1, exT2, exT1] := by decide
example : (∀ op ∈ exSerial, OpOK (some false) exFl op) ∧ (∀ op ∈ exNested, OpOK (some false) exFl op) := by
  constructor <;> intro op hop <;> simp only [exSerial, exNested, List.mem_cons, List.not_mem_nil, or_false] at hop <;>
    rcases hop with rfl | rfl | rfl | rfl | rfl | rfl | rfl | rfl | rfl <;> simp [OpOK, exT1, exT2]
/-- … and the model indeed ends with three trees counted in both -/
example : ((run [] exSerial).1[0]?.map (·.sd.total), (run [] exNested).1[4]?.map (·.sd.total)) = (some 3, some 3) := by decide

/-- `update_ok_iff`: the rejecting side is inhabited (two non-empty arrays of different rooting) -/
example : (match addTree (TA.new none exFl) exT1 none, addTree (TA.new none exFl) { exT1 with rooted := some true } none with
    | .ok a, .ok b => (match update a b with | .error e => some e | .ok _ => none)
    | _, _ => none) = some Err.incRooting := by decide

/-- the `assert` of `add_tree` is reachable (array adopts foreign settings, then adds): the distribution has then counted
    one tree more than the lists hold, while the four lists stay aligned (`aligned`, first part) -/
example : (let r := run [] [Op.new none ⟨true, true, true⟩, Op.new none exFl, Op.add 1 exT1, Op.upd 0 1, Op.add 0 exT1]
    (r.2, r.1[0]?.map (fun a => (a.sd.total, a.splits.length, a.leafsets.length)))) =
    ([none, none, none, none, some Err.assertion], some (2, 1, 1)) := by decide
/-- the unrepaired protocol (`get_nowait`, no markers) under asynchronous delivery: if both workers ask before the one file
    has been delivered, both quit and the file is read by nobody; with markers and blocking `get` the same schedule reads it -/
example : ((finalP false 2 1 [1, 1, 1, 1]).ws.map (·.taken), (finalP true 2 1 [1, 1, 1, 1]).ws.map (·.taken)) = ([[], []], [[0], []]) := by
  decide
/-- … and the unrepaired parallel run then returns an empty summary where the serial run counts one tree -/
example : (match runAsync none exFl false 2 [1, 1, 1, 1] [0, 1] [[exT1]] with | some (.ok m) => some m.sd.total | _ => none) = some 0 := by
  decide
/-- `mcc_index_spec`: its hypotheses hold on the sample (three scores, positive denominators) and the index is the first maximiser -/
example : (match (run [] exSerial).1[0]? with
    | some a => ((scores a).map (fun l => (l.length, l.all (fun q => 0 < q.den))), mccIndex a)
    | none => (none, none)) = (some (3, true), some 0) := by decide
/-- `scores_den_pos` / `mcc_of_obs`: the two example histories satisfy the weight hypothesis (exT2 carries weight 3/2),
    their arrays 0 and 4 are aligned, non-empty and, by `histories_agree`, obs-equal with rows equal up to order -/
example : (∀ op ∈ exSerial, OpT WPos op) ∧ (∀ op ∈ exNested, OpT WPos op) := by
  constructor <;> intro op hop <;> simp only [exSerial, exNested, List.mem_cons, List.not_mem_nil, or_false] at hop <;>
    rcases hop with rfl | rfl | rfl | rfl | rfl | rfl | rfl | rfl | rfl <;> simp [OpT, WPos, exT1, exT2]
/-- … and there both report index 0, a tree with the topology of exT1, although the rows are stored in different orders -/
example : ((run [] exSerial).1[0]?.map mccIndex, (run [] exNested).1[4]?.map mccIndex,
    (run [] exSerial).1[0]?.map (fun a => a.splits[0]?), (run [] exNested).1[4]?.map (fun a => a.splits[0]?)) =
    (some (some 0), some (some 0), some (some (exT1.entries.map (·.split))), some (some (exT1.entries.map (·.split)))) := by decide
/-- `consensus_of_obs`: on the two example histories the sorted candidate lists at threshold 1/4 coincide (arrays 0 and 4) and
    are not trivial (six splits; 8, 4, 2, 0 all have frequency 1 and are ordered by mask) -/
example : ((run [] exSerial).1[0]?.map (fun a => consensusOrder a.sd ⟨1, 4⟩)) = ((run [] exNested).1[4]?.map (fun a => consensusOrder a.sd ⟨1, 4⟩)) ∧
    ((run [] exSerial).1[0]?.map (fun a => (consensusOrder a.sd ⟨1, 4⟩).length)) = some 6 := by decide
/-- `history_final_rooting_flags`: in `exNested` array 2 stays empty with undefined rooting, array 0 adopts `some false` -/
example : ((run [] exNested).1.map (·.rooting)) = [some false, some false, none, some false, some false] := by decide
/-- `summaries_of_histories` on the example histories: split 6 occurs in the two copies of exT1 with length 1/2, its mean is
    1/2 in both arrays (as the un-normalised sum 4/4 over 2), split 10 (exT2 only) has mean 1 -/
example : ((run [] exSerial).1[0]?.map (fun a => ((a.sd.meanLen 6).map (·.render), (a.sd.meanLen 10).map (·.render), a.sd.summarySizes 6)),
    (run [] exNested).1[4]?.map (fun a => ((a.sd.meanLen 6).map (·.render), (a.sd.meanLen 10).map (·.render), a.sd.summarySizes 6))) =
    (some (some "1/2", some "1", (2, 0)), some (some "1/2", some "1", (2, 0))) := by decide
/-- `burnin_per_source`: three sources, the middle one empty, burn-in 1: the first tree of each non-empty source is lost -/
example : (readFiles 1 [[exT1, exT2], [], [exT2, exT1, exT1]]).map (·.weight) = [some ⟨3, 2⟩, none, none] := by decide
/-- `sumtrees_burnin_schedule_independent`: its hypotheses hold for 3 workers, 2 files, burn-in 1 and an idle worker arriving
    first; the parallel run (failing-read protocol, re-raising collation) and the serial run both count the three trees kept;
    and with no file at all both return the empty summary -/
example : (0 < 3 ∧ [2, 0, 1].Perm (List.range 3)) ∧
    (match runAsyncFB 1 none exFl 3 [1, 0, 2, 1] [2, 0, 1] [[exT1, exT2], [exT2, exT1, exT1]] with | some (.ok m) => some m.sd.total | _ => none) = some 3 ∧
    (match runSerialB 1 none exFl [[exT1, exT2], [exT2, exT1, exT1]] with | .ok m => some m.sd.total | _ => none) = some 3 ∧
    (match runAsyncFB 0 none exFl 2 [] [1, 0] [] with | some (.ok m) => some m.sd.total | _ => none) = some 0 := by
  refine ⟨⟨by decide, by decide⟩, by decide, by decide, by decide⟩
/-- `sumtrees_failing_read_reported` / `async_failures_never_hang`: file 1 holds an unrooted and a rooted tree; the worker that
    reads it (worker 0, after file 0) posts MixedRooting and stops without taking its marker, worker 1 still stops; the parent
    re-raises.  With one rooted and one unrooted *file* read by different workers both post arrays and the parent's second
    `update` is rejected (IncRooting); the serial run over the same files raises MixedRooting: all three runs fail. -/
example : let rT : TRec := { exT1 with rooted := some true }
    ((finalPF (failsOf none exFl [[exT1], [exT1, rT]]) 2 2 []).ws.map (fun w => (w.phase == Phase.done, w.taken)),
     (match runAsyncF none exFl 2 [] [1, 0] [[exT1], [exT1, rT]] with | some (.error e) => some e | _ => none),
     (match runAsyncF none exFl 2 [0, 0, 0, 0, 1, 2, 1, 2, 1, 1] [1, 0] [[exT1], [rT]] with | some (.error e) => some e | _ => none),
     (match runSerial none exFl [[exT1], [rT]] with | .error e => some e | _ => none)) =
    ([(true, [0, 1]), (true, [])], some Err.mixedRooting, some Err.incRooting, some Err.mixedRooting) := by decide
/-- `spread_of_obs` / `range_of_obs` on the example histories: split 6 carries the length 1/2 twice (variance 0, range 1/2..1/2), split 8
    the default length 0 three times, in both arrays; positive denominators hold -/
example : ((run [] exSerial).1[0]?.map (fun a => ((a.sd.varLen 6).map (·.render), (a.sd.varLen 10).map (·.render), (a.sd.rangeLen 6).1.map (·.render),
      (a.sd.rangeLen 6).2.map (·.render)))) = some (some "0", none, some "1/2", some "1/2") ∧
    ((run [] exNested).1[4]?.map (fun a => ((a.sd.varLen 6).map (·.render), (a.sd.varLen 10).map (·.render), (a.sd.rangeLen 6).1.map (·.render),
      (a.sd.rangeLen 6).2.map (·.render)))) = some (some "0", none, some "1/2", some "1/2") ∧
    ((run [] exSerial).1[0]?.map (fun a => (getL 6 a.sd.lens).all (fun x => decide (0 < x.den)))) = some true := by
  refine ⟨by decide, by decide, by decide⟩
/-- **fewer_results_lose_a_file**: a collation loop that waits for fewer results than there are workers — e.g. `min(workers, files)` —
    loses a file under some schedule: two workers, one file holding one tree; worker 0 reads it, the idle worker's empty result arrives
    first; whatever the smaller count (0 or 1), the parallel run returns an EMPTY summary where the serial run counts the tree; with the
    count the source has (`resultsAwaited 2 1 = 2`) the same schedule counts it. -/
theorem fewer_results_lose_a_file : ∀ count, count < 2 → ∃ choices arrival : List Nat, arrival.Perm (List.range 2) ∧
    (match runAsyncN count none exFl 2 choices arrival [[exT1]] with | some (.ok m) => some m.sd.total | _ => none) = some 0 ∧
    (match runAsyncN (C06Kernels.resultsAwaited 2 1) none exFl 2 choices arrival [[exT1]] with | some (.ok m) => some m.sd.total | _ => none) = some 1 ∧
    (match runSerial none exFl [[exT1]] with | .ok s => some s.sd.total | _ => none) = some 1 := by
  intro count hc
  refine ⟨[], [1, 0], by decide, ?_, by decide, by decide⟩
  have : count = 0 ∨ count = 1 := by omega
  rcases this with rfl | rfl <;> decide
example : Nat.min 2 1 < 2 := by decide
/-- `serial_ok_every_schedule_ok`: its hypotheses hold for the two example files (definite rooting states, the serial run succeeds) -/
example : (∀ f ∈ [[exT1], [exT2, exT1]], ∀ t ∈ f, t.rooted ≠ none) ∧
    (match runSerial none exFl [[exT1], [exT2, exT1]] with | .ok s => some s.sd.total | _ => none) = some 3 := by
  refine ⟨by decide, by decide⟩
end Examples

end DendroModel.C06
